#!/usr/bin/env python3
"""Validate a seeded defect produced by an independent sub-agent and run our checks against it.

usage: trymut.py <PROP> <worktree> <k> [--checks C01,C02] [--name short-name]
 1. confirms on the scratch worktree: demo passes without the patch, fails with it; build + existing suite pass with it;
 2. runs `VERIF_REPO=<worktree> bin/check <P>` for each requested check with the patch applied;
 3. stores /verif/seeded/<PROP>-<k>/ {patch.diff, demo_test.go, README.md, meta.json}; restores the worktree.
"""
import argparse
import json
import os
import re
import shutil
import subprocess
import sys
import time

ENV = dict(os.environ, GOFLAGS="-mod=mod", GOPROXY="off", GOSUMDB="off", GOTOOLCHAIN="local")


def sh(cmd, cwd, timeout=1800, env=None):
    p = subprocess.run(cmd, cwd=cwd, shell=True, env=env or ENV, stdout=subprocess.PIPE, stderr=subprocess.STDOUT, text=True, timeout=timeout)
    return p.returncode, p.stdout


RACE = ""


def run_demo(wt, k):
    """Returns (rc, output, how)."""
    d = os.path.join(wt, "OUT", str(k))
    demo = os.path.join(d, "demo_test.go")
    src = open(demo).read() if os.path.exists(demo) else ""
    pkg = re.search(r"^package (\w+)", src, re.M)
    pkgname = pkg.group(1) if pkg else ""
    # demos written as external tests living in OUT/k
    if not pkgname.endswith("_test") and pkgname not in ("main",) and "zrnt/eth2" in src and "OUT" not in src:
        pass
    rc, out = sh("go test -mod=mod -vet=off -count=1" + RACE + " -tags mutdemo,verif ./OUT/%s/ 2>&1" % k, wt, timeout=1200)
    if "[build failed]" in out or "main module" in out or "does not contain package" in out or "no Go files" in out or "no test files" in out or "cannot find package" in out or "build constraints exclude" in out or "is not in std" in out or "directory prefix" in out:
        # copy next to the package it names in its header comment, default eth2/beacon
        m = re.search(r"(eth2/[\w/]+)/zz_\w*test\.go", src)
        target_dir = m.group(1) if m else "eth2/beacon"
        tgt = os.path.join(wt, target_dir, "zz_demo%s_test.go" % k)
        shutil.copyfile(demo, tgt)
        try:
            rc, out = sh("go test -mod=mod -vet=off -count=1" + RACE + " -tags mutdemo,verif -run 'Demo|Mut' ./%s/ 2>&1" % target_dir, wt, timeout=1200)
        finally:
            os.remove(tgt)
        return rc, out, "copied to " + target_dir
    return rc, out, "in OUT/%s" % k


def main():
    ap = argparse.ArgumentParser()
    ap.add_argument("prop")
    ap.add_argument("worktree")
    ap.add_argument("k")
    ap.add_argument("--checks", default=None)
    ap.add_argument("--skip-suite", action="store_true")
    ap.add_argument("--race", action="store_true", help="run the demonstration under the race detector")
    ap.add_argument("--id", default=None, help="directory name under seeded/ (default <PROP>-<k>)")
    a = ap.parse_args()
    global RACE
    if a.race:
        RACE = " -race"
    wt, k = a.worktree, a.k
    d = os.path.join(wt, "OUT", str(k))
    patch = os.path.join(d, "patch.diff")
    checks = (a.checks or a.prop).split(",")
    meta = dict(property=a.prop, seeded_by="independent sub-agent given only the property text and a scratch worktree",
                breaks=open(os.path.join(d, "README.md")).read()[:1500] if os.path.exists(os.path.join(d, "README.md")) else "",
                ran=[], detected_by={}, date=time.strftime("%Y-%m-%d %H:%M"))
    sh("git checkout -- . && git clean -fdq -e OUT", wt)
    # trials always run on top of the current /repo HEAD (fix: commits land there while agents work)
    rc, head = sh("git -C /repo rev-parse HEAD", wt)
    sh("git checkout -q --detach %s" % head.strip(), wt)
    rc0, out0, how = run_demo(wt, k)
    meta["demo_clean_tree"] = dict(rc=rc0, how=how, tail=out0[-400:])
    rc, out = sh("git apply %s" % patch, wt)
    if rc != 0:
        print("patch does not apply:", out)
        sys.exit(2)
    try:
        rcb, outb = sh("go build ./... 2>&1", wt)
        meta["build_with_patch"] = rcb
        if not a.skip_suite:
            rcs, outs = sh("go test -mod=mod -vet=off -count=1 ./eth2/... ./tests/... 2>&1 | grep -v '^ok\\|no test files' | head -20", wt, timeout=2400)
            meta["suite_with_patch_failures"] = outs.strip()
        rc1, out1, how = run_demo(wt, k)
        meta["demo_with_patch"] = dict(rc=rc1, tail=out1[-600:])
        confirmed = (rc0 == 0 and rc1 != 0 and rcb == 0 and (a.skip_suite or meta["suite_with_patch_failures"] == ""))
        meta["confirmed"] = confirmed
        print("demo clean rc=%s, demo patched rc=%s, build rc=%s, suite failures=%r => confirmed=%s" % (
            rc0, rc1, rcb, meta.get("suite_with_patch_failures"), confirmed))
        for c in checks:
            t = time.time()
            rcc, outc = sh("bin/check %s 2>&1" % c, "/verif", timeout=3000, env=dict(ENV, VERIF_REPO=wt))
            lines = [l for l in outc.splitlines() if l.startswith("VIOLATION") or l.startswith("KNOWN-FINDING") or re.match(r"^C\d\d (quick|thorough)", l)]
            meta["detected_by"][c] = dict(rc=rcc, violation=any(l.startswith("VIOLATION") for l in lines), lines=lines[-4:], wall_s=round(time.time() - t, 1))
            vio = [l for l in lines if l.startswith("VIOLATION")]
            if vio:
                m = re.search(r"replay=(\S+)", vio[0])
                if m and os.path.exists(m.group(1)):
                    meta["detected_by"][c]["replay_excerpt"] = open(m.group(1)).read()[:1500]
            print(c, "rc=%s" % rcc, lines[-2:])
    finally:
        sh("git checkout -- . && git clean -fdq -e OUT", wt)
    dst = os.path.join("/verif/seeded", a.id or "%s-%s" % (a.prop, k))
    os.makedirs(dst, exist_ok=True)
    for f in ("patch.diff", "demo_test.go", "README.md"):
        if os.path.exists(os.path.join(d, f)):
            shutil.copyfile(os.path.join(d, f), os.path.join(dst, f + (".txt" if f.endswith(".go") else "")))
    meta["ran"] = ["git apply patch.diff in a scratch worktree", "go build ./...", "go test ./... (existing suite)", "demo with and without the patch",
                   "VERIF_REPO=<worktree> bin/check " + ",".join(checks)]
    old = os.path.join(dst, "meta.json")
    if os.path.exists(old):
        try:
            prev = json.load(open(old)).get("detected_by", {})
            for c, v in prev.items():
                if c not in meta["detected_by"]:
                    v["from_earlier_trial"] = True
                    meta["detected_by"][c] = v
        except Exception:
            pass
    json.dump(meta, open(os.path.join(dst, "meta.json"), "w"), indent=1)


if __name__ == "__main__":
    main()
