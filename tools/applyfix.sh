#!/bin/sh
# usage: applyfix.sh <patch> <commit message>   -- stages exactly what the patch touches
set -e
cd /repo
git apply --index --check "$1"
git apply --index "$1"
go build ./...
git commit -q -m "$2"
git log --oneline | head -1
