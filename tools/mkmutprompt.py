#!/usr/bin/env python3
"""Write the prompt for an independent defect-seeding sub-agent (it sees only the property text and its own worktree).
usage: mkmutprompt.py <round> <PROP>...   -> /tmp/mut-prompts/R<round>_<PROP>.txt, worktree /tmp/mut<round>-<prop>"""
import json, os, re, glob, subprocess, sys
ROOT = os.path.dirname(os.path.dirname(os.path.abspath(__file__)))
props = {json.loads(l)['id']: json.loads(l) for l in open(os.path.join(ROOT, 'properties.jsonl'))}
rnd = sys.argv[1]
TEMPLATE = open(os.path.join(ROOT, 'tools', 'mutprompt.tmpl')).read()
os.makedirs('/tmp/mut-prompts', exist_ok=True)
for pid in sys.argv[2:]:
    p = props[pid]
    wt = "/tmp/mut%s-%s" % (rnd, pid.lower())
    if not os.path.exists(wt):
        subprocess.run("git -C /repo worktree add --detach %s HEAD" % wt, shell=True, check=True, stdout=subprocess.DEVNULL, stderr=subprocess.DEVNULL)
    done = []
    for d in sorted(glob.glob(os.path.join(ROOT, "seeded", "%s-*" % pid))):
        r = os.path.join(d, "README.md")
        t = open(r).read().splitlines()[0].lstrip("# ").strip() if os.path.exists(r) else ""
        pf = open(os.path.join(d, "patch.diff")).read()
        files = sorted(set(re.findall(r"^\+\+\+ b/(\S+)", pf, re.M)))
        done.append(" - %s — %s (%s)" % (os.path.basename(d), t[:160], ", ".join(files)))
    prop_text = (p['title'] + ". " + p['statement'] + "\nScope: " + p['quantifier']['text'] + "\nCode involved: " + ", ".join(p['anchors']['files']))
    text = TEMPLATE.replace("@WT@", wt).replace("@PROPERTY@", prop_text).replace("@DONE@", "\n".join(done))
    if pid == "C17":
        text += "\nFor this property a demonstration may need the race detector (`go test -race`) or a watchdog timeout for a deadlock; say so in the header.\n"
    open("/tmp/mut-prompts/R%s_%s.txt" % (rnd, pid), "w").write(text)
    print(pid, len(done), wt)
