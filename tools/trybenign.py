#!/usr/bin/env python3
"""Run checks against a behaviour-preserving refactor of /repo (scratch worktree); every check must stay quiet.
usage: trybenign.py <worktree> <outdir> <k> --checks C01,C02"""
import argparse, json, os, re, shutil, subprocess, sys, time
ENV = dict(os.environ, GOFLAGS="-mod=mod", GOPROXY="off", GOSUMDB="off", GOTOOLCHAIN="local")
def sh(cmd, cwd, timeout=3000, env=None):
    p = subprocess.run(cmd, cwd=cwd, shell=True, env=env or ENV, stdout=subprocess.PIPE, stderr=subprocess.STDOUT, text=True, timeout=timeout)
    return p.returncode, p.stdout
ap = argparse.ArgumentParser(); ap.add_argument("wt"); ap.add_argument("out"); ap.add_argument("k"); ap.add_argument("--checks", required=True)
a = ap.parse_args()
d = os.path.join(a.out, a.k); patch = os.path.join(d, "patch.diff")
sh("git checkout -- . && git clean -fdq -e OUT", a.wt)
rc, head = sh("git -C /repo rev-parse HEAD", a.wt); sh("git checkout -q --detach %s" % head.strip(), a.wt)
rc, out = sh("git apply %s" % patch, a.wt)
if rc != 0:
    print("patch does not apply", out); sys.exit(2)
meta = dict(kind="behaviour-preserving refactor (independent sub-agent)", what=open(os.path.join(d, "README.md")).read()[:800], results={}, date=time.strftime("%Y-%m-%d %H:%M"))
try:
    for c in a.checks.split(","):
        t = time.time()
        rcc, outc = sh("bin/check %s 2>&1" % c, "/verif", env=dict(ENV, VERIF_REPO=a.wt))
        lines = [l for l in outc.splitlines() if l.startswith("VIOLATION") or re.match(r"^C\d\d (quick|thorough)", l)]
        meta["results"][c] = dict(rc=rcc, quiet=(rcc == 0 and not any(l.startswith("VIOLATION") for l in lines)), lines=lines[-3:], wall_s=round(time.time() - t, 1))
        vio = [l for l in lines if l.startswith("VIOLATION")]
        if vio:
            m = re.search(r"replay=(\S+)", vio[0])
            if m and os.path.exists(m.group(1)):
                meta["results"][c]["replay_excerpt"] = open(m.group(1)).read()[:2500]
        print(a.k, c, "rc=%s" % rcc, lines[-2:])
finally:
    sh("git checkout -- . && git clean -fdq -e OUT", a.wt)
dst = os.path.join("/verif/benign", os.environ.get("VERIF_BENIGN_PREFIX", "") + a.k); os.makedirs(dst, exist_ok=True)
for f in ("patch.diff", "README.md"):
    shutil.copyfile(os.path.join(d, f), os.path.join(dst, f))
old = os.path.join(dst, "meta.json")
if os.path.exists(old):
    prev = json.load(open(old)).get("results", {})
    for c, v in prev.items():
        meta["results"].setdefault(c, v)
json.dump(meta, open(old, "w"), indent=1)
