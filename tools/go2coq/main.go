// go2coq: purely syntactic translator from the zrnt source tree to Coq data (DESIGN.md section 2.4).
//
//	go2coq -repo /repo -out /verif/gen/<tag>          writes GenSsz.v and GenAccessors.v
//	go2coq -repo /repo -registry                      prints the Go type registry for harness/sszgen (dev action)
//	go2coq -repo /repo -check-registry <registry.go>  exit 1 unless the registry lists exactly the types found
//
// Only go/parser, go/ast, go/constant, go/token are used.  Whatever is not recognised is emitted as an
// Unknown/Custom node that makes the Coq-side obligation fail; nothing is skipped silently.
package main

import (
	"bytes"
	"crypto/sha256"
	"flag"
	"fmt"
	"go/ast"
	"go/constant"
	"go/parser"
	"go/printer"
	"go/token"
	"os"
	"path/filepath"
	"sort"
	"strconv"
	"strings"
)

var pkgNames = []string{"common", "phase0", "altair", "bellatrix", "capella", "deneb", "electra"}

type pkgInfo struct {
	name    string
	files   []*ast.File
	types   map[string]*ast.TypeSpec
	methods map[string]map[string]*ast.FuncDecl
	cexprs  map[string]constDecl // constant declarations (unevaluated)
	consts  map[string]constant.Value
	vars    map[string]ast.Expr // package-level var/const X = expr (non-numeric), used for view defs
	funcs   map[string]*ast.FuncDecl
	iotas   map[*ast.File][][]string // per file: const blocks that use iota, names in order
}

type constDecl struct {
	expr ast.Expr
	iota int
}

var fset = token.NewFileSet()
var pkgs = map[string]*pkgInfo{}
var repoRoot string

func pos(n ast.Node) string {
	p := fset.Position(n.Pos())
	rel, err := filepath.Rel(repoRoot, p.Filename)
	if err != nil {
		rel = p.Filename
	}
	return fmt.Sprintf("%s:%d", rel, p.Line)
}

func src(n ast.Node) string {
	var buf bytes.Buffer
	printer.Fprint(&buf, fset, n)
	return strings.Join(strings.Fields(buf.String()), " ")
}

func load(root string) error {
	for _, pn := range pkgNames {
		dir := filepath.Join(root, "eth2", "beacon", pn)
		names, err := filepath.Glob(filepath.Join(dir, "*.go"))
		if err != nil {
			return err
		}
		sort.Strings(names)
		pi := &pkgInfo{name: pn, types: map[string]*ast.TypeSpec{}, methods: map[string]map[string]*ast.FuncDecl{},
			cexprs: map[string]constDecl{}, consts: map[string]constant.Value{}, vars: map[string]ast.Expr{},
			funcs: map[string]*ast.FuncDecl{}, iotas: map[*ast.File][][]string{}}
		for _, fn := range names {
			if strings.HasSuffix(fn, "_test.go") {
				continue
			}
			data, err := os.ReadFile(fn)
			if err != nil {
				return err
			}
			// files guarded by the verif build tag are hooks of the verification itself
			if bytes.HasPrefix(data, []byte("//go:build verif")) {
				continue
			}
			af, err := parser.ParseFile(fset, fn, data, parser.ParseComments)
			if err != nil {
				return err
			}
			pi.files = append(pi.files, af)
			for _, d := range af.Decls {
				switch d := d.(type) {
				case *ast.FuncDecl:
					if d.Recv == nil {
						pi.funcs[d.Name.Name] = d
						continue
					}
					rt := d.Recv.List[0].Type
					if st, ok := rt.(*ast.StarExpr); ok {
						rt = st.X
					}
					if id, ok := rt.(*ast.Ident); ok {
						if pi.methods[id.Name] == nil {
							pi.methods[id.Name] = map[string]*ast.FuncDecl{}
						}
						pi.methods[id.Name][d.Name.Name] = d
					}
				case *ast.GenDecl:
					switch d.Tok {
					case token.TYPE:
						for _, s := range d.Specs {
							ts := s.(*ast.TypeSpec)
							pi.types[ts.Name.Name] = ts
						}
					case token.CONST:
						var last []ast.Expr
						usesIota := false
						var block []string
						for i, s := range d.Specs {
							vs := s.(*ast.ValueSpec)
							vals := vs.Values
							if len(vals) == 0 {
								vals = last
							} else {
								last = vals
							}
							for j, n := range vs.Names {
								if j < len(vals) {
									if strings.Contains(src(vals[j]), "iota") {
										usesIota = true
									}
									pi.cexprs[n.Name] = constDecl{expr: vals[j], iota: i}
									pi.vars[n.Name] = vals[j]
								}
								block = append(block, n.Name)
							}
						}
						if usesIota {
							pi.iotas[af] = append(pi.iotas[af], block)
						}
					case token.VAR:
						for _, s := range d.Specs {
							vs := s.(*ast.ValueSpec)
							for j, n := range vs.Names {
								if j < len(vs.Values) {
									pi.vars[n.Name] = vs.Values[j]
								}
							}
						}
					}
				}
			}
		}
		pkgs[pn] = pi
	}
	return nil
}

// ---------- constants ----------
func (pi *pkgInfo) constVal(name string, depth int) (constant.Value, bool) {
	if v, ok := pi.consts[name]; ok {
		return v, v != nil
	}
	cd, ok := pi.cexprs[name]
	if !ok || depth > 50 {
		return nil, false
	}
	pi.consts[name] = nil
	v, ok := pi.evalConst(cd.expr, cd.iota, depth+1)
	if ok {
		pi.consts[name] = v
	}
	return v, ok
}

func (pi *pkgInfo) evalConst(e ast.Expr, iota int, depth int) (constant.Value, bool) {
	switch e := e.(type) {
	case *ast.BasicLit:
		if e.Kind == token.INT || e.Kind == token.CHAR {
			v := constant.MakeFromLiteral(e.Value, e.Kind, 0)
			return v, v.Kind() == constant.Int
		}
	case *ast.ParenExpr:
		return pi.evalConst(e.X, iota, depth)
	case *ast.Ident:
		if e.Name == "iota" {
			return constant.MakeInt64(int64(iota)), true
		}
		return pi.constVal(e.Name, depth)
	case *ast.SelectorExpr:
		if id, ok := e.X.(*ast.Ident); ok {
			if other, ok := pkgs[id.Name]; ok {
				return other.constVal(e.Sel.Name, depth)
			}
		}
	case *ast.BinaryExpr:
		a, ok1 := pi.evalConst(e.X, iota, depth)
		b, ok2 := pi.evalConst(e.Y, iota, depth)
		if !ok1 || !ok2 {
			return nil, false
		}
		switch e.Op {
		case token.SHL, token.SHR:
			s, ok := constant.Uint64Val(b)
			if !ok || s > 256 {
				return nil, false
			}
			return constant.Shift(a, e.Op, uint(s)), true
		case token.QUO:
			if constant.Sign(b) == 0 {
				return nil, false
			}
			return constant.BinaryOp(a, token.QUO_ASSIGN, b), true // integer division
		case token.ADD, token.SUB, token.MUL, token.REM, token.AND, token.OR, token.XOR:
			if e.Op == token.REM && constant.Sign(b) == 0 {
				return nil, false
			}
			return constant.BinaryOp(a, e.Op, b), true
		}
	case *ast.CallExpr:
		// conversion T(x)
		if len(e.Args) == 1 && isTypeExprName(pi, e.Fun) {
			return pi.evalConst(e.Args[0], iota, depth)
		}
	}
	return nil, false
}

var builtinInts = map[string]bool{"uint64": true, "uint32": true, "uint16": true, "uint8": true, "uint": true, "int": true, "int64": true, "int32": true, "byte": true}

// isTypeExprName: is this expression the name of a (numeric-ish) type, i.e. is f(x) a conversion?
func isTypeExprName(pi *pkgInfo, f ast.Expr) bool {
	switch f := f.(type) {
	case *ast.Ident:
		if builtinInts[f.Name] {
			return true
		}
		if _, ok := pi.types[f.Name]; ok {
			return true
		}
		// dot-imported view types used as conversions
		return f.Name == "Uint64View" || f.Name == "Uint8View" || f.Name == "Uint32View" || f.Name == "Uint16View"
	case *ast.SelectorExpr:
		if id, ok := f.X.(*ast.Ident); ok {
			if other, ok := pkgs[id.Name]; ok {
				_, isT := other.types[f.Sel.Name]
				return isT
			}
			if id.Name == "view" {
				return strings.HasSuffix(f.Sel.Name, "View")
			}
		}
	case *ast.ParenExpr:
		return isTypeExprName(pi, f.X)
	}
	return false
}

// qualify an identifier appearing in package pi
func (pi *pkgInfo) declared(name string) bool {
	if _, ok := pi.types[name]; ok {
		return true
	}
	if _, ok := pi.cexprs[name]; ok {
		return true
	}
	if _, ok := pi.vars[name]; ok {
		return true
	}
	if _, ok := pi.funcs[name]; ok {
		return true
	}
	return false
}

func (pi *pkgInfo) qname(e ast.Expr) (string, bool) {
	switch e := e.(type) {
	case *ast.Ident:
		if pi.declared(e.Name) {
			return pi.name + "." + e.Name, true
		}
		if builtinInts[e.Name] || e.Name == "bool" || e.Name == "string" {
			return e.Name, true
		}
		return "view." + e.Name, true // dot import of ztyp/view
	case *ast.SelectorExpr:
		if id, ok := e.X.(*ast.Ident); ok {
			return id.Name + "." + e.Sel.Name, true
		}
	case *ast.ParenExpr:
		return pi.qname(e.X)
	}
	return "", false
}

// ---------- Coq printing ----------
func cstr(s string) string { return "\"" + strings.ReplaceAll(s, "\"", "'") + "\"" }
func cbool(b bool) string {
	if b {
		return "true"
	}
	return "false"
}
func clist(items []string) string { return "[" + strings.Join(items, "; ") + "]" }

// ---------- expressions ----------
type ctx struct {
	pi   *pkgInfo
	spec string          // name of the *Spec parameter ("" if none)
	recv string          // receiver name
	alias map[string]bool // local names bound to the receiver (x := recv[:]) or to len(recv)
	lenAlias map[string]bool
}

func (c *ctx) isRecv(e ast.Expr) bool {
	switch e := e.(type) {
	case *ast.Ident:
		return (c.recv != "" && e.Name == c.recv) || c.alias[e.Name]
	case *ast.StarExpr:
		return c.isRecv(e.X)
	case *ast.ParenExpr:
		return c.isRecv(e.X)
	case *ast.UnaryExpr:
		if e.Op == token.AND {
			return c.isRecv(e.X)
		}
	case *ast.SliceExpr:
		if e.Low == nil && e.High == nil && e.Max == nil {
			return c.isRecv(e.X)
		}
	case *ast.CallExpr:
		// conversion to a slice/array (pointer) type: (*[]byte)(li), []byte(x), (*[]common.Root)(a)
		if len(e.Args) == 1 && isSliceishType(e.Fun) {
			return c.isRecv(e.Args[0])
		}
	}
	return false
}

func isSliceishType(t ast.Expr) bool {
	switch t := t.(type) {
	case *ast.ParenExpr:
		return isSliceishType(t.X)
	case *ast.StarExpr:
		return isSliceishType(t.X)
	case *ast.ArrayType:
		return true
	}
	return false
}

func (c *ctx) exp(e ast.Expr) string {
	switch e := e.(type) {
	case *ast.BasicLit:
		if e.Kind == token.INT {
			v := constant.MakeFromLiteral(e.Value, e.Kind, 0)
			return "(ELit " + v.ExactString() + ")"
		}
	case *ast.ParenExpr:
		return c.exp(e.X)
	case *ast.Ident:
		if c.lenAlias[e.Name] {
			return "ELen"
		}
		if _, ok := c.pi.cexprs[e.Name]; ok {
			return "(EConst " + cstr(c.pi.name+"."+e.Name) + ")"
		}
	case *ast.SelectorExpr:
		if id, ok := e.X.(*ast.Ident); ok {
			if c.spec != "" && id.Name == c.spec {
				return "(ESpec " + cstr(e.Sel.Name) + ")"
			}
			if id.Name == "codec" && e.Sel.Name == "OFFSET_SIZE" {
				return "(ELit 4)"
			}
			if other, ok := pkgs[id.Name]; ok {
				if _, ok := other.cexprs[e.Sel.Name]; ok {
					return "(EConst " + cstr(id.Name+"."+e.Sel.Name) + ")"
				}
			}
		}
		// XType.Size
		if e.Sel.Name == "Size" {
			if q, ok := c.pi.qname(e.X); ok && strings.HasSuffix(q, "Type") {
				return "(ETypeByteLength " + cstr(q) + ")"
			}
		}
	case *ast.BinaryExpr:
		op := map[token.Token]string{token.MUL: "EMul", token.ADD: "EAdd", token.SUB: "ESub", token.QUO: "EDiv", token.SHL: "EShl", token.SHR: "EShr"}[e.Op]
		if op != "" {
			return "(" + op + " " + c.exp(e.X) + " " + c.exp(e.Y) + ")"
		}
	case *ast.CallExpr:
		if id, ok := e.Fun.(*ast.Ident); ok && id.Name == "len" && len(e.Args) == 1 && c.isRecv(e.Args[0]) {
			return "ELen"
		}
		if len(e.Args) == 1 && isTypeExprName(c.pi, e.Fun) {
			return c.exp(e.Args[0])
		}
		if sel, ok := e.Fun.(*ast.SelectorExpr); ok && sel.Sel.Name == "ByteLength" && len(e.Args) <= 1 {
			if fs, ok := sel.X.(*ast.SelectorExpr); ok {
				if id, ok := fs.X.(*ast.Ident); ok && c.recv != "" && id.Name == c.recv {
					if len(e.Args) == 0 || (c.spec != "" && src(e.Args[0]) == c.spec) {
						return "(EFieldByteLength " + cstr(fs.Sel.Name) + ")"
					}
				}
			}
		}
		if sel, ok := e.Fun.(*ast.SelectorExpr); ok && len(e.Args) == 0 {
			if q, ok := c.pi.qname(sel.X); ok && strings.HasSuffix(q, "Type") {
				switch sel.Sel.Name {
				case "TypeByteLength":
					return "(ETypeByteLength " + cstr(q) + ")"
				case "Length":
					return "(EVecLength " + cstr(q) + ")"
				}
			}
		}
	}
	return "(EUnknown " + cstr(pos(e)+" "+src(e)) + ")"
}

// ---------- view type definitions ----------
func (pi *pkgInfo) vdef(e ast.Expr, spec string) string {
	c := &ctx{pi: pi, spec: spec}
	switch e := e.(type) {
	case *ast.ParenExpr:
		return pi.vdef(e.X, spec)
	case *ast.Ident, *ast.SelectorExpr:
		q, ok := pi.qname(e)
		if ok {
			if strings.HasPrefix(q, "view.") {
				return "(VBasic " + cstr(strings.TrimPrefix(q, "view.")) + ")"
			}
			return "(VRef " + cstr(q) + ")"
		}
	case *ast.CallExpr:
		// spec.M(): a method of the Spec (or an embedded preset) returning a type definition
		if sel, ok := e.Fun.(*ast.SelectorExpr); ok && len(e.Args) == 0 && spec != "" {
			if id, ok := sel.X.(*ast.Ident); ok && id.Name == spec {
				if _, ok := specViewMethod(sel.Sel.Name); ok {
					return "(VRef " + cstr("common.Spec."+sel.Sel.Name) + ")"
				}
			}
		}
		fq, ok := pi.qname(e.Fun)
		if !ok {
			break
		}
		fn := fq[strings.Index(fq, ".")+1:]
		isView := strings.HasPrefix(fq, "view.")
		switch {
		case isView && fn == "ContainerType" && len(e.Args) == 2:
			name, ok := e.Args[0].(*ast.BasicLit)
			cl, ok2 := e.Args[1].(*ast.CompositeLit)
			if !ok || !ok2 || name.Kind != token.STRING {
				break
			}
			var fields []string
			for _, el := range cl.Elts {
				fl, ok := el.(*ast.CompositeLit)
				if !ok {
					fields = append(fields, "("+cstr("?")+", VUnknown "+cstr(pos(el))+")")
					continue
				}
				var fname, ftyp ast.Expr
				if len(fl.Elts) == 2 {
					if kv, ok := fl.Elts[0].(*ast.KeyValueExpr); ok {
						for _, x := range fl.Elts {
							kv = x.(*ast.KeyValueExpr)
							switch src(kv.Key) {
							case "Name":
								fname = kv.Value
							case "Type":
								ftyp = kv.Value
							}
						}
					} else {
						fname, ftyp = fl.Elts[0], fl.Elts[1]
					}
				}
				bl, ok := fname.(*ast.BasicLit)
				if !ok || ftyp == nil || bl.Kind != token.STRING {
					fields = append(fields, "("+cstr("?")+", VUnknown "+cstr(pos(el))+")")
					continue
				}
				s, _ := strconv.Unquote(bl.Value)
				fields = append(fields, "("+cstr(s)+", "+pi.vdef(ftyp, spec)+")")
			}
			n, _ := strconv.Unquote(name.Value)
			return "(VContainer " + cstr(n) + " " + clist(fields) + ")"
		case isView && (fn == "ListType" || fn == "ComplexListType" || fn == "BasicListType") && len(e.Args) == 2:
			return "(VList " + pi.vdef(e.Args[0], spec) + " " + c.exp(e.Args[1]) + ")"
		case isView && (fn == "VectorType" || fn == "ComplexVectorType" || fn == "BasicVectorType") && len(e.Args) == 2:
			return "(VVector " + pi.vdef(e.Args[0], spec) + " " + c.exp(e.Args[1]) + ")"
		case isView && fn == "BitListType" && len(e.Args) == 1:
			return "(VBitList " + c.exp(e.Args[0]) + ")"
		case isView && fn == "BitVectorType" && len(e.Args) == 1:
			return "(VBitVector " + c.exp(e.Args[0]) + ")"
		case isView && fn == "SmallByteVecMeta" && len(e.Args) == 1:
			return "(VSmallBytes " + c.exp(e.Args[0]) + ")"
		case strings.HasSuffix(fn, "Type") && len(e.Args) == 1 && !isView:
			// XType(spec)
			if id, ok := e.Args[0].(*ast.Ident); ok && id.Name == spec && spec != "" {
				return "(VRef " + cstr(fq) + ")"
			}
		}
	}
	return "(VUnknown " + cstr(pos(e)+" "+src(e)) + ")"
}

// name of the *Spec parameter of a function (or "" / "_" when unnamed)
func specParam(fd *ast.FuncDecl) (name string, has bool) {
	for _, f := range fd.Type.Params.List {
		t := src(f.Type)
		if t == "*common.Spec" || t == "*Spec" {
			if len(f.Names) > 0 {
				return f.Names[0].Name, true
			}
			return "", true
		}
	}
	return "", false
}

func returnsTypeDef(fd *ast.FuncDecl) bool {
	if fd.Type.Results == nil || len(fd.Type.Results.List) != 1 {
		return false
	}
	return strings.HasSuffix(src(fd.Type.Results.List[0].Type), "TypeDef")
}

// methods of Spec / its embedded presets that return a type definition
func specViewMethod(name string) (*ast.FuncDecl, bool) {
	pi := pkgs["common"]
	var hit *ast.FuncDecl
	var recvs []string
	for r := range pi.methods {
		recvs = append(recvs, r)
	}
	sort.Strings(recvs)
	for _, r := range recvs {
		if r != "Spec" && !strings.HasSuffix(r, "Preset") && !strings.HasSuffix(r, "Config") {
			continue
		}
		if fd, ok := pi.methods[r][name]; ok && returnsTypeDef(fd) {
			if hit != nil {
				return nil, false // ambiguous
			}
			hit = fd
		}
	}
	return hit, hit != nil
}

func collectViews() []string {
	var out []string
	{
		pi := pkgs["common"]
		seen := map[string]bool{}
		var names []string
		for _, ms := range pi.methods {
			for m, fd := range ms {
				if returnsTypeDef(fd) && !seen[m] {
					if _, ok := specViewMethod(m); ok {
						seen[m] = true
						names = append(names, m)
					}
				}
			}
		}
		sort.Strings(names)
		for _, m := range names {
			fd, _ := specViewMethod(m)
			if len(fd.Body.List) == 1 {
				if rs, ok := fd.Body.List[0].(*ast.ReturnStmt); ok && len(rs.Results) == 1 {
					out = append(out, "("+cstr("common.Spec."+m)+", "+pi.vdef(rs.Results[0], recvName(fd))+")")
					continue
				}
			}
			out = append(out, "("+cstr("common.Spec."+m)+", VUnknown "+cstr(pos(fd))+")")
		}
	}
	for _, pn := range pkgNames {
		pi := pkgs[pn]
		var names []string
		for n := range pi.vars {
			names = append(names, n)
		}
		for n, fd := range pi.funcs {
			if returnsTypeDef(fd) {
				names = append(names, n)
			}
		}
		sort.Strings(names)
		for _, n := range names {
			if fd, ok := pi.funcs[n]; ok && returnsTypeDef(fd) {
				sp, _ := specParam(fd)
				body := fd.Body.List
				if len(body) == 1 {
					if rs, ok := body[0].(*ast.ReturnStmt); ok && len(rs.Results) == 1 {
						out = append(out, "("+cstr(pn+"."+n)+", "+pi.vdef(rs.Results[0], sp)+")")
						continue
					}
				}
				out = append(out, "("+cstr(pn+"."+n)+", VUnknown "+cstr(pos(fd))+")")
				continue
			}
			e := pi.vars[n]
			if !strings.HasSuffix(n, "Type") {
				continue
			}
			// skip numeric / string constants that merely end in "Type"
			if _, isConst := pi.constVal(n, 0); isConst {
				continue
			}
			out = append(out, "("+cstr(pn+"."+n)+", "+pi.vdef(e, "")+")")
		}
	}
	return out
}

// ---------- the five methods ----------
var fiveMethods = []string{"Deserialize", "Serialize", "ByteLength", "FixedLength", "HashTreeRoot"}

func recvName(fd *ast.FuncDecl) string {
	if len(fd.Recv.List[0].Names) > 0 {
		return fd.Recv.List[0].Names[0].Name
	}
	return ""
}

func fingerprint(fd *ast.FuncDecl) string {
	h := sha256.Sum256([]byte(src(fd.Body)))
	return fmt.Sprintf("%x", h[:6])
}

func custom(fd *ast.FuncDecl) string {
	return "(MCustom " + cstr(fingerprint(fd)) + " " + cstr(pos(fd)) + ")"
}

// container argument: &a.X | a.X | spec.Wrap(&a.X) | spec.Wrap(a.X)
func (c *ctx) arg(e ast.Expr) string {
	wrapped := false
	if call, ok := e.(*ast.CallExpr); ok {
		if sel, ok := call.Fun.(*ast.SelectorExpr); ok && sel.Sel.Name == "Wrap" && len(call.Args) == 1 {
			if id, ok := sel.X.(*ast.Ident); ok && c.spec != "" && id.Name == c.spec {
				wrapped = true
				e = call.Args[0]
			}
		}
	}
	conv := ""
	if call, ok := e.(*ast.CallExpr); ok && len(call.Args) == 1 && !wrapped {
		// (*BoolView)(&v.Slashed) / (BoolView)(v.Slashed)
		t := call.Fun
		for {
			switch x := t.(type) {
			case *ast.ParenExpr:
				t = x.X
				continue
			case *ast.StarExpr:
				t = x.X
				continue
			}
			break
		}
		if q, ok := c.pi.qname(t); ok && strings.HasPrefix(q, "view.") && strings.HasSuffix(q, "View") {
			conv = q
			e = call.Args[0]
		}
	}
	orig := e
	if u, ok := e.(*ast.UnaryExpr); ok && u.Op == token.AND {
		e = u.X
	}
	if sel, ok := e.(*ast.SelectorExpr); ok {
		if id, ok := sel.X.(*ast.Ident); ok && id.Name == c.recv && c.recv != "" {
			if conv != "" {
				return "GArgConv " + cstr(sel.Sel.Name) + " " + cstr(conv)
			}
			return "GArg " + cstr(sel.Sel.Name) + " " + cbool(wrapped)
		}
	}
	return "GArgUnknown " + cstr(pos(orig)+" "+src(orig))
}

func (c *ctx) args(es []ast.Expr) string {
	var out []string
	for _, e := range es {
		out = append(out, c.arg(e))
	}
	return clist(out)
}

// element expression of a list closure: &a[i] | a[i] | &(*a)[i] | spec.Wrap(...)
func (c *ctx) elem(e ast.Expr) (wrapped bool, ok bool) {
	if call, isCall := e.(*ast.CallExpr); isCall {
		if sel, isSel := call.Fun.(*ast.SelectorExpr); isSel && sel.Sel.Name == "Wrap" && len(call.Args) == 1 {
			if id, isId := sel.X.(*ast.Ident); isId && c.spec != "" && id.Name == c.spec {
				wrapped = true
				e = call.Args[0]
			}
		}
	}
	for {
		switch x := e.(type) {
		case *ast.ParenExpr:
			e = x.X
			continue
		case *ast.UnaryExpr:
			if x.Op == token.AND {
				e = x.X
				continue
			}
		case *ast.CallExpr:
			// uint64(li[i]) / uint8(r[i])
			if len(x.Args) == 1 && isTypeExprName(c.pi, x.Fun) {
				e = x.Args[0]
				continue
			}
		}
		break
	}
	if ix, isIx := e.(*ast.IndexExpr); isIx && c.isRecv(ix.X) {
		if id, isId := ix.Index.(*ast.Ident); isId && id.Name == "i" {
			return wrapped, true
		}
	}
	return wrapped, false
}

// closure `func(i uint64) T { [if i < length {] return X [}; return nil] }` or `func() T {i := len(*a); *a = append(*a, Z); return X}`
func (c *ctx) closureElem(e ast.Expr) (wrapped bool, ok bool) {
	fl, isFn := e.(*ast.FuncLit)
	if !isFn {
		return false, false
	}
	stmts := fl.Body.List
	// decoder form
	if len(stmts) == 3 {
		as1, ok1 := stmts[0].(*ast.AssignStmt)
		as2, ok2 := stmts[1].(*ast.AssignStmt)
		rs, ok3 := stmts[2].(*ast.ReturnStmt)
		if ok1 && ok2 && ok3 && len(rs.Results) == 1 && len(as1.Lhs) == 1 && len(as2.Lhs) == 1 && len(as2.Rhs) == 1 {
			// i := len(*a)
			if src(as1.Lhs[0]) == "i" && c.exp(as1.Rhs[0]) == "ELen" && c.isRecv(as2.Lhs[0]) {
				if call, isCall := as2.Rhs[0].(*ast.CallExpr); isCall && src(call.Fun) == "append" && len(call.Args) == 2 && c.isRecv(call.Args[0]) {
					return c.elem(rs.Results[0])
				}
			}
		}
		return false, false
	}
	if len(stmts) == 1 {
		if rs, isRet := stmts[0].(*ast.ReturnStmt); isRet && len(rs.Results) == 1 {
			return c.elem(rs.Results[0])
		}
	}
	if len(stmts) == 2 {
		is, ok1 := stmts[0].(*ast.IfStmt)
		rs, ok2 := stmts[1].(*ast.ReturnStmt)
		if ok1 && ok2 && len(rs.Results) == 1 && src(rs.Results[0]) == "nil" && is.Init == nil && is.Else == nil && len(is.Body.List) == 1 {
			if be, isBin := is.Cond.(*ast.BinaryExpr); isBin && be.Op == token.LSS && src(be.X) == "i" {
				// the bound must be the length of the receiver (or a constant vector length)
				if inner, isRet := is.Body.List[0].(*ast.ReturnStmt); isRet && len(inner.Results) == 1 {
					return c.elem(inner.Results[0])
				}
			}
		}
	}
	return false, false
}

func newCtx(pi *pkgInfo, fd *ast.FuncDecl) *ctx {
	sp, _ := specParam(fd)
	return &ctx{pi: pi, spec: sp, recv: recvName(fd), alias: map[string]bool{}, lenAlias: map[string]bool{}}
}

// strip an allowed prefix: nil-check of the receiver returning an error / default root; local aliases
func (c *ctx) stripPrefix(stmts []ast.Stmt, method string) []ast.Stmt {
	for len(stmts) > 1 {
		switch s := stmts[0].(type) {
		case *ast.IfStmt:
			// if recv == nil { return errors.New("...") }   (decode into nil pointer)
			if be, ok := s.Cond.(*ast.BinaryExpr); ok && be.Op == token.EQL && src(be.Y) == "nil" && c.isRecv(be.X) && s.Init == nil && s.Else == nil && len(s.Body.List) == 1 {
				if rs, ok := s.Body.List[0].(*ast.ReturnStmt); ok && len(rs.Results) == 1 {
					r := src(rs.Results[0])
					if method == "Deserialize" && strings.HasPrefix(r, "errors.New(") {
						stmts = stmts[1:]
						continue
					}
					// nil bitvector hashes as the default (all-zero) view of the same type
					if method == "HashTreeRoot" && strings.HasSuffix(r, "Type("+c.spec+").New().HashTreeRoot(hFn)") {
						stmts = stmts[1:]
						continue
					}
				}
			}
			// slice (re)allocation to the vector length before dr.Vector
			if method == "Deserialize" && c.onlyResizes(s.Body.List) && (s.Else == nil || c.onlyResizesStmt(s.Else)) {
				stmts = stmts[1:]
				continue
			}
		case *ast.AssignStmt:
			if len(s.Lhs) == 1 && len(s.Rhs) == 1 {
				if id, ok := s.Lhs[0].(*ast.Ident); ok && s.Tok == token.DEFINE {
					if c.isRecv(s.Rhs[0]) {
						c.alias[id.Name] = true
						stmts = stmts[1:]
						continue
					}
					if c.exp(s.Rhs[0]) == "ELen" {
						c.lenAlias[id.Name] = true
						stmts = stmts[1:]
						continue
					}
				}
				if method == "Deserialize" && c.onlyResizes([]ast.Stmt{s}) {
					stmts = stmts[1:]
					continue
				}
			}
		}
		break
	}
	return stmts
}

func (c *ctx) onlyResizesStmt(s ast.Stmt) bool {
	switch s := s.(type) {
	case *ast.BlockStmt:
		return c.onlyResizes(s.List)
	case *ast.IfStmt:
		return c.onlyResizes(s.Body.List) && (s.Else == nil || c.onlyResizesStmt(s.Else))
	}
	return false
}

// statements of the form  *recv = make(...)  |  *recv = (*recv)[:n]  (possibly nested in ifs)
func (c *ctx) onlyResizes(stmts []ast.Stmt) bool {
	if len(stmts) == 0 {
		return false
	}
	for _, s := range stmts {
		switch s := s.(type) {
		case *ast.AssignStmt:
			if len(s.Lhs) != 1 || len(s.Rhs) != 1 || s.Tok != token.ASSIGN || !c.isRecv(s.Lhs[0]) {
				return false
			}
			switch r := s.Rhs[0].(type) {
			case *ast.CallExpr:
				if src(r.Fun) != "make" {
					return false
				}
			case *ast.SliceExpr:
				if !c.isRecv(r.X) {
					return false
				}
			default:
				return false
			}
		case *ast.IfStmt:
			if !c.onlyResizesStmt(s) {
				return false
			}
		default:
			return false
		}
	}
	return true
}

func singleReturn(stmts []ast.Stmt) (ast.Expr, bool) {
	if len(stmts) == 1 {
		if rs, ok := stmts[0].(*ast.ReturnStmt); ok && len(rs.Results) == 1 {
			return rs.Results[0], true
		}
	}
	return nil, false
}

// call of the form X.M(args) where X is an identifier named x
func isCallOn(e ast.Expr, x string) (method string, args []ast.Expr, ok bool) {
	call, isCall := e.(*ast.CallExpr)
	if !isCall {
		return "", nil, false
	}
	sel, isSel := call.Fun.(*ast.SelectorExpr)
	if !isSel {
		return "", nil, false
	}
	id, isId := sel.X.(*ast.Ident)
	if !isId || id.Name != x {
		return "", nil, false
	}
	return sel.Sel.Name, call.Args, true
}

func paramName(fd *ast.FuncDecl, typ string) string {
	for _, f := range fd.Type.Params.List {
		if src(f.Type) == typ && len(f.Names) > 0 {
			return f.Names[0].Name
		}
	}
	return "\x00"
}

// delegate: (*Uint64View)(a).M(x) or Uint64View(a).M(x)
func (c *ctx) delegate(e ast.Expr, method string) (string, bool) {
	call, ok := e.(*ast.CallExpr)
	if !ok {
		return "", false
	}
	sel, ok := call.Fun.(*ast.SelectorExpr)
	if !ok || sel.Sel.Name != method {
		return "", false
	}
	conv, ok := sel.X.(*ast.CallExpr)
	if !ok || len(conv.Args) != 1 || !c.isRecv(conv.Args[0]) {
		return "", false
	}
	t := conv.Fun
	for {
		switch x := t.(type) {
		case *ast.ParenExpr:
			t = x.X
			continue
		case *ast.StarExpr:
			t = x.X
			continue
		}
		break
	}
	q, ok := c.pi.qname(t)
	if !ok {
		return "", false
	}
	return q, true
}

func (pi *pkgInfo) deser(fd *ast.FuncDecl) string {
	c := newCtx(pi, fd)
	dr := paramName(fd, "*codec.DecodingReader")
	stmts := c.stripPrefix(fd.Body.List, "Deserialize")
	if r, ok := singleReturn(stmts); ok {
		if m, args, ok := isCallOn(r, dr); ok {
			switch m {
			case "Container":
				return "(MContainer false " + c.args(args) + ")"
			case "FixedLenContainer":
				return "(MContainer true " + c.args(args) + ")"
			case "List", "Vector":
				if len(args) == 3 {
					if w, ok := c.closureElem(args[0]); ok {
						k := "MList"
						if m == "Vector" {
							k = "MVector"
						}
						return "(" + k + " " + cbool(w) + " " + c.exp(args[1]) + " " + c.exp(args[2]) + ")"
					}
				}
			case "BitVector", "BitList", "ByteList":
				if len(args) == 2 && c.isRecv(args[0]) {
					return "(M" + m + " " + c.exp(args[1]) + ")"
				}
			}
		}
		if m, args, ok := isCallOn(r, "tree"); ok && len(args) == 3 && src(args[0]) == dr && c.isRecv(args[1]) {
			switch m {
			case "ReadRoots":
				return "(MReadRoots " + c.exp(args[2]) + ")"
			case "ReadRootsLimited":
				return "(MReadRootsLimited " + c.exp(args[2]) + ")"
			}
		}
		if q, ok := c.delegate(r, "Deserialize"); ok {
			return "(MDelegate " + cstr(q) + ")"
		}
		// common.ReadBitList(dr, recv, limit): zrnt's own bitlist reader
		if call, ok := r.(*ast.CallExpr); ok && len(call.Args) == 3 && src(call.Args[0]) == dr && c.isRecv(call.Args[1]) {
			if q, ok := pi.qname(call.Fun); ok && q == "common.ReadBitList" {
				return "(MBitList " + c.exp(call.Args[2]) + ")"
			}
		}
	}
	// if _, err := dr.Read(p[:]); err != nil { return err }; return bitfields.BitvectorCheck(p[:], n)
	if len(stmts) == 2 {
		if is, ok := stmts[0].(*ast.IfStmt); ok && is.Else == nil && is.Init != nil && src(is.Cond) == "err != nil" && len(is.Body.List) == 1 && src(is.Body.List[0]) == "return err" {
			if as, ok := is.Init.(*ast.AssignStmt); ok && len(as.Lhs) == 2 && len(as.Rhs) == 1 && src(as.Lhs[0]) == "_" && src(as.Lhs[1]) == "err" {
				if m, args, ok := isCallOn(as.Rhs[0], dr); ok && m == "Read" && len(args) == 1 && c.isRecv(args[0]) {
					if rs, ok := stmts[1].(*ast.ReturnStmt); ok && len(rs.Results) == 1 {
						if m2, a2, ok := isCallOn(rs.Results[0], "bitfields"); ok && m2 == "BitvectorCheck" && len(a2) == 2 && c.isRecv(a2[0]) {
							return "(MBitVector " + c.exp(a2[1]) + ")"
						}
					}
				}
			}
		}
	}
	// _, err := dr.Read(p[:]); return err
	if len(stmts) == 2 {
		if as, ok := stmts[0].(*ast.AssignStmt); ok && len(as.Lhs) == 2 && len(as.Rhs) == 1 && src(as.Lhs[0]) == "_" && src(as.Lhs[1]) == "err" {
			if m, args, ok := isCallOn(as.Rhs[0], dr); ok && m == "Read" && len(args) == 1 && c.isRecv(args[0]) {
				if rs, ok := stmts[1].(*ast.ReturnStmt); ok && len(rs.Results) == 1 && src(rs.Results[0]) == "err" {
					if _, isSlice := args[0].(*ast.SliceExpr); isSlice {
						return "MReadArray"
					}
				}
			}
		}
	}
	return custom(fd)
}

func (pi *pkgInfo) ser(fd *ast.FuncDecl) string {
	c := newCtx(pi, fd)
	w := paramName(fd, "*codec.EncodingWriter")
	stmts := c.stripPrefix(fd.Body.List, "Serialize")
	if r, ok := singleReturn(stmts); ok {
		if m, args, ok := isCallOn(r, w); ok {
			switch m {
			case "Container":
				return "(MContainer false " + c.args(args) + ")"
			case "FixedLenContainer":
				return "(MContainer true " + c.args(args) + ")"
			case "List", "Vector":
				if len(args) == 3 {
					if wr, ok := c.closureElem(args[0]); ok {
						k := "MList"
						if m == "Vector" {
							k = "MVector"
						}
						return "(" + k + " " + cbool(wr) + " " + c.exp(args[1]) + " " + c.exp(args[2]) + ")"
					}
				}
			case "BitVector":
				if len(args) == 1 && c.isRecv(args[0]) {
					return "MWriteBitVector"
				}
			case "BitList":
				if len(args) == 1 && c.isRecv(args[0]) {
					return "MWriteBitList"
				}
			case "Write":
				if len(args) == 1 && c.isRecv(args[0]) {
					return "MWriteBytes"
				}
			case "WriteUint64", "WriteByte", "WriteUint32", "WriteUint16":
				n := map[string]string{"WriteUint64": "8", "WriteByte": "1", "WriteUint32": "4", "WriteUint16": "2"}[m]
				if len(args) == 1 {
					if conv, ok := args[0].(*ast.CallExpr); ok && len(conv.Args) == 1 && isTypeExprName(pi, conv.Fun) && c.isRecv(conv.Args[0]) {
						return "(MWriteUint " + n + ")"
					}
				}
			}
		}
		if m, args, ok := isCallOn(r, "tree"); ok && m == "WriteRoots" && len(args) == 2 && src(args[0]) == w && c.isRecv(args[1]) {
			return "MWriteRoots"
		}
		if q, ok := c.delegate(r, "Serialize"); ok {
			return "(MDelegate " + cstr(q) + ")"
		}
	}
	return custom(fd)
}

func (pi *pkgInfo) blen(fd *ast.FuncDecl) string {
	c := newCtx(pi, fd)
	stmts := c.stripPrefix(fd.Body.List, "ByteLength")
	if r, ok := singleReturn(stmts); ok {
		if m, args, ok := isCallOn(r, "codec"); ok && m == "ContainerLength" {
			return "(MContainerLength " + c.args(args) + ")"
		}
		e := c.exp(r)
		if !strings.Contains(e, "EUnknown") {
			return "(MExp " + e + ")"
		}
		if q, ok := c.delegate(r, "ByteLength"); ok {
			return "(MDelegate " + cstr(q) + ")"
		}
	}
	// for _, v := range a { out += v.ByteLength(spec) + codec.OFFSET_SIZE }; return
	if len(stmts) == 2 {
		rg, ok1 := stmts[0].(*ast.RangeStmt)
		rs, ok2 := stmts[1].(*ast.ReturnStmt)
		if ok1 && ok2 && len(rs.Results) == 0 && c.isRecv(rg.X) && len(rg.Body.List) == 1 && rg.Value != nil {
			v := src(rg.Value)
			if as, ok := rg.Body.List[0].(*ast.AssignStmt); ok && as.Tok == token.ADD_ASSIGN && src(as.Lhs[0]) == "out" && len(as.Rhs) == 1 {
				s := src(as.Rhs[0])
				if s == v+".ByteLength("+c.spec+") + codec.OFFSET_SIZE" && c.spec != "" {
					return "(MSumOffsets true)"
				}
				if s == v+".ByteLength() + codec.OFFSET_SIZE" {
					return "(MSumOffsets false)"
				}
			}
		}
	}
	return custom(fd)
}

func (pi *pkgInfo) flen(fd *ast.FuncDecl) string {
	c := newCtx(pi, fd)
	stmts := c.stripPrefix(fd.Body.List, "FixedLength")
	if r, ok := singleReturn(stmts); ok {
		if m, args, ok := isCallOn(r, "codec"); ok && m == "ContainerLength" {
			return "(MContainerLength " + c.args(args) + ")"
		}
		e := c.exp(r)
		if !strings.Contains(e, "EUnknown") {
			return "(MExp " + e + ")"
		}
		if q, ok := c.delegate(r, "FixedLength"); ok {
			return "(MDelegate " + cstr(q) + ")"
		}
	}
	return custom(fd)
}

func (pi *pkgInfo) htr(fd *ast.FuncDecl) string {
	c := newCtx(pi, fd)
	h := paramName(fd, "tree.HashFn")
	stmts := c.stripPrefix(fd.Body.List, "HashTreeRoot")
	if r, ok := singleReturn(stmts); ok {
		if m, args, ok := isCallOn(r, h); ok {
			switch m {
			case "HashTreeRoot":
				return "(MHtrFields " + c.args(args) + ")"
			case "ComplexListHTR", "Uint64ListHTR", "Uint8ListHTR":
				if len(args) == 3 && c.exp(args[1]) == "ELen" {
					if wr, ok := c.closureElem(args[0]); ok {
						return "(MListHTR " + cstr(strings.TrimSuffix(m, "ListHTR")) + " " + cbool(wr) + " " + c.exp(args[2]) + ")"
					}
				}
			case "ComplexVectorHTR", "Uint64VectorHTR", "Uint8VectorHTR":
				if len(args) == 2 {
					if wr, ok := c.closureElem(args[0]); ok {
						return "(MVectorHTR " + cstr(strings.TrimSuffix(m, "VectorHTR")) + " " + cbool(wr) + " " + c.exp(args[1]) + ")"
					}
				}
			case "ChunksHTR":
				if len(args) == 3 && c.exp(args[1]) == c.exp(args[2]) {
					if wr, ok := c.closureElem(args[0]); ok {
						return "(MVectorHTR " + cstr("Chunks") + " " + cbool(wr) + " " + c.exp(args[1]) + ")"
					}
				}
			case "ByteListHTR", "BitListHTR":
				if len(args) == 2 && c.isRecv(args[0]) {
					return "(MListHTR " + cstr(strings.TrimSuffix(m, "ListHTR")) + " false " + c.exp(args[1]) + ")"
				}
			case "BitVectorHTR", "ByteVectorHTR":
				if len(args) == 1 && c.isRecv(args[0]) {
					return "(MVectorHTR " + cstr(strings.TrimSuffix(m, "VectorHTR")) + " false ELen)"
				}
			}
		}
		if q, ok := c.delegate(r, "HashTreeRoot"); ok {
			return "(MDelegate " + cstr(q) + ")"
		}
	}
	if m, ok := c.htrByHand(fd, h); ok {
		return m
	}
	return custom(fd)
}

func isRootType(e ast.Expr) bool {
	s := src(e)
	return s == "Root" || s == "tree.Root" || s == "common.Root"
}

// hand-written roots of small byte arrays:
//   return Root(recv) | return Root{0: recv[0]} | copy(out[:], recv[:]); return | var out Root; copy(out[a:b], recv[:]); return out
//   var a, b Root; copy(a[:], recv[0:32]); ...; return hFn(hFn(a, b), hFn(c, Root{}))
func (c *ctx) htrByHand(fd *ast.FuncDecl, h string) (string, bool) {
	stmts := fd.Body.List
	res := ""
	if fd.Type.Results != nil && len(fd.Type.Results.List) == 1 && len(fd.Type.Results.List[0].Names) == 1 {
		res = fd.Type.Results.List[0].Names[0].Name
	}
	if r, ok := singleReturn(stmts); ok {
		if call, ok := r.(*ast.CallExpr); ok && len(call.Args) == 1 && isRootType(call.Fun) && c.isRecv(call.Args[0]) {
			return "MHtrPadded", true
		}
		if cl, ok := r.(*ast.CompositeLit); ok && isRootType(cl.Type) && len(cl.Elts) == 1 {
			if kv, ok := cl.Elts[0].(*ast.KeyValueExpr); ok && src(kv.Key) == "0" {
				if ix, ok := kv.Value.(*ast.IndexExpr); ok && c.isRecv(ix.X) && src(ix.Index) == "0" {
					return "(MHtrTree (HChunk 0 1))", true
				}
			}
		}
	}
	// roots being built: name -> chunk description
	chunks := map[string]string{}
	if res != "" {
		chunks[res] = "HZero"
	}
	i := 0
	for ; i < len(stmts); i++ {
		switch s := stmts[i].(type) {
		case *ast.DeclStmt:
			gd, ok := s.Decl.(*ast.GenDecl)
			if !ok || gd.Tok != token.VAR {
				return "", false
			}
			for _, sp := range gd.Specs {
				vs := sp.(*ast.ValueSpec)
				if vs.Type == nil || !isRootType(vs.Type) || len(vs.Values) != 0 {
					return "", false
				}
				for _, n := range vs.Names {
					chunks[n.Name] = "HZero"
				}
			}
			continue
		case *ast.ExprStmt:
			call, ok := s.X.(*ast.CallExpr)
			if !ok || src(call.Fun) != "copy" || len(call.Args) != 2 {
				return "", false
			}
			dst, ok1 := call.Args[0].(*ast.SliceExpr)
			srcE, ok2 := call.Args[1].(*ast.SliceExpr)
			if !ok1 || !ok2 || !c.isRecv(srcE.X) {
				return "", false
			}
			did, ok := dst.X.(*ast.Ident)
			if !ok || chunks[did.Name] != "HZero" {
				return "", false
			}
			if dst.Low != nil && src(dst.Low) != "0" {
				return "", false
			}
			lo, hi := "0", "ELen"
			if srcE.Low != nil {
				lo = src(srcE.Low)
			}
			if srcE.High != nil {
				hi = src(srcE.High)
			}
			if _, err := strconv.Atoi(lo); err != nil {
				return "", false
			}
			if hi == "ELen" {
				// whole array: the destination bound, if any, must not cut it (checked in Coq against the array length)
				if dst.High != nil {
					if _, err := strconv.Atoi(src(dst.High)); err != nil {
						return "", false
					}
					hi = src(dst.High)
					chunks[did.Name] = "(HChunk " + lo + " " + hi + ")"
				} else {
					chunks[did.Name] = "(HChunk " + lo + " 32)"
				}
			} else {
				if _, err := strconv.Atoi(hi); err != nil {
					return "", false
				}
				chunks[did.Name] = "(HChunk " + lo + " " + hi + ")"
			}
			continue
		}
		break
	}
	if i != len(stmts)-1 {
		return "", false
	}
	rs, ok := stmts[i].(*ast.ReturnStmt)
	if !ok {
		return "", false
	}
	var tr func(e ast.Expr) (string, bool)
	tr = func(e ast.Expr) (string, bool) {
		switch e := e.(type) {
		case *ast.Ident:
			if v, ok := chunks[e.Name]; ok {
				return v, true
			}
		case *ast.CompositeLit:
			if isRootType(e.Type) && len(e.Elts) == 0 {
				return "HZero", true
			}
		case *ast.CallExpr:
			if src(e.Fun) == h && len(e.Args) == 2 {
				l, ok1 := tr(e.Args[0])
				r, ok2 := tr(e.Args[1])
				if ok1 && ok2 {
					return "(HNode " + l + " " + r + ")", true
				}
			}
		}
		return "", false
	}
	if len(rs.Results) == 0 && res != "" {
		return "(MHtrTree " + chunks[res] + ")", true
	}
	if len(rs.Results) == 1 {
		if t, ok := tr(rs.Results[0]); ok {
			return "(MHtrTree " + t + ")", true
		}
	}
	return "", false
}

func (pi *pkgInfo) decl(ts *ast.TypeSpec) string {
	c := &ctx{pi: pi}
	switch t := ts.Type.(type) {
	case *ast.StructType:
		var fields []string
		for _, f := range t.Fields.List {
			q, ok := pi.qname(f.Type)
			if st, isStar := f.Type.(*ast.StarExpr); isStar {
				q, ok = pi.qname(st.X)
				q = "*" + q
			}
			if !ok {
				q = "?" + src(f.Type)
			}
			js, ys := "", ""
			if f.Tag != nil {
				tag, _ := strconv.Unquote(f.Tag.Value)
				js = tagOf(tag, "json")
				ys = tagOf(tag, "yaml")
			}
			if len(f.Names) == 0 {
				fields = append(fields, "("+cstr("<embedded>")+", "+cstr(q)+", "+cstr(js)+", "+cstr(ys)+")")
			}
			for _, n := range f.Names {
				fields = append(fields, "("+cstr(n.Name)+", "+cstr(q)+", "+cstr(js)+", "+cstr(ys)+")")
			}
		}
		return "(DStruct " + clist(fields) + ")"
	case *ast.ArrayType:
		el := t.Elt
		ptr := false
		if st, ok := el.(*ast.StarExpr); ok {
			el = st.X
			ptr = true
		}
		q, ok := pi.qname(el)
		if !ok {
			break
		}
		if t.Len == nil {
			return "(DSlice " + cstr(q) + " " + cbool(ptr) + ")"
		}
		return "(DArray " + c.exp(t.Len) + " " + cstr(q) + ")"
	case *ast.Ident, *ast.SelectorExpr:
		q, ok := pi.qname(t)
		if ok {
			return "(DNamed " + cstr(q) + ")"
		}
	}
	return "(DUnknown " + cstr(pos(ts)) + ")"
}

func tagOf(tag, key string) string {
	// minimal struct-tag lookup (reflect.StructTag.Get without reflect)
	for tag != "" {
		i := 0
		for i < len(tag) && tag[i] == ' ' {
			i++
		}
		tag = tag[i:]
		if tag == "" {
			break
		}
		i = 0
		for i < len(tag) && tag[i] > ' ' && tag[i] != ':' && tag[i] != '"' {
			i++
		}
		if i == 0 || i+1 >= len(tag) || tag[i] != ':' || tag[i+1] != '"' {
			break
		}
		name := tag[:i]
		tag = tag[i+1:]
		i = 1
		for i < len(tag) && tag[i] != '"' {
			if tag[i] == '\\' {
				i++
			}
			i++
		}
		if i >= len(tag) {
			break
		}
		qv := tag[:i+1]
		tag = tag[i+1:]
		if name == key {
			v, _ := strconv.Unquote(qv)
			return v
		}
	}
	return ""
}

type foundType struct {
	pkg, name string
	spec      bool
	ptrRecv   bool
	coq       string
	kind      string
}

// excluded: wrappers that forward the five methods of another object (not SSZ types themselves)
var excluded = map[string]string{"common.specObj": "spec.Wrap adapter: forwards to the wrapped object's methods"}

func collectTypes() (found []foundType, partial []string) {
	for _, pn := range pkgNames {
		pi := pkgs[pn]
		var names []string
		for n := range pi.methods {
			names = append(names, n)
		}
		sort.Strings(names)
		for _, n := range names {
			ms := pi.methods[n]
			cnt := 0
			for _, m := range fiveMethods {
				if fd, ok := ms[m]; ok && isSszMethod(fd, m) {
					cnt++
				}
			}
			if cnt == 0 {
				continue
			}
			q := pn + "." + n
			if _, ex := excluded[q]; ex {
				continue
			}
			if cnt < 5 {
				var missing []string
				for _, m := range fiveMethods {
					if fd, ok := ms[m]; !ok || !isSszMethod(fd, m) {
						missing = append(missing, m)
					}
				}
				partial = append(partial, q+" lacks "+strings.Join(missing, ","))
				continue
			}
			ts := pi.types[n]
			_, hasSpec := specParam(ms["Deserialize"])
			for _, m := range fiveMethods {
				if _, hs := specParam(ms[m]); hs != hasSpec {
					partial = append(partial, q+": the five methods disagree on taking a *Spec ("+m+"), the type implements neither SSZObj nor SpecObj")
					break
				}
			}
			ft := foundType{pkg: pn, name: n, spec: hasSpec}
			d := "(DUnknown " + cstr("no type decl") + ")"
			p := q
			if ts != nil {
				d = pi.decl(ts)
				p = pos(ts)
				switch ts.Type.(type) {
				case *ast.StructType:
					ft.kind = "struct"
				case *ast.ArrayType:
					ft.kind = "seq"
				default:
					ft.kind = "named"
				}
			}
			ft.coq = fmt.Sprintf("mk_gtype %s %s %s\n    %s\n    %s\n    %s\n    %s\n    %s\n    %s",
				cstr(q), cstr(p), cbool(hasSpec), d,
				pi.deser(ms["Deserialize"]), pi.ser(ms["Serialize"]), pi.blen(ms["ByteLength"]), pi.flen(ms["FixedLength"]), pi.htr(ms["HashTreeRoot"]))
			found = append(found, ft)
		}
	}
	return
}

// the method has the SSZ signature (excludes e.g. view types' Serialize, or unrelated methods of the same name)
func isSszMethod(fd *ast.FuncDecl, m string) bool {
	ps := ""
	for _, f := range fd.Type.Params.List {
		n := len(f.Names)
		if n == 0 {
			n = 1
		}
		for i := 0; i < n; i++ {
			ps += src(f.Type) + ";"
		}
	}
	ps = strings.ReplaceAll(ps, "*common.Spec;", "S;")
	ps = strings.ReplaceAll(ps, "*Spec;", "S;")
	switch m {
	case "Deserialize":
		return ps == "*codec.DecodingReader;" || ps == "S;*codec.DecodingReader;"
	case "Serialize":
		return ps == "*codec.EncodingWriter;" || ps == "S;*codec.EncodingWriter;"
	case "ByteLength", "FixedLength":
		return ps == "" || ps == "S;"
	case "HashTreeRoot":
		return ps == "tree.HashFn;" || ps == "S;tree.HashFn;"
	}
	return false
}

// ---------- accessors ----------
func collectAccessors() []string {
	var out []string
	for _, pn := range pkgNames {
		pi := pkgs[pn]
		var names []string
		for n := range pi.types {
			if strings.HasSuffix(n, "View") {
				names = append(names, n)
			}
		}
		sort.Strings(names)
		for _, n := range names {
			ts := pi.types[n]
			st, ok := ts.Type.(*ast.StructType)
			if !ok || len(st.Fields.List) != 1 || len(st.Fields.List[0].Names) != 0 {
				continue
			}
			emb := src(st.Fields.List[0].Type)
			emb = strings.TrimPrefix(emb, "*")
			// iota block of the file that declares this type (state views)
			var iotaNames []string
			for _, af := range pi.files {
				if fset.Position(af.Pos()).Filename == fset.Position(ts.Pos()).Filename {
					for _, b := range pi.iotas[af] {
						if len(b) > 0 && strings.HasPrefix(b[0], "_state") {
							iotaNames = b
						}
					}
				}
			}
			var qi []string
			for _, x := range iotaNames {
				qi = append(qi, cstr(x))
			}
			var ms []string
			var mnames []string
			for m := range pi.methods[n] {
				mnames = append(mnames, m)
			}
			sort.Strings(mnames)
			for _, m := range mnames {
				fd := pi.methods[n][m]
				rn := recvName(fd)
				var gets, sets, wraps []string
				ast.Inspect(fd.Body, func(nd ast.Node) bool {
					call, ok := nd.(*ast.CallExpr)
					if !ok {
						return true
					}
					if sel, ok := call.Fun.(*ast.SelectorExpr); ok {
						onRecv := false
						switch x := sel.X.(type) {
						case *ast.Ident:
							onRecv = x.Name == rn
						case *ast.SelectorExpr:
							// state.ContainerView.Get(...)
							if id, ok := x.X.(*ast.Ident); ok && id.Name == rn {
								onRecv = true
							}
						}
						if onRecv && sel.Sel.Name == "Get" && len(call.Args) == 1 {
							gets = append(gets, cstr(src(call.Args[0])))
						}
						if onRecv && sel.Sel.Name == "Set" && len(call.Args) == 2 {
							sets = append(sets, cstr(src(call.Args[0])))
						}
						// state.Fields[_stateX]
					}
					// AsX(recv.Get(k))
					fn := src(call.Fun)
					base := fn[strings.LastIndex(fn, ".")+1:]
					if strings.HasPrefix(base, "As") && len(call.Args) == 1 {
						if inner, ok := call.Args[0].(*ast.CallExpr); ok {
							if m2, _, ok := isCallOn(inner, rn); ok && m2 == "Get" {
								wraps = append(wraps, cstr(fn))
							}
						}
					}
					return true
				})
				// index expressions used through state.Fields[k]
				ast.Inspect(fd.Body, func(nd ast.Node) bool {
					ix, ok := nd.(*ast.IndexExpr)
					if !ok {
						return true
					}
					if sel, ok := ix.X.(*ast.SelectorExpr); ok && sel.Sel.Name == "Fields" {
						if id, ok := sel.X.(*ast.Ident); ok && id.Name == rn {
							gets = append(gets, cstr(src(ix.Index)))
						}
					}
					return true
				})
				if len(gets)+len(sets) == 0 {
					continue
				}
				ms = append(ms, fmt.Sprintf("mk_gacc %s %s %s %s %s", cstr(m), clist(gets), clist(sets), clist(wraps), cstr(pos(fd))))
			}
			if len(ms) == 0 && len(iotaNames) == 0 {
				continue
			}
			out = append(out, fmt.Sprintf("mk_gview %s %s %s\n    [%s]", cstr(pn+"."+n), cstr(emb), clist(qi), strings.Join(ms, ";\n     ")))
		}
	}
	return out
}

func collectConsts() []string {
	var out []string
	for _, pn := range pkgNames {
		pi := pkgs[pn]
		var names []string
		for n := range pi.cexprs {
			names = append(names, n)
		}
		sort.Strings(names)
		for _, n := range names {
			if v, ok := pi.constVal(n, 0); ok && v.Kind() == constant.Int && constant.Sign(v) >= 0 {
				out = append(out, "("+cstr(pn+"."+n)+", "+v.ExactString()+")")
			}
		}
	}
	return out
}

const header = `(* GENERATED by tools/go2coq from %s -- do not edit *)
From Coq Require Import String NArith List.
From V Require Import Ssz.SszDesc.
Import ListNotations.
Local Open Scope string_scope.
Local Open Scope N_scope.
`

func main() {
	repo := flag.String("repo", "/repo", "zrnt source tree")
	out := flag.String("out", "", "output directory for GenSsz.v / GenAccessors.v")
	registry := flag.Bool("registry", false, "print the Go registry source")
	checkReg := flag.String("check-registry", "", "registry .go file to compare against the types found")
	flag.Parse()
	repoRoot = *repo
	if err := load(*repo); err != nil {
		fmt.Fprintln(os.Stderr, "go2coq:", err)
		os.Exit(2)
	}
	found, partial := collectTypes()
	if *registry {
		printRegistry(found)
		return
	}
	if *checkReg != "" {
		os.Exit(checkRegistry(*checkReg, found))
	}
	if *out == "" {
		fmt.Fprintln(os.Stderr, "go2coq: -out required")
		os.Exit(2)
	}
	os.MkdirAll(*out, 0o755)
	var sb strings.Builder
	fmt.Fprintf(&sb, header, *repo)
	sb.WriteString("Definition gen_consts : list (string * N) := [\n  " + strings.Join(collectConsts(), ";\n  ") + "\n].\n\n")
	sb.WriteString("Definition gen_views : list (string * vdef) := [\n  " + strings.Join(collectViews(), ";\n  ") + "\n].\n\n")
	var ts []string
	for _, f := range found {
		ts = append(ts, f.coq)
	}
	sb.WriteString("Definition gen_types : list gtype := [\n  " + strings.Join(ts, ";\n  ") + "\n].\n\n")
	var als []string
	for _, pn := range pkgNames {
		pi := pkgs[pn]
		var names []string
		for n, ts := range pi.types {
			if ts.Assign.IsValid() {
				names = append(names, n)
			}
		}
		sort.Strings(names)
		for _, n := range names {
			if q, ok := pi.qname(pi.types[n].Type); ok {
				als = append(als, "("+cstr(pn+"."+n)+", "+cstr(q)+")")
			}
		}
	}
	sb.WriteString("Definition gen_aliases : list (string * string) := " + clist(als) + ".\n\n")
	var ps []string
	for _, p := range partial {
		ps = append(ps, cstr(p))
	}
	sb.WriteString("(* types that have some but not all of the five methods *)\nDefinition gen_partial : list string := " + clist(ps) + ".\n")
	var ex []string
	for k := range excluded {
		ex = append(ex, cstr(k))
	}
	sort.Strings(ex)
	sb.WriteString("Definition gen_excluded : list string := " + clist(ex) + ".\n")
	if err := os.WriteFile(filepath.Join(*out, "GenSsz.v"), []byte(sb.String()), 0o644); err != nil {
		fmt.Fprintln(os.Stderr, "go2coq:", err)
		os.Exit(2)
	}
	var ab strings.Builder
	fmt.Fprintf(&ab, header, *repo)
	ab.WriteString("Definition gen_accessors : list gviewtype := [\n  " + strings.Join(collectAccessors(), ";\n  ") + "\n].\n")
	if err := os.WriteFile(filepath.Join(*out, "GenAccessors.v"), []byte(ab.String()), 0o644); err != nil {
		fmt.Fprintln(os.Stderr, "go2coq:", err)
		os.Exit(2)
	}
	fmt.Printf("go2coq: %d types, %d partial, %d view defs\n", len(found), len(partial), len(collectViews()))
}
