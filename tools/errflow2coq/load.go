package main

import (
	"go/ast"
	"go/parser"
	"go/token"
	"os"
	"path/filepath"
	"regexp"
	"sort"
	"strings"
)

var fset = token.NewFileSet()

const modPath = "github.com/protolambda/zrnt"
const ztypPath = "github.com/protolambda/ztyp"

// Pkg is one parsed package directory.
type Pkg struct {
	name    string // package name
	path    string // import path
	dir     string
	repo    bool // a package of the repository (bodies are translated); false: signatures only (ztyp)
	files   []*File
	funcs   map[string]*Fn            // package-level functions
	methods map[string]map[string]*Fn // receiver type name -> method name -> Fn
	types   map[string]ast.Expr       // declared type name -> type expression
}

type File struct {
	ast     *ast.File
	rel     string            // path relative to the repository root
	imports map[string]string // local name -> import path
	dots    []string          // dot-imported paths
	pkg     *Pkg
}

// Fn is a declared function or method.
type Fn struct {
	id       string // e.g. common.ProcessSlots, deneb.BeaconStateView.ProcessEpoch
	pkg      *Pkg
	file     *File
	decl     *ast.FuncDecl
	recv     string // receiver type name ("" for functions)
	name     string
	nparams  int
	variadic bool
	nres     int
	errIdx   int    // index of the `error` result (last), -1 if none
	boolErr  bool   // results are exactly (bool, error)
	ctxParam string // name of the context.Context parameter ("" if none)
	errParam string // name of a trailing `error` parameter ("" if none): the threaded idiom
	verdict  bool   // (bool, error) function that reaches the execution engine: computed by fixpoint
	coqName  string
}

type sig struct {
	nparams  int
	variadic bool
	nres     int
	errLast  bool
	errParam bool // last parameter has type error
}

var (
	pkgsByPath    = map[string]*Pkg{}
	repoPkgs      []*Pkg
	methodsByName = map[string][]*Fn{}  // concrete methods of repository packages
	sigsByMethod  = map[string][]sig{}  // every method signature seen anywhere (repo + ztyp, concrete + interface)
	engineMethods = map[string]string{} // method name of an ExecutionEngine interface -> declaring position
	engineIfaces  []string
)

func flattenFields(fl *ast.FieldList) []*ast.Field {
	var out []*ast.Field
	if fl == nil {
		return nil
	}
	for _, f := range fl.List {
		n := len(f.Names)
		if n == 0 {
			n = 1
		}
		for i := 0; i < n; i++ {
			g := &ast.Field{Type: f.Type}
			if len(f.Names) > 0 {
				g.Names = []*ast.Ident{f.Names[i]}
			}
			out = append(out, g)
		}
	}
	return out
}

func isIdent(e ast.Expr, name string) bool {
	id, ok := e.(*ast.Ident)
	return ok && id.Name == name
}

func isContextType(e ast.Expr) bool {
	s, ok := e.(*ast.SelectorExpr)
	return ok && isIdent(s.X, "context") && s.Sel.Name == "Context"
}

func sigOf(ft *ast.FuncType) sig {
	ps := flattenFields(ft.Params)
	rs := flattenFields(ft.Results)
	s := sig{nparams: len(ps), nres: len(rs)}
	if len(ps) > 0 {
		if _, ok := ps[len(ps)-1].Type.(*ast.Ellipsis); ok {
			s.variadic = true
		}
		if isIdent(ps[len(ps)-1].Type, "error") {
			s.errParam = true
		}
	}
	if len(rs) > 0 && isIdent(rs[len(rs)-1].Type, "error") {
		s.errLast = true
	}
	return s
}

func recvTypeName(fd *ast.FuncDecl) string {
	if fd.Recv == nil || len(fd.Recv.List) == 0 {
		return ""
	}
	t := fd.Recv.List[0].Type
	for {
		switch x := t.(type) {
		case *ast.StarExpr:
			t = x.X
			continue
		case *ast.ParenExpr:
			t = x.X
			continue
		case *ast.IndexExpr:
			t = x.X
			continue
		}
		break
	}
	if id, ok := t.(*ast.Ident); ok {
		return id.Name
	}
	return "?"
}

var buildTagRe = regexp.MustCompile(`(?m)^//go:build\s+(.*)$`)

// loadPkg parses one directory (non-test files without a build constraint that needs a tag).
func loadPkg(dir, importPath, repoRoot string, repo bool) *Pkg {
	ents, err := os.ReadDir(dir)
	if err != nil {
		return nil
	}
	p := &Pkg{path: importPath, dir: dir, repo: repo, funcs: map[string]*Fn{}, methods: map[string]map[string]*Fn{}, types: map[string]ast.Expr{}}
	var names []string
	for _, e := range ents {
		if e.IsDir() || !strings.HasSuffix(e.Name(), ".go") || strings.HasSuffix(e.Name(), "_test.go") {
			continue
		}
		names = append(names, e.Name())
	}
	sort.Strings(names)
	for _, n := range names {
		full := filepath.Join(dir, n)
		src, err := os.ReadFile(full)
		if err != nil {
			die("read %s: %v", full, err)
		}
		// files guarded by a build tag (the add-only `//go:build verif` hook files) are not part of the normal build
		if m := buildTagRe.FindSubmatch(src); m != nil && !strings.HasPrefix(strings.TrimSpace(string(m[1])), "!") {
			continue
		}
		af, err := parser.ParseFile(fset, full, src, parser.SkipObjectResolution)
		if err != nil {
			die("parse %s: %v", full, err)
		}
		rel := full
		if r, err := filepath.Rel(repoRoot, full); err == nil && repo {
			rel = filepath.ToSlash(r)
		}
		f := &File{ast: af, rel: rel, imports: map[string]string{}, pkg: p}
		p.name = af.Name.Name
		for _, im := range af.Imports {
			path := strings.Trim(im.Path.Value, `"`)
			local := path[strings.LastIndex(path, "/")+1:]
			if strings.HasPrefix(local, "v") && len(local) <= 3 { // gopkg.in/yaml.v3 style is not used for calls we care about
				local = path
			}
			if im.Name != nil {
				if im.Name.Name == "." {
					f.dots = append(f.dots, path)
					continue
				}
				if im.Name.Name == "_" {
					continue
				}
				local = im.Name.Name
			}
			f.imports[local] = path
		}
		p.files = append(p.files, f)
	}
	if len(p.files) == 0 {
		return nil
	}
	for _, f := range p.files {
		for _, d := range f.ast.Decls {
			switch x := d.(type) {
			case *ast.GenDecl:
				if x.Tok != token.TYPE {
					continue
				}
				for _, sp := range x.Specs {
					ts := sp.(*ast.TypeSpec)
					p.types[ts.Name.Name] = ts.Type
					if it, ok := ts.Type.(*ast.InterfaceType); ok {
						for _, m := range it.Methods.List {
							ft, ok := m.Type.(*ast.FuncType)
							if !ok || len(m.Names) == 0 {
								continue
							}
							sigsByMethod[m.Names[0].Name] = append(sigsByMethod[m.Names[0].Name], sigOf(ft))
							if repo && ts.Name.Name == "ExecutionEngine" {
								engineMethods[m.Names[0].Name] = posOf(f, m.Pos())
							}
						}
						if repo && ts.Name.Name == "ExecutionEngine" && len(it.Methods.List) > 0 {
							engineIfaces = append(engineIfaces, p.name+".ExecutionEngine")
						}
					}
				}
			case *ast.FuncDecl:
				s := sigOf(x.Type)
				fn := &Fn{pkg: p, file: f, decl: x, name: x.Name.Name, recv: recvTypeName(x), nparams: s.nparams, variadic: s.variadic,
					nres: s.nres, errIdx: -1}
				if s.errLast {
					fn.errIdx = s.nres - 1
				}
				rs := flattenFields(x.Type.Results)
				if len(rs) == 2 && isIdent(rs[0].Type, "bool") && s.errLast {
					fn.boolErr = true
				}
				ps := flattenFields(x.Type.Params)
				for _, q := range ps {
					if isContextType(q.Type) && len(q.Names) > 0 {
						fn.ctxParam = q.Names[0].Name
					}
				}
				if s.errParam && len(ps[len(ps)-1].Names) > 0 {
					fn.errParam = ps[len(ps)-1].Names[0].Name
				}
				if fn.recv == "" {
					fn.id = p.name + "." + fn.name
					p.funcs[fn.name] = fn
				} else {
					fn.id = p.name + "." + fn.recv + "." + fn.name
					if p.methods[fn.recv] == nil {
						p.methods[fn.recv] = map[string]*Fn{}
					}
					p.methods[fn.recv][fn.name] = fn
					sigsByMethod[fn.name] = append(sigsByMethod[fn.name], s)
					if repo {
						methodsByName[fn.name] = append(methodsByName[fn.name], fn)
					}
				}
			}
		}
	}
	pkgsByPath[importPath] = p
	if repo {
		repoPkgs = append(repoPkgs, p)
	}
	return p
}

func posOf(f *File, p token.Pos) string {
	pp := fset.Position(p)
	return f.rel + ":" + itoa(pp.Line)
}

func itoa(i int) string {
	if i == 0 {
		return "0"
	}
	neg := i < 0
	if neg {
		i = -i
	}
	var b []byte
	for i > 0 {
		b = append([]byte{byte('0' + i%10)}, b...)
		i /= 10
	}
	if neg {
		b = append([]byte{'-'}, b...)
	}
	return string(b)
}
