// errflow2coq: regenerate, from the working tree of zrnt, the error-flow skeleton of every function on the
// state-transition path, in the language of /verif/coq/Conc/ErrFlow.v.
//
//	roots    common.ProcessSlots, common.StateTransition, common.PostSlotTransition and every function with an
//	         error result declared in {bellatrix,capella,deneb}/execution.go and execution_payload.go
//	closure  every function or method body of eth2/beacon{,/common,/phase0,/altair,/bellatrix,/capella,/deneb,/electra}
//	         that a translated body calls statically (package functions; methods whose receiver type the source
//	         states, whose name has a single body, or - when the context is handed on - every body of that name)
//	output   <outdir>/GenErrFlow.v       Definition program : ErrFlow.program
//	         <outdir>/GenErrFlowCheck.v  the obligation gen_errflow_ok and its corollaries
//	         <outdir>/errflow_stats.json counts, and every `Unknown` with position and reason
//
// Go standard library only (go/parser, go/ast, go/token for the analysis). Nothing is type-checked: calls are
// resolved by syntax and by name, error results by the declared signatures (repository and ztyp sources) and,
// where no source gives one, by the left-hand side. A construct that is not recognised is emitted as
// `Unknown "<file:line>"`, which the checker never accepts.
//
// usage: errflow2coq [-nomethods] <repo> <outdir>
package main

import (
	"encoding/json"
	"fmt"
	"go/ast"
	"os"
	"path/filepath"
	"regexp"
	"runtime"
	"sort"
	"strings"
)

var followMethods = true

func die(format string, a ...interface{}) {
	fmt.Fprintf(os.Stderr, "errflow2coq: "+format+"\n", a...)
	os.Exit(2)
}

func coqString(s string) string { return `"` + strings.ReplaceAll(s, `"`, `""`) + `"` }

var nonIdent = regexp.MustCompile(`[^A-Za-z0-9_]`)

func coqIdent(id string) string { return "f_" + nonIdent.ReplaceAllString(id, "_") }

// ---------- verdict functions: (bool, error) functions that reach the engine ----------

func computeVerdictFns() {
	changed := true
	for changed {
		changed = false
		for _, p := range repoPkgs {
			var fns []*Fn
			for _, f := range p.funcs {
				fns = append(fns, f)
			}
			for _, ms := range p.methods {
				for _, f := range ms {
					fns = append(fns, f)
				}
			}
			for _, f := range fns {
				if f.verdict || !f.boolErr || f.decl.Body == nil {
					continue
				}
				hit := false
				ast.Inspect(f.decl.Body, func(n ast.Node) bool {
					call, ok := n.(*ast.CallExpr)
					if !ok || hit {
						return !hit
					}
					switch fun := unparen(call.Fun).(type) {
					case *ast.SelectorExpr:
						if _, ok := engineMethods[fun.Sel.Name]; ok {
							hit = true
						}
						if x, ok := fun.X.(*ast.Ident); ok {
							if path, ok := f.file.imports[x.Name]; ok {
								if q := pkgsByPath[path]; q != nil && q.funcs[fun.Sel.Name] != nil && q.funcs[fun.Sel.Name].verdict {
									hit = true
								}
							}
						}
						for _, m := range methodsByName[fun.Sel.Name] {
							if m.verdict {
								hit = true
							}
						}
					case *ast.Ident:
						if g := p.funcs[fun.Name]; g != nil && g.verdict {
							hit = true
						}
					}
					return !hit
				})
				if hit {
					f.verdict = true
					changed = true
				}
			}
		}
	}
}

// ---------- one function ----------

type fnOut struct {
	fn       *Fn
	body     *S
	errVar   int
	unknowns []unknownRec
	goStmts  map[string]int
	nUnkSig  int
	lhsTyped []unknownRec
	extra    []*fnOut
}

func translate(fn *Fn) (*fnOut, []*Fn) {
	t := &tr{fn: fn, goStmts: map[string]int{}, verdictVars: map[int]bool{}}
	t.push()
	if fn.decl.Recv != nil {
		for _, f := range flattenFields(fn.decl.Recv) {
			if len(f.Names) > 0 {
				t.declare(f.Names[0].Name, f.Type)
			}
		}
	}
	for _, f := range flattenFields(fn.decl.Type.Params) {
		if len(f.Names) > 0 {
			v := t.declare(f.Names[0].Name, f.Type)
			if f.Names[0].Name == fn.ctxParam && isContextType(f.Type) {
				t.ctxVar = v
			}
		}
	}
	rs := flattenFields(fn.decl.Type.Results)
	for i, f := range rs {
		if len(f.Names) > 0 {
			v := t.declare(f.Names[0].Name, f.Type)
			if i == fn.errIdx {
				t.namedErr = v
			}
			if i == 0 && fn.boolErr {
				t.namedOk = v
				if fn.verdict {
					t.verdictVars[v.id] = true
				}
			}
		}
	}
	out := &fnOut{fn: fn}
	if fn.errParam != "" {
		if v := t.lookup(fn.errParam); v != nil {
			out.errVar = v.id
		}
	}
	t.push()
	out.body = t.block(fn.decl.Body.List)
	t.pop()
	out.unknowns = t.unknowns
	out.goStmts = t.goStmts
	out.nUnkSig = t.nUnkSig
	out.lhsTyped = t.lhsTyped
	out.extra = t.extra
	return out, t.calls
}

// ---------- emission ----------

func emit(b *strings.Builder, s *S, ind string) {
	switch s.op {
	case "Skip", "Brk", "Cont":
		b.WriteString(ind + s.op)
	case "Poll":
		fmt.Fprintf(b, "%sPoll %s %d", ind, coqString(s.site), s.n1)
	case "Call":
		fmt.Fprintf(b, "%sCall %s %s %d %d", ind, coqString(s.site), coqString(s.name), s.n1, s.n2)
	case "CallLib":
		fmt.Fprintf(b, "%sCallLib %s %s %d", ind, coqString(s.site), coqString(s.name), s.n1)
	case "CallThread":
		fmt.Fprintf(b, "%sCallThread %s %s %d %d", ind, coqString(s.site), coqString(s.name), s.n1, s.n2)
	case "Engine":
		fmt.Fprintf(b, "%sEngine %s %s %d %d", ind, coqString(s.site), coqString(s.name), s.n1, s.n2)
	case "SetErr":
		fmt.Fprintf(b, "%sSetErr %s %d", ind, coqString(s.site), s.n1)
	case "IfErr":
		fmt.Fprintf(b, "%sIfErr %s %d %s", ind, coqString(s.site), s.n1, s.h)
	case "CheckVerdict":
		fmt.Fprintf(b, "%sCheckVerdict %s %d %s", ind, coqString(s.site), s.n1, s.h)
	case "Ret":
		fmt.Fprintf(b, "%sRet %s %s", ind, coqString(s.site), s.h)
	case "Unknown":
		fmt.Fprintf(b, "%sUnknown %s (* %s *)", ind, coqString(s.site), strings.ReplaceAll(s.comment, "*)", "* )"))
	case "Seq":
		// flatten the right spine: Seq a (Seq b c) is printed as a right-nested chain without growing the indentation
		var items []*S
		cur := s
		for cur.op == "Seq" {
			items = append(items, cur.a)
			cur = cur.b
		}
		items = append(items, cur)
		for i, it := range items {
			if i < len(items)-1 {
				b.WriteString(ind + "Seq (\n")
				emit(b, it, ind+"  ")
				b.WriteString(") (\n")
			} else {
				emit(b, it, ind+"  ")
			}
		}
		b.WriteString(strings.Repeat(")", len(items)-1))
	case "Branch":
		b.WriteString(ind + "Branch (\n")
		emit(b, s.a, ind+"  ")
		b.WriteString(") (\n")
		emit(b, s.b, ind+"  ")
		b.WriteString(")")
	case "Loop":
		b.WriteString(ind + "Loop (\n")
		emit(b, s.a, ind+"  ")
		b.WriteString(")")
	default:
		die("emit: unknown op %q", s.op)
	}
}

func countOps(s *S, m map[string]int) {
	if s == nil {
		return
	}
	m[s.op]++
	countOps(s.a, m)
	countOps(s.b, m)
}

type fnStat struct {
	Id       string `json:"id"`
	Pos      string `json:"pos"`
	Kind     string `json:"kind"`
	TakesCtx bool   `json:"takes_ctx"`
	TakesErr bool   `json:"takes_err"`
	MayFault bool   `json:"may_fault"`
	GoStmts  int    `json:"go_statements"`
	Nodes    int    `json:"errflow_nodes"`
	Unknowns int    `json:"unknowns"`
}

type stats struct {
	Repo             string         `json:"repo"`
	Roots            []string       `json:"roots"`
	EngineMethods    []string       `json:"engine_methods"`
	EngineIfaces     []string       `json:"engine_interfaces"`
	Functions        int            `json:"functions"`
	CallGraphAcyclic bool           `json:"call_graph_acyclic"`
	MaxCallDepth     int            `json:"max_call_depth"`
	Recursive        []string       `json:"functions_on_a_call_cycle"`
	FaultCapable     int            `json:"functions_that_can_observe_a_fault"`
	GoStatements     int            `json:"go_statements"`
	GoStmtKinds      map[string]int `json:"go_statement_kinds"`
	Nodes            map[string]int `json:"errflow_nodes"`
	Unknowns         []unknownRec   `json:"unknowns"`
	UnknownSigLeafs  int            `json:"leaf_calls_without_source_signature"`
	LhsTyped         []unknownRec   `json:"leaf_calls_typed_by_left_hand_side"`
	PerFunction      []fnStat       `json:"per_function"`
	Packages         []string       `json:"packages_parsed"`
}

func main() {
	args := os.Args[1:]
	for len(args) > 0 && strings.HasPrefix(args[0], "-") {
		switch args[0] {
		case "-nomethods":
			followMethods = false
		default:
			die("unknown flag %s", args[0])
		}
		args = args[1:]
	}
	if len(args) != 2 {
		die("usage: errflow2coq [-nomethods] <repo> <outdir>")
	}
	repo, outdir := args[0], args[1]
	repo, _ = filepath.Abs(repo)

	beacon := filepath.Join(repo, "eth2", "beacon")
	var parsed []string
	for _, sub := range []string{"", "common", "phase0", "altair", "bellatrix", "capella", "deneb", "electra"} {
		ip := modPath + "/eth2/beacon"
		if sub != "" {
			ip += "/" + sub
		}
		if p := loadPkg(filepath.Join(beacon, sub), ip, repo, true); p != nil {
			parsed = append(parsed, ip)
		} else if sub != "electra" {
			die("package %s not found under %s", ip, repo)
		}
	}
	// ztyp: signatures only (which methods/functions return an error, which take one as last parameter)
	if zdir := findZtyp(repo); zdir != "" {
		for _, sub := range []string{"view", "tree", "codec", "conv", "bitfields"} {
			if p := loadPkg(filepath.Join(zdir, sub), ztypPath+"/"+sub, zdir, false); p != nil {
				parsed = append(parsed, ztypPath+"/"+sub+" (signatures only)")
			}
		}
	}
	// other packages of the repository and third-party modules the parsed files import: signatures only
	mods := moduleDirs(repo)
	for _, p := range append([]*Pkg{}, repoPkgs...) {
		for _, f := range p.files {
			var paths []string
			for _, path := range f.imports {
				paths = append(paths, path)
			}
			paths = append(paths, f.dots...)
			sort.Strings(paths)
			for _, path := range paths {
				if pkgsByPath[path] != nil {
					continue
				}
				dir := ""
				if strings.HasPrefix(path, modPath+"/") {
					dir = filepath.Join(repo, filepath.FromSlash(path[len(modPath)+1:]))
				} else {
					best := ""
					for m := range mods {
						if (path == m || strings.HasPrefix(path, m+"/")) && len(m) > len(best) {
							best = m
						}
					}
					if best != "" {
						dir = filepath.Join(mods[best], filepath.FromSlash(strings.TrimPrefix(path[len(best):], "/")))
					}
				}
				if dir == "" {
					continue
				}
				if q := loadPkg(dir, path, dir, false); q != nil {
					parsed = append(parsed, path+" (signatures only)")
				}
			}
		}
	}
	// standard-library packages the parsed files import: signatures only
	if goroot := findGoroot(); goroot != "" {
		seen := map[string]bool{}
		for _, p := range repoPkgs {
			for _, f := range p.files {
				for _, path := range f.imports {
					first := strings.SplitN(path, "/", 2)[0]
					if strings.Contains(first, ".") || seen[path] {
						continue
					}
					seen[path] = true
					if q := loadPkg(filepath.Join(goroot, "src", path), path, goroot, false); q != nil {
						parsed = append(parsed, path+" (signatures only)")
					}
				}
			}
		}
	}
	computeVerdictFns()

	// roots
	common := pkgsByPath[modPath+"/eth2/beacon/common"]
	var roots []*Fn
	for _, n := range []string{"ProcessSlots", "StateTransition", "PostSlotTransition"} {
		f := common.funcs[n]
		if f == nil || f.errIdx < 0 {
			die("root common.%s not found (or it has no error result)", n)
		}
		roots = append(roots, f)
	}
	mainRoots := len(roots)
	for _, pn := range []string{"bellatrix", "capella", "deneb"} {
		p := pkgsByPath[modPath+"/eth2/beacon/"+pn]
		var fs []*Fn
		for _, f := range p.funcs {
			fs = append(fs, f)
		}
		for _, ms := range p.methods {
			for _, f := range ms {
				fs = append(fs, f)
			}
		}
		sort.Slice(fs, func(i, j int) bool { return fs[i].decl.Pos() < fs[j].decl.Pos() })
		for _, f := range fs {
			base := filepath.Base(f.file.rel)
			if (base == "execution.go" || base == "execution_payload.go") && f.errIdx >= 0 && f.decl.Body != nil {
				roots = append(roots, f)
			}
		}
	}
	if len(engineMethods) == 0 {
		die("no ExecutionEngine interface with methods found")
	}

	// closure
	done := map[*Fn]*fnOut{}
	var order []*Fn
	work := append([]*Fn{}, roots...)
	for len(work) > 0 {
		f := work[0]
		work = work[1:]
		if done[f] != nil || f.decl.Body == nil || f.errIdx < 0 || !f.pkg.repo {
			continue
		}
		o, calls := translate(f)
		done[f] = o
		order = append(order, f)
		for _, e := range o.extra {
			done[e.fn] = e
			order = append(order, e.fn)
		}
		work = append(work, calls...)
	}

	// which functions can observe a fault: a Poll, an engine query, or a call of one that can (least fixpoint)
	byID := map[string]*Fn{}
	for _, f := range order {
		byID[f.id] = f
	}
	mayFault := map[string]bool{}
	for changed := true; changed; {
		changed = false
		for _, f := range order {
			if mayFault[f.id] {
				continue
			}
			if bodyFaults(done[f].body, mayFault) {
				mayFault[f.id] = true
				changed = true
			}
		}
	}

	// call graph of the table: acyclic? how deep? (the fuel of the Coq semantics bounds the call depth only)
	depth := map[string]int{}
	state := map[string]int{}
	cyclic := false
	var recursive []string
	var visit func(id string) int
	var callees func(s *S, acc map[string]bool)
	callees = func(s *S, acc map[string]bool) {
		if s == nil {
			return
		}
		if s.op == "Call" {
			acc[s.name] = true
		}
		callees(s.a, acc)
		callees(s.b, acc)
	}
	visit = func(id string) int {
		if state[id] == 2 {
			return depth[id]
		}
		if state[id] == 1 {
			cyclic = true
			recursive = append(recursive, id)
			return 0
		}
		state[id] = 1
		d := 1
		if f := byID[id]; f != nil {
			acc := map[string]bool{}
			callees(done[f].body, acc)
			for c := range acc {
				if x := visit(c) + 1; x > d {
					d = x
				}
			}
		}
		state[id] = 2
		depth[id] = d
		return d
	}
	maxDepth := 0
	for _, f := range order {
		if d := visit(f.id); d > maxDepth {
			maxDepth = d
		}
	}

	// output
	var b strings.Builder
	b.WriteString("(* GENERATED by tools/errflow2coq from " + repo + " - do not edit. *)\n")
	b.WriteString("From Coq Require Import String List.\nFrom V Require Import Conc.ErrFlow.\nImport ListNotations.\nOpen Scope string_scope.\n\n")
	st := stats{Repo: repo, GoStmtKinds: map[string]int{}, Nodes: map[string]int{}, Packages: parsed, EngineIfaces: engineIfaces,
		CallGraphAcyclic: !cyclic, MaxCallDepth: maxDepth, Recursive: recursive}
	for m := range engineMethods {
		st.EngineMethods = append(st.EngineMethods, m)
	}
	sort.Strings(st.EngineMethods)
	var names []string
	for _, f := range order {
		o := done[f]
		kind := "Plain"
		if f.verdict {
			kind = "VerdictFn"
		}
		te := "None"
		if o.errVar != 0 {
			te = fmt.Sprintf("(Some %d)", o.errVar)
		}
		name := coqIdent(f.id)
		names = append(names, name)
		pos := posOf(f.file, f.decl.Pos())
		fmt.Fprintf(&b, "Definition %s : fundef := mkfun %s %s %s %v %s %v (\n", name, coqString(f.id), coqString(pos), kind, f.ctxParam != "", te, mayFault[f.id])
		emit(&b, o.body, "  ")
		b.WriteString(").\n\n")
		nodes := map[string]int{}
		countOps(o.body, nodes)
		tot, gs := 0, 0
		for k, v := range nodes {
			st.Nodes[k] += v
			tot += v
		}
		for k, v := range o.goStmts {
			st.GoStmtKinds[k] += v
			gs += v
		}
		st.GoStatements += gs
		st.Unknowns = append(st.Unknowns, o.unknowns...)
		st.LhsTyped = append(st.LhsTyped, o.lhsTyped...)
		st.UnknownSigLeafs += o.nUnkSig
		st.PerFunction = append(st.PerFunction, fnStat{f.id, pos, kind, f.ctxParam != "", o.errVar != 0, mayFault[f.id], gs, tot, nodes["Unknown"]})
		if mayFault[f.id] {
			st.FaultCapable++
		}
	}
	st.Functions = len(order)
	b.WriteString("Definition program : program := mkprog [\n  " + strings.Join(names, ";\n  ") + "\n] [")
	for i, f := range roots {
		if i > 0 {
			b.WriteString("; ")
		}
		b.WriteString(coqString(f.id))
		st.Roots = append(st.Roots, f.id)
	}
	b.WriteString("].\n\n")
	b.WriteString("Definition transition_roots : list string := [")
	for i, f := range roots[:mainRoots] {
		if i > 0 {
			b.WriteString("; ")
		}
		b.WriteString(coqString(f.id))
	}
	b.WriteString("].\n")
	if err := os.MkdirAll(outdir, 0o755); err != nil {
		die("%v", err)
	}
	if err := os.WriteFile(filepath.Join(outdir, "GenErrFlow.v"), []byte(b.String()), 0o644); err != nil {
		die("%v", err)
	}
	if err := os.WriteFile(filepath.Join(outdir, "GenErrFlowCheck.v"), []byte(checkFile), 0o644); err != nil {
		die("%v", err)
	}
	js, _ := json.MarshalIndent(st, "", " ")
	if err := os.WriteFile(filepath.Join(outdir, "errflow_stats.json"), js, 0o644); err != nil {
		die("%v", err)
	}
	fmt.Printf("errflow2coq: %d functions, %d Go statements, %d ErrFlow nodes (%d Poll, %d Engine, %d Call, %d leaf calls, %d IfErr, %d CheckVerdict), %d Unknown, %d leaf calls typed by their left-hand side only\n",
		st.Functions, st.GoStatements, sum(st.Nodes), st.Nodes["Poll"], st.Nodes["Engine"], st.Nodes["Call"], st.Nodes["CallLib"]+st.Nodes["CallThread"],
		st.Nodes["IfErr"], st.Nodes["CheckVerdict"], st.Nodes["Unknown"], st.UnknownSigLeafs)
	for _, u := range st.Unknowns {
		fmt.Printf("  Unknown %s in %s: %s\n", u.Site, u.Fn, u.Why)
	}
}

func bodyFaults(s *S, mayFault map[string]bool) bool {
	if s == nil {
		return false
	}
	switch s.op {
	case "Poll", "Engine":
		return true
	case "Call":
		return mayFault[s.name]
	}
	return bodyFaults(s.a, mayFault) || bodyFaults(s.b, mayFault)
}

func sum(m map[string]int) int {
	n := 0
	for _, v := range m {
		n += v
	}
	return n
}

var requireRe = regexp.MustCompile(`(?m)^\s*(?:require\s+)?([a-z0-9./_-]+\.[a-z0-9./_-]+)\s+(v[^\s/]+)`)

// module path -> directory in the module cache, for the modules go.mod requires
func moduleDirs(repo string) map[string]string {
	out := map[string]string{}
	src, err := os.ReadFile(filepath.Join(repo, "go.mod"))
	if err != nil {
		return out
	}
	var caches []string
	if c := os.Getenv("GOMODCACHE"); c != "" {
		caches = append(caches, c)
	}
	if g := os.Getenv("GOPATH"); g != "" {
		caches = append(caches, filepath.Join(g, "pkg", "mod"))
	}
	if h, err := os.UserHomeDir(); err == nil {
		caches = append(caches, filepath.Join(h, "go", "pkg", "mod"))
	}
	for _, m := range requireRe.FindAllSubmatch(src, -1) {
		for _, c := range caches {
			d := filepath.Join(c, filepath.FromSlash(string(m[1]))+"@"+string(m[2]))
			if fi, err := os.Stat(d); err == nil && fi.IsDir() {
				out[string(m[1])] = d
				break
			}
		}
	}
	return out
}

func findGoroot() string {
	for _, c := range []string{os.Getenv("GOROOT"), runtime.GOROOT(), "/usr/local/go", "/usr/lib/go"} {
		if c == "" {
			continue
		}
		if fi, err := os.Stat(filepath.Join(c, "src", "sort")); err == nil && fi.IsDir() {
			return c
		}
	}
	return ""
}

var ztypReq = regexp.MustCompile(`(?m)^\s*github\.com/protolambda/ztyp\s+(v\S+)`)

func findZtyp(repo string) string {
	src, err := os.ReadFile(filepath.Join(repo, "go.mod"))
	if err != nil {
		return ""
	}
	m := ztypReq.FindSubmatch(src)
	if m == nil {
		return ""
	}
	var cands []string
	if c := os.Getenv("GOMODCACHE"); c != "" {
		cands = append(cands, c)
	}
	if g := os.Getenv("GOPATH"); g != "" {
		cands = append(cands, filepath.Join(g, "pkg", "mod"))
	}
	if h, err := os.UserHomeDir(); err == nil {
		cands = append(cands, filepath.Join(h, "go", "pkg", "mod"))
	}
	for _, c := range cands {
		d := filepath.Join(c, "github.com", "protolambda", "ztyp@"+string(m[1]))
		if fi, err := os.Stat(d); err == nil && fi.IsDir() {
			return d
		}
	}
	return ""
}

const checkFile = `(* GENERATED by tools/errflow2coq - the obligations over GenErrFlow.program, re-checked on every run. *)
From Coq Require Import String List.
From V Require Import Conc.ErrFlow Conc.ErrFlowCheck Conc.ErrFlowSound.
From G Require Import GenErrFlow.
Import ListNotations.

(* printed first, so that a failing obligation still names every offending function and position:
   (function, position, reason, position of the call whose error or verdict is lost) *)
Definition gen_fault_list := Eval vm_compute in map show_problem (fault_problems GenErrFlow.program).
Print gen_fault_list.
Definition gen_leaf_list := Eval vm_compute in map show_problem (leaf_problems GenErrFlow.program).
Print gen_leaf_list.
Definition gen_ctx_list := Eval vm_compute in map show_problem (ctx_coverage_problems GenErrFlow.program).
Print gen_ctx_list.
Definition gen_counts := Eval vm_compute in
  (length (funs GenErrFlow.program), count_prog is_poll GenErrFlow.program, count_prog is_engine GenErrFlow.program,
   count_prog is_call GenErrFlow.program, count_prog is_lib GenErrFlow.program, count_prog is_iferr GenErrFlow.program,
   count_prog is_unknown GenErrFlow.program).
Print gen_counts.

Lemma gen_errflow_ok : errflow_ok GenErrFlow.program = true.
Proof. vm_compute. reflexivity. Qed.

Lemma gen_roots_plain : forallb (fun f => match lookup GenErrFlow.program f with
                                           | Some fd => match fkind_of fd with Plain => true | VerdictFn => false end
                                           | None => false end) GenErrFlow.transition_roots = true.
Proof. vm_compute. reflexivity. Qed.

(* the instantiated theorems: for every fuel, every schedule, every function of the generated table *)
Definition gen_faults_surface := errflow_ok_sound GenErrFlow.program gen_errflow_ok.
Definition gen_verdict_faults_surface := errflow_ok_sound_verdict GenErrFlow.program gen_errflow_ok.
Definition gen_success_is_undisturbed := ok_is_undisturbed GenErrFlow.program gen_errflow_ok.
Definition gen_no_panic := errflow_ok_no_panic GenErrFlow.program gen_errflow_ok.
Definition gen_no_fault_same := no_fault_same GenErrFlow.program.
Check gen_faults_surface.
Print Assumptions gen_faults_surface.
Print Assumptions gen_success_is_undisturbed.
`
