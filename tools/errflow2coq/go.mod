module errflow2coq

go 1.21
