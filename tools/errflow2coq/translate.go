package main

import (
	"go/ast"
	"go/token"
)

// S is a statement of the ErrFlow language.
type S struct {
	op      string // Skip Poll Call CallLib CallThread Engine SetErr IfErr CheckVerdict Ret Seq Branch Loop Brk Cont Unknown
	site    string
	name    string
	n1, n2  int
	h       string // handling / vhandling / retk constructor text
	a, b    *S
	comment string
}

var skip = &S{op: "Skip"}

func seq(xs ...*S) *S {
	var out *S
	for i := len(xs) - 1; i >= 0; i-- {
		x := xs[i]
		if x == nil || x.op == "Skip" {
			continue
		}
		if out == nil {
			out = x
		} else {
			out = &S{op: "Seq", a: x, b: out}
		}
	}
	if out == nil {
		return skip
	}
	return out
}

func branch(xs ...*S) *S {
	if len(xs) == 0 {
		return skip
	}
	out := xs[len(xs)-1]
	for i := len(xs) - 2; i >= 0; i-- {
		out = &S{op: "Branch", a: xs[i], b: out}
	}
	return out
}

type Var struct {
	id      int
	name    string
	typ     ast.Expr
	isErr   bool // has been the destination of an error result / declared with type error
	owner   *tr  // the frame (function or closure body) that declared it
	localFn *Fn  // the variable names a closure `name := func(...) ... { ... }`
}

type unknownRec struct {
	Fn, Site, Why string
}

type tr struct {
	fn          *Fn
	scopes      []map[string]*Var
	nextVar     int
	ctxVar      *Var
	namedErr    *Var
	namedOk     *Var
	breakTo     []string // innermost breakable: "loop" | "switch"
	unknowns    []unknownRec
	lhsTyped    []unknownRec
	extra       []*fnOut // closures translated as functions of their own
	goStmts     map[string]int
	calls       []*Fn        // static callees met (to be translated too)
	nUnkSig     int          // leaf calls whose signature is not known from any parsed source
	verdictVars map[int]bool // bool variables that hold the verdict of an engine / verdict-function call
}

func (t *tr) push() { t.scopes = append(t.scopes, map[string]*Var{}) }
func (t *tr) pop()  { t.scopes = t.scopes[:len(t.scopes)-1] }

func (t *tr) lookup(name string) *Var {
	for i := len(t.scopes) - 1; i >= 0; i-- {
		if v, ok := t.scopes[i][name]; ok {
			return v
		}
	}
	return nil
}

func (t *tr) fresh(name string, typ ast.Expr) *Var {
	t.nextVar++
	return &Var{id: t.nextVar, name: name, typ: typ, owner: t}
}

func (t *tr) declare(name string, typ ast.Expr) *Var {
	v := t.fresh(name, typ)
	if name != "_" && name != "" {
		t.scopes[len(t.scopes)-1][name] = v
	}
	if typ != nil && isIdent(typ, "error") {
		v.isErr = true
	}
	return v
}

func (t *tr) site(n ast.Node) string { return posOf(t.fn.file, n.Pos()) }

func (t *tr) unknown(n ast.Node, why string) *S {
	s := t.site(n)
	t.unknowns = append(t.unknowns, unknownRec{t.fn.id, s, why})
	return &S{op: "Unknown", site: s, comment: why}
}

// ---------- expressions: nothing that matters may hide inside one ----------

// scan reports the first reason why an expression cannot be treated as opaque data.
func (t *tr) scan(e ast.Expr) (ast.Node, string) {
	var badNode ast.Node
	var why string
	ast.Inspect(e, func(n ast.Node) bool {
		if badNode != nil {
			return false
		}
		switch x := n.(type) {
		case *ast.FuncLit:
			if nn, w := t.scanFuncLit(x); nn != nil {
				badNode, why = nn, w
			}
			return false
		case *ast.CallExpr:
			ci := t.classify(x)
			switch ci.kind {
			case kPoll:
				badNode, why = x, "ctx.Err() in expression position"
			case kEngine:
				badNode, why = x, "engine call in expression position"
			case kBad:
				badNode, why = x, ci.why
			case kStatic:
				if ci.hasErr != no {
					badNode, why = x, "call of "+ci.name+" (returns an error) in expression position"
				}
			case kLib:
				if ci.passesCtx {
					badNode, why = x, "the context is handed to a leaf"
				}
				if ci.hasErr == yes && ci.nres == 1 {
					badNode, why = x, "call of "+ci.name+" (returns an error) in expression position"
				}
			}
			if badNode != nil {
				return false
			}
			// the callee expression and the arguments are scanned by the walk, except the ctx argument itself
			for _, a := range x.Args {
				if t.fn.ctxParam != "" && isIdent(unparen(a), t.fn.ctxParam) {
					continue
				}
				if nn, w := t.scan(a); nn != nil {
					badNode, why = nn, w
					return false
				}
			}
			if nn, w := t.scan(x.Fun); nn != nil {
				badNode, why = nn, w
			}
			return false
		case *ast.Ident:
			if t.fn.ctxParam != "" && x.Name == t.fn.ctxParam && t.lookup(x.Name) == t.ctxVar {
				badNode, why = x, "the context value escapes (stored, compared or captured)"
				return false
			}
		case *ast.SelectorExpr:
			// x.Sel is not a variable reference
			if nn, w := t.scan(x.X); nn != nil {
				badNode, why = nn, w
			}
			return false
		case *ast.KeyValueExpr:
			if nn, w := t.scan(x.Value); nn != nil {
				badNode, why = nn, w
			}
			if _, isId := x.Key.(*ast.Ident); !isId {
				if nn, w := t.scan(x.Key); nn != nil && badNode == nil {
					badNode, why = nn, w
				}
			}
			return false
		}
		return true
	})
	return badNode, why
}

// a function literal is opaque data unless it can see the context or the engine
func (t *tr) scanFuncLit(fl *ast.FuncLit) (ast.Node, string) {
	var badNode ast.Node
	var why string
	ast.Inspect(fl.Body, func(n ast.Node) bool {
		if badNode != nil {
			return false
		}
		switch x := n.(type) {
		case *ast.Ident:
			if t.fn.ctxParam != "" && x.Name == t.fn.ctxParam {
				badNode, why = x, "a function literal captures the context"
			}
		case *ast.SelectorExpr:
			if _, ok := engineMethods[x.Sel.Name]; ok {
				badNode, why = x, "a function literal calls the execution engine"
			}
		case *ast.CallExpr:
			if s, ok := unparen(x.Fun).(*ast.SelectorExpr); ok {
				if id, ok := s.X.(*ast.Ident); ok && id.Name == "context" {
					badNode, why = x, "a function literal builds a context"
				}
			}
		}
		return true
	})
	return badNode, why
}

func (t *tr) scanAll(es ...ast.Expr) (ast.Node, string) {
	for _, e := range es {
		if e == nil {
			continue
		}
		if n, w := t.scan(e); n != nil {
			return n, w
		}
	}
	return nil, ""
}

// mentions reports whether an expression refers to a tracked error variable (or an err-ish name)
func (t *tr) mentionsErrVar(e ast.Expr) bool {
	found := false
	ast.Inspect(e, func(n ast.Node) bool {
		switch x := n.(type) {
		case *ast.FuncLit:
			return false
		case *ast.SelectorExpr:
			ast.Inspect(x.X, func(m ast.Node) bool {
				if id, ok := m.(*ast.Ident); ok {
					if v := t.lookup(id.Name); v != nil && v.isErr {
						found = true
					}
				}
				return true
			})
			return false
		case *ast.Ident:
			if v := t.lookup(x.Name); v != nil && (v.isErr || errish(x.Name)) {
				found = true
			}
		}
		return true
	})
	return found
}

// ---------- statements ----------

func (t *tr) block(list []ast.Stmt) *S {
	var out []*S
	for _, s := range list {
		out = append(out, t.stmt(s))
	}
	return seq(out...)
}

func (t *tr) scoped(list []ast.Stmt) *S {
	t.push()
	defer t.pop()
	return t.block(list)
}

func (t *tr) count(k string) { t.goStmts[k]++ }

func (t *tr) stmt(s ast.Stmt) *S {
	switch x := s.(type) {
	case nil:
		return skip
	case *ast.EmptyStmt:
		return skip
	case *ast.BlockStmt:
		t.count("block")
		return t.scoped(x.List)
	case *ast.ExprStmt:
		t.count("expr")
		if call, ok := unparen(x.X).(*ast.CallExpr); ok {
			return t.callStmt(x, call, nil, false)
		}
		if n, w := t.scan(x.X); n != nil {
			return t.unknown(n, w)
		}
		return skip
	case *ast.AssignStmt:
		t.count("assign")
		return t.assign(x)
	case *ast.IncDecStmt:
		t.count("incdec")
		if n, w := t.scan(x.X); n != nil {
			return t.unknown(n, w)
		}
		return skip
	case *ast.DeclStmt:
		t.count("decl")
		return t.declStmt(x)
	case *ast.ReturnStmt:
		t.count("return")
		return t.ret(x)
	case *ast.IfStmt:
		t.count("if")
		return t.ifStmt(x)
	case *ast.ForStmt:
		t.count("for")
		t.push()
		defer t.pop()
		init := t.stmt(x.Init)
		if n, w := t.scanAll(x.Cond); n != nil {
			return seq(init, t.unknown(n, w))
		}
		if x.Cond != nil && t.mentionsErrVar(x.Cond) {
			return seq(init, t.unknown(x.Cond, "loop condition reads an error variable"))
		}
		t.breakTo = append(t.breakTo, "loop")
		body := t.scoped(x.Body.List)
		post := t.stmt(x.Post)
		t.breakTo = t.breakTo[:len(t.breakTo)-1]
		return seq(init, &S{op: "Loop", a: seq(body, post)})
	case *ast.RangeStmt:
		t.count("range")
		if n, w := t.scanAll(x.X); n != nil {
			return t.unknown(n, w)
		}
		t.push()
		defer t.pop()
		if x.Tok == token.DEFINE {
			for _, k := range []ast.Expr{x.Key, x.Value} {
				if id, ok := k.(*ast.Ident); ok {
					t.declare(id.Name, nil)
				}
			}
		}
		t.breakTo = append(t.breakTo, "loop")
		body := t.scoped(x.Body.List)
		t.breakTo = t.breakTo[:len(t.breakTo)-1]
		return &S{op: "Loop", a: body}
	case *ast.SwitchStmt:
		t.count("switch")
		t.push()
		defer t.pop()
		init := t.stmt(x.Init)
		if n, w := t.scanAll(x.Tag); n != nil {
			return seq(init, t.unknown(n, w))
		}
		if x.Tag != nil && t.mentionsErrVar(x.Tag) {
			return seq(init, t.unknown(x.Tag, "switch over an error variable"))
		}
		return seq(init, t.clauses(x.Body, nil))
	case *ast.TypeSwitchStmt:
		t.count("typeswitch")
		t.push()
		defer t.pop()
		init := t.stmt(x.Init)
		var bound *ast.Ident
		var subject ast.Expr
		switch a := x.Assign.(type) {
		case *ast.AssignStmt:
			if id, ok := a.Lhs[0].(*ast.Ident); ok {
				bound = id
			}
			subject = a.Rhs[0]
		case *ast.ExprStmt:
			subject = a.X
		}
		if n, w := t.scanAll(subject); n != nil {
			return seq(init, t.unknown(n, w))
		}
		if subject != nil && t.mentionsErrVar(subject) {
			return seq(init, t.unknown(subject, "type switch over an error variable"))
		}
		return seq(init, t.clauses(x.Body, bound))
	case *ast.BranchStmt:
		t.count("branch")
		if x.Label != nil {
			return t.unknown(x, "labelled "+x.Tok.String())
		}
		switch x.Tok {
		case token.BREAK:
			if len(t.breakTo) > 0 && t.breakTo[len(t.breakTo)-1] == "loop" {
				return &S{op: "Brk"}
			}
			return t.unknown(x, "break out of a switch")
		case token.CONTINUE:
			for i := len(t.breakTo) - 1; i >= 0; i-- {
				if t.breakTo[i] == "loop" {
					return &S{op: "Cont"}
				}
			}
		}
		return t.unknown(x, x.Tok.String())
	case *ast.DeferStmt:
		t.count("defer")
		ci := t.classify(x.Call)
		if n, w := t.scanAll(x.Call.Args...); n != nil {
			return t.unknown(n, w)
		}
		if ci.kind == kPure || (ci.kind == kLib && ci.hasErr == no) {
			return skip
		}
		return t.unknown(x, "defer of "+ci.name)
	case *ast.LabeledStmt:
		t.count("label")
		return seq(t.unknown(x, "label"), t.stmt(x.Stmt))
	case *ast.GoStmt:
		return t.unknown(x, "go statement")
	case *ast.SelectStmt:
		return t.unknown(x, "select statement")
	case *ast.SendStmt:
		return t.unknown(x, "channel send")
	}
	return t.unknown(s, "unrecognised statement")
}

func (t *tr) clauses(body *ast.BlockStmt, bound *ast.Ident) *S {
	var arms []*S
	hasDefault := false
	t.breakTo = append(t.breakTo, "switch")
	for _, c := range body.List {
		cc := c.(*ast.CaseClause)
		if cc.List == nil {
			hasDefault = true
		}
		var pre *S
		for _, e := range cc.List {
			if n, w := t.scan(e); n != nil {
				pre = t.unknown(n, w)
			} else if t.mentionsErrVar(e) {
				pre = t.unknown(e, "case expression reads an error variable")
			}
		}
		t.push()
		if bound != nil {
			var typ ast.Expr
			if len(cc.List) == 1 {
				typ = cc.List[0]
			}
			t.declare(bound.Name, typ)
		}
		for _, st := range cc.Body {
			if b, ok := st.(*ast.BranchStmt); ok && b.Tok == token.FALLTHROUGH {
				pre = t.unknown(b, "fallthrough")
			}
		}
		arm := t.block(cc.Body)
		t.pop()
		arms = append(arms, seq(pre, arm))
	}
	t.breakTo = t.breakTo[:len(t.breakTo)-1]
	if !hasDefault {
		arms = append(arms, skip)
	}
	return branch(arms...)
}

func (t *tr) declStmt(x *ast.DeclStmt) *S {
	gd, ok := x.Decl.(*ast.GenDecl)
	if !ok || gd.Tok != token.VAR {
		return skip // const / type declarations
	}
	var out []*S
	for _, sp := range gd.Specs {
		vs := sp.(*ast.ValueSpec)
		if len(vs.Values) == 0 {
			for _, n := range vs.Names {
				t.declare(n.Name, vs.Type)
			}
			continue
		}
		lhs := make([]ast.Expr, len(vs.Names))
		for i, n := range vs.Names {
			lhs[i] = n
		}
		as := &ast.AssignStmt{Lhs: lhs, Tok: token.DEFINE, TokPos: vs.Pos(), Rhs: vs.Values}
		out = append(out, t.assignTyped(as, vs.Type))
	}
	return seq(out...)
}

func (t *tr) assign(x *ast.AssignStmt) *S { return t.assignTyped(x, nil) }

// what a `:=` / `=` left-hand side means for the tracked variables
func (t *tr) bindLHS(lhs []ast.Expr, define bool, typs []ast.Expr) []*Var {
	out := make([]*Var, len(lhs))
	cur := t.scopes[len(t.scopes)-1]
	for i, l := range lhs {
		id, ok := unparen(l).(*ast.Ident)
		if !ok {
			continue
		}
		var typ ast.Expr
		if i < len(typs) {
			typ = typs[i]
		}
		if id.Name == "_" {
			out[i] = t.fresh("_", typ)
			continue
		}
		if define {
			if v, ok := cur[id.Name]; ok {
				out[i] = v
			} else {
				out[i] = t.declare(id.Name, typ)
			}
		} else {
			out[i] = t.lookup(id.Name)
		}
	}
	return out
}

// types the source states for the results of simple right-hand sides (x := &T{..}, x, ok := y.(*T), ...)
func rhsType(e ast.Expr) ast.Expr {
	switch x := unparen(e).(type) {
	case *ast.UnaryExpr:
		if cl, ok := x.X.(*ast.CompositeLit); ok && x.Op == token.AND {
			return cl.Type
		}
	case *ast.CompositeLit:
		return x.Type
	case *ast.TypeAssertExpr:
		return x.Type
	case *ast.CallExpr:
		if id, ok := x.Fun.(*ast.Ident); ok && id.Name == "new" && len(x.Args) == 1 {
			return x.Args[0]
		}
	}
	return nil
}

func (t *tr) assignTyped(x *ast.AssignStmt, declared ast.Expr) *S {
	define := x.Tok == token.DEFINE
	if len(x.Rhs) == 1 {
		if call, ok := unparen(x.Rhs[0]).(*ast.CallExpr); ok {
			return t.callStmt(x, call, x.Lhs, define)
		}
	}
	if len(x.Rhs) == 1 && len(x.Lhs) == 1 {
		if fl, ok := unparen(x.Rhs[0]).(*ast.FuncLit); ok {
			if id, ok := x.Lhs[0].(*ast.Ident); ok && define && id.Name != "_" {
				return t.localClosure(x, id, fl)
			}
		}
	}
	if x.Tok != token.DEFINE && x.Tok != token.ASSIGN {
		// op-assignment (+=, |= ...)
		if n, w := t.scanAll(append(append([]ast.Expr{}, x.Lhs...), x.Rhs...)...); n != nil {
			return t.unknown(n, w)
		}
		return skip
	}
	if n, w := t.scanAll(x.Rhs...); n != nil {
		return t.unknown(n, w)
	}
	for _, l := range x.Lhs {
		if _, ok := unparen(l).(*ast.Ident); !ok {
			if n, w := t.scan(l); n != nil {
				return t.unknown(n, w)
			}
		}
	}
	// the right-hand sides are read before the left-hand sides are (re)declared
	var readsErr ast.Expr
	for _, r := range x.Rhs {
		if !isIdent(unparen(r), "nil") && t.mentionsErrVar(r) {
			readsErr = r
		}
	}
	typs := make([]ast.Expr, len(x.Lhs))
	for i := range x.Lhs {
		if declared != nil {
			typs[i] = declared
		} else if len(x.Rhs) == len(x.Lhs) {
			typs[i] = rhsType(x.Rhs[i])
		} else if len(x.Rhs) == 1 && i == 0 {
			typs[i] = rhsType(x.Rhs[0])
		}
	}
	vars := t.bindLHS(x.Lhs, define, typs)
	if readsErr != nil {
		return t.unknown(readsErr, "an error variable is copied or stored")
	}
	for i, v := range vars {
		if v == nil {
			continue
		}
		if v.isErr || errish(v.name) {
			// assignment to an error variable from something that is not a call
			if len(x.Rhs) == len(x.Lhs) && isIdent(unparen(x.Rhs[i]), "nil") && define {
				v.isErr = true // err := error(nil) style initialisation: nothing pending
				continue
			}
			return t.unknown(x, "an error variable is assigned from a non-call expression")
		}
	}
	return skip
}

// callStmt translates  [lhs :=|=] call(...)  (lhs == nil: expression statement)
func (t *tr) callStmt(at ast.Node, call *ast.CallExpr, lhs []ast.Expr, define bool) *S {
	site := t.site(at)
	ci := t.classify(call)
	if ci.kind == kBad {
		return t.unknown(call, ci.why)
	}
	// forwarding f(g(...)): g's results, the last one an error, become f's arguments
	if len(call.Args) == 1 {
		if inner, ok := unparen(call.Args[0]).(*ast.CallExpr); ok && call.Ellipsis == token.NoPos {
			ii := t.classify(inner)
			forwards := ci.errParam && ii.kind != kPure && ii.kind != kErrCtor && (ii.hasErr == yes || (ii.hasErr == unknown && ii.nres != 1))
			if forwards {
				tmp := t.fresh("_fw", nil)
				tmp.isErr = true
				first := t.emitCall(t.site(inner), inner, ii, tmp, nil)
				second := t.emitThread(site, call, ci, tmp, lhs, define)
				return seq(first, second)
			}
		}
	}
	// threaded idiom: the pending error variable is the last argument
	if n := len(call.Args); n > 0 && ci.kind != kPure && ci.kind != kErrCtor {
		if id, ok := unparen(call.Args[n-1]).(*ast.Ident); ok {
			if v := t.lookup(id.Name); v != nil && v.isErr {
				if ci.errParam {
					if nn, w := t.scanAll(call.Args[:n-1]...); nn != nil {
						return t.unknown(nn, w)
					}
					return t.emitThread(site, call, ci, v, lhs, define)
				}
				return t.unknown(call, "an error variable is handed to "+ci.name+" whose last parameter is not known to be an error")
			}
		}
	}
	// arguments must be plain data
	var args []ast.Expr
	for _, a := range call.Args {
		if t.fn.ctxParam != "" && isIdent(unparen(a), t.fn.ctxParam) && t.lookup(t.fn.ctxParam) == t.ctxVar {
			continue
		}
		args = append(args, a)
	}
	if s, ok := unparen(call.Fun).(*ast.SelectorExpr); ok {
		if !(ci.kind == kPoll) {
			args = append(args, s.X)
		}
	}
	if n, w := t.scanAll(args...); n != nil {
		return t.unknown(n, w)
	}
	for _, a := range args {
		if t.mentionsErrVar(a) && ci.kind != kErrCtor && ci.kind != kPure {
			return t.unknown(a, "an error variable is read by an argument of "+ci.name)
		}
	}
	for _, l := range lhs {
		if _, ok := unparen(l).(*ast.Ident); !ok {
			if n, w := t.scan(l); n != nil {
				return t.unknown(n, w)
			}
		}
	}

	typs := make([]ast.Expr, len(lhs))
	if len(lhs) > 0 {
		typs[0] = rhsType(call)
		if ci.kind == kStatic && len(ci.targets) == 1 {
			rs := flattenFields(ci.targets[0].decl.Type.Results)
			if len(rs) == len(lhs) {
				for i := range rs {
					typs[i] = qualify(ci.targets[0], rs[i].Type)
				}
			}
		}
	}

	switch ci.kind {
	case kPure:
		vars := t.bindLHS(lhs, define, typs)
		for _, v := range vars {
			if v != nil && v.isErr {
				return t.unknown(at, "an error variable is assigned from "+ci.name+", which has no error result")
			}
		}
		if ci.name == "panic" {
			return t.unknown(at, "explicit panic outside an error handler")
		}
		return skip
	case kErrCtor:
		vars := t.bindLHS(lhs, define, typs)
		if len(vars) == 1 && vars[0] != nil {
			vars[0].isErr = true
			return &S{op: "SetErr", site: site, n1: vars[0].id}
		}
		if len(vars) == 0 {
			return skip
		}
		return t.unknown(at, "error constructor assigned to several variables")
	}

	hasErr := ci.hasErr
	if hasErr == unknown && ci.kind == kLib && len(lhs) > 0 {
		// same-named methods with different result lists: only those with as many results as there are
		// left-hand sides can be meant
		if se, ok := unparen(call.Fun).(*ast.SelectorExpr); ok {
			hasErr = methodErrByArity(se.Sel.Name, len(call.Args), len(lhs))
		}
	}
	if hasErr == unknown {
		// a leaf whose signature no parsed source gives: the left-hand side decides
		t.nUnkSig++
		if len(lhs) == 0 {
			return t.unknown(at, "result of "+ci.name+" is discarded and its signature is not known (could be an error)")
		}
		last, ok := unparen(lhs[len(lhs)-1]).(*ast.Ident)
		if !ok {
			return t.unknown(at, "cannot tell whether "+ci.name+" returns an error")
		}
		if last.Name == "_" {
			return t.unknown(at, "last result of "+ci.name+" is discarded and its signature is not known (could be an error)")
		}
		if v := t.lookup(last.Name); (v != nil && v.isErr) || errish(last.Name) {
			hasErr = yes
		} else {
			hasErr = no
		}
		t.lhsTyped = append(t.lhsTyped, unknownRec{t.fn.id, site, ci.name + map[int]string{yes: " (error result, by its left-hand side)", no: " (no error result, by its left-hand side)"}[hasErr]})
	}
	if hasErr == no {
		vars := t.bindLHS(lhs, define, typs)
		for _, v := range vars {
			if v != nil && v.isErr {
				return t.unknown(at, "an error variable is assigned from "+ci.name+", which has no error result")
			}
		}
		return skip
	}
	vars := t.bindLHS(lhs, define, typs)
	var ev, bv *Var
	if len(lhs) == 0 {
		ev = t.fresh("_", nil) // result not assigned at all: nothing can ever test it
	} else {
		ev = vars[len(vars)-1]
		if ev == nil {
			return t.unknown(at, "the error result of "+ci.name+" is stored in something that is not a local variable")
		}
		if ci.nres >= 0 && ci.nres != len(lhs) {
			return t.unknown(at, "arity of "+ci.name+" does not match the assignment")
		}
	}
	if ev.owner != t {
		return t.unknown(at, "a closure assigns an error variable of the enclosing function")
	}
	ev.isErr = true
	if ci.verdict {
		if len(lhs) == 2 {
			bv = vars[0]
			if bv == nil {
				return t.unknown(at, "the verdict of "+ci.name+" is stored in something that is not a local variable")
			}
		} else {
			bv = t.fresh("_", nil)
		}
		t.verdictVars[bv.id] = true
	}
	out := t.emitCall(site, call, ci, ev, bv)
	// a result that is not bound to a variable (`_`, or no assignment at all) is tested by nobody: the same as
	// testing it and doing nothing
	if ev.name == "_" {
		out = seq(out, &S{op: "IfErr", site: site, n1: ev.id, h: "Drop"})
	}
	if bv != nil && bv.name == "_" {
		out = seq(out, &S{op: "CheckVerdict", site: site, n1: bv.id, h: "VIgnore"})
	}
	return out
}

// type expression of a result of fn, as seen from the current file (only what receiverType can use)
func qualify(fn *Fn, e ast.Expr) ast.Expr {
	return e // same-package names only resolve when caller and callee share the package; good enough for receivers
}

func (t *tr) emitCall(site string, call *ast.CallExpr, ci callInfo, ev, bv *Var) *S {
	b := 0
	if bv != nil {
		b = bv.id
	}
	switch ci.kind {
	case kPoll:
		return &S{op: "Poll", site: site, n1: ev.id}
	case kEngine:
		if !ci.passesCtx {
			return &S{op: "Unknown", site: t.addUnknown(site, "engine call that is not handed the caller's context"), comment: "engine without ctx"}
		}
		return &S{op: "Engine", site: site, name: ci.name, n1: ev.id, n2: b}
	case kStatic:
		var arms []*S
		for _, f := range ci.targets {
			if f.errIdx < 0 {
				continue
			}
			t.calls = append(t.calls, f)
			if f.ctxParam != "" && !ci.passesCtx {
				arms = append(arms, &S{op: "Unknown", site: t.addUnknown(site, "callee "+f.id+" takes a context but is not handed the caller's"), comment: "ctx not passed"})
				continue
			}
			arms = append(arms, &S{op: "Call", site: site, name: f.id, n1: ev.id, n2: b})
		}
		if ci.libAlt {
			arms = append(arms, &S{op: "CallLib", site: site, name: ci.name, n1: ev.id})
		}
		return branch(arms...)
	case kLib:
		return &S{op: "CallLib", site: site, name: ci.name, n1: ev.id}
	}
	return &S{op: "Unknown", site: t.addUnknown(site, "unclassified call"), comment: "unclassified call"}
}

func (t *tr) addUnknown(site, why string) string {
	t.unknowns = append(t.unknowns, unknownRec{t.fn.id, site, why})
	return site
}

func (t *tr) emitThread(site string, call *ast.CallExpr, ci callInfo, tin *Var, lhs []ast.Expr, define bool) *S {
	if ci.kind == kStatic {
		for _, f := range ci.targets {
			t.calls = append(t.calls, f)
		}
	}
	if ci.verdict || ci.kind == kEngine || ci.kind == kPoll {
		return &S{op: "Unknown", site: t.addUnknown(site, "threaded call of "+ci.name), comment: "threaded verdict call"}
	}
	var ev *Var
	if lhs == nil {
		ev = t.fresh("_", nil)
	} else {
		vars := t.bindLHS(lhs, define, nil)
		ev = vars[len(vars)-1]
		if ev == nil {
			return &S{op: "Unknown", site: t.addUnknown(site, "the error result of "+ci.name+" is stored in something that is not a local variable"), comment: "non-local error destination"}
		}
	}
	ev.isErr = true
	return &S{op: "CallThread", site: site, name: ci.name, n1: tin.id, n2: ev.id}
}

// ---------- return ----------

func isNil(e ast.Expr) bool { return isIdent(unparen(e), "nil") }

func (t *tr) ret(x *ast.ReturnStmt) *S {
	site := t.site(x)
	fn := t.fn
	mk := func(h string) *S { return &S{op: "Ret", site: site, h: h} }
	if len(x.Results) == 0 {
		if t.namedErr == nil {
			return t.unknown(x, "bare return without a named error result")
		}
		if fn.verdict && t.namedOk != nil {
			return mk("(RetBoth " + itoa(t.namedOk.id) + " " + itoa(t.namedErr.id) + ")")
		}
		return mk("(RetReg " + itoa(t.namedErr.id) + ")")
	}
	if len(x.Results) == 1 && fn.nres > 1 {
		call, ok := unparen(x.Results[0]).(*ast.CallExpr)
		if !ok {
			return t.unknown(x, "single-expression return in a multi-result function")
		}
		ev := t.fresh("_ret", nil)
		ev.isErr = true
		c := t.tailCall(x, call, ev)
		if c.bv != nil && fn.verdict {
			return seq(c.s, mk("(RetBoth "+itoa(c.bv.id)+" "+itoa(ev.id)+")"))
		}
		return seq(c.s, mk("(RetReg "+itoa(ev.id)+")"))
	}
	if len(x.Results) != fn.nres {
		return t.unknown(x, "return arity")
	}
	errExpr := unparen(x.Results[fn.errIdx])
	var others []ast.Expr
	for i, r := range x.Results {
		if i != fn.errIdx {
			others = append(others, r)
		}
	}
	if n, w := t.scanAll(others...); n != nil {
		return t.unknown(n, w)
	}
	for _, o := range others {
		if t.mentionsErrVar(o) {
			return t.unknown(o, "an error variable is returned in a non-error position")
		}
	}
	var boolExpr ast.Expr
	if fn.verdict {
		boolExpr = unparen(x.Results[0])
	}
	boolVar := func() *Var {
		if id, ok := boolExpr.(*ast.Ident); ok {
			return t.lookup(id.Name)
		}
		return nil
	}
	switch e := errExpr.(type) {
	case *ast.Ident:
		if e.Name == "nil" {
			if !fn.verdict {
				return mk("RetNil")
			}
			switch {
			case isIdent(boolExpr, "true"):
				return mk("RetNil")
			case isIdent(boolExpr, "false"):
				return mk("RetFalse")
			}
			if bv := boolVar(); bv != nil {
				return mk("(RetBoth " + itoa(bv.id) + " 0)")
			}
			return branch(mk("RetNil"), mk("RetFalse"))
		}
		if v := t.lookup(e.Name); v != nil {
			if !v.isErr {
				return t.unknown(x, "returns variable "+e.Name+" which is not the result of a tracked call")
			}
			if !fn.verdict || isIdent(boolExpr, "true") {
				return mk("(RetReg " + itoa(v.id) + ")")
			}
			if isIdent(boolExpr, "false") {
				return seq(&S{op: "IfErr", site: site, n1: v.id, h: "Propagate"}, mk("RetFalse"))
			}
			if bv := boolVar(); bv != nil {
				return mk("(RetBoth " + itoa(bv.id) + " " + itoa(v.id) + ")")
			}
			return seq(&S{op: "IfErr", site: site, n1: v.id, h: "Propagate"}, branch(mk("RetNil"), mk("RetFalse")))
		}
		return mk("RetFresh") // a package-level error value
	case *ast.CallExpr:
		ci := t.classify(e)
		if ci.kind == kErrCtor {
			if n, w := t.scanAll(e.Args...); n != nil {
				return t.unknown(n, w)
			}
			return mk("RetFresh")
		}
		if ci.kind == kPure {
			if n, w := t.scan(e); n != nil {
				return t.unknown(n, w)
			}
			return mk("RetFresh") // conversion to an error type
		}
		ev := t.fresh("_ret", nil)
		ev.isErr = true
		c := t.tailCall(x, e, ev)
		if fn.verdict && !isIdent(boolExpr, "true") {
			return seq(c.s, &S{op: "IfErr", site: site, n1: ev.id, h: "Propagate"}, branch(mk("RetNil"), mk("RetFalse")))
		}
		return seq(c.s, mk("(RetReg "+itoa(ev.id)+")"))
	}
	if n, w := t.scan(errExpr); n != nil {
		return t.unknown(n, w)
	}
	if t.mentionsErrVar(errExpr) {
		return t.unknown(x, "returns an expression over an error variable")
	}
	return mk("RetFresh") // composite literal, selector of a package-level error, ...
}

type tail struct {
	s  *S
	bv *Var
}

// return f(...): the call's results are the function's results
func (t *tr) tailCall(at ast.Node, call *ast.CallExpr, ev *Var) tail {
	ci := t.classify(call)
	site := t.site(at)
	if ci.kind == kBad {
		return tail{s: t.unknown(call, ci.why)}
	}
	if ci.kind == kPure || ci.hasErr == no {
		return tail{s: t.unknown(call, "tail call of "+ci.name+", which has no error result")}
	}
	// forwarding and threading inside a tail call
	if len(call.Args) == 1 {
		if inner, ok := unparen(call.Args[0]).(*ast.CallExpr); ok {
			ii := t.classify(inner)
			if ci.errParam && ii.kind != kPure && ii.kind != kErrCtor && (ii.hasErr == yes || (ii.hasErr == unknown && ii.nres != 1)) {
				if ii.kind == kBad {
					return tail{s: t.unknown(inner, ii.why)}
				}
				if n, w := t.scanAll(inner.Args...); n != nil {
					return tail{s: t.unknown(n, w)}
				}
				tmp := t.fresh("_fw", nil)
				tmp.isErr = true
				var bvi *Var
				if ii.verdict {
					bvi = t.fresh("_", nil)
				}
				first := t.emitCall(t.site(inner), inner, ii, tmp, bvi)
				if ci.kind == kStatic {
					for _, f := range ci.targets {
						t.calls = append(t.calls, f)
					}
				}
				second := &S{op: "CallThread", site: site, name: ci.name, n1: tmp.id, n2: ev.id}
				return tail{s: seq(first, second)}
			}
		}
	}
	if n := len(call.Args); n > 0 {
		if id, ok := unparen(call.Args[n-1]).(*ast.Ident); ok {
			if v := t.lookup(id.Name); v != nil && v.isErr {
				if !ci.errParam {
					return tail{s: t.unknown(call, "an error variable is handed to "+ci.name+" whose last parameter is not known to be an error")}
				}
				if nn, w := t.scanAll(call.Args[:n-1]...); nn != nil {
					return tail{s: t.unknown(nn, w)}
				}
				if ci.kind == kStatic {
					for _, f := range ci.targets {
						t.calls = append(t.calls, f)
					}
				}
				return tail{s: &S{op: "CallThread", site: site, name: ci.name, n1: v.id, n2: ev.id}}
			}
		}
	}
	var args []ast.Expr
	for _, a := range call.Args {
		if t.fn.ctxParam != "" && isIdent(unparen(a), t.fn.ctxParam) && t.lookup(t.fn.ctxParam) == t.ctxVar {
			continue
		}
		args = append(args, a)
	}
	if s, ok := unparen(call.Fun).(*ast.SelectorExpr); ok && ci.kind != kPoll {
		args = append(args, s.X)
	}
	if n, w := t.scanAll(args...); n != nil {
		return tail{s: t.unknown(n, w)}
	}
	for _, a := range args {
		if t.mentionsErrVar(a) {
			return tail{s: t.unknown(a, "an error variable is read by an argument of "+ci.name)}
		}
	}
	if ci.hasErr == unknown {
		t.nUnkSig++ // the enclosing function returns an error here, so the callee's last result is one
	}
	var bv *Var
	if ci.verdict {
		bv = t.fresh("_retok", nil)
	}
	return tail{s: t.emitCall(site, call, ci, ev, bv), bv: bv}
}

// ---------- if ----------

// condition shapes
func (t *tr) errTest(cond ast.Expr) (v *Var, nonNil bool, ok bool) {
	b, isBin := unparen(cond).(*ast.BinaryExpr)
	if !isBin || (b.Op != token.NEQ && b.Op != token.EQL) {
		return nil, false, false
	}
	var id *ast.Ident
	if isNil(b.Y) {
		id, _ = unparen(b.X).(*ast.Ident)
	} else if isNil(b.X) {
		id, _ = unparen(b.Y).(*ast.Ident)
	}
	if id == nil {
		return nil, false, false
	}
	vv := t.lookup(id.Name)
	if vv == nil || !vv.isErr || vv.owner != t {
		return nil, false, false
	}
	return vv, b.Op == token.NEQ, true
}

func (t *tr) isVerdictVar(v *Var) bool { return v != nil && t.verdictVars[v.id] }

func (t *tr) verdictTest(cond ast.Expr) (v *Var, negated bool, ok bool) {
	c := unparen(cond)
	if u, isU := c.(*ast.UnaryExpr); isU && u.Op == token.NOT {
		if id, isId := unparen(u.X).(*ast.Ident); isId {
			if vv := t.lookup(id.Name); t.isVerdictVar(vv) {
				return vv, true, true
			}
		}
		return nil, false, false
	}
	if id, isId := c.(*ast.Ident); isId {
		if vv := t.lookup(id.Name); t.isVerdictVar(vv) {
			return vv, false, true
		}
	}
	return nil, false, false
}

// pure: a statement of a handler block that neither calls anything tracked nor touches error variables
func (t *tr) pureStmt(s ast.Stmt) bool {
	save := len(t.unknowns)
	saveCalls := len(t.calls)
	saveStats := map[string]int{}
	for k, v := range t.goStmts {
		saveStats[k] = v
	}
	saveVar := t.nextVar
	t.push()
	r := t.stmt(s)
	t.pop()
	okp := r.op == "Skip" && len(t.unknowns) == save
	t.unknowns = t.unknowns[:save]
	if !okp {
		t.calls = t.calls[:saveCalls]
		t.nextVar = saveVar
	}
	t.goStmts = saveStats
	return okp
}

// handler classifies the block of `if v != nil { ... }`
func (t *tr) handler(body *ast.BlockStmt, v *Var) (string, bool) {
	list := body.List
	if len(list) == 0 {
		return "Drop", true
	}
	for _, s := range list[:len(list)-1] {
		if !t.pureStmt(s) {
			return "", false
		}
	}
	switch last := list[len(list)-1].(type) {
	case *ast.ReturnStmt:
		if len(last.Results) == 0 {
			if t.namedErr != nil && t.namedErr == v {
				return "Propagate", true
			}
			return "", false
		}
		if t.fn.errIdx < 0 || len(last.Results) != t.fn.nres {
			return "", false
		}
		for i, r := range last.Results {
			if i == t.fn.errIdx {
				continue
			}
			if n, _ := t.scan(r); n != nil || t.mentionsErrVar(r) {
				return "", false
			}
		}
		e := unparen(last.Results[t.fn.errIdx])
		if isNil(e) {
			return "ReturnNil", true
		}
		if id, ok := e.(*ast.Ident); ok {
			if w := t.lookup(id.Name); w != nil {
				if w == v {
					return "Propagate", true
				}
				return "", false
			}
			return "Wrap", true // package-level error value
		}
		if n, _ := t.scan(e); n != nil {
			return "", false
		}
		return "Wrap", true
	case *ast.ExprStmt:
		if call, ok := unparen(last.X).(*ast.CallExpr); ok && isIdent(call.Fun, "panic") && t.lookup("panic") == nil {
			return "PanicH", true
		}
	case *ast.BranchStmt:
		if last.Label == nil && (last.Tok == token.CONTINUE || last.Tok == token.BREAK) {
			return "Drop", true
		}
	}
	if t.pureStmt(list[len(list)-1]) {
		return "Drop", true
	}
	return "", false
}

func (t *tr) vhandler(body *ast.BlockStmt) (string, bool) {
	list := body.List
	if len(list) == 0 {
		return "VIgnore", true
	}
	for _, s := range list[:len(list)-1] {
		if !t.pureStmt(s) {
			return "", false
		}
	}
	switch last := list[len(list)-1].(type) {
	case *ast.ReturnStmt:
		if t.fn.errIdx < 0 || len(last.Results) != t.fn.nres {
			return "", false
		}
		for i, r := range last.Results {
			if i == t.fn.errIdx {
				continue
			}
			if n, _ := t.scan(r); n != nil || t.mentionsErrVar(r) {
				return "", false
			}
		}
		e := unparen(last.Results[t.fn.errIdx])
		if isNil(e) {
			if t.fn.verdict && isIdent(unparen(last.Results[0]), "false") {
				return "VPass", true
			}
			return "VReturnNil", true
		}
		if id, ok := e.(*ast.Ident); ok && t.lookup(id.Name) != nil {
			return "", false
		}
		if n, _ := t.scan(e); n != nil {
			return "", false
		}
		return "VToErr", true
	case *ast.ExprStmt:
		if call, ok := unparen(last.X).(*ast.CallExpr); ok && isIdent(call.Fun, "panic") && t.lookup("panic") == nil {
			return "VPanic", true
		}
	case *ast.BranchStmt:
		if last.Label == nil && (last.Tok == token.CONTINUE || last.Tok == token.BREAK) {
			return "VIgnore", true
		}
	}
	if t.pureStmt(list[len(list)-1]) {
		return "VIgnore", true
	}
	return "", false
}

func returnsAlways(h string) bool {
	switch h {
	case "Propagate", "Wrap", "ReturnNil", "PanicH", "VToErr", "VPass", "VReturnNil", "VPanic":
		return true
	}
	return false
}

func (t *tr) ifStmt(x *ast.IfStmt) *S {
	t.push()
	defer t.pop()
	init := t.stmt(x.Init)
	site := t.site(x)
	elseS := func() *S {
		if x.Else == nil {
			return skip
		}
		return t.stmt(x.Else)
	}
	// `if ctx.Err() != nil { ... }`
	if b, ok := unparen(x.Cond).(*ast.BinaryExpr); ok && (b.Op == token.NEQ) && isNil(b.Y) {
		if call, ok := unparen(b.X).(*ast.CallExpr); ok {
			if ci := t.classify(call); ci.kind == kPoll {
				tmp := t.fresh("_poll", nil)
				tmp.isErr = true
				h, okh := t.handler(x.Body, tmp)
				if !okh {
					return seq(init, t.unknown(x.Body, "unclassified error handler"))
				}
				if h == "Propagate" {
					h = "Wrap"
				}
				rest := elseS()
				if !returnsAlways(h) {
					rest = branch(rest, skip)
				}
				return seq(init, &S{op: "Poll", site: site, n1: tmp.id}, &S{op: "IfErr", site: site, n1: tmp.id, h: h}, rest)
			}
		}
	}
	if v, nonNil, ok := t.errTest(x.Cond); ok {
		if nonNil {
			h, okh := t.handler(x.Body, v)
			if !okh {
				return seq(init, t.unknown(x.Body, "unclassified error handler"))
			}
			rest := elseS()
			if !returnsAlways(h) {
				rest = branch(rest, skip)
			}
			return seq(init, &S{op: "IfErr", site: site, n1: v.id, h: h}, rest)
		}
		// if v == nil { A } else { handler }
		if eb, ok := x.Else.(*ast.BlockStmt); ok {
			h, okh := t.handler(eb, v)
			if okh && returnsAlways(h) {
				return seq(init, &S{op: "IfErr", site: site, n1: v.id, h: h}, t.scoped(x.Body.List))
			}
		}
		return seq(init, t.unknown(x, "test `err == nil` without a returning else"))
	}
	if v, negated, ok := t.verdictTest(x.Cond); ok {
		if negated {
			h, okh := t.vhandler(x.Body)
			if !okh {
				return seq(init, t.unknown(x.Body, "unclassified verdict handler"))
			}
			rest := elseS()
			if !returnsAlways(h) {
				rest = branch(rest, skip)
			}
			return seq(init, &S{op: "CheckVerdict", site: site, n1: v.id, h: h}, rest)
		}
		if eb, ok := x.Else.(*ast.BlockStmt); ok {
			h, okh := t.vhandler(eb)
			if okh && returnsAlways(h) {
				return seq(init, &S{op: "CheckVerdict", site: site, n1: v.id, h: h}, t.scoped(x.Body.List))
			}
		}
		return seq(init, t.unknown(x, "test of a verdict without a returning else"))
	}
	if n, w := t.scan(x.Cond); n != nil {
		return seq(init, t.unknown(n, w))
	}
	if t.mentionsErrVar(x.Cond) || t.mentionsVerdictVar(x.Cond) {
		return seq(init, t.unknown(x.Cond, "condition combines an error/verdict variable with something else"))
	}
	thenS := t.scoped(x.Body.List)
	return seq(init, branch(thenS, elseS()))
}

func (t *tr) mentionsVerdictVar(e ast.Expr) bool {
	found := false
	ast.Inspect(e, func(n ast.Node) bool {
		switch x := n.(type) {
		case *ast.FuncLit:
			return false
		case *ast.SelectorExpr:
			return true
		case *ast.Ident:
			if v := t.lookup(x.Name); t.isVerdictVar(v) {
				found = true
			}
		}
		return true
	})
	return found
}

// name := func(...) (..., error) { ... }: the closure becomes a function of the table, translated where it is
// defined (its free variables resolve in the enclosing scopes; it may not touch the enclosing error variables).
func (t *tr) localClosure(x *ast.AssignStmt, id *ast.Ident, fl *ast.FuncLit) *S {
	s := sigOf(fl.Type)
	v := t.declare(id.Name, nil)
	if !s.errLast {
		// no error result: opaque data unless it can see the context or the engine
		if n, w := t.scanFuncLit(fl); n != nil {
			return t.unknown(n, w)
		}
		return skip
	}
	sub := &Fn{pkg: t.fn.pkg, file: t.fn.file, name: id.Name, id: t.fn.id + "$" + id.Name, nparams: s.nparams, variadic: s.variadic,
		nres: s.nres, errIdx: s.nres - 1, decl: &ast.FuncDecl{Name: id, Type: fl.Type, Body: fl.Body}}
	rs := flattenFields(fl.Type.Results)
	if len(rs) == 2 && isIdent(rs[0].Type, "bool") {
		sub.boolErr = true
	}
	ps := flattenFields(fl.Type.Params)
	for _, q := range ps {
		if isContextType(q.Type) && len(q.Names) > 0 {
			sub.ctxParam = q.Names[0].Name
		}
	}
	if s.errParam && len(ps[len(ps)-1].Names) > 0 {
		sub.errParam = ps[len(ps)-1].Names[0].Name
	}
	captures := false
	if sub.ctxParam == "" && t.fn.ctxParam != "" && t.lookup(t.fn.ctxParam) == t.ctxVar {
		ast.Inspect(fl.Body, func(n ast.Node) bool {
			if i, ok := n.(*ast.Ident); ok && i.Name == t.fn.ctxParam {
				captures = true
			}
			return true
		})
		if captures {
			sub.ctxParam = t.fn.ctxParam
		}
	}
	// a (bool, error) closure that reaches the engine
	if sub.boolErr {
		ast.Inspect(fl.Body, func(n ast.Node) bool {
			if se, ok := n.(*ast.SelectorExpr); ok {
				if _, ok := engineMethods[se.Sel.Name]; ok {
					sub.verdict = true
				}
			}
			return true
		})
	}
	st := &tr{fn: sub, goStmts: map[string]int{}, verdictVars: map[int]bool{}}
	for _, sc := range t.scopes {
		cp := map[string]*Var{}
		for k, w := range sc {
			cp[k] = w
		}
		st.scopes = append(st.scopes, cp)
	}
	st.push()
	if captures {
		st.ctxVar = t.ctxVar
	}
	for _, f := range ps {
		if len(f.Names) > 0 {
			w := st.declare(f.Names[0].Name, f.Type)
			if f.Names[0].Name == sub.ctxParam && isContextType(f.Type) {
				st.ctxVar = w
			}
		}
	}
	for i, f := range rs {
		if len(f.Names) > 0 {
			w := st.declare(f.Names[0].Name, f.Type)
			if i == sub.errIdx {
				st.namedErr = w
			}
			if i == 0 && sub.boolErr {
				st.namedOk = w
			}
		}
	}
	out := &fnOut{fn: sub}
	if sub.errParam != "" {
		if w := st.lookup(sub.errParam); w != nil {
			out.errVar = w.id
		}
	}
	st.push()
	out.body = st.block(fl.Body.List)
	out.unknowns, out.goStmts, out.nUnkSig, out.lhsTyped = st.unknowns, st.goStmts, st.nUnkSig, st.lhsTyped
	t.extra = append(t.extra, out)
	t.extra = append(t.extra, st.extra...)
	t.calls = append(t.calls, st.calls...)
	v.localFn = sub
	return skip
}
