package main

import (
	"go/ast"
	"regexp"
	"strings"
)

const (
	kPure    = iota // builtin, conversion, or a callee known to have no error result
	kErrCtor        // fmt.Errorf / errors.New: builds a fresh non-nil error
	kPoll           // ctx.Err()
	kEngine         // method of an ExecutionEngine interface
	kStatic         // one or more function bodies of the repository (dynamic dispatch: several)
	kLib            // library leaf / unresolved callee
	kBad            // something that must not be skipped (ctx handed to a leaf, ctx.Done(), context.With..., call of a func literal)
)

const (
	no      = 0
	yes     = 1
	unknown = -1
)

type callInfo struct {
	kind      int
	name      string
	targets   []*Fn
	libAlt    bool // dynamic dispatch may also reach a type outside the parsed packages
	hasErr    int  // last result is an error: yes / no / unknown
	nres      int  // number of results, -1 unknown
	verdict   bool // results are (bool, error) carrying an engine verdict
	errParam  bool // the callee's last parameter is an error (threaded idiom)
	passesCtx bool
	why       string // for kBad
}

var builtins = map[string]bool{"len": true, "cap": true, "append": true, "make": true, "new": true, "copy": true, "delete": true,
	"panic": true, "print": true, "println": true, "min": true, "max": true, "close": true, "clear": true, "recover": true,
	"complex": true, "real": true, "imag": true}

var universeTypes = map[string]bool{"bool": true, "byte": true, "rune": true, "string": true, "int": true, "int8": true, "int16": true,
	"int32": true, "int64": true, "uint": true, "uint8": true, "uint16": true, "uint32": true, "uint64": true, "uintptr": true,
	"float32": true, "float64": true, "error": true, "any": true}

var errishRe = regexp.MustCompile(`^err$|^err[A-Z0-9_]|Err$|Error$`)

func errish(name string) bool { return errishRe.MatchString(name) }

func unparen(e ast.Expr) ast.Expr {
	for {
		p, ok := e.(*ast.ParenExpr)
		if !ok {
			return e
		}
		e = p.X
	}
}

// combine every known signature of a method name (with a fitting arity)
func methodSigSummary(name string, nargs int) (hasErr int, nres int, errParam bool, found bool) {
	hasErr, nres = unknown, -1
	first := true
	allErrParam := true
	for _, s := range sigsByMethod[name] {
		if !(s.nparams == nargs || (s.variadic && nargs >= s.nparams-1)) {
			continue
		}
		found = true
		h := no
		if s.errLast {
			h = yes
		}
		if first {
			hasErr, nres, first = h, s.nres, false
		} else {
			if hasErr != h {
				hasErr = unknown
			}
			if nres != s.nres {
				nres = -1
			}
		}
		if !s.errParam {
			allErrParam = false
		}
	}
	errParam = found && allErrParam
	return
}

// do the same-named methods with `nargs` parameters and exactly `nres` results agree on a final error result?
func methodErrByArity(name string, nargs, nres int) int {
	out, first := unknown, true
	for _, s := range sigsByMethod[name] {
		if !(s.nparams == nargs || (s.variadic && nargs >= s.nparams-1)) || s.nres != nres {
			continue
		}
		h := no
		if s.errLast {
			h = yes
		}
		if first {
			out, first = h, false
		} else if out != h {
			return unknown
		}
	}
	return out
}

func (t *tr) passesCtx(call *ast.CallExpr) bool {
	if t.fn.ctxParam == "" {
		return false
	}
	for _, a := range call.Args {
		if isIdent(unparen(a), t.fn.ctxParam) && t.lookup(t.fn.ctxParam) == t.ctxVar {
			return true
		}
	}
	return false
}

func (t *tr) isPkgName(id *ast.Ident) (string, bool) {
	if t.lookup(id.Name) != nil {
		return "", false
	}
	p, ok := t.fn.file.imports[id.Name]
	return p, ok
}

// resolve a type expression to a declared type of a parsed package
func (t *tr) resolveType(e ast.Expr) (*Pkg, string, bool) {
	for {
		switch x := e.(type) {
		case *ast.StarExpr:
			e = x.X
			continue
		case *ast.ParenExpr:
			e = x.X
			continue
		}
		break
	}
	switch x := e.(type) {
	case *ast.Ident:
		if _, ok := t.fn.pkg.types[x.Name]; ok {
			return t.fn.pkg, x.Name, true
		}
		for _, d := range t.fn.file.dots {
			if p := pkgsByPath[d]; p != nil {
				if _, ok := p.types[x.Name]; ok {
					return p, x.Name, true
				}
			}
		}
	case *ast.SelectorExpr:
		if id, ok := x.X.(*ast.Ident); ok {
			if path, ok := t.fn.file.imports[id.Name]; ok {
				if p := pkgsByPath[path]; p != nil {
					if _, ok := p.types[x.Sel.Name]; ok {
						return p, x.Sel.Name, true
					}
				}
			}
		}
	}
	return nil, "", false
}

func fieldTypeName(e ast.Expr) string {
	for {
		switch x := e.(type) {
		case *ast.StarExpr:
			e = x.X
			continue
		case *ast.ParenExpr:
			e = x.X
			continue
		case *ast.SelectorExpr:
			return x.Sel.Name
		case *ast.Ident:
			return x.Name
		}
		return ""
	}
}

// resolve a type expression written in a file of package p (field types of p's structs)
func resolveTypeIn(p *Pkg, e ast.Expr) (*Pkg, string, bool) {
	for {
		switch x := e.(type) {
		case *ast.StarExpr:
			e = x.X
			continue
		case *ast.ParenExpr:
			e = x.X
			continue
		}
		break
	}
	switch x := e.(type) {
	case *ast.Ident:
		if _, ok := p.types[x.Name]; ok {
			return p, x.Name, true
		}
		for _, f := range p.files {
			for _, d := range f.dots {
				if q := pkgsByPath[d]; q != nil {
					if _, ok := q.types[x.Name]; ok {
						return q, x.Name, true
					}
				}
			}
		}
	case *ast.SelectorExpr:
		if id, ok := x.X.(*ast.Ident); ok {
			for _, f := range p.files {
				if path, ok := f.imports[id.Name]; ok {
					if q := pkgsByPath[path]; q != nil {
						if _, ok := q.types[x.Sel.Name]; ok {
							return q, x.Sel.Name, true
						}
					}
				}
			}
		}
	}
	return nil, "", false
}

// the static type of a receiver expression, when the source says it in so many words
func (t *tr) receiverType(e ast.Expr) (*Pkg, string, bool) {
	e = unparen(e)
	switch x := e.(type) {
	case *ast.Ident:
		if v := t.lookup(x.Name); v != nil && v.typ != nil {
			return t.resolveType(v.typ)
		}
	case *ast.SelectorExpr:
		// x.F where x has a declared struct type of a parsed package and F is one of its (possibly embedded) fields
		if p, tn, ok := t.receiverType(x.X); ok {
			if st, ok := p.types[tn].(*ast.StructType); ok {
				for _, f := range st.Fields.List {
					if len(f.Names) == 0 {
						if fieldTypeName(f.Type) == x.Sel.Name {
							return resolveTypeIn(p, f.Type)
						}
						continue
					}
					for _, n := range f.Names {
						if n.Name == x.Sel.Name {
							return resolveTypeIn(p, f.Type)
						}
					}
				}
			}
		}
	case *ast.UnaryExpr:
		if cl, ok := x.X.(*ast.CompositeLit); ok && cl.Type != nil {
			return t.resolveType(cl.Type)
		}
	case *ast.CompositeLit:
		if x.Type != nil {
			return t.resolveType(x.Type)
		}
	}
	return nil, "", false
}

func arityFits(fn *Fn, nargs int) bool {
	return fn.nparams == nargs || (fn.variadic && nargs >= fn.nparams-1)
}

func staticInfo(fns []*Fn, libAlt bool, name string) callInfo {
	ci := callInfo{kind: kStatic, name: name, targets: fns, libAlt: libAlt, hasErr: yes, nres: fns[0].nres}
	allNo := true
	for _, f := range fns {
		if f.errIdx >= 0 {
			allNo = false
		} else {
			ci.hasErr = unknown
		}
		if f.nres != ci.nres {
			ci.nres = -1
		}
		if f.verdict {
			ci.verdict = true
		}
		if f.errParam != "" {
			ci.errParam = true
		}
	}
	if allNo {
		ci.kind, ci.hasErr = kPure, no
	}
	return ci
}

func (t *tr) classify(call *ast.CallExpr) callInfo {
	fun := unparen(call.Fun)
	nargs := len(call.Args)
	pc := t.passesCtx(call)
	switch f := fun.(type) {
	case *ast.SelectorExpr:
		if x, ok := unparen(f.X).(*ast.Ident); ok {
			// ctx.Err()
			if t.fn.ctxParam != "" && x.Name == t.fn.ctxParam && t.lookup(x.Name) == t.ctxVar {
				if f.Sel.Name == "Err" && nargs == 0 {
					return callInfo{kind: kPoll, name: "ctx.Err", hasErr: yes, nres: 1}
				}
				return callInfo{kind: kBad, name: "ctx." + f.Sel.Name, why: "the context is used other than by ctx.Err() or by handing it to a callee"}
			}
			if path, ok := t.isPkgName(x); ok {
				return t.classifyPkgCall(path, x.Name, f.Sel.Name, nargs, pc)
			}
		}
		name := f.Sel.Name
		if (name == "Err" || name == "Done" || name == "Deadline") && nargs == 0 {
			// a context reached through something other than the function's own context parameter
			return callInfo{kind: kBad, name: name, why: "context-style call ." + name + "() on something that is not the function's context parameter"}
		}
		if _, ok := engineMethods[name]; ok {
			return callInfo{kind: kEngine, name: name, hasErr: yes, nres: 2, verdict: true, passesCtx: pc}
		}
		// receiver of a known concrete type with that very method
		if p, tn, ok := t.receiverType(f.X); ok {
			if m := p.methods[tn][name]; m != nil {
				if p.repo {
					ci := staticInfo([]*Fn{m}, false, m.id)
					ci.passesCtx = pc
					return ci
				}
				// a method of a library type whose declaration was parsed: a leaf with a known signature
				if pc {
					return callInfo{kind: kBad, name: name, why: "the context is handed to library method " + p.name + "." + tn + "." + name}
				}
				if m.errIdx < 0 {
					return callInfo{kind: kPure, name: name, hasErr: no, nres: m.nres}
				}
				return callInfo{kind: kLib, name: p.name + "." + tn + "." + name, hasErr: yes, nres: m.nres, errParam: m.errParam != ""}
			}
		}
		var cands []*Fn
		for _, m := range methodsByName[name] {
			if arityFits(m, nargs) {
				cands = append(cands, m)
			}
		}
		if pc {
			var withCtx []*Fn
			for _, m := range cands {
				if m.ctxParam != "" {
					withCtx = append(withCtx, m)
				}
			}
			if len(withCtx) == 0 {
				return callInfo{kind: kBad, name: name, why: "the context is handed to method " + name + " of which no body is known"}
			}
			ci := staticInfo(withCtx, false, name)
			ci.passesCtx = true
			return ci
		}
		hasErr, nres, errParam, _ := methodSigSummary(name, nargs)
		if len(cands) == 1 && followMethods {
			ci := staticInfo(cands, true, name)
			if ci.kind == kPure && hasErr != no {
				// the only body known has no error result, but a same-named method elsewhere has one
				return callInfo{kind: kLib, name: name, hasErr: hasErr, nres: nres, errParam: errParam}
			}
			return ci
		}
		if hasErr == no {
			return callInfo{kind: kPure, name: name, hasErr: no, nres: nres}
		}
		return callInfo{kind: kLib, name: name, hasErr: hasErr, nres: nres, errParam: errParam}
	case *ast.Ident:
		if v := t.lookup(f.Name); v != nil {
			if v.localFn != nil {
				// a closure bound to a local name: a body of the table (it sees the context iff it captures it)
				ci := staticInfo([]*Fn{v.localFn}, false, v.localFn.id)
				ci.passesCtx = pc || v.localFn.ctxParam != ""
				return ci
			}
			// call of a function value held in a local variable / parameter
			if pc {
				return callInfo{kind: kBad, name: f.Name, why: "the context is handed to a function value"}
			}
			return callInfo{kind: kLib, name: f.Name, hasErr: unknown, nres: -1}
		}
		if builtins[f.Name] || universeTypes[f.Name] {
			return callInfo{kind: kPure, name: f.Name, hasErr: no, nres: 1}
		}
		if fn := t.fn.pkg.funcs[f.Name]; fn != nil {
			ci := staticInfo([]*Fn{fn}, false, fn.id)
			ci.passesCtx = pc
			return ci
		}
		if _, ok := t.fn.pkg.types[f.Name]; ok {
			return callInfo{kind: kPure, name: f.Name, hasErr: no, nres: 1}
		}
		for _, d := range t.fn.file.dots {
			if p := pkgsByPath[d]; p != nil {
				if fn := p.funcs[f.Name]; fn != nil {
					return t.pkgFuncInfo(p, fn, pc)
				}
				if _, ok := p.types[f.Name]; ok {
					return callInfo{kind: kPure, name: f.Name, hasErr: no, nres: 1}
				}
			}
		}
		if pc {
			return callInfo{kind: kBad, name: f.Name, why: "the context is handed to an unresolved function"}
		}
		return callInfo{kind: kLib, name: f.Name, hasErr: unknown, nres: -1, errParam: strings.HasPrefix(f.Name, "As")}
	case *ast.FuncLit:
		return callInfo{kind: kBad, name: "func literal", why: "call of a function literal"}
	case *ast.ArrayType, *ast.StarExpr, *ast.MapType, *ast.InterfaceType, *ast.ChanType, *ast.FuncType:
		return callInfo{kind: kPure, name: "conversion", hasErr: no, nres: 1}
	}
	if pc {
		return callInfo{kind: kBad, name: "?", why: "the context is handed to an unresolved callee"}
	}
	return callInfo{kind: kLib, name: "?", hasErr: unknown, nres: -1}
}

func (t *tr) pkgFuncInfo(p *Pkg, fn *Fn, pc bool) callInfo {
	if p.repo {
		ci := staticInfo([]*Fn{fn}, false, fn.id)
		ci.passesCtx = pc
		return ci
	}
	if pc {
		return callInfo{kind: kBad, name: p.name + "." + fn.name, why: "the context is handed to a library function"}
	}
	if fn.errIdx < 0 {
		return callInfo{kind: kPure, name: p.name + "." + fn.name, hasErr: no, nres: fn.nres}
	}
	return callInfo{kind: kLib, name: p.name + "." + fn.name, hasErr: yes, nres: fn.nres, errParam: fn.errParam != ""}
}

func (t *tr) classifyPkgCall(path, local, sel string, nargs int, pc bool) callInfo {
	name := local + "." + sel
	switch path {
	case "fmt":
		if sel == "Errorf" {
			return callInfo{kind: kErrCtor, name: name, hasErr: yes, nres: 1}
		}
		if strings.HasPrefix(sel, "Sprint") {
			return callInfo{kind: kPure, name: name, hasErr: no, nres: 1}
		}
	case "errors":
		if sel == "New" {
			return callInfo{kind: kErrCtor, name: name, hasErr: yes, nres: 1}
		}
		if sel == "Is" || sel == "As" {
			return callInfo{kind: kPure, name: name, hasErr: no, nres: 1}
		}
	case "context":
		return callInfo{kind: kBad, name: name, why: "a context is derived or replaced (" + name + ")"}
	}
	if p := pkgsByPath[path]; p != nil {
		if fn := p.funcs[sel]; fn != nil {
			return t.pkgFuncInfo(p, fn, pc)
		}
		if _, ok := p.types[sel]; ok {
			return callInfo{kind: kPure, name: name, hasErr: no, nres: 1}
		}
	}
	if pc {
		return callInfo{kind: kBad, name: name, why: "the context is handed to " + name + " of which no body is known"}
	}
	return callInfo{kind: kLib, name: name, hasErr: unknown, nres: -1}
}
