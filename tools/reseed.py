#!/usr/bin/env python3
"""Re-run the stored seeded changes against the current checks.
usage: reseed.py [--wt /tmp/reseed-wt] [--only-missed] <seeded-id>... | all
For each id: rebuilds the OUT/<k> layout trymut.py expects from /verif/seeded/<id>/ in a scratch worktree and runs
tools/trymut.py with the checks recorded in its meta.json (all of them, or only the check named after the property)."""
import argparse, json, os, re, shutil, subprocess, sys, glob
ROOT = os.path.dirname(os.path.dirname(os.path.abspath(__file__)))
ap = argparse.ArgumentParser()
ap.add_argument("ids", nargs="+"); ap.add_argument("--wt", default="/tmp/reseed-wt"); ap.add_argument("--own-only", action="store_true")
a = ap.parse_args()
ids = a.ids
if ids == ["all"]:
    ids = sorted(os.path.basename(d) for d in glob.glob(os.path.join(ROOT, "seeded", "*")) if os.path.exists(os.path.join(d, "meta.json")))
if not os.path.exists(a.wt):
    subprocess.run("git -C /repo worktree add --detach %s HEAD" % a.wt, shell=True, check=True, stdout=subprocess.DEVNULL, stderr=subprocess.DEVNULL)
for sid in ids:
    d = os.path.join(ROOT, "seeded", sid)
    meta = json.load(open(os.path.join(d, "meta.json")))
    prop = meta["property"]
    out = os.path.join(a.wt, "OUT", "x")
    shutil.rmtree(os.path.join(a.wt, "OUT"), ignore_errors=True)
    os.makedirs(out)
    shutil.copyfile(os.path.join(d, "patch.diff"), os.path.join(out, "patch.diff"))
    if os.path.exists(os.path.join(d, "demo_test.go.txt")):
        shutil.copyfile(os.path.join(d, "demo_test.go.txt"), os.path.join(out, "demo_test.go"))
    if os.path.exists(os.path.join(d, "README.md")):
        shutil.copyfile(os.path.join(d, "README.md"), os.path.join(out, "README.md"))
    checks = [prop] if a.own_only else sorted(meta.get("detected_by", {}).keys()) or [prop]
    race = " --race" if prop == "C17" else ""
    cmd = "python3 %s/tools/trymut.py %s %s x --checks %s --skip-suite --id %s%s" % (ROOT, prop, a.wt, ",".join(checks), sid, race)
    p = subprocess.run(cmd, shell=True, stdout=subprocess.PIPE, stderr=subprocess.STDOUT, text=True)
    lines = [l for l in p.stdout.splitlines() if re.match(r"^(demo|C\d\d rc|patch)", l)]
    print(sid, " | ".join(l[:160] for l in lines), flush=True)
