#!/usr/bin/env python3
"""Rewrites the generated tail of DESIGN.md (sections 0.3-0.6) from known_findings.json, seeded/*/meta.json, lib/checks."""
import glob, importlib, json, os, re, sys
ROOT = os.path.dirname(os.path.dirname(os.path.abspath(__file__)))
sys.path.insert(0, os.path.join(ROOT, "lib"))
BEGIN = "<!-- GENERATED-TAIL-BEGIN -->"
END = "<!-- GENERATED-TAIL-END -->"

def main():
    out = [BEGIN, "", "---------------------------------------------------------------------------------------------------", "",
           "## 0.3 Defects found in protolambda/zrnt on the unchanged tree (ledger: known_findings.json)", "",
           "Each `fixed` row is one unguarded `fix:` commit in /repo (the existing 795-test suite passes with all of them); each `known` row is announced",
           "by its check as `KNOWN-FINDING:` and matched by a predicate over the failing input, so a different failure of the same property still raises a violation.", "",
           "| prop | status | commit | site | what failed |", "|---|---|---|---|---|"]
    for e in json.load(open(os.path.join(ROOT, "known_findings.json"))):
        what = re.sub(r"^(fixed|known): property=\w+ (\w+ )?", "", e.get("what", "")).replace("|", "/")
        out.append("| %s | %s | %s | `%s` | %s |" % (e["property"], e["status"], e.get("commit", "—"), e["key"]["site"], what[:400]))
    out += ["", "## 0.4 False alarms (machinery wrong, zrnt right) and what was done", ""]
    out.append(open(os.path.join(ROOT, "design", "false_alarms.md")).read())
    out += ["", "## 0.5 Independently seeded breaking changes and which checks catch them", "",
            "Each was written by a fresh sub-agent that saw only the property text and its own scratch worktree (nothing from /verif); each was",
            "re-confirmed here (builds, existing suite passes, demonstration fails with the patch and passes without) before being kept under `seeded/`.", "",
            "| id | files touched | needs, to manifest | caught by (check: result) |", "|---|---|---|---|"]
    for d in sorted(glob.glob(os.path.join(ROOT, "seeded", "*"))):
        mp = os.path.join(d, "meta.json")
        if not os.path.exists(mp):
            continue
        m = json.load(open(mp))
        patch = open(os.path.join(d, "patch.diff")).read() if os.path.exists(os.path.join(d, "patch.diff")) else ""
        files = sorted(set(re.findall(r"^\+\+\+ b/(\S+)", patch, re.M)))
        det = "; ".join("%s: %s" % (c, ("VIOLATION" + (" (no-failing-input-found)" if any("no-failing-input-found" in l for l in r.get("lines", [])) else " with input")) if r.get("violation") else "MISSED")
                        for c, r in m.get("detected_by", {}).items())
        needs = (m.get("needs") or m.get("breaks", "").strip().split("\n")[0])[:220].replace("|", "/")
        out.append("| %s%s | %s | %s | %s |" % (os.path.basename(d), "" if m.get("confirmed", True) else " (unconfirmed)", ", ".join("`%s`" % f for f in files), needs, det))
    # summary of the table above
    tot = own = other = missed = noinput = 0
    missed_ids = []
    for d in sorted(glob.glob(os.path.join(ROOT, "seeded", "*"))):
        mp = os.path.join(d, "meta.json")
        if not os.path.exists(mp):
            continue
        m = json.load(open(mp))
        det = m.get("detected_by", {})
        tot += 1
        pid = m.get("property")
        if det.get(pid, {}).get("violation"):
            own += 1
            if any("no-failing-input-found" in l for l in det[pid].get("lines", [])):
                noinput += 1
        elif any(v.get("violation") for v in det.values()):
            other += 1
        else:
            missed += 1
            missed_ids.append(os.path.basename(d))
    out += ["", "Summary (latest trial of each stored change against the final checks): %d changes; %d caught by the check of the property they were written against"
            " (%d of these only as a broken obligation/correspondence, `no-failing-input-found`); %d caught by the check of a neighbouring property only"
            " (the change sits in that property's code: e.g. shuffling.go changes written against C06 are C07's, pubkey-cache changes written against C08/C15 are C16's);"
            " %d caught by none: %s." % (tot, own, noinput, other, missed, ", ".join(missed_ids) or "-"),
            "Every miss found on the way was turned into generator/harness work (sections 0.2, design/chaingen.md rounds 1-12, design/C12.md, design/C04-C05-C15.md), never into a weaker oracle."]
    out += ["", "### 0.5b Behaviour-preserving refactors (false-alarm trials)", "",
            "Written by a fresh sub-agent told to change the shape of the source only (rename, extract/inline helper, loop form, De Morgan, error text,",
            "defer vs explicit unlock, ...). Every check anchored in the touched files is run against the refactored tree and must stay quiet.", "",
            "| id | files touched | what changed | checks run: result |", "|---|---|---|---|"]
    for d in sorted(glob.glob(os.path.join(ROOT, "benign", "*")), key=lambda x: int(os.path.basename(x)) if os.path.basename(x).isdigit() else 0):
        mp = os.path.join(d, "meta.json")
        if not os.path.exists(mp):
            continue
        m = json.load(open(mp))
        patch = open(os.path.join(d, "patch.diff")).read()
        files = sorted(set(re.findall(r"^\+\+\+ b/(\S+)", patch, re.M)))
        res = "; ".join("%s: %s" % (c, "quiet" if r.get("quiet") else ("ALARM (no-failing-input-found)" if any("no-failing-input-found" in l for l in r.get("lines", [])) else "ALARM")) for c, r in m.get("results", {}).items())
        out.append("| B%s | %s | %s | %s |" % (os.path.basename(d), ", ".join("`%s`" % f for f in files), m.get("what", "").strip().replace("\n", " ").replace("|", "/")[:260], res))
    out += ["", "## 0.6 Per-property status", "", "| prop | claimed | what the check decides (from its MANIFEST text) |", "|---|---|---|"]
    ready = set(open(os.path.join(ROOT, "lib", "checks", "READY")).read().split())
    for i in range(1, 21):
        pid = "C%02d" % i
        try:
            mod = importlib.import_module("checks." + pid.lower())
            txt = getattr(mod, "MANIFEST", {}).get("text", "")
        except Exception as e:  # noqa
            txt = ""
        out.append("| %s | %s | %s |" % (pid, "yes" if pid in ready else "not yet", txt.replace("|", "/")[:700]))
    out += ["", "## 0.7 Trusted base as built (from the last evidence files; see also section 3)", "",
            "| prop | property theorems | axioms reported by Print Assumptions | extraction | translator | per-area notes |", "|---|---|---|---|---|---|"]
    extr = {"C01", "C02", "C03", "C07", "C08", "C13", "C18"}
    trans = {"C04": "tools/go2coq", "C05": "tools/go2coq", "C15": "tools/go2coq", "C14": "tools/cfg2coq", "C17": "tools/locks2coq", "C18": "tools/errflow2coq"}
    notes = {"C01": "design/C01-C03-refine.md, design/chain-format.md, design/chaingen.md", "C02": "design/C02-refine.md", "C03": "design/C01-C03-refine.md",
             "C04": "design/C04-C05-C15.md", "C05": "design/C04-C05-C15.md", "C15": "design/C04-C05-C15.md", "C06": "design/C06.md", "C07": "design/C06.md (bridge)",
             "C08": "design/C08-proofs.md", "C09": "design/C09-C11.md", "C10": "design/C09-C11.md", "C11": "design/C09-C11.md", "C12": "design/C12.md",
             "C13": "design/chaingen.md", "C14": "design/C14.md", "C16": "design/C16.md", "C17": "design/C17.md", "C18": "design/C18.md", "C19": "section 4/C19", "C20": "design/C20.md"}
    for i in range(1, 21):
        pid = "C%02d" % i
        ep = os.path.join(ROOT, "evidence", pid + ".json")
        if not os.path.exists(ep):
            out.append("| %s | — | — | — | — | %s |" % (pid, notes.get(pid, "")))
            continue
        ev = json.load(open(ep))
        pa = ev["coverage"].get("print_assumptions", {})
        ax = sorted(set(v for v in pa.values() if v != "Closed under the global context"))
        out.append("| %s | %d | %s | %s | %s | %s |" % (
            pid, len(ev["coverage"].get("theorems", [])), "none (all closed under the global context)" if not ax else "; ".join(a.replace("\n", " ")[:200] for a in ax),
            "ExtrOcamlBasic + ExtrOcamlNativeString + ExtrOCamlInt63 (beacon model -> .build/modelrun)" if pid in extr else "none (vm_compute inside Coq)",
            trans.get(pid, "none (hand-written model, differential tie)"), notes.get(pid, "")))
    out += ["", "Always trusted: the Coq 8.16.1 kernel and its vm_compute machine (native_compute is not used; `coqchk` re-checks the property closure in the",
            "thorough tier), the Go toolchain/runtime, the harnesses and drivers under harness/, lib/, ocaml/, and — for the beacon family — the hand",
            "transliteration of the consensus pyspec in coq/Beacon/Spec (no pyspec is available offline).", "", END, ""]
    p = os.path.join(ROOT, "DESIGN.md")
    s = open(p).read()
    if BEGIN in s:
        s = s[:s.index(BEGIN)] + "\n".join(out) + s[s.index(END) + len(END):]
    else:
        s = s.rstrip("\n") + "\n\n" + "\n".join(out)
    open(p, "w").write(s)
    print("DESIGN.md tail regenerated")

if __name__ == "__main__":
    main()
