module locks2coq

go 1.21
