package main

import (
	"os"
	"fmt"
	"go/ast"
	"go/token"
	"sort"
	"strings"
)

// classInfo: what the walker needs to know about the struct whose methods are translated
type classInfo struct {
	pkg       *pkgInfo
	name      string
	st        *ast.StructType
	mutex     string // field name; "" + embedded=true for an embedded mutex; "" + embedded=false: no mutex
	embedded  bool
	rw        bool
	hasMutex  bool
	fields    map[string]ast.Expr // all named fields (without the mutex)
	immutable map[string]bool
	methods   map[string]*ast.FuncDecl
	sub       map[string]*subSummary // field -> effect summary of the owned sub-object
	isSub     bool                   // this class is itself analysed as a sub-object (no mutex; every field counts as guarded)
}

type subSummary struct {
	typ     string
	writes  map[string]bool // method -> mutates the sub-object
	leaks   map[string]bool // method -> returns a reference to internal state
	known   map[string]bool
	unknown []string
}

func findStruct(p *pkgInfo, name string) (*ast.StructType, error) {
	ts, ok := p.types[name]
	if !ok {
		return nil, fmt.Errorf("type %s not found in %s", name, p.dir)
	}
	st, ok := ts.Type.(*ast.StructType)
	if !ok {
		return nil, fmt.Errorf("type %s in %s is not a struct", name, p.dir)
	}
	return st, nil
}

func newClassInfo(p *pkgInfo, name string, isSub bool) (*classInfo, error) {
	st, err := findStruct(p, name)
	if err != nil {
		return nil, err
	}
	ci := &classInfo{pkg: p, name: name, st: st, fields: map[string]ast.Expr{}, immutable: map[string]bool{},
		methods: p.methods[name], sub: map[string]*subSummary{}, isSub: isSub}
	for _, f := range st.Fields.List {
		if rw, ok := isMutexType(f.Type); ok {
			if ci.hasMutex {
				return nil, fmt.Errorf("%s has more than one mutex field", name)
			}
			ci.hasMutex, ci.rw = true, rw
			if len(f.Names) == 0 {
				ci.embedded = true
			} else {
				ci.mutex = f.Names[0].Name
			}
			continue
		}
		if len(f.Names) == 0 {
			ci.fields[typeString(f.Type)] = f.Type // embedded non-mutex struct: addressed by its type name
			continue
		}
		for _, n := range f.Names {
			ci.fields[n.Name] = f.Type
		}
	}
	if !isSub {
		for _, f := range immutableFields[name] {
			if _, ok := ci.fields[f]; !ok {
				return nil, fmt.Errorf("immutable table names %s.%s which does not exist", name, f)
			}
			ci.immutable[f] = true
		}
	}
	return ci, nil
}

// ---- sub-object summaries ----
func ifaceMethods(p *pkgInfo, name string, seen map[string]bool) []string {
	if seen[name] {
		return nil
	}
	seen[name] = true
	ts, ok := p.types[name]
	if !ok {
		return nil
	}
	it, ok := ts.Type.(*ast.InterfaceType)
	if !ok {
		return nil
	}
	var out []string
	for _, m := range it.Methods.List {
		if len(m.Names) > 0 {
			out = append(out, m.Names[0].Name)
		} else if id, ok := m.Type.(*ast.Ident); ok {
			out = append(out, ifaceMethods(p, id.Name, seen)...)
		}
	}
	return out
}

func subDirs(root string) []string {
	// the interface's package directory and its direct sub-directories
	out := []string{root}
	ents, err := readDirNames(root)
	if err == nil {
		for _, e := range ents {
			out = append(out, root+"/"+e)
		}
	}
	return out
}

func summarise(owner *pkgInfo, so subObject) (*subSummary, string) {
	ifp, err := loadPkg(so.searchDir)
	if err != nil {
		return nil, err.Error()
	}
	want := ifaceMethods(ifp, so.iface, map[string]bool{})
	if len(want) == 0 {
		return nil, "interface " + so.iface + " not found"
	}
	type cand struct {
		p    *pkgInfo
		name string
	}
	var cands []cand
	for _, d := range subDirs(so.searchDir) {
		p, err := loadPkg(d)
		if err != nil || p.name == "" {
			continue
		}
		for tn, ms := range p.methods {
			if _, isStruct := p.types[tn]; !isStruct {
				continue
			}
			if _, ok := p.types[tn].Type.(*ast.StructType); !ok {
				continue
			}
			all := true
			for _, m := range want {
				if _, ok := ms[m]; !ok {
					all = false
					break
				}
			}
			if all {
				cands = append(cands, cand{p, tn})
			}
		}
	}
	if len(cands) != 1 {
		return nil, fmt.Sprintf("%d implementations of %s found below %s (need exactly 1)", len(cands), so.iface, so.searchDir)
	}
	c := cands[0]
	ci, err := newClassInfo(c.p, c.name, true)
	if err != nil {
		return nil, err.Error()
	}
	if ci.hasMutex {
		return nil, "sub-object type " + c.name + " has a mutex of its own"
	}
	sum := &subSummary{typ: c.p.name + "." + c.name, writes: map[string]bool{}, leaks: map[string]bool{}, known: map[string]bool{}}
	direct := map[string]bool{}
	calls := map[string][]string{}
	for _, mn := range sortedKeys(ci.methods) {
		w := newWalker(ci, ci.methods[mn])
		paths := w.run()
		sum.known[mn] = true
		for _, p := range paths {
			for _, e := range p {
				switch e.Kind {
				case "Write", "Unknown":
					direct[mn] = true // unknown constructs count as mutation (conservative)
					if e.Kind == "Unknown" {
						sum.unknown = append(sum.unknown, mn+": "+e.Pos+" "+e.A)
					}
				case "Leak":
					sum.leaks[mn] = true
					if os.Getenv("LOCKS2COQ_DEBUG") != "" {
						fmt.Println("leak in sub-object method", mn, "at", e.Pos, "of", e.A)
					}
				case "CallExported", "CallInternal":
					calls[mn] = append(calls[mn], e.B)
				}
			}
		}
	}
	for mn := range direct {
		sum.writes[mn] = true
	}
	for changed := true; changed; {
		changed = false
		for mn, cs := range calls {
			if sum.writes[mn] {
				continue
			}
			for _, c := range cs {
				if sum.writes[c] {
					sum.writes[mn] = true
					changed = true
					break
				}
			}
		}
	}
	return sum, ""
}

// ---- one class ----
func translateClass(t target) (*classOut, error) {
	p, err := loadPkg(t.dir)
	if err != nil {
		return nil, err
	}
	ci, err := newClassInfo(p, t.typ, false)
	if err != nil {
		return nil, err
	}
	subErr := map[string]string{}
	for f := range ci.fields {
		if so, ok := subObjects[t.typ+"."+f]; ok {
			sum, msg := summarise(p, so)
			if sum == nil {
				subErr[f] = msg
			} else {
				ci.sub[f] = sum
				debugSummaries[t.typ+"."+f] = sum
			}
		}
	}
	out := &classOut{Name: t.typ, Dir: t.dir, RW: ci.rw}
	if ci.hasMutex {
		out.Mutex = ci.mutex
		if ci.embedded {
			out.Mutex = "(embedded)"
		}
	}
	for f := range ci.fields {
		if ci.immutable[f] {
			out.Immutable = append(out.Immutable, f)
		} else {
			out.Guarded = append(out.Guarded, f) // every other field is guarded by the struct's mutex
		}
	}
	sort.Strings(out.Guarded)
	sort.Strings(out.Immutable)
	type mres struct {
		name  string
		paths [][]event
		decl  *ast.FuncDecl
	}
	var res []mres
	for _, mn := range sortedKeys(ci.methods) {
		w := newWalker(ci, ci.methods[mn])
		w.subErr = subErr
		res = append(res, mres{mn, w.run(), ci.methods[mn]})
	}
	// writes to fields of this type from plain functions of the package that are not constructors
	for _, fn := range p.funcs {
		if fn.Body == nil || isConstructorName(fn.Name.Name) {
			continue
		}
		if evs := foreignWrites(ci, fn); len(evs) > 0 {
			res = append(res, mres{"func:" + fn.Name.Name, [][]event{evs}, fn})
		}
	}
	// contracts of internal helpers: the weakest lock state over all call sites (fixpoint; the Coq checker re-verifies)
	const top = 3
	rank := map[string]int{"": 0, "R": 1, "W": 2}
	name := []string{"", "R", "W", ""}
	contract := map[string]int{}
	for _, r := range res {
		contract[r.name] = top
	}
	for iter := 0; iter < 20; iter++ {
		changed := false
		for _, r := range res {
			own := contract[r.name]
			if ast.IsExported(r.name) || own == top {
				own = 0
				if !ast.IsExported(r.name) && contract[r.name] == top {
					continue // not known to be called yet
				}
			}
			for _, p := range r.paths {
				held, deferred := 0, 0
				_ = deferred
				for _, e := range p {
					switch e.Kind {
					case "Acquire":
						held = rank[e.A]
					case "Release":
						held = 0
					case "CallInternal":
						st := held
						if st == 0 {
							st = own
						}
						if cur, ok := contract[e.B]; ok && st < cur {
							contract[e.B] = st
							changed = true
						}
					}
				}
			}
		}
		if !changed {
			break
		}
	}
	for _, r := range res {
		m := methodOut{Name: r.name, Exported: ast.IsExported(r.name) && !strings.HasPrefix(r.name, "func:"), Paths: r.paths, Pos: posOf(r.decl.Pos())}
		if !m.Exported {
			c := contract[r.name]
			if c == top {
				c = 0
			}
			m.Requires = name[c]
		}
		out.Methods = append(out.Methods, m)
	}
	return out, nil
}

func isConstructorName(n string) bool {
	return strings.HasPrefix(n, "New") || strings.HasPrefix(n, "Empty")
}

// foreignWrites: assignments `<expr>.<field> = ...` in a plain function where <field> is a guarded field name of the class
// and <expr> is a plain identifier (a pointer to the struct).  Reported as Unknown: a write outside the methods.
func foreignWrites(ci *classInfo, fn *ast.FuncDecl) []event {
	var evs []event
	ast.Inspect(fn.Body, func(n ast.Node) bool {
		as, ok := n.(*ast.AssignStmt)
		if !ok {
			return true
		}
		for _, l := range as.Lhs {
			root := l
			for {
				switch t := root.(type) {
				case *ast.IndexExpr:
					root = t.X
					continue
				case *ast.StarExpr:
					root = t.X
					continue
				case *ast.ParenExpr:
					root = t.X
					continue
				}
				break
			}
			sel, ok := root.(*ast.SelectorExpr)
			if !ok {
				continue
			}
			if _, isField := ci.fields[sel.Sel.Name]; !isField || ci.immutable[sel.Sel.Name] {
				continue
			}
			// only flag when the base is a variable declared in this function with the class type
			if id, ok := sel.X.(*ast.Ident); ok && localHasType(fn, id.Name, ci.name) {
				evs = append(evs, event{Kind: "Unknown", A: "write to " + ci.name + "." + sel.Sel.Name + " outside its methods", Pos: posOf(as.Pos())})
			}
		}
		return true
	})
	return evs
}

func localHasType(fn *ast.FuncDecl, v, typ string) bool {
	if fn.Type.Params != nil {
		for _, f := range fn.Type.Params.List {
			if recvTypeName(f.Type) == typ {
				for _, n := range f.Names {
					if n.Name == v {
						return true
					}
				}
			}
		}
	}
	return false
}

// ---------------------------------------------------------------------------------------------------------------
// the method walker

type alias struct {
	fields map[string]bool
	typ    ast.Expr // static type of the variable when known
	imm    bool     // holds only copies of allow-listed pointers to immutable pointees (immutablePointees "<Class>.<field>"):
	// READING through it needs no lock (the field itself was read, under the lock, when it was bound); writing through it is still a Write
}

type pathT struct {
	evs  []event
	term int // 0 running, 1 returned, 2 left the loop body (break/continue)
}

type walker struct {
	ci      *classInfo
	fn      *ast.FuncDecl
	recv    string
	aliases map[string]*alias
	fresh   map[string]bool // locals holding a freshly constructed child (parent: receiver)
	params  map[string]bool // function-typed parameters
	subErr  map[string]string
}

func newWalker(ci *classInfo, fn *ast.FuncDecl) *walker {
	w := &walker{ci: ci, fn: fn, aliases: map[string]*alias{}, fresh: map[string]bool{}, params: map[string]bool{}, subErr: map[string]string{}}
	if len(fn.Recv.List[0].Names) > 0 {
		w.recv = fn.Recv.List[0].Names[0].Name
	}
	if fn.Type.Params != nil {
		for _, f := range fn.Type.Params.List {
			isFn := false
			switch t := ci.pkg.underlying(f.Type).(type) {
			case *ast.FuncType:
				isFn = true
			case *ast.Ellipsis:
				if _, ok := ci.pkg.underlying(t.Elt).(*ast.FuncType); ok {
					isFn = true
				}
			}
			if isFn {
				for _, n := range f.Names {
					w.params[n.Name] = true
				}
			}
		}
	}
	return w
}

func (w *walker) unknown(n ast.Node, why string) event {
	return event{Kind: "Unknown", A: why, Pos: posOf(n.Pos())}
}

func (w *walker) run() [][]event {
	if w.fn.Body == nil {
		return [][]event{{w.unknown(w.fn, "method without body")}}
	}
	if w.recv == "" || w.recv == "_" {
		// unnamed receiver: the body cannot touch the object
		w.recv = "\x00none"
	}
	paths := w.block(w.fn.Body.List)
	var out [][]event
	seen := map[string]bool{}
	for _, p := range paths {
		evs := p.evs
		if p.term == 2 {
			evs = append(evs, w.unknown(w.fn, "break/continue outside a loop"))
		}
		k := pathKey(evs)
		if !seen[k] {
			seen[k] = true
			out = append(out, evs)
		}
	}
	if len(out) == 0 {
		out = [][]event{{}}
	}
	return out
}

func pathKey(evs []event) string {
	var sb strings.Builder
	for _, e := range evs {
		sb.WriteString(e.Kind + "|" + e.A + "|" + e.B + "|")
		if e.Kind == "Unknown" {
			sb.WriteString(e.Pos)
		}
		sb.WriteString(";")
	}
	return sb.String()
}

const maxPaths = 3000

func (w *walker) seq(a []pathT, b []pathT) []pathT {
	var out []pathT
	seen := map[string]bool{}
	add := func(p pathT) {
		k := fmt.Sprint(p.term) + pathKey(p.evs)
		if !seen[k] {
			seen[k] = true
			out = append(out, p)
		}
	}
	for _, p := range a {
		if p.term != 0 {
			add(p)
			continue
		}
		for _, q := range b {
			evs := make([]event, 0, len(p.evs)+len(q.evs))
			evs = append(evs, p.evs...)
			evs = append(evs, q.evs...)
			add(pathT{evs, q.term})
		}
	}
	if len(out) > maxPaths {
		return []pathT{{[]event{{Kind: "Unknown", A: "too many control-flow paths", Pos: posOf(w.fn.Pos())}}, 1}}
	}
	return out
}

func one(evs []event) []pathT { return []pathT{{evs, 0}} }

func (w *walker) block(list []ast.Stmt) []pathT {
	acc := one(nil)
	for _, s := range list {
		acc = w.seq(acc, w.stmt(s))
	}
	return acc
}

func (w *walker) stmt(s ast.Stmt) []pathT {
	switch s := s.(type) {
	case nil:
		return one(nil)
	case *ast.EmptyStmt:
		return one(nil)
	case *ast.BlockStmt:
		return w.block(s.List)
	case *ast.ExprStmt:
		return one(w.expr(s.X))
	case *ast.AssignStmt:
		return one(w.assign(s))
	case *ast.IncDecStmt:
		evs := w.expr(s.X)
		evs = append(evs, w.writeTo(s.X, s)...)
		return one(evs)
	case *ast.DeclStmt:
		var evs []event
		if gd, ok := s.Decl.(*ast.GenDecl); ok {
			for _, sp := range gd.Specs {
				if vs, ok := sp.(*ast.ValueSpec); ok {
					for i, v := range vs.Values {
						evs = append(evs, w.expr(v)...)
						if i < len(vs.Names) {
							w.bind(vs.Names[i].Name, v, vs.Type)
						}
					}
				}
			}
		}
		return one(evs)
	case *ast.ReturnStmt:
		var evs []event
		for _, r := range s.Results {
			evs = append(evs, w.expr(r)...)
		}
		for _, r := range s.Results {
			evs = append(evs, w.leakCheck(r)...)
		}
		evs = append(evs, event{Kind: "Return"})
		return []pathT{{evs, 1}}
	case *ast.DeferStmt:
		if md, isLock, isUnlock := w.lockCall(s.Call); isUnlock {
			return one([]event{{Kind: "Defer", A: md, Pos: posOf(s.Pos())}})
		} else if isLock {
			return one([]event{w.unknown(s, "deferred lock acquisition")})
		}
		return one([]event{w.unknown(s, "defer of something other than an unlock")})
	case *ast.IfStmt:
		pre := one(nil)
		if s.Init != nil {
			pre = w.stmt(s.Init)
		}
		pre = w.seq(pre, one(w.expr(s.Cond)))
		alts := w.block(s.Body.List)
		if s.Else != nil {
			alts = append(alts, w.stmt(s.Else)...)
		} else {
			alts = append(alts, pathT{})
		}
		return w.seq(pre, alts)
	case *ast.ForStmt:
		pre := one(nil)
		if s.Init != nil {
			pre = w.stmt(s.Init)
		}
		if s.Cond != nil {
			pre = w.seq(pre, one(w.expr(s.Cond)))
		}
		body := w.block(s.Body.List)
		if s.Post != nil {
			body = w.seq(body, w.stmt(s.Post))
		}
		return w.seq(pre, w.loopAlts(body))
	case *ast.RangeStmt:
		evs := w.expr(s.X)
		fields, typ, isRef := w.refOf(s.X)
		if isRef {
			et := w.ci.pkg.elemType(typ)
			if id, ok := s.Value.(*ast.Ident); ok && id.Name != "_" {
				if k := w.ci.pkg.refKind(et); k != "value" && !w.immutablePointee(et) {
					w.addAlias(id.Name, fields, et)
				}
			}
		}
		return w.seq(one(evs), w.loopAlts(w.block(s.Body.List)))
	case *ast.SwitchStmt:
		pre := one(nil)
		if s.Init != nil {
			pre = w.stmt(s.Init)
		}
		if s.Tag != nil {
			pre = w.seq(pre, one(w.expr(s.Tag)))
		}
		return w.seq(pre, w.clauses(s.Body))
	case *ast.TypeSwitchStmt:
		pre := one(nil)
		if s.Init != nil {
			pre = w.stmt(s.Init)
		}
		pre = w.seq(pre, w.stmt(s.Assign))
		return w.seq(pre, w.clauses(s.Body))
	case *ast.BranchStmt:
		if (s.Tok == token.BREAK || s.Tok == token.CONTINUE) && s.Label == nil {
			return []pathT{{nil, 2}}
		}
		return one([]event{w.unknown(s, "goto/fallthrough/labelled branch")})
	case *ast.LabeledStmt:
		return w.seq(one([]event{w.unknown(s, "labelled statement")}), w.stmt(s.Stmt))
	case *ast.GoStmt:
		return one([]event{w.unknown(s, "go statement inside a method of a shared type")})
	case *ast.SelectStmt, *ast.SendStmt:
		return one([]event{w.unknown(s, "channel operation")})
	}
	return one([]event{w.unknown(s, fmt.Sprintf("statement %T", s))})
}

// a loop body occurs 0 times or once (over-approximation; break/continue end the body)
func (w *walker) loopAlts(body []pathT) []pathT {
	alts := []pathT{{}}
	for _, p := range body {
		if p.term == 2 {
			p.term = 0
		}
		alts = append(alts, p)
	}
	return alts
}

func (w *walker) clauses(body *ast.BlockStmt) []pathT {
	var alts []pathT
	hasDefault := false
	for _, c := range body.List {
		cc, ok := c.(*ast.CaseClause)
		if !ok {
			alts = append(alts, pathT{[]event{w.unknown(c, "non-case clause")}, 0})
			continue
		}
		if cc.List == nil {
			hasDefault = true
		}
		var evs []event
		for _, e := range cc.List {
			evs = append(evs, w.expr(e)...)
		}
		for _, p := range w.seq(one(evs), w.block(cc.Body)) {
			if p.term == 2 {
				p.term = 0 // break leaves the switch
			}
			alts = append(alts, p)
		}
	}
	if !hasDefault {
		alts = append(alts, pathT{})
	}
	return alts
}

// ---- lock calls ----
// returns (mode, isLock, isUnlock) when call is x.mu.Lock()/RLock()/Unlock()/RUnlock() on the receiver's mutex
func (w *walker) lockCall(c *ast.CallExpr) (string, bool, bool) {
	sel, ok := c.Fun.(*ast.SelectorExpr)
	if !ok || !w.ci.hasMutex {
		return "", false, false
	}
	onMutex := false
	if w.ci.embedded {
		if id, ok := sel.X.(*ast.Ident); ok && id.Name == w.recv {
			onMutex = true
		}
	} else if in, ok := sel.X.(*ast.SelectorExpr); ok {
		if id, ok := in.X.(*ast.Ident); ok && id.Name == w.recv && in.Sel.Name == w.ci.mutex {
			onMutex = true
		}
	}
	if !onMutex {
		return "", false, false
	}
	switch sel.Sel.Name {
	case "Lock":
		return "W", true, false
	case "RLock":
		return "R", true, false
	case "Unlock":
		return "W", false, true
	case "RUnlock":
		return "R", false, true
	}
	return "", false, false
}

func (w *walker) isMutexMethod(c *ast.CallExpr) bool {
	sel, ok := c.Fun.(*ast.SelectorExpr)
	if !ok || !w.ci.hasMutex {
		return false
	}
	switch sel.Sel.Name {
	case "TryLock", "TryRLock", "RLocker":
	default:
		return false
	}
	if w.ci.embedded {
		id, ok := sel.X.(*ast.Ident)
		return ok && id.Name == w.recv
	}
	in, ok := sel.X.(*ast.SelectorExpr)
	if !ok {
		return false
	}
	id, ok := in.X.(*ast.Ident)
	return ok && id.Name == w.recv && in.Sel.Name == w.ci.mutex
}

// ---- references into guarded memory ----
func (w *walker) addAlias(v string, fields map[string]bool, typ ast.Expr) {
	a := w.aliases[v]
	if a == nil {
		a = &alias{fields: map[string]bool{}, typ: typ}
		w.aliases[v] = a
	}
	for f := range fields {
		a.fields[f] = true
	}
}

func (w *walker) immutablePointee(t ast.Expr) bool {
	if t == nil {
		return false
	}
	_, ok := immutablePointees[typeString(t)]
	return ok
}

// refOf: does e evaluate to a reference into the memory of guarded fields?  (fields, static type if known, yes/no)
func (w *walker) refOf(e ast.Expr) (map[string]bool, ast.Expr, bool) {
	p := w.ci.pkg
	switch e := e.(type) {
	case *ast.ParenExpr:
		return w.refOf(e.X)
	case *ast.Ident:
		if a, ok := w.aliases[e.Name]; ok {
			return a.fields, a.typ, true
		}
	case *ast.SelectorExpr:
		if id, ok := e.X.(*ast.Ident); ok && id.Name == w.recv {
			t, isField := w.ci.fields[e.Sel.Name]
			if !isField || w.ci.immutable[e.Sel.Name] {
				return nil, nil, false
			}
			if k := p.refKind(t); k == "value" {
				return nil, t, false
			}
			return map[string]bool{e.Sel.Name: true}, t, true
		}
		fs, t, ok := w.refOf(e.X)
		if !ok {
			return nil, nil, false
		}
		ft := p.fieldType(t, e.Sel.Name)
		if ft != nil && (p.refKind(ft) == "value" || w.immutablePointee(ft)) {
			return nil, ft, false
		}
		return fs, ft, true
	case *ast.IndexExpr:
		fs, t, ok := w.baseRef(e.X)
		if !ok {
			return nil, nil, false
		}
		et := p.elemType(t)
		if et != nil && (p.refKind(et) == "value" || w.immutablePointee(et)) {
			return nil, et, false
		}
		return fs, et, true
	case *ast.SliceExpr:
		fs, t, ok := w.baseRef(e.X)
		return fs, t, ok
	case *ast.StarExpr:
		fs, t, ok := w.refOf(e.X)
		if !ok {
			return nil, nil, false
		}
		et := p.elemType(t)
		if et != nil && p.refKind(et) == "value" {
			return nil, et, false
		}
		return fs, et, true
	case *ast.UnaryExpr:
		if e.Op == token.AND {
			// address of guarded memory (or of a composite literal holding references)
			if fs, t, ok := w.baseRef(e.X); ok {
				// a pointer INTO guarded memory: the ParenExpr wrapper makes typeString print "*?" so that the
				// pointer never matches the immutable-pointee allow-list (that list is about STORED pointers)
				return fs, &ast.StarExpr{X: &ast.ParenExpr{X: orUnknown(t)}}, true
			}
			if cl, ok := e.X.(*ast.CompositeLit); ok {
				return w.refOf(cl)
			}
		}
	case *ast.CompositeLit:
		fields := map[string]bool{}
		for _, el := range e.Elts {
			v := el
			if kv, ok := el.(*ast.KeyValueExpr); ok {
				v = kv.Value
			}
			if fs, _, ok := w.refOf(v); ok {
				for f := range fs {
					fields[f] = true
				}
			}
		}
		if len(fields) > 0 {
			return fields, nil, true
		}
	case *ast.CallExpr:
		if id, ok := e.Fun.(*ast.Ident); ok && id.Name == "append" && len(e.Args) > 0 {
			fields := map[string]bool{}
			var typ ast.Expr
			for i, a := range e.Args {
				if fs, t, ok := w.refOf(a); ok {
					for f := range fs {
						fields[f] = true
					}
					if i == 0 {
						typ = t
					}
				}
			}
			if len(fields) > 0 {
				return fields, typ, true
			}
		}
		// a call on an owned sub-object that returns internal state
		if sel, ok := e.Fun.(*ast.SelectorExpr); ok {
			if in, ok := sel.X.(*ast.SelectorExpr); ok {
				if id, ok := in.X.(*ast.Ident); ok && id.Name == w.recv {
					if sum := w.ci.sub[in.Sel.Name]; sum != nil && sum.leaks[sel.Sel.Name] {
						return map[string]bool{in.Sel.Name: true}, nil, true
					}
				}
			}
		}
	case *ast.TypeAssertExpr:
		return w.refOf(e.X)
	}
	return nil, nil, false
}

func orUnknown(t ast.Expr) ast.Expr {
	if t == nil {
		return &ast.Ident{Name: "?"}
	}
	return t
}

// baseRef: like refOf but a guarded field of VALUE kind (array, struct) also counts: indexing / taking the address of it
// designates guarded memory
func (w *walker) baseRef(e ast.Expr) (map[string]bool, ast.Expr, bool) {
	if pe, ok := e.(*ast.ParenExpr); ok {
		return w.baseRef(pe.X)
	}
	if sel, ok := e.(*ast.SelectorExpr); ok {
		if id, ok := sel.X.(*ast.Ident); ok && id.Name == w.recv {
			t, isField := w.ci.fields[sel.Sel.Name]
			if isField && !w.ci.immutable[sel.Sel.Name] {
				return map[string]bool{sel.Sel.Name: true}, t, true
			}
			return nil, nil, false
		}
		if fs, t, ok := w.baseRef(sel.X); ok {
			return fs, w.ci.pkg.fieldType(t, sel.Sel.Name), true
		}
		return nil, nil, false
	}
	if ix, ok := e.(*ast.IndexExpr); ok {
		if fs, t, ok := w.baseRef(ix.X); ok {
			return fs, w.ci.pkg.elemType(t), true
		}
		return nil, nil, false
	}
	return w.refOf(e)
}

// bind: `v := e` / `var v T = e`
func (w *walker) bind(v string, e ast.Expr, declared ast.Expr) {
	if v == "_" {
		return
	}
	if fs, t, ok := w.refOf(e); ok {
		if t == nil {
			t = declared
		}
		_, existed := w.aliases[v]
		w.addAlias(v, fs, t)
		imm := false
		if sel, ok := e.(*ast.SelectorExpr); ok {
			if id, ok := sel.X.(*ast.Ident); ok && id.Name == w.recv {
				_, imm = immutablePointees[w.ci.name+"."+sel.Sel.Name]
			}
		}
		if existed {
			w.aliases[v].imm = w.aliases[v].imm && imm
		} else {
			w.aliases[v].imm = imm
		}
	}
	// freshly constructed child: &T{..., parent: recv, ...}
	if u, ok := e.(*ast.UnaryExpr); ok && u.Op == token.AND {
		if cl, ok := u.X.(*ast.CompositeLit); ok && typeString(cl.Type) == w.ci.name {
			for _, el := range cl.Elts {
				if kv, ok := el.(*ast.KeyValueExpr); ok {
					if k, ok := kv.Key.(*ast.Ident); ok {
						if val, ok := kv.Value.(*ast.Ident); ok && val.Name == w.recv && typeString(w.ci.fields[k.Name]) == "*"+w.ci.name {
							w.fresh[v] = true
						}
					}
				}
			}
		}
	}
}

func (w *walker) leakCheck(r ast.Expr) []event {
	// `return x.f` of an allow-listed immutable pointee
	if sel, ok := r.(*ast.SelectorExpr); ok {
		if id, ok := sel.X.(*ast.Ident); ok && id.Name == w.recv {
			if _, ok := immutablePointees[w.ci.name+"."+sel.Sel.Name]; ok {
				return nil
			}
		}
	}
	if id, ok := r.(*ast.Ident); ok {
		if a, ok := w.aliases[id.Name]; ok && a.imm {
			return nil
		}
	}
	fs, t, ok := w.refOf(r)
	if !ok {
		return nil
	}
	if t != nil && w.immutablePointee(t) {
		return nil
	}
	var evs []event
	for _, f := range sortedSet(fs) {
		evs = append(evs, event{Kind: "Leak", A: f, Pos: posOf(r.Pos())})
	}
	return evs
}

func sortedSet(m map[string]bool) []string {
	out := make([]string, 0, len(m))
	for k := range m {
		out = append(out, k)
	}
	sort.Strings(out)
	return out
}

// writeTo: events for storing into the location designated by lhs
func (w *walker) writeTo(lhs ast.Expr, at ast.Node) []event {
	if id, ok := lhs.(*ast.Ident); ok {
		_ = id
		return nil // a local variable (aliases are handled by bind)
	}
	if fs, _, ok := w.baseRef(lhs); ok {
		var evs []event
		for _, f := range sortedSet(fs) {
			evs = append(evs, event{Kind: "Write", A: f, Pos: posOf(at.Pos())})
		}
		return evs
	}
	// immutable field or the mutex itself
	root := lhs
	for {
		switch t := root.(type) {
		case *ast.IndexExpr:
			root = t.X
			continue
		case *ast.StarExpr:
			root = t.X
			continue
		case *ast.ParenExpr:
			root = t.X
			continue
		case *ast.SelectorExpr:
			if id, ok := t.X.(*ast.Ident); ok && id.Name == w.recv {
				if _, isField := w.ci.fields[t.Sel.Name]; isField {
					return []event{{Kind: "Write", A: t.Sel.Name, Pos: posOf(at.Pos())}}
				}
				return []event{w.unknown(at, "assignment to "+t.Sel.Name+" of the receiver")}
			}
			root = t.X
			continue
		}
		break
	}
	if id, ok := root.(*ast.Ident); ok && id.Name == w.recv {
		return []event{w.unknown(at, "assignment through the receiver")}
	}
	return nil
}

func (w *walker) assign(s *ast.AssignStmt) []event {
	var evs []event
	for _, r := range s.Rhs {
		evs = append(evs, w.expr(r)...)
		if id, ok := r.(*ast.Ident); ok && id.Name == w.recv {
			evs = append(evs, w.unknown(s, "the receiver is copied into another variable"))
		}
	}
	for i, l := range s.Lhs {
		if id, ok := l.(*ast.Ident); ok {
			if len(s.Lhs) == len(s.Rhs) {
				w.bind(id.Name, s.Rhs[i], nil)
			} else if i == 0 && len(s.Rhs) == 1 {
				switch s.Rhs[0].(type) {
				case *ast.IndexExpr, *ast.TypeAssertExpr:
					w.bind(id.Name, s.Rhs[0], nil) // v, ok := m[k]
				}
			}
			continue
		}
		// index sub-expressions of the left-hand side are evaluated (reads)
		evs = append(evs, w.lhsReads(l)...)
		if s.Tok != token.ASSIGN && s.Tok != token.DEFINE {
			evs = append(evs, w.expr(l)...) // op-assign reads the old value
		}
		evs = append(evs, w.writeTo(l, s)...)
	}
	return evs
}

func (w *walker) lhsReads(l ast.Expr) []event {
	switch t := l.(type) {
	case *ast.IndexExpr:
		return append(w.lhsReads(t.X), w.expr(t.Index)...)
	case *ast.SelectorExpr:
		return w.lhsReads(t.X)
	case *ast.StarExpr:
		return w.expr(t.X)
	case *ast.ParenExpr:
		return w.lhsReads(t.X)
	}
	return nil
}

// ---- expressions ----
func (w *walker) readFields(fs map[string]bool, at ast.Node) []event {
	var evs []event
	for _, f := range sortedSet(fs) {
		evs = append(evs, event{Kind: "Read", A: f, Pos: posOf(at.Pos())})
	}
	return evs
}

func (w *walker) exprs(es []ast.Expr) []event {
	var evs []event
	for _, e := range es {
		evs = append(evs, w.expr(e)...)
	}
	return evs
}

func (w *walker) expr(e ast.Expr) []event {
	switch e := e.(type) {
	case nil:
		return nil
	case *ast.BasicLit:
		return nil
	case *ast.Ident:
		if a, ok := w.aliases[e.Name]; ok {
			if a.imm {
				return nil
			}
			return w.readFields(a.fields, e)
		}
		return nil
	case *ast.ParenExpr:
		return w.expr(e.X)
	case *ast.SelectorExpr:
		if id, ok := e.X.(*ast.Ident); ok {
			if id.Name == w.recv {
				if w.ci.hasMutex && !w.ci.embedded && e.Sel.Name == w.ci.mutex {
					return []event{w.unknown(e, "the mutex is used as a value")}
				}
				if _, isField := w.ci.fields[e.Sel.Name]; isField {
					return []event{{Kind: "Read", A: e.Sel.Name, Pos: posOf(e.Pos())}}
				}
				if _, isMeth := w.ci.methods[e.Sel.Name]; isMeth {
					return []event{w.unknown(e, "method value "+e.Sel.Name)}
				}
				return []event{w.unknown(e, "unknown member "+e.Sel.Name+" of the receiver")}
			}
			if w.ci.pkg.imports[id.Name] && w.aliases[id.Name] == nil {
				return nil // pkg.Name
			}
		}
		return w.expr(e.X)
	case *ast.IndexExpr:
		return append(w.expr(e.X), w.expr(e.Index)...)
	case *ast.SliceExpr:
		evs := w.expr(e.X)
		evs = append(evs, w.expr(e.Low)...)
		evs = append(evs, w.expr(e.High)...)
		return append(evs, w.expr(e.Max)...)
	case *ast.StarExpr:
		return w.expr(e.X)
	case *ast.UnaryExpr:
		if e.Op == token.ARROW {
			return append(w.expr(e.X), w.unknown(e, "channel receive"))
		}
		return w.expr(e.X)
	case *ast.BinaryExpr:
		return append(w.expr(e.X), w.expr(e.Y)...)
	case *ast.KeyValueExpr:
		return append(w.expr(e.Key), w.expr(e.Value)...)
	case *ast.CompositeLit:
		var evs []event
		_, isStruct := w.ci.pkg.underlying(orUnknown(e.Type)).(*ast.StructType)
		_, isSel := e.Type.(*ast.SelectorExpr)
		for _, el := range e.Elts {
			if kv, ok := el.(*ast.KeyValueExpr); ok {
				if _, keyIsIdent := kv.Key.(*ast.Ident); !(keyIsIdent && (isStruct || isSel || e.Type == nil)) {
					evs = append(evs, w.expr(kv.Key)...)
				}
				evs = append(evs, w.expr(kv.Value)...)
			} else {
				evs = append(evs, w.expr(el)...)
			}
		}
		return evs
	case *ast.TypeAssertExpr:
		return w.expr(e.X)
	case *ast.FuncLit:
		return []event{w.unknown(e, "function literal inside a method of a shared type")}
	case *ast.CallExpr:
		return w.call(e)
	case *ast.ArrayType, *ast.MapType, *ast.StructType, *ast.FuncType, *ast.InterfaceType, *ast.ChanType, *ast.Ellipsis:
		return nil
	}
	return []event{w.unknown(e, fmt.Sprintf("expression %T", e))}
}

var builtinReads = map[string]bool{"len": true, "cap": true, "append": true, "panic": true, "min": true, "max": true,
	"print": true, "println": true, "complex": true, "real": true, "imag": true}
var basicTypes = map[string]bool{"uint64": true, "uint32": true, "uint16": true, "uint8": true, "uint": true, "int": true,
	"int64": true, "int32": true, "int16": true, "int8": true, "byte": true, "string": true, "bool": true, "float64": true,
	"float32": true, "rune": true, "uintptr": true, "error": true}

func (w *walker) escapeArgs(args []ast.Expr, at ast.Node) []event {
	var evs []event
	for _, a := range args {
		if fs, t, ok := w.refOf(a); ok && !(t != nil && w.immutablePointee(t)) {
			for _, f := range sortedSet(fs) {
				evs = append(evs, event{Kind: "Leak", A: f, Pos: posOf(at.Pos())})
			}
		}
		if id, ok := a.(*ast.Ident); ok && id.Name == w.recv {
			evs = append(evs, w.unknown(at, "the receiver is passed to a function that is not analysed"))
		}
	}
	return evs
}

func (w *walker) call(c *ast.CallExpr) []event {
	if md, isLock, isUnlock := w.lockCall(c); isLock {
		return []event{{Kind: "Acquire", A: md, Pos: posOf(c.Pos())}}
	} else if isUnlock {
		return []event{{Kind: "Release", A: md, Pos: posOf(c.Pos())}}
	}
	if w.isMutexMethod(c) {
		return []event{w.unknown(c, "TryLock/RLocker on the mutex")}
	}
	args := w.exprs(c.Args)
	switch fun := c.Fun.(type) {
	case *ast.Ident:
		name := fun.Name
		switch {
		case builtinReads[name]:
			return args
		case name == "delete" && len(c.Args) == 2:
			return append(args, w.writeTo(c.Args[0], c)...)
		case name == "copy" && len(c.Args) == 2:
			return append(args, w.writeTo(c.Args[0], c)...)
		case name == "clear" && len(c.Args) == 1:
			return append(args, w.writeTo(c.Args[0], c)...)
		case name == "make" || name == "new":
			if len(c.Args) > 1 {
				return w.exprs(c.Args[1:])
			}
			return nil
		case basicTypes[name]:
			return args
		}
		if _, isType := w.ci.pkg.types[name]; isType || w.ci.pkg.dotTyps[name] {
			return args // conversion
		}
		if w.params[name] || w.aliases[name] != nil {
			key := w.ci.name + "." + w.fn.Name.Name + ":" + name
			if _, ok := trustedCallbacks[key]; ok {
				return args
			}
			return append(args, w.unknown(c, "call of the function value "+name))
		}
		// a local closure variable or a package-level function of the same package
		for _, fn := range w.ci.pkg.funcs {
			if fn.Name.Name == name {
				return append(args, w.escapeArgs(c.Args, c)...)
			}
		}
		key := w.ci.name + "." + w.fn.Name.Name + ":" + name
		if _, ok := trustedCallbacks[key]; ok {
			return args
		}
		return append(args, w.unknown(c, "call of "+name+" (not a builtin, type, or function of the package)"))
	case *ast.SelectorExpr:
		meth := fun.Sel.Name
		// recv.M(...)
		if id, ok := fun.X.(*ast.Ident); ok {
			if id.Name == w.recv {
				if _, isMeth := w.ci.methods[meth]; isMeth {
					if ast.IsExported(meth) {
						return append(args, event{Kind: "CallExported", A: "Self", B: meth, Pos: posOf(c.Pos())})
					}
					return append(args, event{Kind: "CallInternal", B: meth, Pos: posOf(c.Pos())})
				}
				if _, isField := w.ci.fields[meth]; isField {
					// call of a function-typed field
					return append(args, event{Kind: "Read", A: meth, Pos: posOf(c.Pos())}, w.unknown(c, "call of the function-typed field "+meth))
				}
				return append(args, w.unknown(c, "unknown method "+meth+" of the receiver (promoted from an embedded field?)"))
			}
			if w.fresh[id.Name] {
				if _, isMeth := w.ci.methods[meth]; isMeth && ast.IsExported(meth) {
					return append(args, event{Kind: "CallExported", A: "Child", B: meth, Pos: posOf(c.Pos())})
				}
				return append(args, w.unknown(c, "call of a non-exported method on a fresh child"))
			}
			if w.ci.pkg.imports[id.Name] && w.aliases[id.Name] == nil {
				// pkg.Func(...): formatting functions only read their arguments
				if id.Name == "fmt" || id.Name == "errors" {
					return args
				}
				// standard-library functions that only read their arguments during the call and retain nothing
				if _, pure := pureFunctions[id.Name+"."+meth]; pure {
					return args
				}
				return append(args, w.escapeArgs(c.Args, c)...)
			}
		}
		// recv.f.M(...)
		if in, ok := fun.X.(*ast.SelectorExpr); ok {
			if id, ok := in.X.(*ast.Ident); ok && id.Name == w.recv {
				f := in.Sel.Name
				ft, isField := w.ci.fields[f]
				if isField {
					if typeString(ft) == "*"+w.ci.name {
						if _, isMeth := w.ci.methods[meth]; isMeth && ast.IsExported(meth) {
							return append(args, event{Kind: "Read", A: f, Pos: posOf(c.Pos())},
								event{Kind: "CallExported", A: "Parent", B: meth, Pos: posOf(c.Pos())})
						}
						return append(args, w.unknown(c, "call of a non-exported method on another object of the same type"))
					}
					if msg, bad := w.subErr[f]; bad {
						return append(args, w.unknown(c, "sub-object "+f+": "+msg))
					}
					if sum := w.ci.sub[f]; sum != nil {
						if !sum.known[meth] {
							return append(args, w.unknown(c, "method "+meth+" of sub-object "+f+" ("+sum.typ+") not found"))
						}
						k := "Read"
						if sum.writes[meth] {
							k = "Write"
						}
						return append(args, event{Kind: k, A: f, B: sum.typ + "." + meth, Pos: posOf(c.Pos())})
					}
					if w.ci.immutable[f] {
						return append(args, event{Kind: "Read", A: f, Pos: posOf(c.Pos())})
					}
					// a method of a type that is not analysed, called on guarded data: it may mutate it
					return append(args, event{Kind: "Write", A: f, B: "(method " + meth + " of a type that is not analysed)", Pos: posOf(c.Pos())})
				}
			}
		}
		// alias....M(...): method with unknown effect on guarded data
		if fs, _, ok := w.baseRef(fun.X); ok {
			evs := append(args, w.expr(fun.X)...)
			for _, f := range sortedSet(fs) {
				evs = append(evs, event{Kind: "Write", A: f, B: "(method " + meth + " called through a reference)", Pos: posOf(c.Pos())})
			}
			return evs
		}
		// other receiver (parameter, local): evaluate it, references to guarded memory must not be passed along
		evs := append(w.expr(fun.X), args...)
		return append(evs, w.escapeArgs(c.Args, c)...)
	case *ast.ParenExpr, *ast.ArrayType, *ast.StarExpr, *ast.MapType, *ast.InterfaceType, *ast.FuncType:
		return args // conversion
	case *ast.FuncLit:
		return append(args, w.unknown(c, "call of a function literal"))
	}
	return append(args, w.unknown(c, fmt.Sprintf("call through %T", c.Fun)))
}
