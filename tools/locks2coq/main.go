// locks2coq: purely syntactic translator from the zrnt source tree to the lock-event language of
// /verif/coq/Conc/LockLang.v (property C17, DESIGN.md section 2.4 row GenLocks.v).
//
//	locks2coq -repo /repo -out /verif/gen/<dir>      writes GenLocks.v and GenLocks.json
//
// Only go/parser, go/ast, go/token are used.  For every method of the shared types it emits the ordered events of
// each control-flow path.  Anything that is not recognised becomes `Unknown "<file:line> <why>"`, which makes
// `lock_ok` false on the Coq side; nothing is skipped silently.
package main

import (
	"encoding/json"
	"flag"
	"fmt"
	"go/ast"
	"go/parser"
	"go/token"
	"os"
	"path/filepath"
	"sort"
	"strings"
)

// ---------------------------------------------------------------------------------------------------------------
// Tables (each entry is justified in /verif/design/C17.md)

type target struct {
	dir string // package directory below the repository root
	typ string // struct type documented as shared
}

var targets = []target{
	{"eth2/forkchoice", "ProtoForkChoice"},
	{"eth2/beacon/common", "PubkeyCache"},
	{"eth2/beacon/common", "CachedPubkey"},
	{"eth2/pool", "AttestationPool"},
	{"eth2/pool", "AttesterSlashingPool"},
	{"eth2/pool", "ProposerSlashingPool"},
	{"eth2/pool", "VoluntaryExitPool"},
	{"eth2/pool", "SyncCommitteePool"},
}

// fields that are written only while the object is constructed (before it is shared).  The Coq checker verifies
// that no METHOD writes them; reads need no lock.
var immutableFields = map[string][]string{
	"ProtoForkChoice":      {"spec"},
	"PubkeyCache":          {"parent", "trustedParentCount"},
	"CachedPubkey":         {"Compressed"},
	"AttestationPool":      {"spec", "maxExtraAggregates"},
	"AttesterSlashingPool": {"spec"},
	"ProposerSlashingPool": {"spec"},
	"VoluntaryExitPool":    {"spec"},
	"SyncCommitteePool":    {"spec"},
}

// interface-typed (or pointer-typed) fields whose object is owned by the struct and protected by the struct's mutex:
// a method call on the field is a Read or a Write of the field, decided by an effect summary of the callee computed
// from the source of the (single) implementing type found below `searchDir`.
type subObject struct {
	iface     string // declared type of the field
	searchDir string
}

var subObjects = map[string]subObject{
	"ProtoForkChoice.protoArray": {"ForkchoiceGraph", "eth2/forkchoice"},
	"ProtoForkChoice.voteStore":  {"VoteStore", "eth2/forkchoice"},
}

// values that may leave the critical section although they are references, because the pointee is never written
// after it has been stored (key: "<Class>.<field>" for a returned field, or an element type for stored messages)
var immutablePointees = map[string]string{
	"ProtoForkChoice.pin":          "SetPin stores a freshly allocated NodeRef each time and nothing writes through fc.pin",
	"*phase0.AttesterSlashing":     "operation messages are stored by pointer and never modified by the pool",
	"*phase0.ProposerSlashing":     "operation messages are stored by pointer and never modified by the pool",
	"*phase0.SignedVoluntaryExit":  "operation messages are stored by pointer and never modified by the pool",
	"*altair.SyncCommitteeMessage": "operation messages are stored by pointer and never modified by the pool",
	"*CachedPubkey":                "a CachedPubkey is a shared object of its own (class CachedPubkey, own mutex)",
}

// standard-library functions that only READ the memory their arguments point to, during the call, and keep no reference:
// passing guarded memory to them is a read under the lock, not an escape
var pureFunctions = map[string]string{
	"bytes.Compare": "lexicographic comparison of two byte slices", "bytes.Equal": "equality of two byte slices",
	"bytes.HasPrefix": "prefix test", "bytes.HasSuffix": "suffix test", "bytes.Contains": "sub-slice test",
	"bytes.Index": "sub-slice search", "bytes.IndexByte": "byte search",
	"hex.EncodeToString": "returns a fresh string", "sha256.Sum256": "returns a fresh array",
}

// function-typed parameters that are called while the method runs (callbacks).  They are trusted not to call back
// into the same object (documented contract); any other call of a function value is Unknown.
var trustedCallbacks = map[string]string{
	"ProtoForkChoice.updateJustified:justifiedStateBalances": "returns the balances of the justified state; must not call the fork choice",
	"AttestationPool.Search:opt":                             "search options only fill the local attSearch struct",
}

// external named types that are reference types (slices/maps): a copy shares the backing store
var externalRefTypes = map[string]bool{
	"phase0.AttestationBits":         true,
	"common.CommitteeIndices":        true,
	"altair.SyncCommitteeSubnetBits": true,
}

// ---------------------------------------------------------------------------------------------------------------

var fset = token.NewFileSet()
var repoRoot string

func posOf(p token.Pos) string {
	q := fset.Position(p)
	rel, err := filepath.Rel(repoRoot, q.Filename)
	if err != nil {
		rel = q.Filename
	}
	return fmt.Sprintf("%s:%d", rel, q.Line)
}

type pkgInfo struct {
	dir     string
	name    string
	files   []*ast.File
	types   map[string]*ast.TypeSpec
	methods map[string]map[string]*ast.FuncDecl // type -> method -> decl
	funcs   []*ast.FuncDecl                     // plain functions
	imports map[string]bool                     // names under which packages are imported in any file
	dotDirs []string                            // directories of dot-imported packages of this module
	dotTyps map[string]bool                     // type names visible through dot imports
}

const modulePath = "github.com/protolambda/zrnt/"

var pkgCache = map[string]*pkgInfo{}
var debugSummaries = map[string]*subSummary{}

func isVerifHook(f *ast.File, path string) bool {
	if strings.HasSuffix(path, "_test.go") {
		return true
	}
	for _, cg := range f.Comments {
		if cg.Pos() > f.Package {
			break
		}
		for _, c := range cg.List {
			t := strings.TrimSpace(c.Text)
			if strings.HasPrefix(t, "//go:build") && strings.Contains(t, "verif") {
				return true
			}
		}
	}
	return false
}

func loadPkg(dir string) (*pkgInfo, error) {
	if p, ok := pkgCache[dir]; ok {
		return p, nil
	}
	abs := filepath.Join(repoRoot, dir)
	ents, err := os.ReadDir(abs)
	if err != nil {
		return nil, err
	}
	p := &pkgInfo{dir: dir, types: map[string]*ast.TypeSpec{}, methods: map[string]map[string]*ast.FuncDecl{}, imports: map[string]bool{}}
	for _, e := range ents {
		if e.IsDir() || !strings.HasSuffix(e.Name(), ".go") {
			continue
		}
		path := filepath.Join(abs, e.Name())
		f, err := parser.ParseFile(fset, path, nil, parser.ParseComments)
		if err != nil {
			return nil, err
		}
		if isVerifHook(f, path) {
			continue // add-only hook files of /verif (build tag verif) and tests are not part of the library
		}
		p.name = f.Name.Name
		p.files = append(p.files, f)
		for _, im := range f.Imports {
			name := ""
			if im.Name != nil && im.Name.Name == "." {
				s := strings.Trim(im.Path.Value, `"`)
				if strings.HasPrefix(s, modulePath) {
					p.dotDirs = append(p.dotDirs, strings.TrimPrefix(s, modulePath))
				}
				continue
			}
			if im.Name != nil {
				name = im.Name.Name
			} else {
				s := strings.Trim(im.Path.Value, `"`)
				name = s[strings.LastIndex(s, "/")+1:]
				if name == "bls12-381-util" {
					name = "blsu"
				}
			}
			p.imports[name] = true
		}
		for _, d := range f.Decls {
			switch d := d.(type) {
			case *ast.GenDecl:
				for _, s := range d.Specs {
					if ts, ok := s.(*ast.TypeSpec); ok {
						p.types[ts.Name.Name] = ts
					}
				}
			case *ast.FuncDecl:
				if d.Recv == nil || len(d.Recv.List) == 0 {
					p.funcs = append(p.funcs, d)
					continue
				}
				rt := recvTypeName(d.Recv.List[0].Type)
				if p.methods[rt] == nil {
					p.methods[rt] = map[string]*ast.FuncDecl{}
				}
				p.methods[rt][d.Name.Name] = d
			}
		}
	}
	pkgCache[dir] = p
	p.dotTyps = map[string]bool{}
	for _, d := range p.dotDirs {
		if q, err := loadPkg(d); err == nil {
			for n := range q.types {
				p.dotTyps[n] = true
			}
		}
	}
	return p, nil
}

func recvTypeName(e ast.Expr) string {
	switch t := e.(type) {
	case *ast.StarExpr:
		return recvTypeName(t.X)
	case *ast.Ident:
		return t.Name
	case *ast.IndexExpr:
		return recvTypeName(t.X)
	}
	return "?"
}

func typeString(e ast.Expr) string {
	switch t := e.(type) {
	case nil:
		return "?"
	case *ast.Ident:
		return t.Name
	case *ast.StarExpr:
		return "*" + typeString(t.X)
	case *ast.SelectorExpr:
		return typeString(t.X) + "." + t.Sel.Name
	case *ast.ArrayType:
		if t.Len == nil {
			return "[]" + typeString(t.Elt)
		}
		return "[n]" + typeString(t.Elt)
	case *ast.MapType:
		return "map[" + typeString(t.Key) + "]" + typeString(t.Value)
	case *ast.InterfaceType:
		return "interface"
	case *ast.FuncType:
		return "func"
	case *ast.StructType:
		return "struct"
	case *ast.ChanType:
		return "chan"
	}
	return "?"
}

// underlying resolves in-package named types
func (p *pkgInfo) underlying(e ast.Expr) ast.Expr {
	for i := 0; i < 10; i++ {
		if pe, ok := e.(*ast.ParenExpr); ok {
			e = pe.X
			continue
		}
		id, ok := e.(*ast.Ident)
		if !ok {
			return e
		}
		ts, ok := p.types[id.Name]
		if !ok {
			return e
		}
		e = ts.Type
	}
	return e
}

// refKind: "map", "slice", "ptr", "iface", "func", "chan" for reference-like types, "value" for copies,
// "?" when unknown (treated as reference)
func (p *pkgInfo) refKind(e ast.Expr) string {
	if e == nil {
		return "?"
	}
	if sel, ok := e.(*ast.SelectorExpr); ok {
		if externalRefTypes[typeString(sel)] {
			return "slice"
		}
		return "value"
	}
	switch t := p.underlying(e).(type) {
	case *ast.MapType:
		return "map"
	case *ast.ArrayType:
		if t.Len == nil {
			return "slice"
		}
		return "value"
	case *ast.StarExpr:
		return "ptr"
	case *ast.InterfaceType:
		return "iface"
	case *ast.FuncType:
		return "func"
	case *ast.ChanType:
		return "chan"
	case *ast.StructType:
		return "value"
	case *ast.Ident:
		return "value" // builtin basic type or unresolved in-package name of a basic kind
	case *ast.SelectorExpr:
		if externalRefTypes[typeString(t)] {
			return "slice"
		}
		return "value"
	}
	return "?"
}

func (p *pkgInfo) elemType(e ast.Expr) ast.Expr {
	if e == nil {
		return nil
	}
	switch t := p.underlying(e).(type) {
	case *ast.MapType:
		return t.Value
	case *ast.ArrayType:
		return t.Elt
	case *ast.StarExpr:
		return t.X
	}
	return nil
}

// fieldType of struct type (possibly behind a pointer / name) or nil
func (p *pkgInfo) fieldType(e ast.Expr, name string) ast.Expr {
	if e == nil {
		return nil
	}
	u := p.underlying(e)
	if st, ok := u.(*ast.StarExpr); ok {
		u = p.underlying(st.X)
	}
	s, ok := u.(*ast.StructType)
	if !ok {
		return nil
	}
	for _, f := range s.Fields.List {
		for _, n := range f.Names {
			if n.Name == name {
				return f.Type
			}
		}
	}
	return nil
}

func isMutexType(e ast.Expr) (rw bool, ok bool) {
	s := typeString(e)
	switch s {
	case "sync.RWMutex":
		return true, true
	case "sync.Mutex":
		return false, true
	}
	return false, false
}

// ---------------------------------------------------------------------------------------------------------------
// output model

type event struct {
	Kind string `json:"k"`           // Acquire Release Defer Read Write CallExported CallInternal Leak Unknown Return
	A    string `json:"a,omitempty"` // mode / field / target / text
	B    string `json:"b,omitempty"` // method
	Pos  string `json:"pos,omitempty"`
}

type methodOut struct {
	Name     string    `json:"name"`
	Exported bool      `json:"exported"`
	Requires string    `json:"requires"` // "", "R", "W"
	Paths    [][]event `json:"paths"`
	Pos      string    `json:"pos"`
}

type classOut struct {
	Name      string      `json:"name"`
	Dir       string      `json:"dir"`
	Mutex     string      `json:"mutex"` // field name, "(embedded)" or "" when the struct has no mutex
	RW        bool        `json:"rw"`
	Guarded   []string    `json:"guarded"`
	Immutable []string    `json:"immutable"`
	Methods   []methodOut `json:"methods"`
}

func coqStr(s string) string {
	return `"` + strings.ReplaceAll(s, `"`, `""`) + `"`
}

func (e event) coq() string {
	switch e.Kind {
	case "Acquire", "Release", "Defer":
		return e.Kind + " " + e.A
	case "Read", "Write", "Leak":
		return e.Kind + " " + coqStr(e.A)
	case "CallExported":
		return "CallExported " + e.A + " " + coqStr(e.B)
	case "CallInternal":
		return "CallInternal " + coqStr(e.B)
	case "Unknown":
		return "Unknown " + coqStr(e.Pos+" "+e.A)
	case "Return":
		return "Return"
	}
	return "Unknown " + coqStr("bad event "+e.Kind)
}

func main() {
	repo := flag.String("repo", "/repo", "repository root")
	out := flag.String("out", "", "output directory")
	flag.Parse()
	repoRoot, _ = filepath.Abs(*repo)
	if *out == "" {
		fmt.Fprintln(os.Stderr, "usage: locks2coq -repo <root> -out <dir>")
		os.Exit(2)
	}
	var classes []classOut
	for _, t := range targets {
		c, err := translateClass(t)
		if err != nil {
			fmt.Fprintln(os.Stderr, "locks2coq:", err)
			os.Exit(1)
		}
		classes = append(classes, *c)
	}
	if err := os.MkdirAll(*out, 0o755); err != nil {
		fmt.Fprintln(os.Stderr, err)
		os.Exit(1)
	}
	var sb strings.Builder
	sb.WriteString("(* GENERATED by /verif/tools/locks2coq from " + repoRoot + " — do not edit, not committed. *)\n")
	sb.WriteString("From Coq Require Import List String.\nFrom V Require Import Conc.LockLang.\nImport ListNotations.\nLocal Open Scope string_scope.\n\n")
	sb.WriteString("Definition program : program := [\n")
	for ci, c := range classes {
		if ci > 0 {
			sb.WriteString(";\n")
		}
		fmt.Fprintf(&sb, "  (* %s/%s   mutex: %s *)\n", c.Dir, c.Name, map[bool]string{true: c.Mutex, false: "NONE"}[c.Mutex != ""])
		fmt.Fprintf(&sb, "  Class %s [%s] [%s] [\n", coqStr(c.Name), strList(c.Guarded), strList(c.Immutable))
		for mi, m := range c.Methods {
			if mi > 0 {
				sb.WriteString(";\n")
			}
			req := "None"
			if m.Requires != "" {
				req = "(Some " + m.Requires + ")"
			}
			fmt.Fprintf(&sb, "    (* %s *)\n    Method %s %v %s [\n", m.Pos, coqStr(m.Name), m.Exported, req)
			for pi, p := range m.Paths {
				if pi > 0 {
					sb.WriteString(";\n")
				}
				parts := make([]string, len(p))
				for i, e := range p {
					parts[i] = e.coq()
				}
				sb.WriteString("      [" + strings.Join(parts, "; ") + "]")
			}
			sb.WriteString("]")
		}
		sb.WriteString("]")
	}
	sb.WriteString("\n].\n")
	if err := os.WriteFile(filepath.Join(*out, "GenLocks.v"), []byte(sb.String()), 0o644); err != nil {
		fmt.Fprintln(os.Stderr, err)
		os.Exit(1)
	}
	js, _ := json.MarshalIndent(map[string]interface{}{
		"repo": repoRoot, "classes": classes,
		"tables": map[string]interface{}{"immutableFields": immutableFields, "immutablePointees": immutablePointees,
			"trustedCallbacks": trustedCallbacks, "pureFunctions": pureFunctions, "subObjects": subObjects, "externalRefTypes": externalRefTypes},
	}, "", " ")
	if err := os.WriteFile(filepath.Join(*out, "GenLocks.json"), js, 0o644); err != nil {
		fmt.Fprintln(os.Stderr, err)
		os.Exit(1)
	}
	nm, np, nu := 0, 0, 0
	for _, c := range classes {
		for _, m := range c.Methods {
			nm++
			np += len(m.Paths)
			for _, p := range m.Paths {
				for _, e := range p {
					if e.Kind == "Unknown" {
						nu++
					}
				}
			}
		}
	}
	if os.Getenv("LOCKS2COQ_DEBUG") != "" {
		for k, s := range debugSummaries {
			fmt.Println("summary", k, "writes", sortedSet(s.writes), "leaks", sortedSet(s.leaks), "unknown", s.unknown)
		}
	}
	fmt.Printf("locks2coq: %d classes, %d methods, %d paths, %d Unknown events\n", len(classes), nm, np, nu)
}

func strList(l []string) string {
	q := make([]string, len(l))
	for i, s := range l {
		q[i] = coqStr(s)
	}
	return strings.Join(q, "; ")
}

func sortedKeys(m map[string]*ast.FuncDecl) []string {
	ks := make([]string, 0, len(m))
	for k := range m {
		ks = append(ks, k)
	}
	sort.Strings(ks)
	return ks
}

func readDirNames(dir string) ([]string, error) {
	ents, err := os.ReadDir(filepath.Join(repoRoot, dir))
	if err != nil {
		return nil, err
	}
	var out []string
	for _, e := range ents {
		if e.IsDir() {
			out = append(out, e.Name())
		}
	}
	return out, nil
}
