#!/usr/bin/env python3
"""Regenerates /verif/MANIFEST.json from the table below (kept in one place so it is always valid)."""
import json, os
ROOT = os.path.dirname(os.path.dirname(os.path.abspath(__file__)))
ALL = ["C%02d" % i for i in range(1, 21)]

import importlib, sys
sys.path.insert(0, os.path.join(ROOT, "lib"))
CLAIMED = {}
# only properties the coordinator has integrated and validated on the unchanged tree are claimed
READY = set(open(os.path.join(ROOT, "lib", "checks", "READY")).read().split())
for pid in ALL:
    if pid not in READY:
        continue
    try:
        mod = importlib.import_module("checks." + pid.lower())
    except ModuleNotFoundError:
        continue
    if getattr(mod, "MANIFEST", None):
        CLAIMED[pid] = mod.MANIFEST
PENDING_REASON = "not claimed yet: the Coq model and its correspondence harness for this property are still being built (see DESIGN.md section 4); it is applicable and will be claimed when its check exists"

def main():
    checks = []
    for pid in ALL:
        if pid not in CLAIMED:
            continue
        c = CLAIMED[pid]
        checks.append(dict(
            property_id=pid,
            quick_cmd="bin/check %s --tier quick" % pid,
            thorough_cmd="bin/check %s --tier thorough" % pid,
            evidence_file="/verif/evidence/%s.json" % pid,
            replay_cmd_template="bin/check %s --replay {path}" % pid,
            engine="coq-refinement",
            level_claimed=dict(category="proof", text=c["text"], design_ref="DESIGN.md section " + c["design"]),
            level_note=c["note"],
            technique=c["technique"]))
    man = dict(
        version=1,
        setup_cmd="bin/setup",
        hooks=dict(guard="verif", enable="go build -tags verif (the harness module replaces github.com/protolambda/zrnt by /repo)",
                   baseline_off_cmd="cd /repo && go test -mod=mod -json -vet=off -count=1 -timeout 25m ./...",
                   source_commits=json.load(open(os.path.join(ROOT, "hooks.json")))["source_commits"], add_only=True),
        engines=[dict(name="coq-refinement", path="/verif/coq", serves_properties=sorted(CLAIMED),
                      kind_free_text="Coq 8.16.1 development: Impl models, Spec, refinement/invariant theorems; Go harness + vm_compute correspondence")],
        checks=checks,
        not_applicable=[dict(property_id=p, reason=PENDING_REASON) for p in ALL if p not in CLAIMED],
        notes="fix: commits in /repo and known findings are listed in known_findings.json; DESIGN.md describes the approach and the trusted base.")
    json.dump(man, open(os.path.join(ROOT, "MANIFEST.json"), "w"), indent=1)
    print("MANIFEST.json: %d checks, %d not claimed" % (len(checks), len(man["not_applicable"])))

if __name__ == "__main__":
    main()
