module cfg2coq

go 1.21
