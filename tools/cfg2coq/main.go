// cfg2coq: regenerate, from the working tree of zrnt, the Coq data that C14's obligations compare with the
// hand-pinned tables and the hand-written model:
//
//	GenConfig.v  tables of every `KEY: value` of the embedded preset/config YAML files and of the Go
//	             constants in common/spec.go, common/constants.go, altair/participation.go
//	GenFork.v    Gallina transliteration of Spec.ForkVersion, ForkDecoder.ForkDigest, NewForkDecoder,
//	             BlockAllocator, UpgradeMaybe (+ its boundary helper), the Fork literal of each UpgradeTo*,
//	             and the field-copy tables of Envelope(), Header() and EnvelopeToSignedBeaconBlock
//	GenCheck.v   the obligations (vm_compute / reflexivity)
//
// Go standard library only (go/parser, go/ast, go/printer). A construct that is not recognised is emitted
// as an unbound identifier UNKNOWN_<file>_<line>, so the obligation fails instead of being skipped.
//
// usage: cfg2coq <repo> <outdir>
package main

import (
	"bytes"
	"fmt"
	"go/ast"
	"go/parser"
	"go/printer"
	"go/token"
	"math/big"
	"os"
	"path/filepath"
	"regexp"
	"strings"
)

var fset = token.NewFileSet()

func die(format string, a ...interface{}) {
	fmt.Fprintf(os.Stderr, "cfg2coq: "+format+"\n", a...)
	os.Exit(1)
}

// ---------- YAML (flat `KEY: value` files) ----------

type kv struct{ k, v string } // v is already a Coq term of type cval

var keyRe = regexp.MustCompile(`^([A-Za-z_][A-Za-z0-9_]*)\s*:\s*(.*)$`)
var decRe = regexp.MustCompile(`^[0-9]+$`)
var hexRe = regexp.MustCompile(`^0[xX]([0-9a-fA-F]*)$`)

func coqString(s string) string { return `"` + strings.ReplaceAll(s, `"`, `""`) + `"` }

func yamlValue(raw string) string {
	// strip a trailing comment that is outside quotes
	inq := byte(0)
	for i := 0; i < len(raw); i++ {
		c := raw[i]
		if inq != 0 {
			if c == inq {
				inq = 0
			}
			continue
		}
		if c == '\'' || c == '"' {
			inq = c
		} else if c == '#' && (i == 0 || raw[i-1] == ' ' || raw[i-1] == '\t') {
			raw = raw[:i]
			break
		}
	}
	raw = strings.TrimSpace(raw)
	if len(raw) >= 2 && (raw[0] == '\'' || raw[0] == '"') && raw[len(raw)-1] == raw[0] {
		return "CStr " + coqString(raw[1:len(raw)-1])
	}
	if decRe.MatchString(raw) {
		n := new(big.Int)
		n.SetString(raw, 10)
		return "CN " + n.String()
	}
	if m := hexRe.FindStringSubmatch(raw); m != nil {
		return "hex " + coqString(m[1])
	}
	return "CStr " + coqString("?unparsed:"+raw)
}

func readYAML(path string) []kv {
	data, err := os.ReadFile(path)
	if err != nil {
		die("%v", err)
	}
	var out []kv
	for _, line := range strings.Split(string(data), "\n") {
		t := strings.TrimRight(line, " \t\r")
		if t == "" || strings.HasPrefix(strings.TrimSpace(t), "#") {
			continue
		}
		m := keyRe.FindStringSubmatch(t)
		if m == nil {
			out = append(out, kv{"?unparsed_line", "CStr " + coqString(t)})
			continue
		}
		out = append(out, kv{m[1], yamlValue(m[2])})
	}
	return out
}

func emitTable(sb *strings.Builder, name string, rows []kv) {
	fmt.Fprintf(sb, "Definition %s : table := [\n", name)
	for i, r := range rows {
		sep := ";"
		if i == len(rows)-1 {
			sep = ""
		}
		fmt.Fprintf(sb, "  (%s, %s)%s\n", coqString(r.k), r.v, sep)
	}
	sb.WriteString("].\n\n")
}

// ---------- Go constants ----------

var capsRe = regexp.MustCompile(`^[A-Z][A-Z0-9_]*$`)
var two64 = new(big.Int).Lsh(big.NewInt(1), 64)

func parseFile(path string) *ast.File {
	f, err := parser.ParseFile(fset, path, nil, parser.ParseComments)
	if err != nil {
		die("%v", err)
	}
	return f
}

func pos(n ast.Node) string {
	p := fset.Position(n.Pos())
	return fmt.Sprintf("%s_%d", strings.NewReplacer(".", "_", "-", "_").Replace(filepath.Base(p.Filename)), p.Line)
}

// constant expression evaluator over unbounded integers; `^x` is taken at 64 bits (the only use is
// ^uint64(0)); conversions T(x) are transparent
func evalConst(e ast.Expr, env map[string]*big.Int) (*big.Int, bool) {
	switch x := e.(type) {
	case *ast.BasicLit:
		if x.Kind == token.INT {
			n := new(big.Int)
			if _, ok := n.SetString(x.Value, 0); ok {
				return n, true
			}
		}
		return nil, false
	case *ast.Ident:
		v, ok := env[x.Name]
		return v, ok
	case *ast.ParenExpr:
		return evalConst(x.X, env)
	case *ast.CallExpr:
		if len(x.Args) == 1 {
			switch x.Fun.(type) {
			case *ast.Ident, *ast.SelectorExpr:
				return evalConst(x.Args[0], env)
			}
		}
		return nil, false
	case *ast.UnaryExpr:
		v, ok := evalConst(x.X, env)
		if !ok {
			return nil, false
		}
		switch x.Op {
		case token.XOR:
			return new(big.Int).Sub(new(big.Int).Sub(two64, big.NewInt(1)), v), true
		case token.ADD:
			return v, true
		}
		return nil, false
	case *ast.BinaryExpr:
		a, ok1 := evalConst(x.X, env)
		b, ok2 := evalConst(x.Y, env)
		if !ok1 || !ok2 {
			return nil, false
		}
		switch x.Op {
		case token.ADD:
			return new(big.Int).Add(a, b), true
		case token.SUB:
			if a.Cmp(b) < 0 {
				return nil, false
			}
			return new(big.Int).Sub(a, b), true
		case token.MUL:
			return new(big.Int).Mul(a, b), true
		case token.QUO:
			if b.Sign() == 0 {
				return nil, false
			}
			return new(big.Int).Quo(a, b), true
		case token.SHL:
			if !b.IsUint64() || b.Uint64() > 4096 {
				return nil, false
			}
			return new(big.Int).Lsh(a, uint(b.Uint64())), true
		}
		return nil, false
	}
	return nil, false
}

func goConstants(files []string) []kv {
	env := map[string]*big.Int{}
	var out []kv
	for _, path := range files {
		f := parseFile(path)
		for _, d := range f.Decls {
			gd, ok := d.(*ast.GenDecl)
			if !ok || (gd.Tok != token.CONST && gd.Tok != token.VAR) {
				continue
			}
			for _, s := range gd.Specs {
				vs := s.(*ast.ValueSpec)
				for i, name := range vs.Names {
					if !capsRe.MatchString(name.Name) {
						continue
					}
					if i >= len(vs.Values) {
						out = append(out, kv{name.Name, "UNKNOWN_" + pos(vs)})
						continue
					}
					val := vs.Values[i]
					if gd.Tok == token.CONST {
						n, ok := evalConst(val, env)
						if !ok {
							out = append(out, kv{name.Name, "UNKNOWN_" + pos(val)})
							continue
						}
						env[name.Name] = n
						out = append(out, kv{name.Name, "CN " + n.String()})
						continue
					}
					// var X = T{0x.., ..}: a byte-array literal
					cl, ok := val.(*ast.CompositeLit)
					if !ok {
						continue
					}
					var hx strings.Builder
					good := true
					for _, el := range cl.Elts {
						n, ok := evalConst(el, env)
						if !ok || !n.IsUint64() || n.Uint64() > 255 {
							good = false
							break
						}
						fmt.Fprintf(&hx, "%02x", n.Uint64())
					}
					if !good {
						out = append(out, kv{name.Name, "UNKNOWN_" + pos(val)})
						continue
					}
					out = append(out, kv{name.Name, "hex " + coqString(hx.String())})
				}
			}
		}
	}
	return out
}

// ---------- Go fork functions -> Gallina ----------

func src(n ast.Node) string {
	var b bytes.Buffer
	printer.Fprint(&b, fset, n)
	return strings.Join(strings.Fields(b.String()), " ")
}

func findFunc(f *ast.File, recv, name string) *ast.FuncDecl {
	for _, d := range f.Decls {
		fd, ok := d.(*ast.FuncDecl)
		if !ok || fd.Name.Name != name {
			continue
		}
		r := ""
		if fd.Recv != nil && len(fd.Recv.List) == 1 {
			t := fd.Recv.List[0].Type
			if st, ok := t.(*ast.StarExpr); ok {
				t = st.X
			}
			if id, ok := t.(*ast.Ident); ok {
				r = id.Name
			}
		}
		if r == recv {
			return fd
		}
	}
	return nil
}

var forkOfPkg = map[string]string{"phase0": "Phase0", "altair": "Altair", "bellatrix": "Bellatrix", "capella": "Capella", "deneb": "Deneb", "electra": "Electra", "fulu": "Fulu"}
var forkLower = map[string]string{"GENESIS": "genesis", "ALTAIR": "altair", "BELLATRIX": "bellatrix", "CAPELLA": "capella", "DENEB": "deneb", "ELECTRA": "electra", "FULU": "fulu"}

type tr struct {
	cfg  string            // Coq term of the configuration in scope
	vars map[string]string // Go identifier -> Coq term
	dec  string            // Coq term of the decoder in scope ("" if none)
}

// selector chains like spec.ALTAIR_FORK_EPOCH, d.Spec.X, d.Genesis
func (t *tr) selector(x *ast.SelectorExpr) (string, bool) {
	name := x.Sel.Name
	if strings.HasSuffix(name, "_FORK_EPOCH") {
		if l, ok := forkLower[strings.TrimSuffix(name, "_FORK_EPOCH")]; ok && l != "genesis" {
			return fmt.Sprintf("e_%s %s", l, t.cfg), true
		}
	}
	if strings.HasSuffix(name, "_FORK_VERSION") {
		if l, ok := forkLower[strings.TrimSuffix(name, "_FORK_VERSION")]; ok {
			return fmt.Sprintf("v_%s %s", l, t.cfg), true
		}
	}
	if name == "SLOTS_PER_EPOCH" {
		return "c_spe " + t.cfg, true
	}
	if t.dec != "" {
		if id, ok := x.X.(*ast.Ident); ok && id.Name == "d" {
			if l, ok := forkLower[strings.ToUpper(name)]; ok {
				return fmt.Sprintf("d_%s %s", l, t.dec), true
			}
		}
	}
	return "", false
}

func (t *tr) expr(e ast.Expr) string {
	switch x := e.(type) {
	case *ast.ParenExpr:
		return "(" + t.expr(x.X) + ")"
	case *ast.Ident:
		if v, ok := t.vars[x.Name]; ok {
			return v
		}
	case *ast.BasicLit:
		if x.Kind == token.INT {
			return x.Value
		}
	case *ast.SelectorExpr:
		if v, ok := t.selector(x); ok {
			return "(" + v + ")"
		}
	case *ast.CallExpr:
		// spec.SlotToEpoch(x); conversions common.Slot(x); atForkBoundary(spec, slot, E)
		if sel, ok := x.Fun.(*ast.SelectorExpr); ok {
			if sel.Sel.Name == "SlotToEpoch" && len(x.Args) == 1 {
				return fmt.Sprintf("(slot_to_epoch %s %s)", t.cfg, t.expr(x.Args[0]))
			}
			if (sel.Sel.Name == "Slot" || sel.Sel.Name == "Epoch") && len(x.Args) == 1 {
				return t.expr(x.Args[0])
			}
		}
		if id, ok := x.Fun.(*ast.Ident); ok {
			if (id.Name == "Slot" || id.Name == "Epoch") && len(x.Args) == 1 {
				return t.expr(x.Args[0])
			}
			if len(x.Args) == 3 {
				if a0, ok := x.Args[0].(*ast.Ident); ok && a0.Name == "spec" {
					return fmt.Sprintf("(gen_%s %s %s %s)", id.Name, t.cfg, t.expr(x.Args[1]), t.expr(x.Args[2]))
				}
			}
		}
	case *ast.BinaryExpr:
		a, b := t.expr(x.X), t.expr(x.Y)
		switch x.Op {
		case token.LSS:
			return fmt.Sprintf("(%s <? %s)", a, b)
		case token.LEQ:
			return fmt.Sprintf("(%s <=? %s)", a, b)
		case token.GTR:
			return fmt.Sprintf("(%s <? %s)", b, a)
		case token.GEQ:
			return fmt.Sprintf("(%s <=? %s)", b, a)
		case token.EQL:
			return fmt.Sprintf("(%s =? %s)", a, b)
		case token.NEQ:
			return fmt.Sprintf("(negb (%s =? %s))", a, b)
		case token.LAND:
			return fmt.Sprintf("(%s && %s)", a, b)
		case token.LOR:
			return fmt.Sprintf("(%s || %s)", a, b)
		case token.MUL:
			return fmt.Sprintf("(mul64 %s %s)", a, b)
		case token.REM:
			return fmt.Sprintf("(%s mod %s)", a, b)
		case token.QUO:
			return fmt.Sprintf("(%s / %s)", a, b)
		case token.ADD:
			return fmt.Sprintf("(add64 %s %s)", a, b)
		}
	}
	return "UNKNOWN_" + pos(e)
}

// if c1 { return r1 } else if c2 { return r2 } ... else { return rn }
func (t *tr) ifChain(s ast.Stmt) string {
	switch x := s.(type) {
	case *ast.IfStmt:
		if x.Init != nil || x.Else == nil {
			return "UNKNOWN_" + pos(x)
		}
		return fmt.Sprintf("if %s then %s\n  else %s", t.expr(x.Cond), t.block(x.Body), t.ifChain(x.Else))
	case *ast.BlockStmt:
		return t.block(x)
	}
	return "UNKNOWN_" + pos(s)
}
// a statement list that returns on every path, written with any mix of
//   if c { return r } else if ... else { return r }      (if/else chain)
//   if c { return r }  <rest>                            (early return)
//   switch { case c: return r ... default: return r }    (tagless switch; without default the rest is the default)
//   return r
func (t *tr) stmts(list []ast.Stmt) string {
	if len(list) == 0 {
		return "UNKNOWN_empty_statement_list"
	}
	switch x := list[0].(type) {
	case *ast.ReturnStmt:
		if len(x.Results) == 1 {
			return t.expr(x.Results[0])
		}
	case *ast.BlockStmt:
		if len(list) == 1 {
			return t.stmts(x.List)
		}
	case *ast.IfStmt:
		if x.Init != nil {
			break
		}
		if x.Else == nil {
			if len(list) < 2 {
				break
			}
			return fmt.Sprintf("if %s then %s\n  else %s", t.expr(x.Cond), t.stmts(x.Body.List), t.stmts(list[1:]))
		}
		if len(list) == 1 {
			return fmt.Sprintf("if %s then %s\n  else %s", t.expr(x.Cond), t.stmts(x.Body.List), t.stmts([]ast.Stmt{x.Else}))
		}
	case *ast.SwitchStmt:
		if x.Init != nil || x.Tag != nil {
			break
		}
		var dflt []ast.Stmt
		type arm struct {
			cond string
			body []ast.Stmt
		}
		var arms []arm
		ok := true
		for _, c := range x.Body.List {
			cc, isCC := c.(*ast.CaseClause)
			if !isCC {
				ok = false
				break
			}
			for _, st := range cc.Body {
				if br, isBr := st.(*ast.BranchStmt); isBr && br.Tok == token.FALLTHROUGH {
					ok = false
				}
			}
			if cc.List == nil {
				dflt = cc.Body
				continue
			}
			conds := make([]string, len(cc.List))
			for i, e := range cc.List {
				conds[i] = t.expr(e)
			}
			arms = append(arms, arm{"(" + strings.Join(conds, " || ") + ")", cc.Body})
		}
		if !ok {
			break
		}
		if dflt == nil {
			if len(list) < 2 {
				break
			}
			dflt = list[1:]
		} else if len(list) != 1 {
			break
		}
		out := t.stmts(dflt)
		for i := len(arms) - 1; i >= 0; i-- {
			out = fmt.Sprintf("if %s then %s\n  else %s", arms[i].cond, t.stmts(arms[i].body), out)
		}
		return out
	}
	return "UNKNOWN_" + pos(list[0])
}

func (t *tr) block(b *ast.BlockStmt) string {
	if len(b.List) == 1 {
		if r, ok := b.List[0].(*ast.ReturnStmt); ok && len(r.Results) == 1 {
			return t.expr(r.Results[0])
		}
	}
	return "UNKNOWN_" + pos(b)
}

func genForkVersion(sb *strings.Builder, repo string) {
	f := parseFile(filepath.Join(repo, "eth2/beacon/common/spec.go"))
	fd := findFunc(f, "Spec", "ForkVersion")
	sb.WriteString("(* common/spec.go: func (spec *Spec) ForkVersion(slot Slot) Version *)\n")
	if fd == nil || len(fd.Body.List) < 2 {
		sb.WriteString("Definition gen_fork_version (c : fork_cfg) (slot : N) : N := UNKNOWN_ForkVersion.\n\n")
		return
	}
	t := &tr{cfg: "c", vars: map[string]string{"slot": "slot"}}
	as, ok := fd.Body.List[0].(*ast.AssignStmt)
	if !ok || len(as.Lhs) != 1 || len(as.Rhs) != 1 {
		sb.WriteString("Definition gen_fork_version (c : fork_cfg) (slot : N) : N := UNKNOWN_" + pos(fd.Body.List[0]) + ".\n\n")
		return
	}
	v := as.Lhs[0].(*ast.Ident).Name
	rhs := t.expr(as.Rhs[0])
	t.vars[v] = v
	fmt.Fprintf(sb, "Definition gen_fork_version (c : fork_cfg) (slot : N) : N :=\n  let %s := %s in\n  %s.\n\n", v, rhs, t.stmts(fd.Body.List[1:]))
}

func genDecoder(sb *strings.Builder, repo string) {
	f := parseFile(filepath.Join(repo, "eth2/beacon/fork.go"))
	// ForkDigest
	sb.WriteString("(* beacon/fork.go: func (d *ForkDecoder) ForkDigest(epoch common.Epoch) common.ForkDigest *)\n")
	if fd := findFunc(f, "ForkDecoder", "ForkDigest"); fd != nil && len(fd.Body.List) >= 1 {
		t := &tr{cfg: "(d_cfg d)", dec: "d", vars: map[string]string{"epoch": "epoch"}}
		fmt.Fprintf(sb, "Definition gen_decoder_fork_digest (d : decoder) (epoch : N) : bytes :=\n  %s.\n\n", t.stmts(fd.Body.List))
	} else {
		sb.WriteString("Definition gen_decoder_fork_digest (d : decoder) (epoch : N) : bytes := UNKNOWN_ForkDigest.\n\n")
	}
	// NewForkDecoder
	sb.WriteString("(* beacon/fork.go: func NewForkDecoder(spec, genesisValRoot) *ForkDecoder *)\n")
	fields := map[string]string{}
	okDec := false
	if fd := findFunc(f, "", "NewForkDecoder"); fd != nil && len(fd.Body.List) == 1 {
		if r, ok := fd.Body.List[0].(*ast.ReturnStmt); ok && len(r.Results) == 1 {
			if u, ok := r.Results[0].(*ast.UnaryExpr); ok && u.Op == token.AND {
				if cl, ok := u.X.(*ast.CompositeLit); ok {
					okDec = true
					t := &tr{cfg: "c", vars: map[string]string{}}
					for _, el := range cl.Elts {
						kve, ok := el.(*ast.KeyValueExpr)
						if !ok {
							okDec = false
							break
						}
						key := kve.Key.(*ast.Ident).Name
						if key == "Spec" {
							if id, ok := kve.Value.(*ast.Ident); ok && id.Name == "spec" {
								fields[key] = "c"
							} else {
								fields[key] = "UNKNOWN_" + pos(kve.Value)
							}
							continue
						}
						call, ok := kve.Value.(*ast.CallExpr)
						if !ok || len(call.Args) != 2 || !strings.HasSuffix(src(call.Fun), "ComputeForkDigest") {
							fields[key] = "UNKNOWN_" + pos(kve.Value)
							continue
						}
						a1, ok := call.Args[1].(*ast.Ident)
						if !ok || a1.Name != "genesisValRoot" {
							fields[key] = "UNKNOWN_" + pos(call.Args[1])
							continue
						}
						fields[key] = fmt.Sprintf("(fork_digest H %s gvr)", t.expr(call.Args[0]))
					}
				}
			}
		}
	}
	if okDec {
		get := func(k string) string {
			if v, ok := fields[k]; ok {
				return v
			}
			return "UNKNOWN_NewForkDecoder_missing_" + k
		}
		fmt.Fprintf(sb, "Definition gen_new_decoder (H : bytes -> bytes) (c : fork_cfg) (gvr : bytes) : decoder :=\n  mkDec %s\n    %s\n    %s\n    %s\n    %s\n    %s\n    %s\n    %s.\n\n",
			get("Spec"), get("Genesis"), get("Altair"), get("Bellatrix"), get("Capella"), get("Deneb"), get("Electra"), get("Fulu"))
	} else {
		sb.WriteString("Definition gen_new_decoder (H : bytes -> bytes) (c : fork_cfg) (gvr : bytes) : decoder := UNKNOWN_NewForkDecoder.\n\n")
	}
	// BlockAllocator
	sb.WriteString("(* beacon/fork.go: func (d *ForkDecoder) BlockAllocator(digest) (func() OpaqueBlock, error) *)\n")
	body := "UNKNOWN_BlockAllocator"
	if fd := findFunc(f, "ForkDecoder", "BlockAllocator"); fd != nil && len(fd.Body.List) == 1 {
		if sw, ok := fd.Body.List[0].(*ast.SwitchStmt); ok && src(sw.Tag) == "digest" {
			t := &tr{cfg: "(d_cfg d)", dec: "d", vars: map[string]string{}}
			var parts []string
			dflt := "UNKNOWN_BlockAllocator_no_default"
			for _, c := range sw.Body.List {
				cc := c.(*ast.CaseClause)
				res := "UNKNOWN_" + pos(cc)
				if len(cc.Body) == 1 {
					if r, ok := cc.Body[0].(*ast.ReturnStmt); ok && len(r.Results) == 2 {
						if src(r.Results[0]) == "nil" && src(r.Results[1]) != "nil" {
							res = "Err"
						} else if fl, ok := r.Results[0].(*ast.FuncLit); ok && src(r.Results[1]) == "nil" && len(fl.Body.List) == 1 {
							// return new(<pkg>.SignedBeaconBlock)
							m := regexp.MustCompile(`^return new\((\w+)\.SignedBeaconBlock\)$`).FindStringSubmatch(src(fl.Body.List[0]))
							if m != nil && forkOfPkg[m[1]] != "" {
								res = "Ok " + forkOfPkg[m[1]]
							}
						}
					}
				}
				if cc.List == nil {
					dflt = res
					continue
				}
				for _, ce := range cc.List {
					parts = append(parts, fmt.Sprintf("if bytes_eqb digest %s then %s", t.expr(ce), res))
				}
			}
			body = strings.Join(parts, "\n  else ") + "\n  else " + dflt
		}
	}
	fmt.Fprintf(sb, "Definition gen_block_allocator (d : decoder) (digest : bytes) : outcome fork :=\n  %s.\n\n", body)
}

// UpgradeMaybe: a sequence of `if tpre, ok := s.BeaconState.(*<pkg>.BeaconStateView); ok && <trigger> { post, err := <pkg2>.UpgradeTo<X>(...) ... }`
func genUpgrade(sb *strings.Builder, repo string) {
	f := parseFile(filepath.Join(repo, "eth2/beacon/fork.go"))
	// optional helper functions func name(spec *common.Spec, slot common.Slot, forkEpoch common.Epoch) bool { return <expr> }
	for _, d := range f.Decls {
		fd, ok := d.(*ast.FuncDecl)
		if !ok || fd.Recv != nil || fd.Type.Params == nil || fd.Type.Results == nil || len(fd.Type.Results.List) != 1 {
			continue
		}
		if src(fd.Type.Results.List[0].Type) != "bool" {
			continue
		}
		var names []string
		for _, p := range fd.Type.Params.List {
			for _, n := range p.Names {
				names = append(names, n.Name)
			}
		}
		if len(names) != 3 || names[0] != "spec" {
			continue
		}
		t := &tr{cfg: "c", vars: map[string]string{names[1]: names[1], names[2]: names[2]}}
		fmt.Fprintf(sb, "(* beacon/fork.go: func %s *)\nDefinition gen_%s (c : fork_cfg) (%s %s : N) : bool :=\n  %s.\n\n", fd.Name.Name, fd.Name.Name, names[1], names[2], t.block(fd.Body))
	}
	sb.WriteString("(* beacon/fork.go: func (s *StandardUpgradeableBeaconState) UpgradeMaybe *)\n")
	fd := findFunc(f, "StandardUpgradeableBeaconState", "UpgradeMaybe")
	if fd == nil {
		sb.WriteString("Definition gen_upgrade_maybe (c : fork_cfg) (s : fstate) : outcome fstate := UNKNOWN_UpgradeMaybe.\n\n")
		return
	}
	// which Upgrade functions are stubs (body = single `return nil, errors.New(...)`)
	stub := map[string]bool{}
	for pkg := range forkOfPkg {
		p := filepath.Join(repo, "eth2/beacon", pkg, "fork.go")
		if _, err := os.Stat(p); err != nil {
			continue
		}
		pf := parseFile(p)
		for _, d := range pf.Decls {
			if ufd, ok := d.(*ast.FuncDecl); ok && strings.HasPrefix(ufd.Name.Name, "UpgradeTo") {
				if len(ufd.Body.List) == 1 {
					if r, ok := ufd.Body.List[0].(*ast.ReturnStmt); ok && len(r.Results) == 2 && src(r.Results[0]) == "nil" && src(r.Results[1]) != "nil" {
						stub[pkg+"."+ufd.Name.Name] = true
					}
				}
			}
		}
	}
	t := &tr{cfg: "c", vars: map[string]string{"slot": "(st_slot s)"}}
	var lines []string
	final := "Ok s"
	seenStub := false
	typeAssert := regexp.MustCompile(`^tpre, ok := s\.BeaconState\.\(\*(\w+)\.BeaconStateView\)$`)
	for _, st := range fd.Body.List {
		is, ok := st.(*ast.IfStmt)
		if !ok {
			continue // slot, err := ...; if err != nil {...}; return nil
		}
		if is.Init == nil {
			if src(is.Cond) == "err != nil" {
				continue
			}
			lines = append(lines, "UNKNOWN_"+pos(is))
			continue
		}
		m := typeAssert.FindStringSubmatch(src(is.Init))
		cond, ok := is.Cond.(*ast.BinaryExpr)
		if m == nil || forkOfPkg[m[1]] == "" || !ok || cond.Op != token.LAND || src(cond.X) != "ok" {
			lines = append(lines, "UNKNOWN_"+pos(is))
			continue
		}
		pre := forkOfPkg[m[1]]
		trigger := t.expr(cond.Y)
		// first statement of the body: post, err := <pkg>.UpgradeToX(spec, epc, tpre)
		callee := ""
		if len(is.Body.List) > 0 {
			if as, ok := is.Body.List[0].(*ast.AssignStmt); ok && len(as.Rhs) == 1 {
				if call, ok := as.Rhs[0].(*ast.CallExpr); ok {
					callee = src(call.Fun)
				}
			}
		}
		pkg := strings.SplitN(callee, ".", 2)[0]
		post := forkOfPkg[pkg]
		if post == "" || !strings.Contains(callee, ".UpgradeTo") {
			lines = append(lines, "UNKNOWN_"+pos(is))
			continue
		}
		if seenStub {
			lines = append(lines, "UNKNOWN_after_stub_"+pos(is))
			continue
		}
		if stub[callee] {
			seenStub = true
			final = fmt.Sprintf("if fork_eqb (st_type s) %s && %s then Err else Ok s", pre, trigger)
			continue
		}
		lines = append(lines, fmt.Sprintf("let s := if fork_eqb (st_type s) %s && %s then gen_upgrade_to_%s c s else s in", pre, trigger, strings.ToLower(post)))
	}
	fmt.Fprintf(sb, "Definition gen_upgrade_maybe (c : fork_cfg) (s : fstate) : outcome fstate :=\n  %s\n  %s.\n\n", strings.Join(lines, "\n  "), final)
}

// UpgradeTo<X>: epoch := spec.SlotToEpoch(slot); fork := common.Fork{PreviousVersion: preFork.CurrentVersion, CurrentVersion: spec.X_FORK_VERSION, Epoch: epoch}
func genUpgradeTo(sb *strings.Builder, repo string) {
	for _, pkg := range []string{"altair", "bellatrix", "capella", "deneb"} {
		f := parseFile(filepath.Join(repo, "eth2/beacon", pkg, "fork.go"))
		name := "UpgradeTo" + strings.ToUpper(pkg[:1]) + pkg[1:]
		fd := findFunc(f, "", name)
		fmt.Fprintf(sb, "(* beacon/%s/fork.go: func %s: the Fork literal and the type of the returned view *)\n", pkg, name)
		def := fmt.Sprintf("Definition gen_upgrade_to_%s (c : fork_cfg) (pre : fstate) : fstate :=\n  ", pkg)
		if fd == nil {
			sb.WriteString(def + "UNKNOWN_" + name + ".\n\n")
			continue
		}
		t := &tr{cfg: "c", vars: map[string]string{}}
		var forkTerm string
		retPkg := ""
		for _, st := range fd.Body.List {
			switch x := st.(type) {
			case *ast.AssignStmt:
				if len(x.Lhs) >= 1 && len(x.Rhs) == 1 {
					lhs := src(x.Lhs[0])
					rhs := src(x.Rhs[0])
					switch {
					case rhs == "pre.Slot()":
						t.vars[lhs] = "(st_slot pre)"
					case rhs == "pre.Fork()":
						t.vars[lhs] = "(st_fork pre)"
					case lhs == "epoch":
						t.vars["epoch"] = t.expr(x.Rhs[0])
					case lhs == "fork":
						cl, ok := x.Rhs[0].(*ast.CompositeLit)
						if !ok || src(cl.Type) != "common.Fork" {
							forkTerm = "UNKNOWN_" + pos(x)
							break
						}
						fl := map[string]string{}
						for _, el := range cl.Elts {
							kve := el.(*ast.KeyValueExpr)
							k := src(kve.Key)
							// preFork.CurrentVersion / preFork.PreviousVersion
							if sel, ok := kve.Value.(*ast.SelectorExpr); ok {
								if id, ok := sel.X.(*ast.Ident); ok && t.vars[id.Name] == "(st_fork pre)" {
									switch sel.Sel.Name {
									case "CurrentVersion":
										fl[k] = "(fr_cur (st_fork pre))"
									case "PreviousVersion":
										fl[k] = "(fr_prev (st_fork pre))"
									case "Epoch":
										fl[k] = "(fr_epoch (st_fork pre))"
									}
									if fl[k] != "" {
										continue
									}
								}
							}
							fl[k] = t.expr(kve.Value)
						}
						g := func(k string) string {
							if v, ok := fl[k]; ok {
								return v
							}
							return "UNKNOWN_Fork_missing_" + k
						}
						forkTerm = fmt.Sprintf("(mkFork %s %s %s)", g("PreviousVersion"), g("CurrentVersion"), g("Epoch"))
					}
				}
			case *ast.ReturnStmt:
				// return AsBeaconStateView(BeaconStateType(spec).FromFields(... (*view.Uint64View)(&slot), fork.View(), ...))
				s := src(x)
				if strings.HasPrefix(s, "return AsBeaconStateView(BeaconStateType(spec).FromFields(") {
					retPkg = pkg
					if !strings.Contains(s, "(*view.Uint64View)(&slot), fork.View(),") {
						retPkg = ""
					}
				}
			}
		}
		if forkTerm == "" {
			forkTerm = "UNKNOWN_" + name + "_no_fork_literal"
		}
		typ := forkOfPkg[retPkg]
		if typ == "" {
			typ = "UNKNOWN_" + name + "_return"
		}
		fmt.Fprintf(sb, "%smkSt %s %s (st_slot pre).\n\n", def, typ, forkTerm)
	}
}

// field-copy tables of Envelope(), Header(), EnvelopeToSignedBeaconBlock
func litFields(cl *ast.CompositeLit) string {
	var parts []string
	for _, el := range cl.Elts {
		kve, ok := el.(*ast.KeyValueExpr)
		if !ok {
			parts = append(parts, fmt.Sprintf("(%s, %s)", coqString("?"), coqString(src(el))))
			continue
		}
		parts = append(parts, fmt.Sprintf("(%s, %s)", coqString(src(kve.Key)), coqString(src(kve.Value))))
	}
	return "[" + strings.Join(parts, "; ") + "]"
}

func genShapes(sb *strings.Builder, repo string) {
	var env, hdr []string
	for _, pkg := range []string{"phase0", "altair", "bellatrix", "capella", "deneb", "electra"} {
		f := parseFile(filepath.Join(repo, "eth2/beacon", pkg, "block.go"))
		e := "[(" + coqString("?") + ", " + coqString("Envelope not recognised") + ")]"
		if fd := findFunc(f, "SignedBeaconBlock", "Envelope"); fd != nil && len(fd.Body.List) == 2 {
			if src(fd.Body.List[0]) == "header := b.Message.Header(spec)" {
				if r, ok := fd.Body.List[1].(*ast.ReturnStmt); ok && len(r.Results) == 1 {
					if u, ok := r.Results[0].(*ast.UnaryExpr); ok && u.Op == token.AND {
						if cl, ok := u.X.(*ast.CompositeLit); ok && src(cl.Type) == "common.BeaconBlockEnvelope" {
							e = litFields(cl)
						}
					}
				}
			}
		}
		env = append(env, fmt.Sprintf("(%s, %s)", coqString(pkg), e))
		h := "[(" + coqString("?") + ", " + coqString("Header not recognised") + ")]"
		if fd := findFunc(f, "BeaconBlock", "Header"); fd != nil && len(fd.Body.List) == 1 {
			if r, ok := fd.Body.List[0].(*ast.ReturnStmt); ok && len(r.Results) == 1 {
				if u, ok := r.Results[0].(*ast.UnaryExpr); ok && u.Op == token.AND {
					if cl, ok := u.X.(*ast.CompositeLit); ok && src(cl.Type) == "common.BeaconBlockHeader" {
						h = litFields(cl)
					}
				}
			}
		}
		hdr = append(hdr, fmt.Sprintf("(%s, %s)", coqString(pkg), h))
	}
	fmt.Fprintf(sb, "(* beacon/<fork>/block.go: the composite literal returned by (b *SignedBeaconBlock).Envelope *)\nDefinition gen_envelope_fields : list (string * list (string * string)) := [\n  %s\n]%%string.\n\n", strings.Join(env, ";\n  "))
	fmt.Fprintf(sb, "(* beacon/<fork>/block.go: the composite literal returned by (block *BeaconBlock).Header *)\nDefinition gen_header_fields : list (string * list (string * string)) := [\n  %s\n]%%string.\n\n", strings.Join(hdr, ";\n  "))

	f := parseFile(filepath.Join(repo, "eth2/beacon/fork.go"))
	var back []string
	if fd := findFunc(f, "", "EnvelopeToSignedBeaconBlock"); fd != nil && len(fd.Body.List) == 1 {
		if ts, ok := fd.Body.List[0].(*ast.TypeSwitchStmt); ok && src(ts.Assign) == "x := benv.Body.(type)" {
			for _, c := range ts.Body.List {
				cc := c.(*ast.CaseClause)
				if cc.List == nil {
					ok := len(cc.Body) == 1 && strings.HasPrefix(src(cc.Body[0]), "return nil, ")
					back = append(back, fmt.Sprintf("(%s, [(%s, %s)])", coqString("default"), coqString("error"), coqString(fmt.Sprint(ok))))
					continue
				}
				m := regexp.MustCompile(`^\*(\w+)\.BeaconBlockBody$`).FindStringSubmatch(src(cc.List[0]))
				entry := "[(" + coqString("?") + ", " + coqString("case not recognised") + ")]"
				pkg := "?"
				if m != nil && len(cc.List) == 1 && len(cc.Body) == 1 {
					pkg = m[1]
					if r, ok := cc.Body[0].(*ast.ReturnStmt); ok && len(r.Results) == 2 && src(r.Results[1]) == "nil" {
						if u, ok := r.Results[0].(*ast.UnaryExpr); ok && u.Op == token.AND {
							if cl, ok := u.X.(*ast.CompositeLit); ok && src(cl.Type) == pkg+".SignedBeaconBlock" {
								// flatten Message: pkg.BeaconBlock{...}
								var parts []string
								for _, el := range cl.Elts {
									kve := el.(*ast.KeyValueExpr)
									if inner, ok := kve.Value.(*ast.CompositeLit); ok && src(kve.Key) == "Message" && src(inner.Type) == pkg+".BeaconBlock" {
										for _, iel := range inner.Elts {
											ik := iel.(*ast.KeyValueExpr)
											parts = append(parts, fmt.Sprintf("(%s, %s)", coqString("Message."+src(ik.Key)), coqString(src(ik.Value))))
										}
										continue
									}
									parts = append(parts, fmt.Sprintf("(%s, %s)", coqString(src(kve.Key)), coqString(src(kve.Value))))
								}
								entry = "[" + strings.Join(parts, "; ") + "]"
							}
						}
					}
				}
				back = append(back, fmt.Sprintf("(%s, %s)", coqString(pkg), entry))
			}
		}
	}
	fmt.Fprintf(sb, "(* beacon/fork.go: EnvelopeToSignedBeaconBlock, one entry per case of the type switch *)\nDefinition gen_from_envelope_fields : list (string * list (string * string)) := [\n  %s\n]%%string.\n\n", strings.Join(back, ";\n  "))
}

func main() {
	if len(os.Args) != 3 {
		die("usage: cfg2coq <repo> <outdir>")
	}
	repo, out := os.Args[1], os.Args[2]
	if err := os.MkdirAll(out, 0o755); err != nil {
		die("%v", err)
	}
	// ---- GenConfig.v ----
	var sb strings.Builder
	sb.WriteString("(* GENERATED by tools/cfg2coq from " + repo + " -- do not edit *)\nFrom Coq Require Import String NArith List.\nFrom V Require Import Config.SpecConstants.\nImport ListNotations.\nLocal Open Scope string_scope.\nLocal Open Scope N_scope.\n\n")
	var names []string
	for _, net := range []string{"mainnet", "minimal"} {
		for _, fk := range []string{"phase0", "altair", "bellatrix", "capella", "deneb", "electra"} {
			rows := readYAML(filepath.Join(repo, "eth2/configs/yamls/presets", net, fk+".yaml"))
			emitTable(&sb, "gen_"+net+"_"+fk, rows)
			names = append(names, net+"_"+fk)
		}
		rows := readYAML(filepath.Join(repo, "eth2/configs/yamls/configs", net+".yaml"))
		emitTable(&sb, "gen_"+net+"_config", rows)
		names = append(names, net+"_config")
	}
	emitTable(&sb, "gen_go_constants", goConstants([]string{
		filepath.Join(repo, "eth2/beacon/common/spec.go"),
		filepath.Join(repo, "eth2/beacon/common/constants.go"),
		filepath.Join(repo, "eth2/beacon/altair/participation.go"),
	}))
	names = append(names, "go_constants")
	if err := os.WriteFile(filepath.Join(out, "GenConfig.v"), []byte(sb.String()), 0o644); err != nil {
		die("%v", err)
	}
	// ---- GenFork.v ----
	sb.Reset()
	sb.WriteString("(* GENERATED by tools/cfg2coq from " + repo + " -- do not edit *)\nFrom Coq Require Import String NArith List Bool.\nFrom V Require Import Base.U64 Base.Outcome Config.ForkSchedule.\nImport ListNotations.\nLocal Open Scope N_scope.\nLocal Open Scope bool_scope.\n\n")
	genForkVersion(&sb, repo)
	genDecoder(&sb, repo)
	genUpgradeTo(&sb, repo)
	genUpgrade(&sb, repo)
	genShapes(&sb, repo)
	if err := os.WriteFile(filepath.Join(out, "GenFork.v"), []byte(sb.String()), 0o644); err != nil {
		die("%v", err)
	}
	// ---- obligations: one file each, so that one failure does not hide the others ----
	hdr := "(* GENERATED by tools/cfg2coq -- obligation over the regenerated definitions *)\nFrom Coq Require Import String NArith List Bool.\nFrom V Require Import Base.U64 Base.Outcome Config.ForkSchedule Config.SpecConstants Config.GoShapes.\nFrom Gen Require Import GenConfig GenFork.\nImport ListNotations.\nLocal Open Scope N_scope.\n\n"
	obl := map[string]string{}
	for _, n := range names {
		obl["const_"+n] = fmt.Sprintf("Definition D := Eval vm_compute in table_diff gen_%s %s.\nPrint D.\nLemma constants_ok_%s : table_diff gen_%s %s = [].\nProof. vm_compute. reflexivity. Qed.\n", n, n, n, n, n)
	}
	obl["fork_version"] = "Lemma gen_fork_version_ok : forall c slot, gen_fork_version c slot = fork_version c slot.\nProof. intros. reflexivity. Qed.\n"
	obl["decoder_fork_digest"] = "Lemma gen_decoder_fork_digest_ok : forall d epoch, gen_decoder_fork_digest d epoch = decoder_fork_digest d epoch.\nProof. intros. reflexivity. Qed.\n"
	obl["new_decoder"] = "Lemma gen_new_decoder_ok : forall H c gvr, gen_new_decoder H c gvr = new_decoder H c gvr.\nProof. intros. reflexivity. Qed.\n"
	obl["block_allocator"] = "Lemma gen_block_allocator_ok : forall d digest, gen_block_allocator d digest = block_allocator d digest.\nProof. intros. reflexivity. Qed.\n"
	obl["upgrade_to"] = "Lemma gen_upgrade_to_ok : forall c pre,\n  gen_upgrade_to_altair c pre = upgrade_to c Altair pre /\\ gen_upgrade_to_bellatrix c pre = upgrade_to c Bellatrix pre /\\\n  gen_upgrade_to_capella c pre = upgrade_to c Capella pre /\\ gen_upgrade_to_deneb c pre = upgrade_to c Deneb pre.\nProof. intros. repeat split; reflexivity. Qed.\n"
	obl["upgrade_maybe"] = "Lemma gen_upgrade_maybe_ok : forall c s, gen_upgrade_maybe c s = upgrade_maybe c s.\nProof. intros. reflexivity. Qed.\n"
	obl["envelope_shapes"] = "Lemma gen_envelope_shapes_ok :\n  gen_envelope_fields = expected_envelope_fields /\\ gen_header_fields = expected_header_fields /\\\n  gen_from_envelope_fields = expected_from_envelope_fields.\nProof. vm_compute. repeat split; reflexivity. Qed.\n"
	var list []string
	for k, v := range obl {
		if err := os.WriteFile(filepath.Join(out, "Check_"+k+".v"), []byte(hdr+v), 0o644); err != nil {
			die("%v", err)
		}
		list = append(list, k)
	}
	_ = list
}
