(* Driver of the extracted beacon model: file I/O, parsing of the chain directory format
   (design/chain-format.md), the BLS oracle tables, and printing.  No consensus logic here. *)
open Beacon_model

(* ---------- numbers and bytes ---------- *)
let rec pos_of_int (i : int) : positive =
  if i = 1 then XH else if i land 1 = 0 then XO (pos_of_int (i lsr 1)) else XI (pos_of_int (i lsr 1))
let n_of_small (i : int) : n = if i = 0 then N0 else Npos (pos_of_int i)
let n10 = n_of_small 10
let n_of_decimal (s : string) : n =
  let acc = ref N0 in
  String.iter (fun ch ->
      if ch >= '0' && ch <= '9' then acc := N.add (N.mul !acc n10) (n_of_small (Char.code ch - 48))
      else failwith ("bad decimal: " ^ s)) s;
  !acc
let rec int_of_pos (p : positive) : int =
  match p with XH -> 1 | XO q -> 2 * int_of_pos q | XI q -> 2 * int_of_pos q + 1
let int_of_n (x : n) : int = match x with N0 -> 0 | Npos p -> int_of_pos p
(* decimal printing of arbitrary N via repeated halving is awkward; N values printed here fit in 63 bits except
   FAR_FUTURE_EPOCH-like values, which we print through two 32-bit halves *)
let rec pos_to_float (p : positive) : float =
  match p with XH -> 1.0 | XO q -> 2.0 *. pos_to_float q | XI q -> 2.0 *. pos_to_float q +. 1.0
let string_of_n (x : n) : string =
  (* exact for < 2^62; otherwise hex via bits *)
  let rec bits p acc = match p with XH -> 1 :: acc | XO q -> bits q (0 :: acc) | XI q -> bits q (1 :: acc) in
  match x with
  | N0 -> "0"
  | Npos p ->
      let b = bits p [] in
      if List.length b <= 62 then string_of_int (int_of_pos p)
      else begin
        (* big: print as decimal using Z-free long division by 10 on a bit list is overkill; use hex *)
        let n = List.length b in
        let pad = (4 - n mod 4) mod 4 in
        let b = List.init pad (fun _ -> 0) @ b in
        let buf = Buffer.create 20 in
        Buffer.add_string buf "0x";
        let rec go l = match l with
          | a :: b' :: c :: d :: rest -> Buffer.add_string buf (Printf.sprintf "%x" (a*8+b'*4+c*2+d)); go rest
          | _ -> () in
        go b; Buffer.contents buf
      end

let byte_table : n array = Array.init 256 n_of_small
let bytes_of_string (s : string) : n list =
  let l = ref [] in
  for i = String.length s - 1 downto 0 do l := byte_table.(Char.code s.[i]) :: !l done;
  !l
let string_of_bytes (b : n list) : string =
  let buf = Buffer.create 64 in
  List.iter (fun x -> Buffer.add_char buf (Char.chr (int_of_n x land 255))) b;
  Buffer.contents buf
let hex_of_string (s : string) : string =
  let buf = Buffer.create (2 * String.length s) in
  String.iter (fun c -> Buffer.add_string buf (Printf.sprintf "%02x" (Char.code c))) s;
  Buffer.contents buf
let string_of_hex (h : string) : string =
  let h = if String.length h >= 2 && String.sub h 0 2 = "0x" then String.sub h 2 (String.length h - 2) else h in
  let n = String.length h / 2 in
  String.init n (fun i -> Char.chr (int_of_string ("0x" ^ String.sub h (2 * i) 2)))

let read_file (path : string) : string =
  let ic = open_in_bin path in
  let n = in_channel_length ic in
  let s = really_input_string ic n in
  close_in ic; s
let read_lines (path : string) : string list =
  let ic = open_in path in
  let rec go acc = match input_line ic with l -> go (l :: acc) | exception End_of_file -> close_in ic; List.rev acc in
  go []
let split_ws (s : string) : string list = List.filter (fun x -> x <> "") (String.split_on_char ' ' (String.trim s))

(* ---------- config.yaml ---------- *)
let parse_config (path : string) : config =
  let tbl = Hashtbl.create 200 in
  List.iter (fun line ->
      let line = String.trim line in
      if line <> "" && line.[0] <> '#' then
        match String.index_opt line ':' with
        | Some i ->
            let k = String.trim (String.sub line 0 i) in
            let v = String.trim (String.sub line (i + 1) (String.length line - i - 1)) in
            let v = match String.index_opt v '#' with Some j -> String.trim (String.sub v 0 j) | None -> v in
            let v = if String.length v >= 2 && (v.[0] = '\'' || v.[0] = '"') then String.sub v 1 (String.length v - 2) else v in
            Hashtbl.replace tbl k v
        | None -> ()) (read_lines path);
  let num k = match Hashtbl.find_opt tbl k with
    | Some v when String.length v > 2 && String.sub v 0 2 = "0x" -> n_of_decimal "0"
    | Some v -> (try n_of_decimal v with _ -> N0)
    | None -> prerr_endline ("config: missing " ^ k); N0 in
  let byt k = match Hashtbl.find_opt tbl k with
    | Some v -> bytes_of_string (string_of_hex v)
    | None -> prerr_endline ("config: missing " ^ k); [] in
  config_of num byt

(* ---------- BLS oracle ---------- *)
type bls_tables = {
  pks : (string, unit) Hashtbl.t;
  sigs : (string, (string * string list)) Hashtbl.t;   (* sig -> (msg, sorted pks) ; multiple entries per sig allowed *)
  aggs : (string, string) Hashtbl.t;                   (* sorted pks joined -> aggregate *)
}
let load_bls (path : string) : bls_tables =
  let t = { pks = Hashtbl.create 1000; sigs = Hashtbl.create 5000; aggs = Hashtbl.create 100 } in
  if Sys.file_exists path then
    List.iter (fun line ->
        match split_ws line with
        | ["PK"; pk] -> Hashtbl.replace t.pks (string_of_hex pk) ()
        | ["SIG"; s; m; pks] ->
            let l = List.sort compare (List.map string_of_hex (String.split_on_char ',' pks)) in
            Hashtbl.add t.sigs (string_of_hex s) (string_of_hex m, l)
        | ["AGG"; a; pks] ->
            let l = List.sort compare (List.map string_of_hex (String.split_on_char ',' pks)) in
            Hashtbl.replace t.aggs (String.concat "" l) (string_of_hex a)
        | _ -> ()) (read_lines path);
  t
let missing_agg = ref 0
let bls_fav (t : bls_tables) (pks : n list list) (msg : n list) (sg : n list) : bool =
  let pks = List.sort compare (List.map string_of_bytes pks) in
  pks <> [] && List.for_all (fun pk -> Hashtbl.mem t.pks pk) pks
  && List.exists (fun (m, l) -> m = string_of_bytes msg && l = pks) (Hashtbl.find_all t.sigs (string_of_bytes sg))
let bls_verify1 t pk msg sg = bls_fav t [pk] msg sg
let bls_agg (t : bls_tables) (pks : n list list) : n list =
  let l = List.sort compare (List.map string_of_bytes pks) in
  match Hashtbl.find_opt t.aggs (String.concat "" l) with
  | Some a -> bytes_of_string a
  | None -> incr missing_agg; bytes_of_string (String.make 48 '\xee')

(* ---------- EpochsContext dump vs a view (the Spec's, or the projection of the Impl model's context) ---------- *)
(* returns the names of the differing fields, in file order of the checks *)
let compare_view (dir : string) (ev : epc_view) (file : string) : string list =
  let tbl = Hashtbl.create 64 in
  List.iter (fun l -> match split_ws l with k :: rest -> Hashtbl.add tbl k rest | [] -> ()) (read_lines (Filename.concat dir file));
  let ints l = String.concat " " (List.map string_of_n l) in
  let bad = ref [] in
  let expect key (got : string list option) (want : string) =
    match got with
    | None -> if want <> "" then bad := (key ^ ":missing") :: !bad
    | Some g -> if String.concat " " g <> want then bad := key :: !bad in
  expect "current_epoch" (Hashtbl.find_opt tbl "current_epoch") (string_of_n ev.ev_current_epoch);
  List.iteri (fun k name ->
      expect (name ^ "_active") (Hashtbl.find_opt tbl (name ^ "_active")) (ints (List.nth ev.ev_active k));
      let comms = List.nth ev.ev_committees k in
      let golines = Hashtbl.find_all tbl (name ^ "_committee") in
      List.iteri (fun s per_slot ->
          List.iteri (fun ci members ->
              let key = Printf.sprintf "%d %d" s ci in
              let g = List.find_opt (fun l -> match l with a :: b :: _ -> (a ^ " " ^ b) = key | _ -> false) golines in
              match g with
              | Some (_ :: _ :: rest) -> if String.concat " " rest <> ints members then bad := (name ^ "_committee " ^ key) :: !bad
              | _ -> bad := (name ^ "_committee " ^ key ^ ":missing") :: !bad) per_slot) comms;
      let count = List.fold_left (fun a l -> a + List.length l) 0 comms in
      if List.length golines <> count then bad := (name ^ "_committee:count") :: !bad;
      (* optional line: what GetCommitteeCountPerSlot answers for that epoch = committees per slot of the view *)
      (match Hashtbl.find_opt tbl (name ^ "_committee_count"), comms with
       | Some g, per_slot :: _ -> if String.concat " " g <> string_of_int (List.length per_slot) then bad := (name ^ "_committee_count") :: !bad
       | _ -> ()))
    ["prev"; "cur"; "next"];
  (match Hashtbl.find_opt tbl "proposers" with
   | Some g ->
       let w = List.map (fun o -> match o with Some p -> string_of_n p | None -> "?") ev.ev_proposers in
       if g <> w then bad := "proposers" :: !bad
   | None -> bad := "proposers:missing" :: !bad);
  expect "effective_balances" (Hashtbl.find_opt tbl "effective_balances") (ints ev.ev_effective_balances);
  expect "total_active_stake" (Hashtbl.find_opt tbl "total_active_stake") (string_of_n ev.ev_total_active_stake);
  (* the cached square root (used for altair+ base rewards): the Spec's integer_squareroot of the Spec's stake; the line is
     optional so that older dumps still parse *)
  (match Hashtbl.find_opt tbl "total_active_stake_sqrt" with
   | Some g -> if String.concat " " g <> string_of_n (integer_squareroot ev.ev_total_active_stake) then bad := "total_active_stake_sqrt" :: !bad
   | None -> ());
  (match ev.ev_sync_current with Some l -> expect "sync_current" (Hashtbl.find_opt tbl "sync_current") (ints l) | None -> ());
  (match ev.ev_sync_next with Some l -> expect "sync_next" (Hashtbl.find_opt tbl "sync_next") (ints l) | None -> ());
  List.rev !bad

(* Impl model only: a nil sync committee of the model (pre-altair) must be absent from the dump too; `pubkey I 0x..` lines
   (present in some dumps) against the list the model's pubkey cache denotes *)
let compare_impl_extra (dir : string) (ev : epc_view) (pubkeys : n list list) (file : string) : string list =
  let bad = ref [] in
  let pk = Array.of_list (List.map (fun b -> hex_of_string (string_of_bytes b)) pubkeys) in
  List.iter (fun l ->
      match split_ws l with
      | ["pubkey"; i; v] ->
          let i = int_of_string i in
          let want = if i < Array.length pk then "0x" ^ pk.(i) else "-" in
          if v <> want && not (List.mem "pubkeys" !bad) then bad := "pubkeys" :: !bad
      | "sync_current" :: _ -> if ev.ev_sync_current = None then bad := "sync_current:nil-in-model" :: !bad
      | "sync_next" :: _ -> if ev.ev_sync_next = None then bad := "sync_next:nil-in-model" :: !bad
      | _ -> ()) (read_lines (Filename.concat dir file));
  List.rev !bad

(* ---------- main: replay steps.txt ---------- *)
let fork_of_string = function
  | "phase0" -> Phase0 | "altair" -> Altair | "bellatrix" -> Bellatrix | "capella" -> Capella | "deneb" -> Deneb
  | s -> failwith ("unknown fork " ^ s)
let string_of_fork = function Phase0 -> "phase0" | Altair -> "altair" | Bellatrix -> "bellatrix" | Capella -> "capella" | Deneb -> "deneb"

let () =
  let dir = Sys.argv.(1) in
  let only = if Array.length Sys.argv > 2 then Some (int_of_string Sys.argv.(2)) else None in
  let cfg = parse_config (Filename.concat dir "config.yaml") in
  let bls = load_bls (Filename.concat dir "bls.txt") in
  let engine_verdict = ref true in
  let engine_seen : (value * string list * string) list ref = ref [] in
  let last_trans : (int * fork) option ref = ref None in
  let engine payload vhs parent =
    engine_seen := (payload, List.map (fun h -> hex_of_string (string_of_bytes h)) vhs, hex_of_string (string_of_bytes parent)) :: !engine_seen;
    !engine_verdict in
  (* memo table for 64-byte inputs (Merkle nodes): most of a state's tree is unchanged from slot to slot *)
  let memo : (string, n list) Hashtbl.t = Hashtbl.create 200000 in
  let hash (input : n list) : n list =
    match input with
    | _ when List.compare_length_with input 64 = 0 ->
        let key = string_of_bytes input in
        (match Hashtbl.find_opt memo key with
         | Some r -> r
         | None -> let r = sha256 input in
                   if Hashtbl.length memo > 2000000 then Hashtbl.reset memo;
                   Hashtbl.add memo key r; r)
    | _ -> sha256 input in
  let env = mk_env cfg hash (bls_verify1 bls) (bls_fav bls) (bls_agg bls) engine in
  let states : (string, fork * string) Hashtbl.t = Hashtbl.create 100 in
  let blocks : (string, fork * string) Hashtbl.t = Hashtbl.create 100 in
  (* state id -> the context of the IMPLEMENTATION model (Beacon/Impl/Epc.v) that accompanies that state: carried along
     the honest live-context steps by epc_process_slots / epc_state_transition, seeded by new_epochs_context.
     Contexts are immutable values, so EpochsContext.Clone (branch= records) is sharing the entry.
     impl_failed: the model's context operation failed on a step on which Go and the Spec succeeded (line, how). *)
  let impl_epc : (string, epc) Hashtbl.t = Hashtbl.create 100 in
  let impl_failed : (string, int * string) Hashtbl.t = Hashtbl.create 10 in
  let impl_steps = ref 0 in
  let impl_store (post : string) (lineno : int) (res : result) (r : epc_run) =
    (match r with EROk _ -> incr impl_steps | _ -> ());
    match r, res with
    | EROk e, _ -> Hashtbl.replace impl_epc post e; Hashtbl.remove impl_failed post
    | ERFail tag, ROk _ -> Hashtbl.remove impl_epc post; Hashtbl.replace impl_failed post (lineno, tag)
    | _, _ -> Hashtbl.remove impl_epc post in
  let is_id (post : string) = post <> "ERR" && post <> "PANIC" in
  let blob f = read_file (Filename.concat dir f) in
  let nok = ref 0 and nbad = ref 0 and nskip = ref 0 in
  let cur_want = ref true in   (* false while replaying the steps before a single requested `epc` record (context tracking only) *)
  let report lineno ok detail =
    if not !cur_want then () else
    if ok then (incr nok; Printf.printf "OK %d %s\n" lineno detail)
    else (incr nbad; Printf.printf "MISMATCH %d %s\n" lineno detail) in
  let judge lineno (res : result) (go_post : string) (what : string) =
    (* go_post: id | ERR | PANIC *)
    match res with
    | RBadInput w -> report lineno false (Printf.sprintf "%s: model cannot decode %s" what w)
    | RReject ->
        if go_post = "ERR" then report lineno true (what ^ " both-reject")
        else if go_post = "PANIC" then report lineno false (what ^ " go-panicked spec-rejects")
        else report lineno false (what ^ " spec-rejects go-accepted")
    | ROk (f, post, _root) ->
        if go_post = "ERR" || go_post = "PANIC" then
          report lineno false (Printf.sprintf "%s spec-accepts go-%s" what (String.lowercase_ascii go_post))
        else begin
          match Hashtbl.find_opt states go_post with
          | None -> report lineno false (what ^ " unknown post id " ^ go_post)
          | Some (gf, gbytes) ->
              if gf <> f then report lineno false (Printf.sprintf "%s fork differs: spec %s go %s" what (string_of_fork f) (string_of_fork gf))
              else if string_of_bytes post = gbytes then report lineno true (what ^ " same-post-state")
              else
                let d = diff_state_fields cfg f post (bytes_of_string gbytes) in
                report lineno false (Printf.sprintf "%s post-state differs in: %s" what (String.concat "," d))
        end in
  let lines = read_lines (Filename.concat dir "steps.txt") in
  (* a single requested `epc` record needs the Impl context carried up to it: the steps before it are run silently *)
  let track_upto = match only with
    | Some k -> (match List.nth_opt lines (k - 1) with
                 | Some l -> (match split_ws l with "epc" :: _ -> k | _ -> 0)
                 | None -> 0)
    | None -> 0 in
  List.iteri (fun i line ->
      let lineno = i + 1 in
      let want = match only with Some k -> k = lineno | None -> true in
      let track = lineno < track_upto in
      cur_want := want;
      match split_ws line with
      | [] -> ()
      | tok :: _ when String.length tok > 0 && tok.[0] = '#' -> ()
      | "state" :: id :: fk :: file :: stags ->
          let f = fork_of_string fk in
          let b = blob file in
          Hashtbl.replace states id (f, b);
          (* optional tag root=<hex>: the root zrnt's tree-backed view reported for this state *)
          List.iter (fun t ->
              if want && String.length t > 5 && String.sub t 0 5 = "root=" then begin
                let go_root = String.lowercase_ascii (String.sub t 5 (String.length t - 5)) in
                let go_root = if String.length go_root > 2 && String.sub go_root 0 2 = "0x" then String.sub go_root 2 (String.length go_root - 2) else go_root in
                match run_state_root env f (bytes_of_string b) with
                | Some r ->
                    let mr = hex_of_string (string_of_bytes r) in
                    report lineno (mr = go_root) (Printf.sprintf "stateroot %s" (if mr = go_root then "" else "spec=" ^ mr ^ " go=" ^ go_root))
                | None -> report lineno false "stateroot model cannot decode state"
              end) stags
      | ["blk"; id; fk; file] -> Hashtbl.replace blocks id (fork_of_string fk, blob file)
      | "slots" :: pre :: target :: post :: _stags when want || track ->
          (match Hashtbl.find_opt states pre with
           | None -> report lineno false "slots: unknown pre id"
           | Some (f, b) ->
               engine_verdict := true;
               let res =
                 if is_id post && not (List.mem "ctx=fresh" _stags) then begin
                   (* Go ran this with the long-lived context and succeeded: the Impl context goes along (one pass with the
                      Spec's computation; fst = run_slots by EpcRun.run_epc_impl_slots_spec) *)
                   let (res, r) = run_epc_impl_slots env f (bytes_of_string b) (Hashtbl.find_opt impl_epc pre) (n_of_decimal target) in
                   impl_store post lineno res r; res
                 end else run_slots env f (bytes_of_string b) (n_of_decimal target) in
               judge lineno res post "slots")
      | "trans" :: pre :: blk :: validate :: eng :: post :: _tags when want || track ->
          (match Hashtbl.find_opt states pre, Hashtbl.find_opt blocks blk with
           | Some (f, b), Some (bf, bb) ->
               (* engine=none means spec.ExecutionEngine is nil: nothing approves a payload *)
               engine_verdict := (eng = "valid");
               engine_seen := [];
               let honest_live =
                 is_id post && not (List.mem "ctx=fresh" _tags)
                 && (List.mem "kind=honest" _tags || not (List.exists (fun t -> String.length t > 5 && String.sub t 0 5 = "kind=") _tags)) in
               let res =
                 if honest_live then begin
                   (* fst = run_transition by EpcRun.run_epc_impl_trans_spec *)
                   let (res, r) = run_epc_impl_trans env f (bytes_of_string b) (Hashtbl.find_opt impl_epc pre) bf (bytes_of_string bb) (validate = "1") in
                   impl_store post lineno res r; res
                 end else run_transition env f (bytes_of_string b) bf (bytes_of_string bb) (validate = "1") in
               let seen = !engine_seen in
               last_trans := Some (lineno, bf);
               let why = match res with
                 | RReject ->
                     let stage = diagnose_transition env f (bytes_of_string b) bf (bytes_of_string bb) (validate = "1") in
                     let extra =
                       if stage = "state-root" then
                         (match run_transition env f (bytes_of_string b) bf (bytes_of_string bb) false, Hashtbl.find_opt states post with
                          | ROk (f2, p2, _), Some (_, gbytes) ->
                              " differs-in=" ^ String.concat "," (diff_state_fields cfg f2 p2 (bytes_of_string gbytes))
                          | _ -> "")
                       else "" in
                     " spec-stage=" ^ stage ^ extra
                 | _ -> "" in
               engine_seen := seen;
               judge lineno res post ("trans[" ^ String.concat " " _tags ^ "]" ^ why)
           | _ -> report lineno false "trans: unknown pre/blk id")
      | "genesis" :: hash :: time :: deps :: post :: valid :: _gtags when want ->
          let d = if deps = "-" then "" else blob deps in
          let ((res, v), small) = run_genesis env (bytes_of_string (string_of_hex hash)) (n_of_decimal time) (bytes_of_string d) in
          (match res with
           | ROk _ when small && post = "ERR" ->
               report lineno true "genesis go-refuses-registry-smaller-than-SLOTS_PER_EPOCH (documented API limit; the Spec builds a state)"
           | _ -> judge lineno res post "genesis");
          (* the implementation model of GenesisFromEth1 (Beacon/Impl/Genesis.v, proved equal to the Spec) against Go *)
          (match run_genesis_impl env (fun _ -> true) (fun _ -> true) (bytes_of_string (string_of_hex hash)) (n_of_decimal time) (bytes_of_string d) false with
           | GenOk b ->
               (match Hashtbl.find_opt states post with
                | Some (_, gbytes) -> report lineno (string_of_bytes b = gbytes) "genesis-impl same-post-state-as-impl-model"
                | None -> report lineno false ("genesis-impl impl-model-accepts go-" ^ String.lowercase_ascii post))
           | GenErr -> report lineno (post = "ERR") "genesis-impl impl-model-errors"
           | GenPanic -> report lineno false "genesis-impl impl-model-panics"
           | GenBadInput -> report lineno false "genesis-impl impl-model-cannot-decode");
          (match res with
           | ROk (_, _, mroot) ->
               List.iter (fun t ->
                   if String.length t > 5 && String.sub t 0 5 = "root=" then begin
                     let g = String.lowercase_ascii (String.sub t 5 (String.length t - 5)) in
                     let g = if String.length g > 2 && String.sub g 0 2 = "0x" then String.sub g 2 (String.length g - 2) else g in
                     let mr = hex_of_string (string_of_bytes mroot) in
                     report lineno (mr = g) ("genesis-root " ^ (if mr = g then "" else "spec=" ^ mr ^ " go=" ^ g))
                   end) _gtags
           | _ -> ());
          (match res with
           | ROk _ when valid <> "-" ->
               report lineno ((valid = "1") = v) (Printf.sprintf "genesis-validity spec=%b go=%s" v valid)
           | _ -> ())
      | "epc" :: sid :: live :: fresh :: _etags when want || track ->
          if want then
          (match Hashtbl.find_opt states sid with
           | None -> report lineno false "epc: unknown state id"
           | Some (f, b) ->
               match run_epc_view env f (bytes_of_string b) with
               | None -> report lineno false "epc: model cannot decode state"
               | Some ev ->
                   let check file label =
                     let bad = compare_view dir ev file in
                     report lineno (bad = []) (Printf.sprintf "epc-%s %s" label (String.concat ";" bad)) in
                   check live "live"; check fresh "fresh");
          (* the IMPLEMENTATION model (Beacon/Impl/Epc.v, Impl/Shuffling.v; proved equal to the Spec in Beacon/Refine)
             against the same two dumps: new_epochs_context vs Go's NewEpochsContext, and the context the model carried
             along the chain (epc_process_slots / epc_state_transition) vs Go's long-lived context *)
          (match Hashtbl.find_opt states sid with
           | None -> ()
           | Some (f, b) ->
               let go_failed file =
                 match read_lines (Filename.concat dir file) with
                 | l :: _ -> (match split_ws l with "ERR" :: _ -> Some "err" | "PANIC" :: _ -> Some "panic" | _ -> None)
                 | [] -> None in
               let against file label (e : epc) =
                 match go_failed file with
                 | Some g -> report lineno false (Printf.sprintf "%s impl-ok go-%s" label g)
                 | None ->
                     let bad = (let v = epc_to_view e in compare_view dir v file @ compare_impl_extra dir v (epc_pubkeys e) file) in
                     report lineno (bad = []) (Printf.sprintf "%s %s" label (String.concat ";" bad)) in
               let fresh_run = lazy (run_epc_impl_fresh env f (bytes_of_string b)) in
               if want then
               (match Lazy.force fresh_run with
                | EROk e -> against fresh "epc-impl-fresh" e
                | ERFail tag ->
                    let g = match go_failed fresh with Some g -> g | None -> "ok" in
                    report lineno (g = tag) (Printf.sprintf "epc-impl-fresh impl-%s go-%s" tag g)
                | ERBadInput -> report lineno false "epc-impl-fresh impl-model-cannot-decode-state");
               (match Hashtbl.find_opt impl_epc sid, Hashtbl.find_opt impl_failed sid with
                | Some e, _ -> against live "epc-impl-live" e
                | None, Some (l, tag) ->
                    Hashtbl.remove impl_failed sid;
                    report lineno false (Printf.sprintf "epc-impl-live impl-%s-at-line-%d go-ok" tag l)
                | None, None ->
                    (* no carried value (first state of the chain, after `reload`, or the step that led here did not run
                       with the live context): Go's context is a fresh one; the model's likewise, and it is the seed from here on *)
                    (match Lazy.force fresh_run with
                     | EROk e -> Hashtbl.replace impl_epc sid e; against live "epc-impl-live seeded" e
                     | _ -> ())))
      | "kickstart" :: hash :: time :: vfile :: post :: _ktags when want ->
          let g2 = string_of_hex "93e02b6052719f607dacd3a088274f65596bd0d09920b61ab5da61bbdc7f5049334cf11213945d57e5ac7d055d042b7e024aa2b2f08f0a91260805272dc51051c6e47ad4fa403b02b4510b647ae3d1770bac0326a805bbefd48056c8c121bdb8" in
          (* a key decodes iff it is in the PK table (the generator lists every decodable key it uses; kickstart lists may contain
             undecodable ones, which zrnt skips) *)
          (match run_kickstart_impl env (fun pk -> Hashtbl.mem bls.pks (string_of_bytes pk)) (fun _ -> true) (bytes_of_string g2) (bytes_of_string (string_of_hex hash)) (n_of_decimal time) (bytes_of_string (blob vfile)) with
           | GenOk b ->
               (match Hashtbl.find_opt states post with
                | Some (_, gbytes) -> report lineno (string_of_bytes b = gbytes) "kickstart-impl same-post-state-as-impl-model"
                | None -> report lineno false ("kickstart-impl impl-model-accepts go-" ^ String.lowercase_ascii post))
           | GenErr -> report lineno (post = "ERR") "kickstart-impl impl-model-errors"
           | _ -> report lineno false "kickstart-impl impl-model-panics-or-cannot-decode")
      | "engine" :: tl :: proot :: vhs :: parent :: _etags2 ->
          (* what zrnt showed the engine for the preceding transition vs what the Spec shows *)
          (match !last_trans, !engine_seen with
           | Some (l, bf), (p, mvhs, mparent) :: _ when string_of_int l = tl ->
               let mroot = hex_of_string (string_of_bytes (payload_root env bf p)) in
               let bad = ref [] in
               if mroot <> proot then bad := "payload" :: !bad;
               let vhs = if vhs = "[]" then "" else vhs in
               if vhs <> "-" && String.concat "," mvhs <> vhs then bad := "versioned_hashes" :: !bad;
               if parent <> "-" && mparent <> parent then bad := "parent_beacon_root" :: !bad;
               report lineno (!bad = []) ("engine-args " ^ String.concat "," !bad)
           | _ -> ())
      | "reload" :: id :: _ ->
          (* Go continues from re-read state bytes with NewEpochsContext: the model's context is re-seeded (lazily) too *)
          Hashtbl.remove impl_epc id; Hashtbl.remove impl_failed id
      | "reload" :: _ -> ()
      | "cancel" :: _ -> ()
      | _ -> if want then incr nskip)
    lines;
  (* a context operation of the Impl model failed on a step on which Go and the Spec succeeded, and no `epc` record of the
     post-state followed: say so here (line 0 = not a record of steps.txt) *)
  Hashtbl.iter (fun id (l, tag) -> if only = None then report 0 false (Printf.sprintf "epc-impl-live impl-%s-at-line-%d go-ok state=%s" tag l id)) impl_failed;
  Printf.printf "SUMMARY ok=%d mismatch=%d skipped=%d missing_agg=%d impl_epc_steps=%d\n" !nok !nbad !nskip !missing_agg !impl_steps
