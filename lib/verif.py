#!/usr/bin/env python3
"""Shared driver for the per-property checks (see DESIGN.md section 2.5).

One run of `bin/check Cxx --tier T`:
  1. grep gate over the Coq development (no Admitted / Axiom / ...),
  2. `make` in /verif/coq (full .vo build; proofs re-checked when sources changed),
  3. re-compile Properties/Cxx.v, capture every `Print Assumptions`,
  4. optional per-property translator obligations (regenerated from /repo),
  5. build the Go harness against /repo's working tree (tag `verif`), run it,
  6. evaluate the Coq models on the harness's cases (vm_compute), collect mismatches,
  7. classify (spec violated -> failing input; only Impl differs -> correspondence broken),
     filter known findings, write replay + evidence, print VIOLATION lines.
"""
import concurrent.futures as cf
import glob
import hashlib
import json
import os
import re
import shutil
import subprocess
import sys
import time

ROOT = os.path.dirname(os.path.dirname(os.path.abspath(__file__)))
COQ = os.path.join(ROOT, "coq")
BUILD = os.path.join(ROOT, ".build")
RUN = os.path.join(ROOT, "run")
REPO = os.environ.get("VERIF_REPO", "/repo")   # scratch worktrees (seeded-change trials) set VERIF_REPO; registered checks use /repo
NPROC = 16

GOENV = dict(os.environ, GOFLAGS="-mod=mod", GOPROXY="off", GOSUMDB="off", GOTOOLCHAIN="local",
             CGO_ENABLED=os.environ.get("CGO_ENABLED", "1"))

FORBIDDEN = re.compile(
    r"\b(Admitted|admit|Axiom|Axioms|Parameter|Parameters|Conjecture|Conjectures|Admit\s+Obligations|"
    r"bypass_check|native_compute)\b|Unset\s+Guard\s+Checking|Unset\s+Positivity|Unset\s+Universe\s+Checking|type-in-type|impredicative-set")


def log(*a):
    print(*a, flush=True)


def sh(cmd, cwd=None, timeout=600, env=None, stdin=None):
    """Run a shell command; returns (rc, output). rc 124 on timeout."""
    try:
        p = subprocess.run(cmd, cwd=cwd, shell=isinstance(cmd, str), env=env, input=stdin,
                           stdout=subprocess.PIPE, stderr=subprocess.STDOUT, timeout=timeout, text=True)
        return p.returncode, p.stdout
    except subprocess.TimeoutExpired as e:
        out = e.stdout or ""
        if isinstance(out, bytes):
            out = out.decode(errors="replace")
        return 124, out + "\n[timeout after %ss]" % timeout


def strip_comments(src):
    """Remove (* ... *) comments (nested) and string literals from Coq source."""
    out = []
    depth = 0
    i = 0
    n = len(src)
    in_str = False
    while i < n:
        if depth == 0 and src[i] == '"':
            in_str = not in_str
            i += 1
            continue
        if in_str:
            i += 1
            continue
        if src.startswith("(*", i):
            depth += 1
            i += 2
            continue
        if depth > 0 and src.startswith("*)", i):
            depth -= 1
            i += 2
            continue
        if depth == 0:
            out.append(src[i])
        i += 1
    return "".join(out)


def grep_gate():
    """Fail if any Coq source declares an axiom, admits a proof or switches a kernel check off."""
    bad = []
    files = sorted(glob.glob(os.path.join(COQ, "**", "*.v"), recursive=True))
    for f in files:
        code = strip_comments(open(f).read())
        for m in FORBIDDEN.finditer(code):
            bad.append("%s: %s" % (os.path.relpath(f, ROOT), m.group(0)))
    proj = open(os.path.join(COQ, "_CoqProject")).read()
    for tok in ("-type-in-type", "-impredicative-set", "-vos", "-vok", "-noinit"):
        if tok in proj:
            bad.append("_CoqProject: " + tok)
    return bad, len(files)


def gen_coqproject():
    """_CoqProject lists every .v under coq/ (directories holding a `.wip` marker are skipped)."""
    files = []
    for f in sorted(glob.glob(os.path.join(COQ, "**", "*.v"), recursive=True)):
        rel = os.path.relpath(f, COQ)
        d = os.path.dirname(f)
        if os.path.exists(os.path.join(d, ".wip")) or os.path.exists(os.path.join(d, ".skip")) or rel.startswith("."):
            continue
        files.append(rel)
    txt = "-Q . V\n-arg -w -arg -notation-overridden,-deprecated-hint-without-locality,-deprecated-instance-without-locality\n" + "\n".join(files) + "\n"
    p = os.path.join(COQ, "_CoqProject")
    old = open(p).read() if os.path.exists(p) else ""
    if old != txt:
        with open(p, "w") as fh:
            fh.write(txt)
    return files


def coq_make(targets=None, timeout=3000, keep_going=False):
    gen_coqproject()
    if not os.path.exists(os.path.join(COQ, "Makefile")) or \
            os.path.getmtime(os.path.join(COQ, "Makefile")) < os.path.getmtime(os.path.join(COQ, "_CoqProject")):
        rc, out = sh("coq_makefile -f _CoqProject -o Makefile", cwd=COQ, timeout=120)
        if rc != 0:
            return rc, out
    cmd = "make %s -j%d %s" % ("-k" if keep_going else "", NPROC, " ".join(targets or []))
    return sh(cmd, cwd=COQ, timeout=timeout)


def compile_property(prop):
    """Re-check Properties/<prop>.v from scratch; returns dict(ok, theorems, assumptions{thm: text}, log)."""
    src = os.path.join(COQ, "Properties", prop + ".v")
    vo = src + "o"
    if os.path.exists(vo):
        os.remove(vo)
    rc, out = sh("coqc -Q . V -w -notation-overridden,-deprecated-hint-without-locality Properties/%s.v" % prop, cwd=COQ, timeout=1200)
    code = strip_comments(open(src).read())
    thms = re.findall(r"^\s*(?:Theorem|Corollary)\s+(\w+)", code, re.M)
    examples = re.findall(r"^\s*(?:Example)\s+(\w+)", code, re.M)
    printed = re.findall(r"Print\s+Assumptions\s+(\w+)", code)
    # split output into per-Print blocks
    blocks = []
    cur = None
    for line in out.splitlines():
        if line.startswith("Closed under the global context"):
            blocks.append("Closed under the global context")
            cur = None
        elif line.startswith("Axioms:"):
            cur = [line]
            blocks.append(cur)
        elif cur is not None and (line.startswith(" ") or line.strip() == "" or re.match(r"^\w[\w.']*\s*:", line)):
            cur.append(line)
        else:
            cur = None
    blocks = ["\n".join(b) if isinstance(b, list) else b for b in blocks]
    assumptions = {}
    for i, name in enumerate(printed):
        assumptions[name] = blocks[i] if i < len(blocks) else "(missing)"
    return dict(ok=(rc == 0), theorems=thms, examples=examples, assumptions=assumptions, log=out, rc=rc)


def repo_tree_key():
    """Hash of /repo's working tree content (tracked + untracked, minus ignored)."""
    rc, out = sh("git -C %s ls-files -co --exclude-standard -z | (cd %s && xargs -0 sha1sum 2>/dev/null) | sha1sum" % (REPO, REPO), timeout=120)
    return out.split()[0] if rc == 0 and out.split() else "nokey"


def harness_bin(prop):
    tag = "" if REPO == "/repo" else "_" + hashlib.sha1(REPO.encode()).hexdigest()[:8]
    return os.path.join(BUILD, "harness_%s%s" % (prop, tag))


def build_harness(prop, race=False):
    """go build ./cmd/<prop> of /verif/harness against REPO's working tree, build tag `verif`."""
    os.makedirs(BUILD, exist_ok=True)
    hdir = os.path.join(ROOT, "harness")
    modargs = []
    if REPO == "/repo":
        shutil.copyfile(os.path.join(REPO, "go.sum"), os.path.join(hdir, "go.sum"))
    else:
        tag = hashlib.sha1(REPO.encode()).hexdigest()[:8]
        mod = os.path.join(BUILD, "go_%s.mod" % tag)
        with open(mod, "w") as f:
            f.write(open(os.path.join(hdir, "go.mod")).read().replace("=> /repo", "=> " + REPO))
        shutil.copyfile(os.path.join(REPO, "go.sum"), os.path.join(BUILD, "go_%s.sum" % tag))
        modargs = ["-modfile=" + mod]
    cmd = ["go", "build"] + modargs + ["-tags", "verif"] + (["-race"] if race else []) + ["-o", harness_bin(prop), "./cmd/" + prop.lower()]
    rc, out = sh(cmd, cwd=hdir, env=GOENV, timeout=900)
    return rc, out


def run_harness(prop, outdir, seed, tier, extra_args=(), timeout=1800, extra_env=None):
    if os.path.isdir(outdir):
        shutil.rmtree(outdir)
    os.makedirs(outdir)
    env = dict(GOENV, VERIF_SEED=str(seed), VERIF_TIER=tier)
    if extra_env:
        env.update(extra_env)
    rc, out = sh([harness_bin(prop), outdir] + list(extra_args), env=env, timeout=timeout)
    return rc, out


_PAIR = re.compile(r"\(\s*(\d+),\s*(\d+)\s*\)")


def _eval_shard(path):
    d = os.path.dirname(path)
    name = os.path.basename(path)
    # big literals need a big stack
    rc, out = sh("ulimit -s unlimited 2>/dev/null; coqc -Q %s V %s" % (COQ, name), cwd=d, timeout=1500)
    for ext in (".vo", ".vok", ".vos", ".glob"):
        try:
            os.remove(path[:-2] + ext)
        except OSError:
            pass
    try:
        os.remove(os.path.join(d, "." + name[:-2] + ".aux"))
    except OSError:
        pass
    if rc != 0:
        return dict(path=path, ok=False, error=out[-4000:], mism=[])
    flat = " ".join(out.split())
    m = re.search(r"M\s*=\s*(.*?)\s*:\s*list", flat)
    if not m:
        return dict(path=path, ok=False, error="unparsed output: " + flat[-2000:], mism=[])
    body = m.group(1)
    mism = [(int(a), int(b)) for a, b in _PAIR.findall(body)]
    if not mism and not re.match(r"^\[\s*\]$|^nil$", body.replace("%N", "").strip()):
        return dict(path=path, ok=False, error="unparsed mismatch list: " + body[:2000], mism=[])
    return dict(path=path, ok=True, error=None, mism=mism)


def eval_cases(outdir):
    """Evaluate every cases_k.v in outdir with coqc/vm_compute. Returns (results, global_mismatches[(index, code)])."""
    summ = json.load(open(os.path.join(outdir, "summary.json")))
    starts = summ.get("shard_start") or [0]
    shards = [os.path.join(outdir, "cases_%d.v" % k) for k in range(summ["shards"])]
    results = []
    with cf.ThreadPoolExecutor(max_workers=NPROC) as ex:
        results = list(ex.map(_eval_shard, shards))
    mism = []
    errors = []
    for k, r in enumerate(results):
        if not r["ok"]:
            errors.append("%s: %s" % (os.path.basename(r["path"]), r["error"]))
        for (i, code) in r["mism"]:
            mism.append((starts[k] + i, code))
    return summ, mism, errors


def load_cases(outdir, indices):
    want = set(indices)
    out = {}
    with open(os.path.join(outdir, "cases.jsonl")) as f:
        for line in f:
            c = json.loads(line)
            if c["i"] in want:
                out[c["i"]] = c
    return out


def known_findings(prop):
    p = os.path.join(ROOT, "known_findings.json")
    if not os.path.exists(p):
        return []
    return [k for k in json.load(open(p)) if k.get("property") == prop]


def write_evidence(prop, tier, seed, coverage, assumptions, wall, violations, level="proof"):
    # evidence/ holds runs against /repo only; trials on scratch trees (VERIF_REPO) write elsewhere
    evdir = os.path.join(ROOT, "evidence") if REPO == "/repo" else os.path.join(RUN, "evidence_" + hashlib.sha1(REPO.encode()).hexdigest()[:8])
    os.makedirs(evdir, exist_ok=True)
    ev = dict(property_id=prop, tier=tier, seed=int(seed), level=level, coverage=coverage,
              assumptions=assumptions, wall_s=round(wall, 2), violations=int(violations))
    with open(os.path.join(evdir, prop + ".json"), "w") as f:
        json.dump(ev, f, indent=1, sort_keys=True)


def write_replay(prop, seed, name, payload):
    d = os.path.join(RUN, "replay")
    os.makedirs(d, exist_ok=True)
    p = os.path.join(d, "%s_%s_%s.json" % (prop, seed, name))
    with open(p, "w") as f:
        json.dump(payload, f, indent=1)
    return p


BASE_TRUST = [
    "Coq 8.16.1 kernel and its vm_compute virtual machine (native_compute not used); coqchk re-check in the thorough tier",
    "Coq primitive 63-bit integers (Uint63) used by the executable SHA-256 of the correspondence runs only",
    "the Go correspondence harness /verif/harness and this driver (lib/verif.py): generate inputs, run /repo, print cases as Coq terms",
    "Go toolchain and runtime; third-party modules of zrnt (ztyp, bls12-381-util, kilic, sha256-simd) are exercised, not verified",
]


class Check:
    """Generic check. Subclasses / instances configure the pieces."""

    def __init__(self, prop, harness_prop=None, make_targets=None, trust=None, model_files=None,
                 known_match=None, pre_steps=None, spec_bit=2, impl_bit=1, notes=None, harness_timeout=1800):
        self.prop = prop
        self.harness_prop = harness_prop or prop
        self.make_targets = make_targets
        self.trust = trust or []
        self.model_files = model_files or []
        self.known_match = known_match or {}  # shape name -> predicate(case_json) -> bool
        self.pre_steps = pre_steps or []      # callables(ctx) -> list of problem dicts
        self.notes = notes or ""
        self.harness_timeout = harness_timeout

    def correspondence(self, tier, seed, replay=None):
        """Run Go and the Coq model on the same cases.
        Returns (summary dict, mismatches [dict(index, code, case, coq, kind)], problems [dict(kind, detail)]).
        code bit 2: Go differs from the Spec on an in-domain input; bit 1: Go differs from the Impl model."""
        empty = dict(evaluations=0, distinct_nontrivial=0, samples=[], histogram={}, rule="")
        rc, out = build_harness(self.harness_prop)
        if rc != 0:
            return empty, [], [dict(kind="correspondence", detail="harness does not build against the repository's working tree:\n" + out[-3000:])]
        # one scratch directory per run (concurrent checks of one property must not share it); removed when clean
        outdir = os.path.join(RUN, "%s%s-%d" % (self.prop, "" if REPO == "/repo" else "_" + hashlib.sha1(REPO.encode()).hexdigest()[:8], os.getpid()))
        extra = [replay] if replay else []
        rc, out = run_harness(self.harness_prop, outdir, seed, tier, extra, timeout=self.harness_timeout)
        if rc != 0:
            return empty, [], [dict(kind="correspondence", detail="harness run failed (rc=%d):\n%s" % (rc, out[-3000:]))]
        summ, mism, errors = eval_cases(outdir)
        problems = [dict(kind="correspondence", detail="model evaluation failed: " + e) for e in errors]
        found = []
        if mism:
            cases = load_cases(outdir, [i for i, _ in mism])
            for i, code in mism:
                c = cases.get(i, {})
                found.append(dict(index=i, code=code, case=c.get("case"), coq=c.get("coq"), kind=c.get("kind")))
        if not mism and not problems and not os.environ.get("VERIF_KEEP_RUN"):
            shutil.rmtree(outdir, ignore_errors=True)
        return summ, found, problems

    def run(self, tier, seed, replay=None):
        t0 = time.time()
        prop = self.prop
        problems = []       # dicts: kind, detail, (optional) case
        coverage = {}
        obligations = 0
        discharged = 0

        bad, nfiles = grep_gate()
        obligations += 1
        if bad:
            problems.append(dict(kind="gate", detail="forbidden constructs in the Coq development: " + "; ".join(bad[:10])))
        else:
            discharged += 1
        coverage["coq_files_scanned"] = nfiles

        rc, out = coq_make(self.make_targets or ["Properties/%s.vo" % prop])
        obligations += 1
        if rc != 0:
            problems.append(dict(kind="proof", detail="coq build failed (a proof or model no longer checks):\n" + out[-3000:]))
        else:
            discharged += 1

        pr = compile_property(prop)
        nth = len(pr["theorems"])
        obligations += nth
        if pr["ok"]:
            discharged += nth
        else:
            problems.append(dict(kind="proof", detail="Properties/%s.v does not check:\n%s" % (prop, pr["log"][-3000:])))
        axioms = sorted(set(a for a in pr["assumptions"].values() if a != "Closed under the global context"))
        coverage["theorems"] = pr["theorems"]
        coverage["examples_nonvacuity"] = pr["examples"]
        coverage["print_assumptions"] = pr["assumptions"]

        if tier == "thorough" and pr["ok"]:
            # independent re-check of the property's compiled closure (slow: thorough tier only)
            t1 = time.time()
            rcq, outq = sh("coqchk -silent -o -Q . V V.Properties.%s" % prop, cwd=COQ, timeout=int(os.environ.get("VERIF_COQCHK_TIMEOUT", "2400")))
            obligations += 1
            if rcq == 0:
                discharged += 1
                coverage["coqchk"] = dict(ok=True, wall_s=round(time.time() - t1, 1), report=outq[-1500:])
            elif rcq == 124:
                discharged += 1   # not a failed proof: the independent checker did not finish within the budget
                coverage["coqchk"] = dict(ok=None, note="coqchk did not finish within the time budget; the kernel check by coqc stands", wall_s=round(time.time() - t1, 1))
            else:
                problems.append(dict(kind="proof", detail="coqchk rejects the compiled closure of Properties/%s.vo:\n%s" % (prop, outq[-3000:])))
        ctx = dict(check=self, tier=tier, seed=seed, coverage=coverage)
        for step in self.pre_steps:
            res = step(ctx)
            obligations += res.get("obligations", 0)
            discharged += res.get("discharged", 0)
            problems.extend(res.get("problems", []))

        summ, found, cproblems = self.correspondence(tier, seed, replay)
        problems.extend(cproblems)
        mism = found

        # classify mismatches
        known = known_findings(prop)
        known_hit = {}
        viol_cases = []
        for m in found:
            hit = None
            for k in known:
                if k.get("status") != "known":
                    continue
                pred = self.known_match.get(k["key"]["shape"])
                if pred and pred(m.get("case"), m.get("code")):
                    hit = k
                    break
            if hit is not None:
                known_hit.setdefault(hit["key"]["shape"], []).append(m.get("index"))
                continue
            viol_cases.append(m)

        for k in known:
            if k.get("status") == "known":
                shape = k["key"]["shape"]
                # a known finding is announced on every run (whether or not this run's sample re-hit it)
                log("KNOWN-FINDING: property=%s %s [%s; re-observed in %d case(s) of this run]" % (
                    prop, k["what"], shape, len(known_hit.get(shape, []))))

        nviol = 0
        spec_viol = [v for v in viol_cases if v["code"] & 2]
        impl_only = [v for v in viol_cases if not (v["code"] & 2)]
        if spec_viol:
            v = spec_viol[0]
            path = write_replay(prop, seed, "input", dict(property=prop, seed=seed, tier=tier, what="Go result differs from the specification on this input",
                                                        failing_case=v, more=spec_viol[1:10], total=len(spec_viol)))
            log("VIOLATION property=%s replay=%s" % (prop, path))
            nviol += 1
        elif impl_only or problems:
            detail = dict(property=prop, seed=seed, tier=tier,
                          what="a proof obligation or the model/implementation correspondence no longer checks; no input on which the property itself fails was found",
                          broken=[p for p in problems],
                          correspondence_mismatches=impl_only[:10], total_mismatches=len(impl_only),
                          theorems=pr["theorems"])
            path = write_replay(prop, seed, "obligation", detail)
            log("VIOLATION property=%s replay=%s no-failing-input-found" % (prop, path))
            nviol += 1

        coverage.update(dict(
            obligations=obligations, discharged=discharged if not problems else min(discharged, obligations - 1),
            checker_cmd="make -C /verif/coq && coqc -Q /verif/coq V Properties/%s.v (full .vo, kernel-checked) ; cases_k.v: Eval vm_compute in mismatches cases" % prop,
            trusted_base=BASE_TRUST + self.trust + (["axioms reported by Print Assumptions: " + "; ".join(axioms)] if axioms else ["Print Assumptions: every property theorem is closed under the global context (no axioms)"]),
            evaluations=summ.get("evaluations", 0), distinct_nontrivial=summ.get("distinct_nontrivial", 0),
            traces_validated_against_impl=summ.get("evaluations", 0),
            rule=summ.get("rule", ""), samples=summ.get("samples", [])[:12] or [dict(note="no cases")],
            input_histogram=summ.get("histogram", {}),
            mismatches=len(mism), known_finding_hits={k: len(v) for k, v in known_hit.items()},
            model_files=self.model_files, repo_tree=repo_tree_key(),
        ))
        for k, v in summ.items():
            if k.startswith("x_"):
                coverage[k[2:]] = v
        write_evidence(prop, tier, seed, coverage,
                       ["see coverage.trusted_base", self.notes] if self.notes else ["see coverage.trusted_base"],
                       time.time() - t0, nviol)
        log("%s %s: %d obligations, %d discharged, %d cases, %d mismatches, %d violation(s), %.1fs" % (
            prop, tier, obligations, coverage["discharged"], coverage["evaluations"], len(mism), nviol, time.time() - t0))
        return 1 if nviol else 0
