"""C18, static half: regenerate the error-flow skeleton of the state-transition path from REPO's current
source (tools/errflow2coq) and re-check the obligations over it (coq/Conc/ErrFlow*.v):

  gen_errflow_ok      errflow_ok GenErrFlow.program = true  (vm_compute): no Poll/engine/callee error that could be
                      the trace of a fault is dropped, overwritten, swallowed by `return nil` or turned into a panic,
                      no `false` engine verdict is ignored, no statement is left unclassified
  gen_faults_surface  := errflow_ok_sound _ gen_errflow_ok  (+ the verdict / undisturbed / no-panic corollaries)
  gen_roots_plain     ProcessSlots / StateTransition / PostSlotTransition are in the table with a single error result
  strict leaf discipline   the errors of library leaves are handed on too, except at the recorded sites
  context coverage         every function that takes a context consults it, except the recorded ones

`errflow_step(ctx)` is a `verif.Check(pre_steps=[...])` step: returns dict(obligations, discharged, problems).
When an obligation fails the detail names the function and the source position (and the position of the call
whose error is lost), so that the dynamic fault injection can aim at that call site.
"""
import hashlib
import json
import os
import re
import shutil

import verif

TOOL_DIR = os.path.join(verif.ROOT, "tools", "errflow2coq")
KNOWN_FILE = os.path.join(verif.ROOT, "fixes", "known_findings_C18.json")

REASON_TEXT = {
    "Dropped": "the error is tested and then ignored, never assigned, or its variable dies untested",
    "Overwritten": "a later call assigns the error variable before the error was tested",
    "SwallowedReturnNil": "`return nil` (success) while the error is non-nil or untested",
    "IgnoredInvalid": "a `false` (invalid) verdict is not turned into an error",
    "PanicHandling": "the error is turned into a panic instead of being returned",
    "UnknownConstruct": "the translator cannot classify this statement (the language has to be extended)",
    "UndefinedCallee": "call of a function that is not in the generated table",
    "KindMismatch": "(false, nil) is returned from a function whose only result is the error",
    "PendingAtLoop": "a loop, break, continue or the end of an iteration is reached with an untested error",
    "JoinMismatch": "the two arms of a branch leave different error variables pending",
    "FaultFlagWrong": "internal: fault-capability flag of the function is inconsistent with its body",
    "ThreadedCalleeNotLeaf": "a function that is handed the pending error polls, queries the engine or calls",
    "CtxNotConsulted": "takes a context.Context and neither polls it nor hands it to a callee or the engine: a cancellation during this function is only noticed by the next poll elsewhere",
}


def _tag():
    return "" if verif.REPO == "/repo" else "_" + hashlib.sha1(verif.REPO.encode()).hexdigest()[:8]


def gen_dir():
    return os.path.join(verif.ROOT, "gen", "C18" + _tag())


_QUAD = re.compile(r'\(\s*"([^"]*)"\s*,\s*"([^"]*)"\s*,\s*"([^"]*)"\s*,\s*"([^"]*)"\s*\)')


def _parse_list(out, name):
    """the value printed by `Print <name>.` as a list of (fn, site, reason, origin)"""
    flat = " ".join(out.split())
    m = re.search(re.escape(name) + r"\s*=\s*(.*?)\s*:\s*list\s*\(string \* string \* string \* string\)", flat)
    if not m:
        return None
    out = []
    for a, b, c, d in _QUAD.findall(m.group(1)):
        p = dict(fn=a, site=b, reason=c, origin=d)
        if p not in out:     # the arms of a dynamic dispatch report the same site once each
            out.append(p)
    return out


def _allowed():
    """recorded exceptions: {(shape, function, reason)} from fixes/known_findings_C18.json (+ known_findings.json)"""
    entries = []
    for path in (KNOWN_FILE, os.path.join(verif.ROOT, "known_findings.json")):
        if os.path.exists(path):
            try:
                entries += [k for k in json.load(open(path)) if k.get("property") == "C18"]
            except ValueError:
                pass
    allowed = set()
    for k in entries:
        if k.get("status") not in ("known", "by-design"):
            continue
        key = k.get("key", {})
        fn = key.get("site", "").split(":")[-1]
        for w in (k.get("witness") or {}).get("sites", [{}]):
            allowed.add((key.get("shape"), fn, w.get("reason", "CtxNotConsulted")))
    return allowed


def _fmt(p):
    s = "%s at %s: %s - %s" % (p["fn"], p["site"] or "?", p["reason"], REASON_TEXT.get(p["reason"], ""))
    if p.get("origin"):
        s += " [the value lost is the result of the call at %s]" % p["origin"]
    return s


def _coqc(gendir, name, timeout):
    return verif.sh("coqc -Q %s V -Q %s G -w -notation-overridden %s" % (verif.COQ, gendir, name), cwd=gendir, timeout=timeout)


def errflow_step(ctx):
    nobl = 5
    gendir = gen_dir()
    cov = dict(gen_dir=os.path.relpath(gendir, verif.ROOT), repo=verif.REPO)
    if isinstance(ctx, dict) and isinstance(ctx.get("coverage"), dict):
        ctx["coverage"]["errflow"] = cov

    def fail(kind, detail, discharged=0, **extra):
        cov["failed"] = detail[:300]
        return dict(obligations=nobl, discharged=discharged, problems=[dict(kind=kind, detail=detail, **extra)])

    # hand-written theory present and compiled?
    for f in ("ErrFlow", "ErrFlowCheck", "ErrFlowSound"):
        vo = os.path.join(verif.COQ, "Conc", f + ".vo")
        src = os.path.join(verif.COQ, "Conc", f + ".v")
        if not os.path.exists(vo) or os.path.getmtime(vo) < os.path.getmtime(src):
            for g in ("ErrFlow", "ErrFlowCheck", "ErrFlowSound"):
                rc, out = verif.sh("coqc -Q . V -w -notation-overridden Conc/%s.v" % g, cwd=verif.COQ, timeout=900)
                if rc != 0:
                    return fail("proof", "coq/Conc/%s.v does not check:\n%s" % (g, out[-2500:]))
            break

    # 1. build + run the translator on REPO's working tree
    os.makedirs(verif.BUILD, exist_ok=True)
    tool = os.path.join(verif.BUILD, "errflow2coq")
    rc, out = verif.sh(["go", "build", "-o", tool, "."], cwd=TOOL_DIR, env=verif.GOENV, timeout=300)
    if rc != 0:
        return fail("correspondence", "tools/errflow2coq does not build:\n" + out[-2000:])
    if os.path.isdir(gendir):
        shutil.rmtree(gendir)
    os.makedirs(gendir)
    rc, out = verif.sh([tool, verif.REPO, gendir], env=verif.GOENV, timeout=300)
    if rc != 0:
        return fail("correspondence", "tools/errflow2coq failed on %s (a root function or the engine interface is gone, or a file does not parse):\n%s" % (verif.REPO, out[-2500:]))
    stats = json.load(open(os.path.join(gendir, "errflow_stats.json")))
    cov.update(functions=stats["functions"], functions_that_can_observe_a_fault=stats["functions_that_can_observe_a_fault"],
               go_statements=stats["go_statements"], go_statement_kinds=stats["go_statement_kinds"],
               errflow_nodes=stats["errflow_nodes"], unknown=len(stats["unknowns"] or []),
               leaf_calls_typed_by_left_hand_side=stats["leaf_calls_without_source_signature"],
               roots=stats["roots"], engine_methods=stats["engine_methods"], packages_parsed=stats["packages_parsed"])
    problems = []
    discharged = 0
    unknowns = stats["unknowns"] or []
    if unknowns:
        problems.append(dict(kind="correspondence", obligation="translator_total",
                             detail="%d statement(s) on the transition path are outside the ErrFlow language (emitted as Unknown, never accepted): %s"
                                    % (len(unknowns), "; ".join("%s in %s: %s" % (u["Site"], u["Fn"], u["Why"]) for u in unknowns[:20])),
                             sites=[dict(fn=u["Fn"], site=u["Site"], reason="UnknownConstruct") for u in unknowns]))
    else:
        discharged += 1

    # 2. the generated table and the obligations
    rc, out = _coqc(gendir, "GenErrFlow.v", 900)
    if rc != 0:
        return fail("correspondence", "generated GenErrFlow.v does not compile:\n" + out[-2500:], discharged)
    rc, out = _coqc(gendir, "GenErrFlowCheck.v", 900)
    faults = _parse_list(out, "gen_fault_list")
    leafs = _parse_list(out, "gen_leaf_list")
    ctxs = _parse_list(out, "gen_ctx_list")
    if faults is None or leafs is None or ctxs is None:
        return fail("correspondence", "GenErrFlowCheck.v: the problem lists could not be evaluated:\n" + out[-2500:], discharged)
    m = re.search(r"gen_counts\s*=\s*\(([\d,\s]+)\)", " ".join(out.split()))
    if m:
        c = [int(v) for v in m.group(1).split(",")]
        cov["checked_by_coq"] = dict(zip(["functions", "polls", "engine_queries", "calls", "leaf_calls", "error_tests", "unknown"], c))
    closed = out.count("Closed under the global context")
    cov["print_assumptions"] = "Closed under the global context" if (rc == 0 and closed >= 2) else "(not reached)"
    if rc == 0 and not faults:
        discharged += 2        # gen_errflow_ok (+ instantiated corollaries), gen_roots_plain
    else:
        if faults:
            detail = ("gen_errflow_ok fails: errflow_ok GenErrFlow.program = false for %s; a fault (cancellation seen by a poll, "
                      "engine `invalid`/error) can be lost at: %s" % (verif.REPO, " | ".join(_fmt(p) for p in faults[:20])))
        else:
            detail = "GenErrFlowCheck.v does not check although no fault-losing site is listed:\n" + out[-2500:]
        problems.append(dict(kind="correspondence", obligation="gen_errflow_ok", detail=detail, sites=faults))

    # 3. strict leaf discipline and context coverage, modulo the recorded exceptions
    allowed = _allowed()
    new_leaf = [p for p in leafs if ("leaf_error_not_propagated", p["fn"], p["reason"]) not in allowed]
    new_ctx = [p for p in ctxs if ("ctx_not_consulted", p["fn"], "CtxNotConsulted") not in allowed]
    cov["recorded_leaf_exceptions"] = [_fmt(p) for p in leafs if p not in new_leaf]
    cov["recorded_ctx_exceptions"] = [p["fn"] for p in ctxs if p not in new_ctx]
    if new_leaf:
        problems.append(dict(kind="correspondence", obligation="strict_leaf_discipline", sites=new_leaf,
                             detail="the error of a library call (not a fault, but a failure of the transition) is no longer handed to the caller at: "
                                    + " | ".join(_fmt(p) for p in new_leaf[:20])))
    else:
        discharged += 1
    if new_ctx:
        problems.append(dict(kind="correspondence", obligation="ctx_coverage", sites=new_ctx,
                             detail="a cancellation point is gone: " + " | ".join(_fmt(p) for p in new_ctx[:20])))
    else:
        discharged += 1
    cov["obligations"] = ["translator_total (0 Unknown)", "gen_errflow_ok + gen_faults_surface/gen_verdict_faults_surface/gen_success_is_undisturbed/gen_no_panic",
                          "gen_roots_plain", "strict_leaf_discipline", "ctx_coverage"]
    return dict(obligations=nobl, discharged=discharged, problems=problems)


if __name__ == "__main__":
    import sys
    c = dict(coverage={})
    r = errflow_step(c)
    json.dump(dict(result=r, coverage=c["coverage"]), sys.stdout, indent=1)
    print()
    sys.exit(0 if not r["problems"] else 1)
