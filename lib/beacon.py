"""Shared pipeline of the beacon-transition properties (C01 C02 C03 C07 C08 C13 C18).

Go side: harness/cmd/chain (package chaingen) builds chains with the real zrnt code and records every step
(design/chain-format.md).  Model side: the Coq Spec (coq/Beacon) extracted to OCaml (.build/modelrun) recomputes
every recorded step from the pre-state bytes and compares.  Each property projects the joint result differently.
Results are cached under .cache/beacon/<key>, the key hashing /repo's working tree, /verif's harness+model sources,
the tier and the seed, so consecutive checks of the family share one generator run and nothing stale is reused.
"""
import concurrent.futures as cf
import glob
import hashlib
import json
import os
import re
import shutil
import time

import verif

OCAML_DIR = os.path.join(verif.BUILD, "ocaml")
MODELRUN = os.path.join(verif.BUILD, "modelrun")
CACHE = os.path.join(verif.ROOT, ".cache", "beacon")

MODEL_SOURCES = ["coq/Beacon/*.v", "coq/Beacon/Spec/*.v", "coq/Beacon/Impl/Genesis.v", "coq/Beacon/Impl/Shuffling.v", "coq/Pubkeys/*.v", "coq/Ssz/SszCore.v", "coq/Base/Sha256.v",
                 # the Impl model of the EpochsContext, executed against Go's dumps (epc-impl-* lines of modelrun)
                 "coq/Beacon/Impl/Epc.v", "coq/Beacon/Refine/EpcRun.v", "coq/Beacon/Refine/EpcRefine.v", "coq/Shuffle/ShuffleModel.v", "coq/Math/MathModel.v",
                 "coq/Base/U64.v", "coq/Base/Outcome.v",
                 "coq/Extract/ExtractBeacon.v", "ocaml/modelrun.ml"]
HARNESS_SOURCES = ["harness/chaingen/*.go", "harness/cmd/chain/*.go", "harness/hx/*.go", "harness/go.mod"]


def _files(patterns):
    out = []
    for p in patterns:
        out.extend(sorted(glob.glob(os.path.join(verif.ROOT, p))))
    return out


def _hash_files(files):
    h = hashlib.sha1()
    for f in files:
        h.update(f.encode())
        with open(f, "rb") as fh:
            h.update(fh.read())
    return h.hexdigest()


def ensure_modelrun():
    """(Re)build the extracted OCaml model when any of its sources changed. Returns (ok, log)."""
    srcs = _files(MODEL_SOURCES)
    stamp = os.path.join(verif.BUILD, "modelrun.stamp")
    want = _hash_files(srcs)
    if os.path.exists(MODELRUN) and os.path.exists(stamp) and open(stamp).read() == want:
        return True, "up to date"
    rc, out = verif.coq_make(["Beacon/Run.vo", "Beacon/Impl/Genesis.vo", "Beacon/Refine/EpcRun.vo"], timeout=1500)
    if rc != 0:
        return False, "coq build of Beacon/Run.vo failed:\n" + out[-3000:]
    os.makedirs(OCAML_DIR, exist_ok=True)
    shutil.copyfile(os.path.join(verif.COQ, "Extract", "ExtractBeacon.v"), os.path.join(OCAML_DIR, "ExtractBeacon.v"))
    shutil.copyfile(os.path.join(verif.ROOT, "ocaml", "modelrun.ml"), os.path.join(OCAML_DIR, "modelrun.ml"))
    rc, out = verif.sh("coqc -Q %s V ExtractBeacon.v" % verif.COQ, cwd=OCAML_DIR, timeout=600)
    if rc != 0:
        return False, "extraction failed:\n" + out[-3000:]
    rc, out = verif.sh("ocamlfind ocamlopt -O3 -w -a -rectypes -thread -package coq-core.kernel -linkpkg "
                       "beacon_model.mli beacon_model.ml modelrun.ml -o %s" % MODELRUN, cwd=OCAML_DIR, timeout=900)
    if rc != 0:
        return False, "ocaml build failed:\n" + out[-3000:]
    with open(stamp, "w") as f:
        f.write(want)
    return True, "rebuilt"


def _run_model(chaindir):
    t = time.time()
    rc, out = verif.sh([MODELRUN, chaindir], timeout=3000)
    with open(os.path.join(chaindir, "model.out"), "w") as f:
        f.write(out)
    return chaindir, rc, time.time() - t


_TAGS = re.compile(r"^trans\[(.*)\]")


def parse_chain(chaindir):
    """Join steps.txt with model.out -> list of records."""
    steps = {}
    with open(os.path.join(chaindir, "steps.txt")) as f:
        for i, line in enumerate(f):
            toks = line.split()
            if toks and not toks[0].startswith("#"):
                steps[i + 1] = toks
    recs = []
    summary = None
    mout = os.path.join(chaindir, "model.out")
    if not os.path.exists(mout):
        return recs, None
    with open(mout) as f:
        for line in f:
            line = line.rstrip("\n")
            if line.startswith("SUMMARY"):
                summary = dict(kv.split("=") for kv in line.split()[1:])
                continue
            m = re.match(r"^(OK|MISMATCH) (\d+) (.*)$", line)
            if not m:
                continue
            ln = int(m.group(2))
            toks = steps.get(ln, ["?"])
            recs.append(dict(chain=os.path.basename(chaindir), dir=chaindir, line=ln, ok=(m.group(1) == "OK"),
                             detail=m.group(3), kind=toks[0], step=" ".join(toks)))
    # cancel / engine records are judged on the Go side only
    for ln, toks in steps.items():
        if toks[0] == "cancel":
            recs.append(dict(chain=os.path.basename(chaindir), dir=chaindir, line=ln, ok=None, detail="", kind="cancel", step=" ".join(toks)))
    return recs, summary


def pipeline(tier, seed):
    """Returns dict(ok, problems[], records[], gen_summary, wall breakdown, dirs)."""
    problems = []
    ok, log = ensure_modelrun()
    if not ok:
        return dict(ok=False, problems=[dict(kind="proof", detail=log)], records=[], gen_summary={}, dirs=[])
    key = hashlib.sha1(("%s|%s|%s|%s|%s" % (verif.repo_tree_key(), _hash_files(_files(HARNESS_SOURCES)),
                                            open(os.path.join(verif.BUILD, "modelrun.stamp")).read(), tier, seed)).encode()).hexdigest()[:16]
    cdir = os.path.join(CACHE, key)
    done = os.path.join(cdir, "done.json")
    if not os.path.exists(done):
        # drop older cache entries (disk is limited)
        if os.path.isdir(CACHE):
            for d in os.listdir(CACHE):
                # entries of other (possibly concurrent) runs are left alone while they are fresh
                try:
                    if time.time() - os.path.getmtime(os.path.join(CACHE, d)) > 2 * 3600:
                        shutil.rmtree(os.path.join(CACHE, d), ignore_errors=True)
                except OSError:
                    pass
        os.makedirs(cdir, exist_ok=True)
        t0 = time.time()
        rc, out = verif.build_harness("chain")
        if rc != 0:
            return dict(ok=False, problems=[dict(kind="correspondence", detail="chain generator does not build against the repository's working tree:\n" + out[-3000:])],
                        records=[], gen_summary={}, dirs=[])
        env = dict(verif.GOENV, VERIF_SEED=str(seed), VERIF_TIER=tier)
        rc, out = verif.sh([verif.harness_bin("chain"), os.path.join(cdir, "chains")], env=env, timeout=3000)
        tgen = time.time() - t0
        gen_problem = None
        if rc == 5 and glob.glob(os.path.join(cdir, "chains", "*", "steps.txt")):
            # the generator's own guard: a history it is required to produce is missing from this run (on a changed tree the
            # honest producer may simply behave differently).  The chains it did write are still judged, so that a real
            # disagreement is reported with its input; the missing history is reported as a broken correspondence on top.
            gen_problem = "chain generator guard (rc=5): " + out[-1500:]
        elif rc != 0:
            return dict(ok=False, problems=[dict(kind="correspondence", detail="chain generator failed (rc=%d):\n%s" % (rc, out[-3000:]))],
                        records=[], gen_summary={}, dirs=[])
        dirs = sorted(d for d in glob.glob(os.path.join(cdir, "chains", "*")) if os.path.exists(os.path.join(d, "steps.txt")))
        t1 = time.time()
        with cf.ThreadPoolExecutor(max_workers=verif.NPROC) as ex:
            res = list(ex.map(_run_model, dirs))
        tmodel = time.time() - t1
        bad = [(d, rc) for d, rc, _ in res if rc != 0]
        with open(done, "w") as f:
            json.dump(dict(gen_s=tgen, model_s=tmodel, model_failures=bad, gen_problem=gen_problem), f)
    meta = json.load(open(done))
    if meta.get("gen_problem"):
        problems.append(dict(kind="correspondence", detail=meta["gen_problem"]))
    dirs = sorted(d for d in glob.glob(os.path.join(cdir, "chains", "*")) if os.path.exists(os.path.join(d, "steps.txt")))
    for d, rc in meta.get("model_failures", []):
        problems.append(dict(kind="correspondence", detail="modelrun failed on %s (rc=%s): %s" % (d, rc, open(os.path.join(d, "model.out")).read()[-1500:])))
    records = []
    missing_agg = 0
    for d in dirs:
        recs, summ = parse_chain(d)
        records.extend(recs)
        if summ:
            missing_agg += int(summ.get("missing_agg", 0))
    gs = {}
    sp = os.path.join(cdir, "chains", "summary.json")
    if os.path.exists(sp):
        gs = json.load(open(sp))
    return dict(ok=True, problems=problems, records=records, gen_summary=gs, dirs=dirs, meta=meta, missing_agg=missing_agg, cache=cdir)


class BeaconCheck(verif.Check):
    """A property of the beacon family: `select(rec)` picks the records it is about, `judge(rec)` returns
    None (fine) or a mismatch code (2 = Go differs from the Spec on this input; 1 = correspondence only)."""

    def __init__(self, prop, select, judge, rule, extra_streams=(), **kw):
        super().__init__(prop, **kw)
        self.select = select
        self.judge = judge
        self.rule = rule
        # extra_streams: names of further harness binaries (harness/cmd/<name>) whose vm_compute cases tie the
        # Impl models of Beacon/Impl to the exported Go functions (granularity of the refinement lemmas)
        self.extra_streams = list(extra_streams)

    def _extra(self, name, tier, seed):
        rc, out = verif.build_harness(name)
        if rc != 0:
            return None, [], [dict(kind="correspondence", detail="harness %s does not build:\n%s" % (name, out[-2000:]))]
        outdir = os.path.join(verif.RUN, "%s%s-%d" % (name, "" if verif.REPO == "/repo" else "_" + hashlib.sha1(verif.REPO.encode()).hexdigest()[:8], os.getpid()))
        rc, out = verif.run_harness(name, outdir, seed, tier, timeout=1200)
        if rc != 0:
            return None, [], [dict(kind="correspondence", detail="harness %s failed (rc=%d):\n%s" % (name, rc, out[-2000:]))]
        summ, mism, errors = verif.eval_cases(outdir)
        problems = [dict(kind="correspondence", detail="model evaluation failed (%s): %s" % (name, e)) for e in errors]
        found = []
        if mism:
            cases = verif.load_cases(outdir, [i for i, _ in mism])
            for i, code in mism:
                c = cases.get(i, {})
                found.append(dict(index="%s:%d" % (name, i), code=code, case=c.get("case"), coq=c.get("coq"), kind=name + "/" + str(c.get("kind"))))
        if not mism and not problems:
            shutil.rmtree(outdir, ignore_errors=True)
        return summ, found, problems

    def correspondence(self, tier, seed, replay=None):
        if replay:
            rp = json.load(open(replay))
            seed = rp.get("seed", seed)
            tier = rp.get("tier", tier)
        p = pipeline(tier, seed)
        if not p["ok"]:
            return dict(evaluations=0, distinct_nontrivial=0, samples=[], histogram={}, rule=self.rule), [], p["problems"]
        mine = [r for r in p["records"] if self.select(r)]
        hist = {}
        found = []
        distinct = set()
        for i, r in enumerate(mine):
            k = r["kind"] + ":" + re.sub(r"\d+", "#", r["detail"])[:60]
            hist[k] = hist.get(k, 0) + 1
            distinct.add((r["chain"], r["line"], r["detail"][:40]))
            code = self.judge(r)
            if code:
                found.append(dict(index=i, code=code, kind=r["kind"], coq=None,
                                  case=dict(chain_dir=r["dir"], steps_line=r["line"], step=r["step"], model_says=r["detail"],
                                            replay="%s %s %d" % (MODELRUN, r["dir"], r["line"]))))
        samples = [dict(chain=r["chain"], line=r["line"], step=r["step"][:200], model_says=r["detail"][:200]) for r in mine[:6]]
        summ = dict(evaluations=len(mine), distinct_nontrivial=len(distinct), samples=samples, histogram=hist, rule=self.rule,
                    x_generator_distribution=p["gen_summary"], x_pipeline=p.get("meta", {}), x_chains=len(p["dirs"]),
                    x_missing_agg_lookups=p.get("missing_agg", 0))
        problems = list(p["problems"])
        for name in self.extra_streams:
            es, ef, ep = self._extra(name, tier, seed)
            problems.extend(ep)
            found.extend(ef)
            if es:
                summ["evaluations"] += es.get("evaluations", 0)
                summ["distinct_nontrivial"] += es.get("distinct_nontrivial", 0)
                summ["x_stream_" + name] = dict(evaluations=es.get("evaluations"), histogram=es.get("histogram"), rule=es.get("rule"),
                                                samples=es.get("samples", [])[:3])
        return summ, found, problems


# ---------------------------------------------------------------------------------------------
# per-property projections
BEACON_TRUST = [
    "the Coq Spec coq/Beacon/Spec/*.v is a hand transliteration of the consensus pyspec (phase0..deneb); no pyspec is available offline; it is cross-examined against zrnt on every run and every disagreement is adjudicated by the spec text",
    "extraction: ExtrOcamlBasic (bool option unit list prod sumbool -> OCaml), ExtrOcamlNativeString (string/ascii -> OCaml string/char), ExtrOCamlInt63 (Uint63 -> coq-core.kernel Uint63); N/positive/nat/Z stay extracted inductives; OCaml 4.13.1 ocamlfind ocamlopt; hand-written driver ocaml/modelrun.ml does file I/O, parsing of the chain directory and printing only",
    "BLS is an oracle: the model's verify/fast_aggregate_verify/aggregate_pubkeys are lookup tables written by the generator, which made every key and signature itself (design/chain-format.md); unforgeability and the pairing library are outside",
    "the chain generator harness/chaingen (honest producer, corruption stream, fault injection) and lib/beacon.py",
    "SHA-256: executable Gallina instance Base/Sha256.v validated against Go's on every C19 run; theorems are parametric in the hash",
]


def _post_token(rec):
    toks = rec["step"].split()
    if rec["kind"] == "slots":
        return toks[3] if len(toks) > 3 else ""
    if rec["kind"] == "trans":
        return toks[5] if len(toks) > 5 else ""
    return ""


def spec_accepts(rec):
    d = rec["detail"]
    return ("same-post-state" in d) or ("spec-accepts" in d) or ("post-state differs" in d) or ("fork differs" in d)


def spec_rejects(rec):
    d = rec["detail"]
    return ("both-reject" in d) or ("spec-rejects" in d)


def judge_plain(rec):
    return None if rec["ok"] else 2


def judge_cancel(rec):
    toks = rec["step"].split()
    # cancel <pre> <blk|-> <target> <k> <polls_total> <result> <same>
    try:
        k, total, result, same = int(toks[4]), int(toks[5]), toks[6], toks[7]
    except (IndexError, ValueError):
        return 1
    if result == "PANIC":
        return 2
    if k < total:
        return None if result == "ERR" else 2
    return None if (result == "OK" and same in ("1", "-")) else 2


def chain_stream(tier, seed, select, judge):
    """Records of the shared beacon pipeline for checks that are not BeaconCheck subclasses.
    Returns (summary-part, mismatches, problems)."""
    p = pipeline(tier, seed)
    if not p["ok"]:
        return None, [], p["problems"]
    mine = [r for r in p["records"] if select(r)]
    found = []
    for i, r in enumerate(mine):
        code = judge(r)
        if code:
            found.append(dict(index="chain:%d" % i, code=code, kind="chain/" + r["kind"], coq=None,
                              case=dict(chain_dir=r["dir"], steps_line=r["line"], step=r["step"][:300], model_says=r["detail"],
                                        replay="%s %s %d" % (MODELRUN, r["dir"], r["line"]))))
    summ = dict(evaluations=len(mine), distinct_nontrivial=len(set((r["chain"], r["line"]) for r in mine)),
                samples=[dict(chain=r["chain"], line=r["line"], step=r["step"][:160], model_says=r["detail"][:120]) for r in mine[:3]])
    return summ, found, list(p["problems"])
