import beacon
import verif

MANIFEST = dict(
    text="Coq theorems, for all list sizes and committee counts: compute_committee's slicing covers the index range exactly once, sizes are floor(n/count) or one more, each committee is the shuffled slice, and — unconditionally, C06's bijection transported to the Spec's own shuffle by Beacon/Proofs/ShuffleBridge.v — the committees of an epoch are a Permutation of the active set (every active validator in exactly one committee) for every hash, seed, round count and size. The executable Spec (get_beacon_committee, compute_proposer_index, get_next_sync_committee_indices, transliterated from the pyspec) is run, extracted to OCaml, against zrnt's from-scratch EpochsContext on every state recorded by the chain generator (all committees of prev/cur/next epoch, all proposers of the epoch, both sync committees); a difference is reported with the state as replay. Implementation models of zrnt's own algorithms (Beacon/Impl/Shuffling.v: NewShufflingEpoch's whole-list unshuffle and slicing, ComputeProposers; Beacon/Impl/Epc.v: NewEpochsContext with GetSeed, loadCurrentStake, LoadSyncCommittees) are proved equal to the Spec (Refine/ShufflingRefine.v, ProposersRefine.v, C07Theorems.v, EpcRefine.v) and are themselves executed, extracted to OCaml, against the same Go dumps on every recorded state (`epc-impl-fresh`: Impl new_epochs_context vs Go's NewEpochsContext, all fields incl. the pubkey table), so the model the refinement theorems speak about is checked against the code on every run. Partial: the refinements hold under the C07 side conditions (uint64 ranges; the sampling loops terminate only statistically, zrnt caps proposer sampling at 32000 candidates).",
    note="Trusted: Coq kernel; extraction + OCaml driver; pyspec transliteration; BLS aggregate-pubkey oracle table; chain generator. No axioms.",
    technique="Coq proof (slicing partition, Permutation, Impl = Spec refinement) + extracted-Spec and extracted-Impl vs Go correspondence on generated chains",
    design="4/C07")


def _sync_field(r):
    # a slots/trans record whose Go post-state stores another sync committee than the Spec computes from the pre-state
    return r["kind"] in ("slots", "trans") and not r["ok"] and "sync_committee" in r["detail"] and "differs in" in r["detail"]


def _impl(r):
    # the Impl model's new_epochs_context (Beacon/Impl/Epc.v, Impl/Shuffling.v) vs Go's NewEpochsContext dump
    return r["detail"].startswith("epc-impl-fresh")


def select(r):
    return (r["kind"] == "epc" and (r["detail"].startswith("epc-fresh") or _impl(r))) or _sync_field(r)


def judge(r):
    if r["ok"]:
        return None
    d = r["detail"]
    if _sync_field(r):
        return 2
    if _impl(r):
        # Go differs from the Impl model: correspondence broken (the failing input, if Go is wrong, is the Spec line of the same record).
        # effective balances / stake / pubkeys of the fresh context belong to C08
        return 1 if any(k in d for k in ("_committee", "_active", "proposers", "sync_", "current_epoch", "impl-")) else None
    if any(k in d for k in ("_committee", "_active", "proposers", "sync_")):
        return 2
    return None  # effective balances / stake of the fresh context belong to C08


def make_check():
    return beacon.BeaconCheck(
        "C07", select, judge,
        rule="every `epc` record of every generated chain (after each block, epoch boundary, upgrade, validator-adding deposit): zrnt's NewEpochsContext(state) vs the Spec evaluated on the same state bytes: active sets and all committees of 3 epochs, proposers of all slots, current/next sync-committee indices, and the same dump vs the extracted Impl model's new_epochs_context (epc-impl-fresh lines, code 1); plus every slots/trans record whose Go post-state stores a current/next sync committee other than the one the Spec computes at that period boundary or upgrade. distinct = (chain, record); all are non-trivial (>= 8 validators, >= 1 committee per slot)",
        make_targets=["Properties/C07.vo", "Beacon/Run.vo", "Beacon/Refine/EpcRun.vo"], trust=beacon.BEACON_TRUST,
        model_files=["coq/Beacon/Spec/Helpers.v", "coq/Beacon/Run.v", "coq/Beacon/Proofs/CommitteeSlices.v", "coq/Beacon/Proofs/CommitteePartition.v", "coq/Beacon/Proofs/ShuffleBridge.v", "coq/Beacon/Impl/Shuffling.v", "coq/Beacon/Impl/Epc.v", "coq/Beacon/Refine/EpcRun.v", "coq/Properties/C07.v"],
        notes="conditional: compute_proposer_index / sync sampling use fuel 40000 candidates; a state on which the spec loop does not terminate within that is out of domain.")
