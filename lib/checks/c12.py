import verif

MANIFEST = dict(
    text="Machine-checked Coq theorems, one per gossip topic (voluntary exit, proposer slashing, attester slashing, attestation, aggregate-and-proof, beacon block, "
         "sync committee message, sync contribution-and-proof), for ALL backends (clock readings, seen-caches, chain view with possibly failing Towards, per-entry committees/proposers/"
         "sync committees/pubkeys/domains, hash and BLS verification as arbitrary functions with no assumed law) and ALL messages: "
         "all p2p conditions hold <-> the validator returns ACCEPT; if every failing condition is an [IGNORE] one the verdict is IGNORE (never REJECT); a Mark* call happens only on ACCEPT. "
         "The Impl model mirrors eth2/gossipval/*.go check by check (order, wrap-around arithmetic, the bytes handed to Verify, run-time panic sites); the Spec is the condition list of the "
         "phase0/altair p2p-interface, each tagged [REJECT]/[IGNORE], evaluated on the same backend. Six defects of the pinned snapshot are kept as machine-checked witnesses "
         "(outer aggregate signature over 2 bytes, MarkBlock before the proposer check, previous-slot sync messages, aggregates without LMD-vote checks, target not the checkpoint block, "
         "single-participant contributions rejected). Tie to /repo on every run: the Go harness implements the backend interfaces and beacon.Chain over chains built with the real transition "
         "and real BLS signatures, runs the real validators on honest messages of every slot/committee/subnet of a window and on every single-condition corruption (incl. blocks whose parent "
         "lies two and three epochs back, sync messages for a slot in a later, rotated sync-committee period than the signed head block, every topic in the last slot "
         "before and the first slot after the bellatrix and capella fork-version changes with signatures under the adjacent fork's domain, attestations of committees whose subnet number wraps past 63 within a slot (3 and 5 committees per slot), and sequences of messages about one "
         "committee validated one after another on one backend, each call also checked not to change the chain view), and the Coq model and the "
         "Spec are evaluated on the same backend facts (vm_compute); verdict and the sequence of Mark* calls are compared.",
    note="Trusted: Coq kernel+VM, the Go harness/driver (incl. its chain backend: the repository has none), the hand-written Impl model (tied by execution, not translation) and the "
         "hand-written transliteration of the p2p condition lists; object roots (hash_tree_root of the signed objects) are supplied by the SSZ layer (C05); signature validity at run time is a "
         "table of the signatures the harness made (unforgeability outside). Numeric-range hypotheses are explicit in each theorem; coherence of a backend's per-entry context is a hypothesis "
         "of the aggregate and attester-slashing theorems only. Differences between zrnt and the p2p list that do not loosen a verdict towards ACCEPT are listed in design/C12.md.",
    technique="Coq proof (sequential case analysis with reflection-style condition evaluation, bridging lemmas Impl<->Spec) + Go-vs-model differential correspondence",
    design="4/C12")


def make_check():
    return verif.Check(
        "C12",
        make_targets=["Properties/C12.vo", "Gossip/GossipRun.vo"],
        trust=[
            "Section variables of every theorem: the backend record (clock SlotAfter, Seen* predicates, chain view, per-entry context projections, GetDomain), the hash H and the BLS oracles "
            "verify / fast_aggregate_verify / sig_ok / sig_is_infinity / sel_hash: arbitrary functions, no assumed laws",
            "hand-written Impl model Gossip/GossipModel.v of eth2/gossipval/*.go and of the helpers they call (phase0.ValidateVoluntaryExit, ValidateProposerSlashing, ValidateIndexedAttestation, "
            "ValidateAggregateSelectionProof, ComputeSubnetForAttestation, ValidatorSet.ZigZagJoin/Filter, altair sync signature checks, BeaconBlockEnvelope.VerifySignature); "
            "tied to /repo by differential execution, not by translation",
            "hand-written Spec Gossip/GossipSpec.v: the gossip validation conditions of consensus-specs phase0+altair p2p-interface.md, written from knowledge of the specification (no copy available offline)",
            "the harness's chain backend (harness/cmd/c12: beacon.Chain/ChainEntry over blocks built with the real transition, scripted clock/finality/availability) stands in for a node's chain view",
            "run-time signature semantics: verify(pk, m, s) iff the harness made s with exactly key pk over the 32-byte message m (aggregate: the multiset of signer keys); hash_tree_root of signed objects supplied by zrnt's SSZ layer",
        ],
        model_files=["coq/Gossip/GossipModel.v", "coq/Gossip/GossipSpec.v", "coq/Gossip/GossipProofs.v", "coq/Gossip/GossipRun.v", "coq/Gossip/GossipWitness.v", "coq/Properties/C12.v"],
        notes="On a tree without the repairs fixes/C12-1..6 the check reports VIOLATION with the failing message (honest aggregate REJECTed, refused block marking the seen-cache, "
              "previous-slot sync message ACCEPTed, ...). Documented differences that are not violations: a block not from a higher slot than its parent and an undecodable selection proof "
              "are IGNOREd where the p2p list says REJECT; zrnt adds REJECT conditions (vote for a block from a later slot, vote for the finalized root with an older target, fork digest of the envelope). "
              "The finalized-ancestor conditions are evaluated through Chain.InSubtree on roots (exact on a pruned view).",
    )
