import beacon

MANIFEST = dict(
    text="On every recorded state of every generated chain (after each block, epoch boundary, upgrade and validator-adding deposit) the long-lived in-memory EpochsContext is compared, field by field, with what the Coq Spec computes from the state bytes alone (active sets and all committees of three epochs, proposers, effective balances, total active stake, sync-committee indices); continuing after serialize/reload is covered because every step is recomputed by the model from the pre-state bytes. Coq theorems (Beacon/Proofs): the look-ahead stability facts that make zrnt's once-per-epoch caching sound (frame lemmas, seeds/active sets/committees/proposers invariant under block processing) as they are proved. Partial: no Impl model of the cache-maintenance code; tie is by correspondence.",
    note="Trusted: Coq kernel; extraction + OCaml driver; pyspec transliteration; chain generator's context dump. No axioms.",
    technique="Coq invariant proofs (look-ahead stability) + live-context vs extracted-Spec correspondence on generated chains",
    design="4/C08")


def make_check():
    return beacon.BeaconCheck(
        "C08", lambda r: r["kind"] == "epc" and r["detail"].startswith("epc-live"), beacon.judge_plain,
        rule="every `epc` record: the live context that accompanied the state vs the Spec's view of the same state bytes. distinct = (chain, record)",
        make_targets=["Properties/C08.vo", "Beacon/Run.vo"], trust=beacon.BEACON_TRUST,
        model_files=["coq/Beacon/Run.v", "coq/Beacon/Spec/Helpers.v", "coq/Properties/C08.v"])
