import beacon

MANIFEST = dict(
    text="On every recorded state of every generated chain (after each block, epoch boundary, upgrade and validator-adding deposit) the long-lived in-memory EpochsContext is compared, field by field, with what the Coq Spec computes from the state bytes alone (active sets and all committees of three epochs, proposers, effective balances, total active stake, sync-committee indices); continuing after serialize/reload is covered because every step is recomputed by the model from the pre-state bytes. Coq theorems: (Beacon/Proofs) the look-ahead stability facts that make once-per-epoch caching sound — frame lemmas for every sub-transition and operation, seeds / active sets / committees / proposers / stake invariant under block processing and in-epoch slot steps, the new previous/current shufflings at an epoch boundary are the old current/next ones; (Beacon/Impl/Epc.v + Refine/EpcRefine.v) an implementation model of zrnt's EpochsContext maintenance (NewEpochsContext, RotateEpochs, the deposit path extending pubkeys and effective balances, LoadSyncCommittees after the altair upgrade) with the invariant epc_matches proved to be established by a fresh context and preserved by blocks, slot steps, epoch rotation and upgrades, hence for every chain (epc_always_fresh) and across reload (reload_continue_same). Partial: the chain theorem is conditional on the C07 side conditions (proposer sampling within zrnt's 32000-candidate cap, non-empty active set) and explicit uint64 ranges at every rotated state; these are not shown to be invariants of reachable states.",
    note="Trusted: Coq kernel; extraction + OCaml driver; pyspec transliteration; chain generator's context dump. No axioms.",
    technique="Coq invariant proofs (look-ahead stability) + live-context vs extracted-Spec correspondence on generated chains",
    design="4/C08")


def make_check():
    return beacon.BeaconCheck(
        "C08", lambda r: r["kind"] == "epc" and r["detail"].startswith("epc-live"), beacon.judge_plain,
        rule="every `epc` record: the live context that accompanied the state vs the Spec's view of the same state bytes. distinct = (chain, record)",
        make_targets=["Properties/C08.vo", "Beacon/Run.vo"], trust=beacon.BEACON_TRUST,
        model_files=["coq/Beacon/Run.v", "coq/Beacon/Spec/Helpers.v", "coq/Properties/C08.v"])
