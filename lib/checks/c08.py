import beacon

MANIFEST = dict(
    text="On every recorded state of every generated chain (after each block, epoch boundary, upgrade and validator-adding deposit) the long-lived in-memory EpochsContext is compared, field by field, with what the Coq Spec computes from the state bytes alone (active sets and all committees of three epochs, proposers, effective balances, total active stake, sync-committee indices); continuing after serialize/reload is covered because every step is recomputed by the model from the pre-state bytes. Coq theorems: (Beacon/Proofs) the look-ahead stability facts that make once-per-epoch caching sound — frame lemmas for every sub-transition and operation, seeds / active sets / committees / proposers / stake invariant under block processing and in-epoch slot steps, the new previous/current shufflings at an epoch boundary are the old current/next ones; (Beacon/Impl/Epc.v + Refine/EpcRefine.v) an implementation model of zrnt's EpochsContext maintenance (NewEpochsContext, RotateEpochs, the deposit path extending pubkeys and effective balances, LoadSyncCommittees after the altair upgrade) with the invariant epc_matches proved to be established by a fresh context and preserved by blocks, slot steps, epoch rotation and upgrades, hence for every chain (epc_always_fresh) and across reload (reload_continue_same). That implementation model is executed against Go on every run (Refine/EpcRun.v, extracted; one pass with the Spec's transition, proved to be exactly the drivers epc_process_slots / epc_state_transition): its context is carried along every honest live-context step of every chain (re-seeded by new_epochs_context at the first state and after each reload; Clone = sharing) and compared field by field, incl. the pubkey table, with Go's long-lived context (`epc-impl-live`), and its new_epochs_context with Go's NewEpochsContext (`epc-impl-fresh`). Partial: the chain theorem is conditional on the C07 side conditions (proposer sampling within zrnt's 32000-candidate cap, non-empty active set) and explicit uint64 ranges at every rotated state; these are not shown to be invariants of reachable states.",
    note="Trusted: Coq kernel; extraction + OCaml driver; pyspec transliteration; chain generator's context dump. No axioms.",
    technique="Coq invariant proofs (look-ahead stability, Impl maintenance invariant) + live-context vs extracted-Spec and vs extracted-Impl correspondence on generated chains",
    design="4/C08")


def _impl(r):
    # lines of the executed Impl model (Beacon/Impl/Epc.v): carried context vs Go's live dump, new_epochs_context vs Go's fresh dump.
    # (a model failure that no `epc` record followed is printed with line 0, i.e. kind "?")
    return r["detail"].startswith("epc-impl-live") or (r["kind"] == "epc" and r["detail"].startswith("epc-impl-fresh"))


def _live_trans(r):
    # the generator writes a `trans ... ctx=live` line (next to its ctx=fresh twin) only when the long-lived context made
    # zrnt answer differently from a context computed from scratch: the incoherence observed through a transition
    return r["kind"] == "trans" and " ctx=live" in (" " + r["step"])


def select(r):
    return (r["kind"] == "epc" and r["detail"].startswith("epc-live")) or _impl(r) or _live_trans(r)


def judge(r):
    if r["ok"]:
        return None
    # Go differs from the Impl model: correspondence broken (code 1); Go differs from the Spec: a failing input (code 2)
    return 1 if _impl(r) else 2


def make_check():
    return beacon.BeaconCheck(
        "C08", select, judge,
        rule="every `epc` record: the live context that accompanied the state vs the Spec's view of the same state bytes (code 2); the same live dump vs the context the extracted Impl model carried along the honest live-context steps up to that state, and the NewEpochsContext dump vs the Impl model's new_epochs_context (epc-impl-live / epc-impl-fresh lines, code 1). distinct = (chain, record, line kind)",
        make_targets=["Properties/C08.vo", "Beacon/Run.vo", "Beacon/Refine/EpcRun.vo"], trust=beacon.BEACON_TRUST,
        model_files=["coq/Beacon/Run.v", "coq/Beacon/Spec/Helpers.v", "coq/Beacon/Impl/Epc.v", "coq/Beacon/Impl/Shuffling.v", "coq/Beacon/Refine/EpcRun.v", "coq/Properties/C08.v"])
