"""Shared pre-steps of the SSZ checks (C04, C05, C15): translator run, reflection obligations over the
regenerated descriptions, registry completeness, schema dump for the spec-driven generators."""
import hashlib
import os
import re
import shutil

import verif

ROOT = verif.ROOT
TOOLS = os.path.join(ROOT, "tools", "go2coq")
TRANSLATOR = os.path.join(verif.BUILD, "go2coq")


def gen_dir():
    tag = "main" if verif.REPO == "/repo" else hashlib.sha1(verif.REPO.encode()).hexdigest()[:8]
    d = os.path.join(ROOT, "gen", tag)
    os.makedirs(d, exist_ok=True)
    return d


_STR = re.compile(r'"((?:[^"]|"")*)"')


def coq_strings(text):
    return [" ".join(s.replace('""', '"').split()) for s in _STR.findall(text)]


def _section(out, name):
    """text printed by `Print name.` up to its type annotation"""
    m = re.search(r"^%s\s*=\s*(.*?)^\s*:\s" % re.escape(name), out, re.S | re.M)
    return m.group(1) if m else None


CHECK_SSZ = """From Coq Require Import String NArith List.
From V Require Import Ssz.SszCore Ssz.SszDesc Ssz.SpecSchemas Ssz.SszDescCheck.
From G Require Import GenSsz.
Import ListNotations.
Definition P cfg := all_problems cfg gen_consts gen_aliases gen_views gen_types reviewed_bodies.
Definition Rmainnet := Eval vm_compute in P cfg_mainnet.
Print Rmainnet.
Definition Rminimal := Eval vm_compute in P cfg_minimal.
Print Rminimal.
Definition Rprimes := Eval vm_compute in P cfg_primes.
Print Rprimes.
Definition Rpartial := Eval vm_compute in gen_partial.
Print Rpartial.
Definition Notes := Eval vm_compute in all_notes cfg_mainnet gen_consts gen_views gen_types.
Print Notes.
Definition Counts := Eval vm_compute in (N.of_nat (length gen_types), N.of_nat (length gen_views)).
Print Counts.
(* the obligation itself, as a kernel-checked lemma over the regenerated terms *)
Lemma all_types_ok : (P cfg_mainnet, P cfg_minimal, P cfg_primes, gen_partial) = ([], [], [], []).
Proof. vm_compute. reflexivity. Qed.
"""

DUMP = """From Coq Require Import String List.
From V Require Import Ssz.SchemaDump.
Import ListNotations.
Open Scope string_scope.
Definition D := Eval vm_compute in dump_lines.
Print D.
"""


def translate(ctx):
    """pre-step 1: run the translator, check the registry, discharge the per-type obligations in Coq."""
    problems = []
    d = gen_dir()
    ctx["gen_dir"] = d
    verif.GOENV["VERIF_GEN"] = d
    env = dict(verif.GOENV)
    rc, out = verif.sh(["go", "build", "-o", TRANSLATOR, "."], cwd=TOOLS, env=env, timeout=300)
    if rc != 0:
        return dict(obligations=1, discharged=0, problems=[dict(kind="translator", detail="go2coq does not build:\n" + out[-2000:])])
    for f in ("GenSsz.v", "GenAccessors.v"):
        try:
            os.remove(os.path.join(d, f))
        except OSError:
            pass
    rc, out = verif.sh([TRANSLATOR, "-repo", verif.REPO, "-out", d], env=env, timeout=300)
    if rc != 0:
        return dict(obligations=1, discharged=0, problems=[dict(kind="translator", detail="go2coq failed on %s:\n%s" % (verif.REPO, out[-2000:]))])
    obligations = 1
    discharged = 1
    # registry completeness: a type added to /repo cannot be missed by the harness
    obligations += 1
    rc, out = verif.sh([TRANSLATOR, "-repo", verif.REPO, "-check-registry", os.path.join(ROOT, "harness", "sszgen", "registry.go")], env=env, timeout=120)
    if rc != 0:
        problems.append(dict(kind="obligation", detail="harness registry is not the set of types carrying the five SSZ methods:\n" + out[-1500:]))
    else:
        discharged += 1
    # reflection obligations
    with open(os.path.join(d, "GenSszCheck.v"), "w") as f:
        f.write(CHECK_SSZ)
    q = "-Q %s V -Q %s G" % (verif.COQ, d)
    rc, out = verif.sh("coqc %s GenSsz.v" % q, cwd=d, timeout=600)
    if rc != 0:
        problems.append(dict(kind="obligation", detail="GenSsz.v (regenerated descriptions) does not compile:\n" + out[-2000:]))
        return dict(obligations=obligations + 1, discharged=discharged, problems=problems)
    rc, out = verif.sh("coqc %s GenSszCheck.v" % q, cwd=d, timeout=900)
    failing = []
    for cfgname in ("Rmainnet", "Rminimal", "Rprimes", "Rpartial"):
        sec = _section(out, cfgname)
        if sec is None:
            failing.append("%s: checker output not found" % cfgname)
            continue
        for s in coq_strings(sec):
            if s not in failing:
                failing.append(s)
    m = re.search(r"Counts\s*=\s*\((\d+)%?N?,\s*(\d+)", out)
    ntypes, nviews = (int(m.group(1)), int(m.group(2))) if m else (0, 0)
    n_obl = max(ntypes + nviews, 1)
    obligations += n_obl
    bad_subjects = set()
    for s in failing:
        subj = s.split(":")[0].split(" ")[-1]
        subj = subj.split(".")[0] + "." + subj.split(".")[1] if subj.count(".") >= 1 else subj
        bad_subjects.add(subj)
    discharged += max(n_obl - len(bad_subjects), 0) if failing else n_obl
    focus = set()
    for s in failing:
        problems.append(dict(kind="obligation", detail="per-type SSZ obligation fails: " + s))
        mm = re.match(r"(?:view |schema )?([a-z0-9]+\.[A-Za-z0-9]+)", s)
        if mm:
            focus.add(mm.group(1))
    if rc != 0 and not failing:
        problems.append(dict(kind="obligation", detail="GenSszCheck.v failed:\n" + out[-2000:]))
    notes = _section(out, "Notes")
    ctx["coverage"]["advisory_field_name_deviations"] = coq_strings(notes) if notes else []
    ctx["coverage"]["ssz_types_checked"] = ntypes
    ctx["coverage"]["view_definitions_checked"] = nviews
    ctx["coverage"]["translator"] = "tools/go2coq (go/parser, go/ast, go/constant); output %s" % os.path.relpath(d, ROOT)
    # targeted generation for the types whose obligation broke (DESIGN 2.6 (c))
    verif.GOENV["VERIF_FOCUS"] = ",".join(sorted(focus))
    ctx["ssz_focus"] = sorted(focus)
    return dict(obligations=obligations, discharged=discharged, problems=problems)


def dump_schemas(ctx):
    """pre-step 2: the harness generators are driven by the pinned specification schemas."""
    d = ctx.get("gen_dir") or gen_dir()
    with open(os.path.join(d, "DumpSchemas.v"), "w") as f:
        f.write(DUMP)
    rc, out = verif.sh("coqc -Q %s V DumpSchemas.v" % verif.COQ, cwd=d, timeout=300)
    lines = [s for s in coq_strings(out) if s.startswith("T ")]
    if rc != 0 or not lines:
        return dict(obligations=1, discharged=0, problems=[dict(kind="proof", detail="schema dump failed:\n" + out[-1500:])])
    with open(os.path.join(d, "schemas.txt"), "w") as f:
        f.write("\n".join(lines) + "\n")
    ctx["coverage"]["schemas_dumped"] = len(lines)
    return dict(obligations=1, discharged=1, problems=[])


# ---- known findings: shapes of ztyp-internal leniency (cannot be patched in /repo) ----
def _go(case):
    return (case or {}).get("go", {})


def k_trailing_fixed(case, code):
    """struct form reads a fixed-size value and ignores bytes left in its scope (top level only)"""
    g = _go(case)
    fs = (case or {}).get("fixed_size", 0)
    return bool(case and code & 2 and fs and not g.get("refused") and not g.get("panicked")
                and case.get("input_len", 0) > fs and g.get("reserialized") == case.get("input", "")[: 2 * fs]
                and (g.get("view_refused") or "view_root" not in g or not g.get("view_same_bytes")))


def k_empty_var_element(case, code):
    """codec.DecodingReader.List skips (accepts) a zero-length element of a variable-size element type"""
    g = _go(case)
    return bool(case and code & 2 and not g.get("refused") and not g.get("panicked")
                and case.get("empty_var_elem") and g.get("reserialized") != case.get("input")
                and (g.get("view_refused") or "view_root" not in g))


def k_view_first_offset(case, code):
    """view ContainerTypeDef.Deserialize does not compare the first offset with the fixed-part size"""
    g = _go(case)
    return bool(case and code & 2 and g.get("refused") and "is incorrect, expected" in g.get("err", "")
                and "view_root" in g and not g.get("view_refused") and not g.get("view_same_bytes"))


def k_view_offset_zero_panic(case, code):
    """view ComplexListTypeDef.Deserialize panics (index out of range) on a first offset of 0"""
    g = _go(case)
    return bool(case and code & 2 and g.get("refused") and "index out of range [0] with length 0" in g.get("view_err", "")
                and case.get("input", "").find("00000000") >= 0)


def k_complex_list_pop(case, code):
    """ztyp ComplexListView.Pop zeroes the node at index len instead of len-1: the popped element stays in the tree"""
    pr = (case or {}).get("program") or []
    return bool(case and code & 2 and case.get("kind") == "mutation/complex_list_pop" and len(pr) == 1 and pr[0].startswith("pop ")
                and case.get("live_same_bytes") and case.get("live_root") != case.get("fresh_view_root")
                and case.get("fresh_view_root") == case.get("struct_root"))


KNOWN_MATCH = {
    "ztyp_complex_list_pop_leaves_last_element": k_complex_list_pop,
    "struct_ignores_trailing_bytes_after_fixed_size_value": k_trailing_fixed,
    "list_accepts_empty_variable_size_element": k_empty_var_element,
    "view_container_first_offset_unchecked": k_view_first_offset,
    "view_list_first_offset_zero_panics": k_view_offset_zero_panic,
}

def install_known(props=("C04", "C05", "C15")):
    """Known findings of the SSZ checks live in lib/checks/ssz_known_findings.json (this builder's area) until the
    coordinator moves them into /verif/known_findings.json; entries already present there (same property+shape) win."""
    import json
    path = os.path.join(os.path.dirname(os.path.abspath(__file__)), "ssz_known_findings.json")
    if getattr(verif, "_ssz_known_installed", False):
        return
    orig = verif.known_findings

    def merged(prop):
        base = orig(prop)
        have = set((k.get("key") or {}).get("shape") for k in base)
        try:
            extra = [k for k in json.load(open(path)) if k.get("property") == prop and (k.get("key") or {}).get("shape") not in have]
        except OSError:
            extra = []
        return base + extra
    verif.known_findings = merged
    verif._ssz_known_installed = True


SSZ_TRUST = [
    "coq/Ssz/SpecSchemas.v: hand transliteration of the SSZ containers of consensus-specs phase0..electra and the p2p types (oracle)",
    "tools/go2coq (syntactic translator); an unrecognised construct becomes an Unknown/Custom node that fails the obligation",
    "coq/Ssz/SszDescCheck.v reviewed_bodies: 2 hand-written method bodies accepted by fingerprint (JustificationBits.Serialize, LogsBloom.HashTreeRoot), both also exercised by the correspondence run",
    "ztyp (codec, tree, view) is exercised through behaviour, not verified; Section variables of the generic theorems: the hash H and the zero-hash table (no laws assumed)",
]
SSZ_MODEL_FILES = ["coq/Ssz/SszCore.v", "coq/Ssz/SszProofs.v", "coq/Ssz/SpecSchemas.v", "coq/Ssz/SszDesc.v", "coq/Ssz/SszDescCheck.v",
                   "coq/Ssz/SszRun.v", "coq/Ssz/SchemaDump.v", "tools/go2coq/main.go", "harness/sszgen/"]
