import beacon

MANIFEST = dict(
    text="The executable Coq Spec of process_slots (per-slot root caching, process_epoch with every sub-transition of phase0/altair/bellatrix/capella/deneb, in-place upgrade_to_* cascade at fork epochs) is run, extracted to OCaml, on the SSZ pre-state of every slot advance of every generated chain (empty slots, epoch boundaries with leaks, ejections, slashing penalties, activation queues, sync-period boundaries, fork boundaries): post-state bytes must be identical. Coq theorems: structural rules of process_slots/process_slot and, from Beacon/Refine, Impl = Spec refinements: every epoch sub-transition of zrnt's batched algorithms (justification, rewards and penalties of phase0 and altair, inactivity, registry with exit and activation queues, slashings, resets, historical roots/summaries, participation rotation), the sync-committee rotation with zrnt's sampling loop, each UpgradeTo<Fork> and the UpgradeMaybe cascade, ProcessSlot, and their assembly into ProcessEpoch, one slot step and the ProcessSlots loop over any number of slots, epochs and fork boundaries (C02_process_slots_refines_partial). The Impl models are themselves executed against the Go functions (streams C02IMPL, C02ASM). Partial: the assembled theorems assume the per-boundary hypotheses EpochInv/MidBounds/StepOk (bounds that exclude uint64 saturation between zrnt's summed and the spec's sequential delta application, epoch >= 1) instead of deriving them from reachability; outside them only the correspondence applies.",
    note="Trusted: Coq kernel; extraction + OCaml driver; pyspec transliteration; BLS aggregate-pubkey oracle; chain generator; Bounds hypotheses. No axioms.",
    technique="Coq refinement proofs + extracted-Spec vs Go differential correspondence on generated chains",
    design="4/C02")


def select(r):
    if r["kind"] == "slots":
        return True
    # a transition whose slot-advance part already disagrees (wrong fork after process_slots, or the Spec's
    # process_slots failing where Go went on) is a slots/upgrade failure observed through a block record
    d = r["detail"]
    return r["kind"] == "trans" and not r["ok"] and (
        "block-fork-differs-from-state-fork" in d or "spec-stage=process_slots" in d or "fork differs" in d)


def make_check():
    return beacon.BeaconCheck(
        "C02", select, beacon.judge_plain,
        rule="every `slots` record (ProcessSlots from a recorded pre-state to a target slot, single and multi-slot jumps, across epoch and fork boundaries): zrnt's post-state bytes vs the Spec's. distinct = (chain, record)",
        make_targets=["Properties/C02.vo", "Beacon/Run.vo", "Beacon/Refine/ImplRun.vo", "Beacon/Refine/AsmRun.vo"], trust=beacon.BEACON_TRUST,
        extra_streams=["C02IMPL", "C02ASM"],
        model_files=["coq/Beacon/Spec/*.v", "coq/Beacon/Run.v", "coq/Beacon/Proofs/TransitionRules.v", "coq/Beacon/Impl/*.v", "coq/Beacon/Refine/*.v", "coq/Properties/C02.v"])
