import concurrent.futures as cf
import glob
import hashlib
import os
import re
import shutil

import verif

MANIFEST = dict(
    text="Machine-checked Coq theorems for ALL configurations with a sorted fork schedule (equal, adjacent and never-activated fork epochs included), ALL slots/epochs and ALL genesis validators roots, hash and BLS as parameters with no assumed law: Spec.ForkVersion = the spec's compute_fork_version; the ForkDecoder's digest for an epoch = digest of that version; the block type chosen for it names the same fork (over versions when versions are distinct; over digests under the decidable no-collision condition of the six digests); ProcessSlots from a phase0 genesis reaches exactly the state type and Fork{previous,current,epoch} record the schedule names (cascade over equal epochs; forks phase0..deneb, Electra upgrade is a stub) and equals the spec's own slot loop; signed block <-> envelope round trips preserve root, signature, body; the envelope signature check accepts iff proposer, digest and BLS over the signing root under exactly the slot's version. Constants: tables regenerated on every run by a translator from /repo's YAML presets/configs and Go const blocks equal hand-pinned published tables (vm_compute), and the if-chains/switches/struct literals of the Go source are re-transliterated and proved equal to the model by reflexivity. Tie: differential execution Go vs model on random sorted schedules (real ProcessSlots on a kick-started state, real BLS signatures, reflection dump of configs.Mainnet/Minimal).",
    note="Trusted: Coq kernel+VM, the translator tools/cfg2coq, the Go harness/driver, the hand-pinned constant tables (Config/SpecConstants.v) and spec transliteration (compute_fork_version, upgrade_to_* Fork records, fork triggers). No axioms. Domain: sorted schedules, SLOTS_PER_EPOCH>0, post-genesis fork epochs >= 1 and slots before the Electra fork for the state clause; no Fulu block type exists in the repository; distinct versions => distinct digests needs collision resistance and is NOT assumed (stated as a decidable hypothesis); BLS unforgeability outside.",
    technique="Coq proof (case analysis over the schedule, induction over slots) + Go-AST/YAML translator obligations + Go-vs-model differential correspondence",
    design="4/C14")


def _repo_tag():
    return "" if verif.REPO == "/repo" else "_" + hashlib.sha1(verif.REPO.encode()).hexdigest()[:8]


def _coqc(gendir, name, timeout=600):
    rc, out = verif.sh("coqc -Q %s V -Q . Gen -w -notation-overridden %s" % (verif.COQ, name), cwd=gendir, timeout=timeout)
    return rc, out


OBLIGATION_TEXT = {
    "fork_version": "Spec.ForkVersion (common/spec.go) transliterated = model fork_version",
    "decoder_fork_digest": "ForkDecoder.ForkDigest (beacon/fork.go) transliterated = model decoder_fork_digest",
    "new_decoder": "NewForkDecoder (beacon/fork.go): every digest field computed from its own fork's version",
    "block_allocator": "ForkDecoder.BlockAllocator switch (beacon/fork.go) transliterated = model block_allocator",
    "upgrade_to": "the Fork literal and returned state type of UpgradeToAltair/Bellatrix/Capella/Deneb = model upgrade_to",
    "upgrade_maybe": "StandardUpgradeableBeaconState.UpgradeMaybe (beacon/fork.go) transliterated = model upgrade_maybe",
    "envelope_shapes": "field-copy tables of Envelope(), Header() (six forks) and EnvelopeToSignedBeaconBlock = expected shapes",
}


def translator_step(ctx):
    """(T) regenerate gen/C14*/Gen*.v from REPO's YAML and Go sources and re-check every obligation over them."""
    problems = []
    gendir = os.path.join(verif.ROOT, "gen", "C14" + _repo_tag())
    if os.path.isdir(gendir):
        shutil.rmtree(gendir)
    os.makedirs(gendir)
    tool = os.path.join(verif.BUILD, "cfg2coq")
    os.makedirs(verif.BUILD, exist_ok=True)
    rc, out = verif.sh(["go", "build", "-o", tool, "."], cwd=os.path.join(verif.ROOT, "tools", "cfg2coq"), env=verif.GOENV, timeout=300)
    if rc != 0:
        return dict(obligations=1, discharged=0, problems=[dict(kind="translator", detail="tools/cfg2coq does not build:\n" + out[-2000:])])
    rc, out = verif.sh([tool, verif.REPO, gendir], timeout=120)
    if rc != 0:
        return dict(obligations=1, discharged=0, problems=[dict(kind="translator", detail="tools/cfg2coq failed on %s:\n%s" % (verif.REPO, out[-2000:]))])
    checks = sorted(os.path.basename(p) for p in glob.glob(os.path.join(gendir, "Check_*.v")))
    nobl = len(checks)
    for g in ("GenConfig.v", "GenFork.v"):
        rc, out = _coqc(gendir, g)
        if rc != 0:
            problems.append(dict(kind="obligation", detail="generated %s does not compile (a Go construct the translator does not recognise shows as UNKNOWN_<file>_<line>):\n%s" % (g, out[-2500:])))
    if problems:
        return dict(obligations=nobl, discharged=0, problems=problems)
    with cf.ThreadPoolExecutor(max_workers=verif.NPROC) as ex:
        results = list(ex.map(lambda c: (c,) + _coqc(gendir, c), checks))
    ok = 0
    failed = []
    for name, rc, out in results:
        key = name[len("Check_"):-2]
        if rc == 0:
            ok += 1
            continue
        failed.append(key)
        if key.startswith("const_"):
            flat = " ".join(out.split())
            m = re.search(r"D\s*=\s*(.*?)\s*:\s*list", flat)
            diff = m.group(1) if m else out[-1500:]
            problems.append(dict(kind="obligation", obligation="constants_ok_" + key[6:],
                                 detail="constants regenerated from %s differ from the pinned published table %s; (key, value in repository, pinned value): %s" % (verif.REPO, key[6:], diff[:3000])))
        else:
            problems.append(dict(kind="obligation", obligation="gen_%s_ok" % key,
                                 detail="%s no longer holds for %s:\n%s" % (OBLIGATION_TEXT.get(key, key), verif.REPO, out[-1500:])))
    ctx["coverage"]["translator_obligations"] = dict(total=nobl, discharged=ok, failed=failed, gen_dir=os.path.relpath(gendir, verif.ROOT))
    return dict(obligations=nobl, discharged=ok, problems=problems)


def _km_update_timeout(case, code):
    # the one published preset key zrnt's structs have no field for; already excluded from the struct-count
    # comparison in Config/SpecConstants.v (not_in_struct), so this can only match a case naming exactly it
    return bool(case) and case.get("field") == "UPDATE_TIMEOUT"


def _km_fulu_block_type(case, code):
    # a Fulu epoch whose digest the allocator refuses (there is no Fulu block type in the repository)
    return bool(case) and case.get("fn") == "ForkDecoder.ForkDigest+BlockAllocator" and case.get("spec_fork") == "fulu" \
        and str(case.get("go_block_type", "")).startswith("error: unrecognized fork digest") and not (code & 1)


def make_check():
    return verif.Check(
        "C14",
        known_match={"preset_key_without_struct_field": _km_update_timeout, "fulu_digest_has_no_block_type": _km_fulu_block_type},
        make_targets=["Properties/C14.vo", "Config/ConfigRun.vo", "Config/GoShapes.vo"],
        pre_steps=[translator_step],
        trust=[
            "Section variables: the hash H (ForkData/SigningData/header roots) and bls_verify (no laws assumed); executable instances: Base/Sha256.v (validated against mainnet's Deneb fork digest 0x6a95a1a9 and against Go in every run) and the harness's one-signature table",
            "hand-pinned oracles: Config/SpecConstants.v (published mainnet/minimal presets phase0..electra, configs, Go-source constants) and the Spec half of Config/ForkSchedule.v (compute_fork_version, upgrade_to_* Fork records, fork triggers of each fork.md)",
            "tools/cfg2coq (Go stdlib): YAML `KEY: value` reader, const-expression evaluator, transliteration of the if-chains / switch / composite literals; unrecognised constructs are emitted as unbound identifiers and fail the obligation",
            "hand-written Impl model Config/ForkSchedule.v, tied to /repo by the reflexivity obligations over the transliterated Go and by differential execution",
        ],
        model_files=["coq/Config/ForkSchedule.v", "coq/Config/ForkProofs.v", "coq/Config/SpecConstants.v", "coq/Config/GoShapes.v",
                     "coq/Config/ConfigRun.v", "coq/Properties/C14.v", "tools/cfg2coq/main.go", "harness/cmd/c14/main.go"],
        notes="The model describes zrnt with fixes/C14-forkversion.diff and fixes/C14-upgrade-boundary.diff applied; the snapshot's behaviour is kept as fork_version_orig / at_boundary_orig with _refuted witnesses. Unsorted schedules, SLOTS_PER_EPOCH = 0, a post-genesis fork at epoch 0 and slots at/after the Electra fork (state clause) are outside the domain; BlockAllocator has no Fulu case (no Fulu block type in the repository).",
    )
