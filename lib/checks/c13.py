import beacon
import verif

MANIFEST = dict(
    text="The executable Coq Spec initialize_beacon_state_from_eth1 / is_valid_genesis_state (pyspec transliteration: incremental List[DepositData] roots, process_deposit with proof-of-possession oracle, top-ups, genesis activations, genesis_validators_root) is run, extracted to OCaml, against phase0.GenesisFromEth1 and IsValidGenesisState on every generated deposit list; the resulting state bytes must be identical (or both must refuse). Coq theorems: zrnt's incrementally grown List[Root] of deposit-data roots has the same hash-tree-root as the spec's List[DepositData] for every hash function, limit and list; the validity predicate is exactly the spec's two conditions. An implementation model of GenesisFromEth1 / KickStartState / IsValidGenesisState (Beacon/Impl/Genesis.v: List[Root] deposit-root view, ProcessDeposit through the pubkey-cache model of C16, the SLOTS_PER_EPOCH refusal, the activation loop, the epochs-context load through the C07 Impl models) is proved equal to the Spec (genesis_from_eth1_refines: whenever zrnt returns a state it is the Spec's, and it errors exactly where the Spec asserts, the registry is smaller than SLOTS_PER_EPOCH or no validator is active) and is itself executed against Go on every genesis/kickstart record.",
    note="Trusted: Coq kernel; extraction + OCaml driver; pyspec transliteration; BLS oracle table for deposit signatures; chain generator. Hypothesis of the root theorem: the hash returns 32 bytes. No axioms.",
    technique="Coq proof (SSZ list-root identity) + extracted-Spec vs Go correspondence on generated deposit lists",
    design="4/C13")


def make_check():
    return beacon.BeaconCheck(
        "C13", lambda r: r["kind"] in ("genesis", "kickstart"), beacon.judge_plain,
        rule="every `genesis` record: deposit lists with valid/invalid proofs of possession, duplicate pubkeys (top-ups), amounts below/at/above the maximum effective balance, invalid pubkey encodings, several presets; Go's genesis state bytes and validity verdict vs the Spec's. distinct = (chain, record)",
        make_targets=["Properties/C13.vo", "Beacon/Run.vo"], trust=beacon.BEACON_TRUST,
        model_files=["coq/Beacon/Spec/Transition.v", "coq/Beacon/Spec/Block.v", "coq/Beacon/Proofs/GenesisProofs.v", "coq/Properties/C13.v"])
