import verif  # noqa: F401
from checks import fc_common

MANIFEST = dict(
    text="Coq: executable Impl model of ProtoArray/ProtoVoteStore/ProtoForkChoice (as repaired by fixes/C09-*, C10-*, C11-*.diff) and a Spec "
         "that answers every navigation query by a direct walk of the set of inserted (root, slot) nodes. Theorems (coq/Properties/C11.v) "
         "are about all histories; what is not yet proved for all histories is stated as C11_full and covered by _partial theorems. "
         "Tie to /repo: random and directed operation histories (forks, gap slots, late/duplicate blocks, double proposals, prunes) are run on the "
         "real Go code; every query result is compared with the Impl model and, independently, with the Spec walk; unknown and pruned roots must be reported unknown.",
    note="Trusted: Coq kernel+VM, harness/driver, the hand-written model (tied by execution), the Spec reading of zrnt's block/slot graph. "
         "Known finding prune_keeps_late_fork (nodes inserted after the new finalized node on other branches survive a prune) is reported as KNOWN-FINDING.",
    technique="Coq proof (invariants over operation histories) + Go-vs-model-vs-spec differential correspondence on operation histories",
    design="4/C09-C11")


def make_check():
    return fc_common.make("C11")
