import verif  # noqa: F401
from checks import fc_common

MANIFEST = dict(
    text='PARTIAL proof + correspondence. Coq: executable Impl model of ProtoArray/ProtoVoteStore/ProtoForkChoice and a Spec that answers every query by a direct walk of the set of inserted (root, slot) nodes. Proved for ALL histories of ProcessSlot/ProcessBlock in the domain (simulation relation, induction on the history): the node table is exactly the tree of accepted insertions, `indices`/`blockSlots` are its membership and lowest-slot tables, ProcessBlock answers the tree rule, GetSlot = lowest known slot (unknown roots unknown), no panic; snapshot defects as machine-checked `_refuted` witnesses. Not proved (stated as C11_queries_refine): the walking queries and histories with votes/updates/prunes. Tie to /repo on every run: random and directed histories (forks, gap slots, late/duplicate blocks, double proposals, prunes at block and gap-slot anchors, unknown/pruned roots, slots before the anchor and after the head) run on the Go code; every result is compared with the Impl model (plus private-state checksum) and, independently, with the Spec walk.',
    note="Trusted: Coq kernel+VM, harness/driver, the hand-written Impl model (tied to /repo by differential execution of histories: values, sink calls, private-state checksum through verif_hooks.go), the Spec (my reading of the property on zrnt's block/slot graph, design/C09-C11.md). No axioms (Print Assumptions: closed). PARTIAL: the refinement Impl=Spec over all histories (Cxx_full / *_refine(s) in coq/Properties) is not proved in full; the part not proved rests on the correspondence runs. Known finding prune_keeps_late_fork (OnPrune drops a prefix of the node table only) is reported as KNOWN-FINDING. The model describes /repo with fixes/SERIES-forkchoice applied; on the unpatched tree the check reports VIOLATIONs with the failing history.",
    technique="Coq proof (simulation/invariants over operation histories, partial) + Go-vs-Impl-vs-Spec differential correspondence on operation histories",
    design="4/C09-C11")


def make_check():
    return fc_common.make('C11')
