import os

import beacon

MANIFEST = dict(
    text="Static half: a translator (tools/errflow2coq) regenerates, from /repo's current source, the error-flow skeleton of every function on the ProcessSlots / StateTransition paths (context polls, calls returning errors and what is done with each error, engine calls and what is done with their verdict); the Coq checker errflow_ok must accept it, and the machine-checked soundness theorem (Conc/ErrFlowSound.v: for every program accepted by the checker and every fault schedule, an observed fault makes the run return an error; without faults the run equals the undisturbed run) then applies to the regenerated program. Dynamic half: on generated chains a context that reports cancellation from the k-th poll on, for every k up to the poll count of the undisturbed run, must make the transition return an error (and k beyond the last poll must reproduce the undisturbed post-state bytes); a scripted engine answering invalid/error at each of its calls must make the transition fail; every engine call's arguments (payload hash-tree-root, versioned hashes, parent beacon root) are compared with what the Coq Spec's process_execution_payload shows its engine oracle (theorem engine_shown_spec_request). Partial: the theorem is about the extracted error-flow skeleton (translator fidelity, Go's error semantics and panics are trusted).",
    note="Trusted: Coq kernel; the errflow translator; extraction + OCaml driver; chain generator's fault injection. No axioms.",
    technique="Coq soundness proof of an error-flow checker applied to a regenerated skeleton + fault enumeration on chains vs the extracted Spec",
    design="4/C18")


def select(r):
    if r["kind"] == "cancel":
        return True
    if r["kind"] == "engine":
        return True
    if r["kind"] == "trans":
        toks = r["step"].split()
        return len(toks) > 4 and toks[4] in ("invalid", "error", "none") or "kind=engine" in r["step"]
    return False


def judge(r):
    if r["kind"] == "cancel":
        return beacon.judge_cancel(r)
    return None if r["ok"] else 2


def make_check():
    pre = []
    if os.path.exists(os.path.join(os.path.dirname(os.path.dirname(__file__)), "errflow.py")):
        import errflow
        pre.append(errflow.errflow_step)
    return beacon.BeaconCheck(
        "C18", select, judge,
        rule="`cancel` records (every k-th poll cancelled, k = 0..polls_total, on sampled slots/trans steps), `trans` records with a scripted engine verdict invalid/error/none at each engine call, and `engine` records (arguments shown to the engine vs the Spec's). distinct = (chain, record)",
        make_targets=["Properties/C18.vo", "Beacon/Run.vo"], trust=beacon.BEACON_TRUST, pre_steps=pre,
        model_files=["coq/Conc/ErrFlow.v", "coq/Conc/ErrFlowCheck.v", "coq/Conc/ErrFlowSound.v", "coq/Beacon/Proofs/TransitionRules.v", "coq/Properties/C18.v"])
