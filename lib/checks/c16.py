import verif

MANIFEST = dict(

   text="Machine-checked Coq theorems about an executable Gallina model of PubkeyCache (explicit heap of cache objects: parent, trustedParentCount, pub2idx, idx2pub; Pubkey / ValidatorIndex / AddValidator with the Go control flow, recursion on fuel): for EVERY sequence of AddValidator and lookup calls over any number of handles forked from one another, starting from any duplicate-free registry, the model's outputs equal those of the specification in which each handle denotes a plain list of pubkeys (cache_refines, by a simulation relation and induction on the operation list). Corollaries: lookups answer exactly by position in the handle's own history and never report an entry that exists only on a sibling/parent branch; a known pair is a no-op; the next index appends in place leaving all other handles unchanged; a conflicting pair yields a fresh handle and every old handle denotes what it did; a gap (and a second registration of an already registered pubkey) is an error; every call returns (fuel = chain depth + 5 suffices; no panic). The two defects of the pinned snapshot (sibling leak; AddValidator never returning) are kept as refuted lemmas about the original code's model, the latter for every fuel by induction. The model is tied to /repo on every run by differential execution: random operation sequences (<= 40 calls, <= 6 handle variables, 4..8 real BLS keys) run on the real Go code in a watchdog child process, every handle queried for every index and pubkey after every call, object-chain shape read through a verif hook; the Coq model and the Spec are evaluated on the same sequences by vm_compute. A second, deposit-level layer models how phase0.ProcessDeposit drives the cache of an EpochsContext (exists = cache lookup below valCount; AddValidator at index valCount; returned handle stored back) over copies of states that share a handle: deposit_refines (same results and registries as the registry-driven Spec for every sequence of copies and deposits), deposit_never_fails, deposit_handle_extends_registry (in every reachable state each context's handle denotes a history extending that context's own registry). Its correspondence stream kick-starts a phase0 state (minimal preset, 8 real keys), copies contexts (CopyState + epc.Clone) and runs the real ProcessDeposit so that siblings add different keys at the same index, the same key, top-ups, forks of forks; after every op every context's cache tables are compared with the model and judged against that context's own state registry. A Go/Spec disagreement is reported with the operation sequence.",
   note="Trusted: Coq kernel+VM, the Go harness/driver, the hand-written model (tied by execution, not translation). No axioms (Print Assumptions: closed). Domain: duplicate-free deposit histories; indices are unbounded naturals (the uint64 wrap of trustedParentCount+len needs 2^64 keys); the RWMutex is not modelled (sequential semantics, concurrency is C17).",
   technique="Coq proof (simulation relation, induction on operation sequences) + Go-vs-model differential correspondence with a child-process watchdog",
   design="4/C16")


def make_check():
    return verif.Check(
        "C16",
        make_targets=["Properties/C16.vo", "Pubkeys/CacheRun.vo"],
        trust=[
            "hand-written Impl models Pubkeys/CacheModel.v of eth2/beacon/common/validator_pubkeys.go and Pubkeys/DepositModel.v of the cache-related part of phase0.ProcessDeposit + epc.Clone; tied to the repository by differential execution of operation sequences, not by translation",
            "the read-only hook eth2/beacon/common/verif_hooks_pubkeys.go (build tag verif) used to compare the object chain (trustedParentCount, table sizes)",
            "pubkeys are opaque to the cache (map key and equality only): the model numbers them 0..7, the harness uses SkToPk(1..8)",
        ],
        model_files=["coq/Pubkeys/CacheSpec.v", "coq/Pubkeys/CacheModel.v", "coq/Pubkeys/CacheProofs.v", "coq/Pubkeys/DepositModel.v", "coq/Pubkeys/DepositProofs.v", "coq/Pubkeys/CacheRun.v", "coq/Properties/C16.v"],
        notes="Histories are duplicate-free (a registry never holds a pubkey twice): AddValidator(i, p) with p already registered at an index below i is refused with an error by the Spec and by the repaired code. A Go call that does not return (runaway recursion: fatal stack overflow in the 2 MB-stack child, or 20 s without progress) is recorded as GoNoReturn.",
        harness_timeout=1500,
    )
