import verif
from checks import ssz_common as S

MANIFEST = dict(
    text="Coq: hash_tree_root of the generic SSZ model (merkleize with zero-hash padding, length mix-in), parametric in the hash; a persistent Merkle-tree model of the view form (TreeView.v) with theorems, for ALL trees, indices and operation sequences: the root of the tree built from a value equals hash_tree_root of the value's chunk list, get/set by generalized index are exact, every operation preserves 'cached root = computed root', hence the root after any mutation sequence is the root of the resulting content. Per type, the HashTreeRoot argument lists / list kinds / limits and the view type definitions are tied to the pinned schema by the reflection check over regenerated descriptions. Correspondence: struct-form root = view-form root = model root for spec-driven random values of every type x 4 presets, and random mutation programs (set, append, pop, SetBacking, reset, Copy, graft between copies) over the six BeaconState views and other composites with byte/root comparison after every step.",
    note="Trusted: Coq kernel+VM, executable SHA-256 instance (validated against Go in C19), SpecSchemas.v, translator, harness; ztyp exercised not verified. Known ztyp finding: ComplexListView.Pop (never called by zrnt).",
    technique="Coq proof (Merkle tree model, cache invariant) + reflection over regenerated descriptions + Go-vs-model differential correspondence",
    design="4/C05")


class C05Check(verif.Check):
    """SSZ stream (harness/cmd/c05) plus the state roots along generated chains: the root zrnt's tree-backed state view
    reports after every transition step vs the Spec merkleization of the same state bytes (extracted beacon model)."""

    def correspondence(self, tier, seed, replay=None):
        summ, found, problems = super().correspondence(tier, seed, replay)
        import beacon
        cs, cf, cp = beacon.chain_stream(tier, seed, lambda r: r["kind"] == "state" and "stateroot" in r["detail"], beacon.judge_plain)
        problems.extend(cp)
        found.extend(cf)
        if cs:
            summ["evaluations"] = summ.get("evaluations", 0) + cs["evaluations"]
            summ["distinct_nontrivial"] = summ.get("distinct_nontrivial", 0) + cs["distinct_nontrivial"]
            summ["x_stream_chain_state_roots"] = cs
        return summ, found, problems


def make_check():
    S.install_known()
    return C05Check(
        "C05",
        make_targets=["Properties/C05.vo", "Ssz/SszRun.vo", "Ssz/SszDescCheck.vo", "Ssz/SchemaDump.vo"],
        trust=S.SSZ_TRUST,
        model_files=S.SSZ_MODEL_FILES + ["coq/Ssz/TreeView.v", "coq/Ssz/TreeValue.v", "coq/Properties/C05.v", "harness/cmd/c05/main.go", "harness/sszgen/viewops.go"],
        pre_steps=[S.translate, S.dump_schemas],
        known_match=S.KNOWN_MATCH,
        notes="Roots are compared for values accepted by the strict model; malformed-input behaviour is C04's. Mutation programs use the public ztyp view API on views created by zrnt's type definitions.",
        harness_timeout=900,
    )
