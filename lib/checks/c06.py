import verif

MANIFEST = dict(
    text="Machine-checked Coq theorems, for every seed, every hash function H, every round count 0..255 and every list size n < 2^63 (per-index: 0 < n <= 2^63; equality with the specification: n <= 2^40, the spec's registry limit): one swap-or-not round is an involution on [0,n); PermuteIndex and UnpermuteIndex are mutually inverse bijections of [0,n); PermuteIndex = the spec's compute_shuffled_index; the optimized whole-list routine (pivot/mirror two-segment in-place swaps, cached source hash refreshed at j&0xff==0xff and cached byte refreshed at j&7==7, all modelled) satisfies UnshuffleList(l)[i] = l[PermuteIndex(i)] and ShuffleList(l)[PermuteIndex(i)] = l[i], never panics, ShuffleList and UnshuffleList are mutually inverse and the result is a Permutation of the input. The hand-written Impl model is tied to /repo on every run by differential execution of the public API (real SHA-256) and of the inner functions with weak hashes (verif hook) against the model and, independently, against the spec function position by position; a Go/Spec disagreement is reported with the (seed, size, rounds).",
    note="Trusted: Coq kernel+VM, the Go harness/driver, the hand-written model (tied by execution, not translation), the transliteration of compute_shuffled_index, hash as a Section variable (for Impl = Spec its output bytes are assumed < 256). No axioms (Print Assumptions: closed).",
    technique="Coq proof (loop invariants over a functional slice, involution/bijection lemmas, bit/arith lemmas) + Go-vs-model-vs-spec differential correspondence",
    design="4/C06")


def make_check():
    return verif.Check(
        "C06",
        make_targets=["Properties/C06.vo", "Shuffle/ShuffleRun.vo"],
        trust=[
            "Section variables of the shuffling theorems: the hash H and the seed (no laws assumed; only Impl = Spec assumes H returns bytes < 256)",
            "hand-written Impl model Shuffle/ShuffleModel.v of eth2/beacon/common/shuffle.go (innerPermuteIndex, innerShuffleList incl. the cached source/byte and the mirror arithmetic); tied to /repo by differential execution, not by translation",
            "hand-written transliteration of the consensus spec's compute_shuffled_index (Shuffle/ShuffleModel.v, Spec part); no pyspec is available offline",
            "add-only hook /repo/eth2/beacon/common/verif_hooks.go (build tag verif): calls innerPermuteIndex/innerShuffleList with a caller-supplied hash; the weak hashes are written twice (Go: harness/cmd/c06/main.go weakHash, Coq: ShuffleRun.weak_hash) and compared on every run",
        ],
        model_files=["coq/Shuffle/ShuffleModel.v", "coq/Shuffle/ShuffleArith.v", "coq/Shuffle/ShuffleIndexProofs.v",
                     "coq/Shuffle/ShuffleListProofs.v", "coq/Shuffle/ShuffleProofs.v", "coq/Shuffle/ShuffleSpecTab.v",
                     "coq/Shuffle/ShuffleRun.v", "coq/Properties/C06.v"],
        notes="Domain: index < n, rounds <= 255 (uint8). listSize = 0 with rounds > 0 panics in Go and in the model (integer division by zero; empty index range, outside the domain); index >= n is outside the domain (compared with the Impl model only). n > 2^63 (not a possible slice length) wraps pivot + (n - index) and is outside the domain.",
        harness_timeout=1800,
    )
