import verif  # noqa: F401
from checks import fc_common

MANIFEST = dict(
    text='PARTIAL proof + correspondence. Coq: Impl model (mutex as a flag: re-acquiring = Blocked; prune sink as a parameter that may fail at its k-th call) and a Spec of updates (no-op / refused / applied, exact prune, canonical flags). Proved for ALL histories, states, arguments and sinks: no call ever blocks and the lock is free between calls (update_returns, blocking half); older-or-equal pairs change nothing; a finalized checkpoint outside the finalized subtree is refused leaving the state untouched; what a prune removes is a prefix of the node table = exactly what the sink acknowledged, each node once, in order, the refused node stays; at Spec level prune_exact and head_in_finalized_subtree. Not proved (C10_update_refines): never-Panic, canonical flags, retained_queries_unchanged. Tie to /repo on every run: UpdateJustified ahead/equal/behind/unknown/conflicting at block and gap-slot anchors, SetPin, failing sinks, every call under a deadline (a blocked call is observed as such), every query after a prune compared with Impl and Spec.',
    note="Trusted: Coq kernel+VM, harness/driver, the hand-written Impl model (tied to /repo by differential execution of histories: values, sink calls, private-state checksum through verif_hooks.go), the Spec (my reading of the property on zrnt's block/slot graph, design/C09-C11.md). No axioms (Print Assumptions: closed). PARTIAL: the refinement Impl=Spec over all histories (Cxx_full / *_refine(s) in coq/Properties) is not proved in full; the part not proved rests on the correspondence runs. Known finding prune_keeps_late_fork (OnPrune drops a prefix of the node table only) is reported as KNOWN-FINDING. The model describes /repo with fixes/SERIES-forkchoice applied; on the unpatched tree the check reports VIOLATIONs with the failing history.",
    technique="Coq proof (simulation/invariants over operation histories, partial) + Go-vs-Impl-vs-Spec differential correspondence on operation histories",
    design="4/C09-C11")


def make_check():
    return fc_common.make('C10')
