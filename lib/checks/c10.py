import verif  # noqa: F401
from checks import fc_common

MANIFEST = dict(
    text="Coq: executable Impl model of ProtoArray/ProtoVoteStore/ProtoForkChoice (as repaired by fixes/C09-*, C10-*, C10-*.diff) and a Spec "
         "that says which justified/finalized updates are no-ops, refused or applied, which nodes a prune drops, and what the sink is told. Theorems (coq/Properties/C10.v) "
         "are about all histories; what is not yet proved for all histories is stated as C10_full and covered by _partial theorems. "
         "Tie to /repo: random and directed operation histories (forks, gap slots, late/duplicate blocks, double proposals, prunes) are run on the "
         "real Go code; every UpdateJustified/SetPin result, every sink call and every query after a prune is compared with the Impl model and, independently, with the Spec; every call runs under a deadline (a blocked call is reported).",
    note="Trusted: Coq kernel+VM, harness/driver, the hand-written model (tied by execution), the Spec reading of zrnt's block/slot graph. "
         "Known finding prune_keeps_late_fork (nodes inserted after the new finalized node on other branches survive a prune) is reported as KNOWN-FINDING.",
    technique="Coq proof (invariants over operation histories) + Go-vs-model-vs-spec differential correspondence on operation histories",
    design="4/C09-C10")


def make_check():
    return fc_common.make("C10")
