import beacon

MANIFEST = dict(
    text="The executable Coq Spec of state_transition (pyspec transliteration, phase0..deneb: header, randao, eth1, every operation, sync aggregate, execution payload, withdrawals, BLS changes; process_slots with epoch processing and upgrades) is run, extracted to OCaml, on the SSZ pre-state and signed block of every block the generator's honest producer made (all operation kinds, several scenarios and random tiny presets and fork schedules): whenever the Spec accepts, zrnt must accept and the post-state bytes must be identical (so the root equals the declared state root). Coq theorems: what acceptance entails (decomposition, declared state root = hash-tree-root of the result) and, from Beacon/Refine, equality of zrnt's own algorithms with the Spec's where they differ. Partial: the full Impl = Spec refinement is proved operation by operation (see the theorem list in the evidence), the rest is tied by correspondence.",
    note="Trusted: Coq kernel; extraction + OCaml driver; pyspec transliteration; BLS and engine as oracles; chain generator; Bounds (no uint64 overflow) as hypotheses. No axioms.",
    technique="Coq refinement/decision-rule proofs + extracted-Spec vs Go differential correspondence on generated chains",
    design="4/C01")


def select(r):
    if r["kind"] != "trans":
        return False
    if beacon.spec_accepts(r):
        return True
    # an honest block that only fails the Spec's final state-root comparison while zrnt accepted it: zrnt computed a
    # different post-state than the Spec for an otherwise valid block (the producer fills in zrnt's own root)
    return (not r["ok"]) and "kind=honest" in r["step"] and "spec-stage=state-root" in r["detail"]


def make_check():
    return beacon.BeaconCheck(
        "C01", select, beacon.judge_plain,
        rule="every `trans` record on which the Spec accepts the block: zrnt's verdict and post-state bytes vs the Spec's. distinct = (chain, record); non-trivial = all (every block carries at least randao/eth1 processing; operation mix in generator_distribution)",
        make_targets=["Properties/C01.vo", "Beacon/Run.vo", "Beacon/Refine/BlockImplRun.vo"], trust=beacon.BEACON_TRUST,
        extra_streams=["C01IMPL"],
        model_files=["coq/Beacon/Spec/*.v", "coq/Beacon/Run.v", "coq/Beacon/Proofs/TransitionRules.v", "coq/Properties/C01.v"])
