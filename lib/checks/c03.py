import beacon

MANIFEST = dict(
    text="The executable Coq Spec is the verdict oracle on every block of the generator's corruption stream (single-field corruptions of valid blocks re-signed so that only the intended rule fails, cross-domain / cross-fork / cross-chain signature replays, duplicated / reordered / over-limit operations, wrong payload parent hash / randao / timestamp / withdrawals, random decodable bytes): whenever the Spec rejects, zrnt must return an error; a Go panic anywhere is a violation. Coq theorems: decision rules of the Spec (which blocks are rejected: old slot, wrong fork, bad proposer signature with the exact message the BLS oracle sees, engine refusal; per-operation iff-characterisations from Beacon/Refine/RejectRules as they are proved).",
    note="Trusted: Coq kernel; extraction + OCaml driver; pyspec transliteration; BLS/engine oracles (a signature absent from the generator's table is invalid); chain generator. No axioms.",
    technique="Coq decision-rule proofs + extracted-Spec verdict vs Go on corrupted blocks",
    design="4/C03")


def select(r):
    return r["kind"] == "trans" and (beacon.spec_rejects(r) or "panick" in r["detail"] or beacon._post_token(r) == "PANIC")


def make_check():
    return beacon.BeaconCheck(
        "C03", select, beacon.judge_plain,
        rule="every `trans` record on which the Spec rejects the block (or on which Go panicked): Go must have returned an error. distinct = (chain, record); corruption kinds in input_histogram / generator_distribution",
        make_targets=["Properties/C03.vo", "Beacon/Run.vo"], trust=beacon.BEACON_TRUST,
        model_files=["coq/Beacon/Spec/*.v", "coq/Beacon/Run.v", "coq/Beacon/Proofs/TransitionRules.v", "coq/Properties/C03.v"])
