import verif

MANIFEST = dict(

   text="Machine-checked Coq theorems, for every 64-bit input: IntegerSquareroot = floor sqrt (Newton iteration, fuel and overflow discharged); IsPowerOfTwo iff 2^k; NextPowerOfTwo = 2^log2_up (bit-smearing lemma) or 0 when unrepresentable; EpochStartSlot/TimeAtSlot return the exact value iff representable else the error; TimeToSlot is 0 before genesis and otherwise THE slot whose interval [s*SPS+g,(s+1)*SPS+g) contains t (floor, uniqueness, 64-bit bound); SlotToEpoch is floor(s/SPE) and EpochStartSlot, when it answers, is the least slot of its epoch; Slot/Epoch.Previous saturate at genesis; MinU64/MaxU64 are tied by the correspondence; XorBytes32 is the byte-wise xor (length, per-byte value, range, commutative, self-inverse); IntegerSquareRootPrysm (table, float64 estimate, division-based correction loops) returns floor sqrt for ANY estimate the float unit produces (the estimate is an oracle of the model, recomputed by the harness with the same Go expression); the re-usable hash object of GetHashFn/Sha256Repeat is driven over message sequences against the Gallina SHA-256; CheckSlotSpan, CommitteeCount, churn, activation-exit epoch equal the spec formula; VerifyMerkleBranch = is_valid_merkle_branch for any hash function. The hand-written Impl model is tied to /repo on every run by differential execution of Go vs model (vm_compute) on the boundary set and random inputs; a Go/Spec disagreement is reported with the input.",
   note="Trusted: Coq kernel+VM, the Go harness/driver, the hand-written model (tied by execution, not translation), hash as a Section variable. No axioms (Print Assumptions: closed). Zero divisors in the config are outside the domain.",
   technique="Coq proof (induction/arith/bit lemmas) + Go-vs-model differential correspondence",
   design="4/C19")


def make_check():
    return verif.Check(
        "C19",
        make_targets=["Properties/C19.vo", "Math/MathRun.vo"],
        trust=[
            "Section variables of the Merkle theorems: the hash H, concatenation and equality on byte strings (no laws assumed)",
            "Math/Prysm.v: the float64 estimate uint64(math.Sqrt(float64(n))) is an oracle (any value allowed by the theorem); uint64 arithmetic of the correction loops modelled in unbounded N (every visited x lies between the estimate and sqrt n, so no wrap: argued, not proved)",
            "hand-written Impl model Math/MathModel.v of math_util.go, crypto_util.go, time.go, CommitteeCount, CheckSlotSpan; tied to /repo by differential execution on the boundary set, not by translation",
        ],
        model_files=["coq/Math/MathModel.v", "coq/Math/Prysm.v", "coq/Math/MathProofs.v", "coq/Math/Pow2Proofs.v", "coq/Math/MathRun.v", "coq/Properties/C19.v"],
        notes="SECONDS_PER_SLOT = 0 and other zero divisors are outside Config_wf (Go panics by integer division); depth > len(branch) panics in Go and in the model (outside the documented domain).",
    )
