import verif


def make_check():
    return verif.Check(
        "C19",
        trust=[
            "Section variables of the Merkle theorems: the hash H, concatenation and equality on byte strings (no laws assumed)",
            "hand-written Impl model Math/MathModel.v of math_util.go, crypto_util.go, time.go, CommitteeCount, CheckSlotSpan; tied to /repo by differential execution on the boundary set, not by translation",
        ],
        model_files=["coq/Math/MathModel.v", "coq/Math/MathProofs.v", "coq/Math/Pow2Proofs.v", "coq/Math/MathRun.v", "coq/Properties/C19.v"],
        notes="SECONDS_PER_SLOT = 0 and other zero divisors are outside Config_wf (Go panics by integer division); depth > len(branch) panics in Go and in the model (outside the documented domain).",
    )
