import verif
from checks import ssz_common as S


def accessor_tables(ctx):
    """pre-step: the accessor index tables regenerated from the six state.go files and the sub-view getters
    must name the schema field they are called after (reflection over GenAccessors.v)."""
    import os
    d = ctx.get("gen_dir") or S.gen_dir()
    src = """From Coq Require Import String NArith List.
From V Require Import Ssz.SszCore Ssz.SszDesc Ssz.SpecSchemas Ssz.SszDescCheck Ssz.AccessorCheck.
From G Require Import GenSsz GenAccessors.
Import ListNotations.
Definition RA := Eval vm_compute in accessor_problems gen_consts gen_types gen_accessors.
Print RA.
Definition CountA := Eval vm_compute in accessor_count gen_accessors.
Print CountA.
Lemma accessors_ok : accessor_problems gen_consts gen_types gen_accessors = [].
Proof. vm_compute. reflexivity. Qed.
"""
    with open(os.path.join(d, "GenAccessorsCheck.v"), "w") as f:
        f.write(src)
    q = "-Q %s V -Q %s G" % (verif.COQ, d)
    rc, out = verif.sh("coqc %s GenAccessors.v" % q, cwd=d, timeout=600)
    if rc != 0:
        return dict(obligations=1, discharged=0, problems=[dict(kind="obligation", detail="GenAccessors.v does not compile:\n" + out[-1500:])])
    rc, out = verif.sh("coqc %s GenAccessorsCheck.v" % q, cwd=d, timeout=600)
    sec = S._section(out, "RA")
    failing = S.coq_strings(sec) if sec is not None else ["accessor checker output not found:\n" + out[-800:]]
    import re
    m = re.search(r"CountA\s*=\s*(\d+)", out)
    n = int(m.group(1)) if m else 1
    problems = [dict(kind="obligation", detail="accessor obligation fails: " + s) for s in failing]
    ctx["coverage"]["accessor_methods_checked"] = n
    return dict(obligations=n, discharged=max(n - len(failing), 0), problems=problems)


MANIFEST = dict(
    text="Coq: a persistent Merkle-tree model of tree-backed views (TreeView.v) with theorems for ALL trees, positions and operation sequences: get after set at the same position returns the written subtree, set leaves every disjoint position unchanged, writing through a sub-view equals writing at the concatenated position of the parent, every operation preserves the cache invariant, a copy shares the backing and any operation sequence on one view of a store leaves every other view unchanged. The accessor tables of the six BeaconState views (the _state* iota blocks, each getter/setter's index constant, the As<T> wrappers) and the sub-view getters are regenerated from the Go source on every run and checked by reflection against the pinned schema. Correspondence: random typed accessor programs on all six state types and their copies, every getter compared with the stored value after every step (Go side), and state root + every field root of every live view compared with the tree model run on the same program (Coq side); a real ProcessSlots on a sibling copy with cloned EpochsContext.",
    note="Trusted: Coq kernel+VM, SHA-256 instance, SpecSchemas.v, translator, harness. Independence is proved for the tree representation (immutability of shared nodes); aliasing of Go slices inside ztyp/zrnt can only be exhibited by the correspondence run - partial by design (DESIGN 4/C15 Limits).",
    technique="Coq proof (tree model: get/set laws, write-through, copy independence) + reflection over regenerated accessor tables + Go-vs-model differential correspondence",
    design="4/C15")


def make_check():
    S.install_known()
    return verif.Check(
        "C15",
        make_targets=["Properties/C15.vo", "Ssz/TreeRun.vo", "Ssz/SszDescCheck.vo", "Ssz/AccessorCheck.vo", "Ssz/SchemaDump.vo"],
        trust=S.SSZ_TRUST,
        model_files=S.SSZ_MODEL_FILES + ["coq/Ssz/TreeView.v", "coq/Ssz/TreeRun.v", "coq/Ssz/AccessorCheck.v", "coq/Properties/C15.v", "harness/cmd/c15/main.go", "harness/sszgen/stateacc.go"],
        pre_steps=[S.translate, accessor_tables, S.dump_schemas],
        known_match=S.KNOWN_MATCH,
        notes="The sibling-transition case carries Go's verdict (bytes and root of the original before/after) - a 64-validator state is too large for in-Coq hashing in the quick tier.",
        harness_timeout=900,
    )
