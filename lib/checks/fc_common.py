"""Shared pieces of the fork-choice checks C09, C10, C11 (one Coq model, one harness package, three projections)."""
import json
import os

import verif

ROOT = verif.ROOT

MODEL_FILES = ["coq/Forkchoice/ProtoArray.v", "coq/Forkchoice/VoteStore.v", "coq/Forkchoice/Wrapper.v",
               "coq/Forkchoice/TreeSpec.v", "coq/Forkchoice/GhostSpec.v", "coq/Forkchoice/Step.v",
               "coq/Forkchoice/ArrayProofs.v", "coq/Forkchoice/UpdateProofs.v", "coq/Forkchoice/TreeProofs.v",
               "coq/Forkchoice/GhostProofs.v", "coq/Forkchoice/Refuted.v", "coq/Forkchoice/Run.v", "coq/Forkchoice/WalkProofs.v", "coq/Forkchoice/WeightProofs.v", "coq/Forkchoice/LinkProofs.v"]

TRUST = [
    "hand-written Impl model coq/Forkchoice/{ProtoArray,VoteStore,Wrapper}.v of proto_array.go, votestore.go, forkchoice.go "
    "(repaired statements selected by the record `fixed`), tied to /repo on every run by differential execution of operation "
    "histories: every returned value, every prune-sink call and a checksum of the private state (node table, offset, both maps, "
    "vote trackers, wrapper fields, read through the add-only verif_hooks.go files) after every call",
    "the prune sink and the balances callback are parameters of the model (a sink that fails at its k-th call; a callback that fails)",
    "Spec oracle coq/Forkchoice/{TreeSpec,GhostSpec,Step}.v: my reading of the property text on zrnt's block/slot graph "
    "(DESIGN section 4, C09-C11: what is adopted from zrnt and why)",
]

NOTES = ("Domain: nonzero roots, a root always comes with the same parent and slot, sum of balances < 2^63, slots/epochs < 2^40, "
         "ProcessSlot only for a known parent and a slot above its lowest known slot; calls outside are still compared with the Impl "
         "model (no panic, no blocking). After a prune sink failed part-way the Spec demands nothing of later calls of that history.")


def _late_fork(case, code):
    """known finding prune_keeps_late_fork: Go behaves exactly like the Impl model (bit 1 clear), differs from the Spec (bit 2),
    and the history moved finalization to a node while a non-descendant inserted after it existed - seen both by the Gallina
    predicate late_fork_at (bit 2^20 of the code) and by the harness in Go's own node table (feat.late_fork_step)."""
    if not case or (code & 1) or not (code & 2) or not ((code >> 20) & 1):
        return False
    step = case.get("feat", {}).get("late_fork_step", 0)
    spec_step = (code // 1024) % 256
    return step > 0 and step <= spec_step


KNOWN_MATCH = {"prune_keeps_late_fork": _late_fork}

# Until the coordinator has merged fixes/known_findings_forkchoice.json into known_findings.json, read the entries from there
# (same format, committed file, never written at run time). Entries already present in known_findings.json win.
_orig_known = verif.known_findings


def _known(prop):
    out = list(_orig_known(prop))
    p = os.path.join(ROOT, "fixes", "known_findings_forkchoice.json")
    if os.path.exists(p):
        have = {(k.get("property"), k.get("key", {}).get("shape")) for k in out}
        for k in json.load(open(p)):
            if k.get("property") == prop and (prop, k.get("key", {}).get("shape")) not in have:
                out.append(k)
    return out


verif.known_findings = _known


def make(prop):
    return verif.Check(
        prop,
        make_targets=["Properties/%s.vo" % prop, "Forkchoice/Run.vo"],
        trust=TRUST,
        model_files=MODEL_FILES + ["coq/Properties/%s.v" % prop],
        known_match=KNOWN_MATCH,
        notes=NOTES,
        harness_timeout=1500,
    )
