import verif

MANIFEST = dict(
    text="Machine-checked Coq theorems over ALL operation sequences (induction with a simulation invariant between the map-based Impl model of eth2/pool/*.go and a list-of-added-items Spec): "
         "no add/search/prune/reset/select ever panics (also proved for arbitrary byte strings, committees, buffer indices and slots); exits, proposer and attester slashings: second item under the same key refused, All() = exactly the accepted items; "
         "attestations: AttestationBits helpers (BitLen, GetBit, OnesCount, Covers, Or, SingleParticipant over bytes) = operations on the decoded flag list, "
         "single attestation duplicate absorbed / double vote reported, aggregate covered by the stored ones absorbed (exact duplicates included), aggregate whose participants all voted for other data refused, "
         "Search returns exactly the stored aggregates matching the filter, unaltered, until Prune(epoch) removes exactly those with target epoch < epoch-1; "
         "sync committee pool: three-slot window with uint64 wrap-around, Reset keeps exactly what is still in the window, Select/contribution lists = the added items. "
         "The Impl model is tied to /repo on every run by differential execution (Go vs model vs Spec, vm_compute) of random add/search/prune/reset sequences and of the defect witnesses of the pinned snapshot.",
    note="Trusted: Coq kernel+VM, the Go harness/driver and the add-only hook eth2/pool/verif_hooks.go (read-only views), the hand-written model (tied by execution, not translation), "
         "HashTreeRoot injective on AttestationData / AttesterSlashing (map keys are modelled by the data itself), Go map iteration order abstracted (query results compared as multisets). "
         "Domain of the Spec comparison: bit lists that are valid SSZ bit lists. Locking (Search/Prune/Reset take no lock) is C17's concern. Pack* methods are stubs (return nil) and are not modelled.",
    technique="Coq proof (simulation invariant, induction on operation sequences, byte-level bit lemmas) + Go-vs-model differential correspondence",
    design="4/C20")


# No `known` findings: every defect found has a small repair under fixes/C20-*.diff (documented as `fixed` entries in
# fixes/known_findings_C20.json).  A mismatch that is not explained by a committed fix is a VIOLATION.
#
# The two predicates below are consulted by the driver ONLY if known_findings.json lists their shape with status "known"
# (i.e. if the coordinator declines the corresponding patch and records the defect instead); with `fixed` entries they are inert.
M64 = 1 << 64


def _bitlen(bits):
    if not bits:
        return 0
    last = bits[-1]
    return (len(bits) - 1) * 8 + (last.bit_length() - 1 if last else 0)


def _ones(bits):
    if not bits:
        return 0
    n = sum(bin(b).count("1") for b in bits[:-1])
    last = bits[-1]
    return n + (bin(last).count("1") - 1 if last else 0)


def reset_by_two_slots(case, code):
    """sync pool sequence containing a Reset to currentSlot +-2 (mod 2^64)"""
    if not case or case.get("pool") != "sync_committee":
        return False
    cur = M64 - 1
    for op in case.get("ops", []):
        if op.get("op") == "reset":
            slot = int(op.get("slot", 0))
            if (slot - cur) % M64 in (2, M64 - 2):
                return True
            cur = slot
    return False


def aggregate_with_committee_of_other_size(case, code):
    """attestation sequence containing an aggregate (>= 2 bits set) whose bit length differs from the committee size"""
    if not case or case.get("pool") != "attestations":
        return False
    for op in case.get("ops", []):
        if op.get("op") == "add" and op.get("att"):
            bits = op["att"].get("Bits") or []
            if _ones(bits) >= 2 and _bitlen(bits) != len(op.get("committee") or []):
                return True
    return False


KNOWN_MATCH = {
    "reset_by_two_slots": reset_by_two_slots,
    "aggregate_with_committee_of_other_size": aggregate_with_committee_of_other_size,
}


def make_check():
    return verif.Check(
        "C20",
        make_targets=["Properties/C20.vo", "Pool/PoolRun.vo"],
        trust=[
            "hand-written Impl model Pool/PoolModel.v of eth2/pool/{attestations,attester_slashings,proposer_slashings,voluntary_exits,sync_committees}.go, "
            "eth2/beacon/phase0/attestation_bits.go and ztyp/bitfields (BitIndex, BitlistLen, GetBit, BitlistOnesCount, Covers); tied to /repo by differential execution of operation sequences, not by translation",
            "HashTreeRoot is injective on the AttestationData / AttesterSlashing objects of a run (the model keys its maps by the object itself); math/bits.OnesCount8 = number of set bits",
            "Go map iteration order is abstracted: Search/All results and hook dumps are compared as multisets",
            "add-only hook /repo/eth2/pool/verif_hooks.go (build tag verif): read-only views of individual, aggPerValidator, aggregate, datas and of the sync pool's slot buffers",
        ],
        model_files=["coq/Pool/PoolModel.v", "coq/Pool/PoolSpec.v", "coq/Pool/PoolMaps.v", "coq/Pool/PoolBits.v", "coq/Pool/PoolAtt.v", "coq/Pool/PoolSync.v",
                     "coq/Pool/PoolSafe.v", "coq/Pool/PoolProofs.v", "coq/Pool/PoolRun.v", "coq/Properties/C20.v"],
        known_match=KNOWN_MATCH,
        notes="Spec comparison is vacuous for sequences containing a bit list that is not a valid SSZ bit list (empty, trailing zero byte); the Impl comparison still applies to them. "
              "Cross-structure double votes (single vs aggregate) and partially conflicting aggregates are accepted by design of the pool and are outside the conflict clause as formalised (design/C20.md).",
    )
