import verif
from checks import ssz_common as S

MANIFEST = dict(
    text="Coq: a generic SSZ codec (types, values, serialize, strict deserialize, fixed_size) with machine-checked theorems for ALL types and values (deserialize after serialize is the identity on well-typed values, fixed_size agrees with the bytes written, accepted bytes are canonical, truncated / over-limit / bad-offset inputs are refused); each of zrnt's ~155 SSZ types is tied to its pinned consensus-specs schema by a reflection check over descriptions regenerated from the Go source on every run (struct field list, argument lists and limit expressions of the five hand-written methods, ztyp view type definitions) under mainnet, minimal and an all-distinct-primes configuration; and by differential execution: spec-driven random in-limit values and malformed derivations for every type x {mainnet, minimal, 2 random custom presets} through the Go struct form and view form, judged by the Coq model.",
    note="Trusted: Coq kernel+VM, SpecSchemas.v (hand-pinned oracle), the translator and harness, ztyp's behaviour outside what is exercised. JSON/YAML: round trip observed in Go only (no text-form model). Known ztyp-internal decoding leniencies are listed as known findings keyed by input shape.",
    technique="Coq proof (generic codec theorems) + reflection over regenerated descriptions + Go-vs-model differential correspondence",
    design="4/C04")


def make_check():
    S.install_known()
    return verif.Check(
        "C04",
        make_targets=["Properties/C04.vo", "Ssz/SszRun.vo", "Ssz/SszDescCheck.vo", "Ssz/SchemaDump.vo"],
        trust=S.SSZ_TRUST,
        model_files=S.SSZ_MODEL_FILES + ["coq/Properties/C04.v", "harness/cmd/c04/main.go"],
        pre_steps=[S.translate, S.dump_schemas],
        known_match=S.KNOWN_MATCH,
        notes="Domain: values within the limits of the type under the given preset; LogsBloom and ExtraData sizes are Go constants (256, 32) and not preset-dependent. Top-level decoding is given the exact byte string as scope.",
        harness_timeout=900,
    )
