import verif  # noqa: F401
from checks import fc_common

MANIFEST = dict(
    text="PARTIAL proof + correspondence. Coq: Impl model and a Spec that recomputes LMD-GHOST from scratch (subtree sums of the latest accepted votes, viability filter, ties to the greater root). Proved for ALL states and inputs: the latest-message rule vote_once (a vote touches its validator's tracker only, a strictly later target epoch replaces the pending vote, older/equal change nothing; a refresh never changes pending votes and counts a vote only when its node is known); the Spec's head is a viable node of the tree; snapshot defects as `_refuted` witnesses. Not proved (stated as C09_head_refines): weights_inv and best_links_inv. Tie to /repo on every run: histories with moving votes, changing balances, updates and prunes; every Head/FindHead/ProcessAttestation result AND every node weight (order-independent checksum over the node table vs the Spec's subtree sums) is compared after each head computation and update; all results also against the Impl model.",
    note="Trusted: Coq kernel+VM, harness/driver, the hand-written Impl model (tied to /repo by differential execution of histories: values, sink calls, private-state checksum through verif_hooks.go), the Spec (my reading of the property on zrnt's block/slot graph, design/C09-C11.md). No axioms (Print Assumptions: closed). PARTIAL: the refinement Impl=Spec over all histories (Cxx_full / *_refine(s) in coq/Properties) is not proved in full; the part not proved rests on the correspondence runs. Known finding prune_keeps_late_fork (OnPrune drops a prefix of the node table only) is reported as KNOWN-FINDING. The model describes /repo with fixes/SERIES-forkchoice applied; on the unpatched tree the check reports VIOLATIONs with the failing history.",
    technique="Coq proof (simulation/invariants over operation histories, partial) + Go-vs-Impl-vs-Spec differential correspondence on operation histories",
    design="4/C09-C11")


def make_check():
    return fc_common.make('C09')
