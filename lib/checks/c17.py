import hashlib
import json
import os
import re
import shutil

import verif

MANIFEST = dict(
    text="PARTIAL (by nature): machine-checked Coq theorem about the LOCK DISCIPLINE extracted from the source, not about the binary. "
         "Conc/LockLang.v: a language of method bodies as event paths (Acquire R|W, Release, Defer, Read f, Write f, CallExported Self|Parent|Child, CallInternal, Leak, Unknown) and an "
         "interleaving semantics of any number of goroutines calling any methods of the objects of a parent forest, with non-re-entrant RW mutexes. "
         "Conc/LockCheck.v: boolean checker lock_ok (guarded access under the mutex in sufficient mode; helper contracts checked at every call site; no exported call / re-acquisition while the "
         "mutex is held; lock order child -> parent only; every path releases; no Leak, no Unknown; two-phase shape of every exported method). "
         "Conc/LockSound.v, proved for ALL programs, worlds and schedules: disc_ok prog = true -> race freedom (no reachable configuration with two goroutines about to perform "
         "conflicting accesses; any two conflicting accesses in a trace are separated by Release(first) ... Acquire(second) on the object's mutex) and deadlock freedom "
         "(every reachable configuration can step unless all calls returned); lock_ok prog = true -> additionally two-phase locking along every execution and CONFLICT SERIALIZABILITY with an explicit serial order "
         "(an access of one call before a conflicting access of another goroutine's call => the lock point of the first call precedes the lock point of the second). "
         "Kept visible as an unproved Definition: the classical last step from an acyclic precedence graph to an equivalent serial execution, and data values (\"returns what a sequential order returns\"). "
         "Tie to /repo: tools/locks2coq (go/parser+go/ast only) regenerates gen/GenLocks.v from the current source on every run for ProtoForkChoice, PubkeyCache, CachedPubkey and the five pools; "
         "`lock_ok GenLocks.program = true` is re-proved by vm_compute; anything the translator cannot classify is an Unknown event, which fails the obligation. "
         "SUPPORTING runtime evidence (not a proof): -race stress of mixed calls on one shared instance per component with a per-call watchdog, and barrier-released bursts whose histories are "
         "checked for linearizability against the same code run sequentially; when an obligation fails this is the counterexample search (race report / blocked call = replay).",
    note="Trusted: Coq kernel+VM; the translator tools/locks2coq and its tables (immutable-after-construction fields, immutable pointees, trusted callbacks, owned sub-objects; each justified in design/C17.md); "
         "Go's memory model (DRF-SC, Unlock happens-before next Lock) and scheduler fairness; data values are not modelled. Known finding: PubkeyCache.AddValidator is check-then-act "
         "(three critical sections), excluded from the atomicity claim. No axioms (Print Assumptions: closed).",
    technique="Coq proof (invariant over call stacks and held mutexes, induction on executions) + Go-AST translator regenerating the checked program + vm_compute obligation; race detector/linearizability harness as supporting evidence",
    design="4/C17")

ROOT = verif.ROOT
KNOWN_FILE = os.path.join(ROOT, "fixes", "known_findings_C17.json")


def _tag():
    return "C17" if verif.REPO == "/repo" else "C17_" + hashlib.sha1(verif.REPO.encode()).hexdigest()[:8]


def _own_known():
    if not os.path.exists(KNOWN_FILE):
        return []
    return [k for k in json.load(open(KNOWN_FILE)) if k.get("property") == "C17"]


def _known_excluded():
    """(class, method) pairs for which the atomicity clause is not claimed: `known` entries with obligation == atomic."""
    out = []
    for k in _own_known():
        if k.get("status") == "known" and k.get("key", {}).get("obligation") == "atomic":
            cls, meth = k["key"]["site"].split(".", 1)
            out.append((cls, meth))
    return out


# ---- known_match predicates over runtime findings (named as in fixes/known_findings_C17.json) ----
_ADD = re.compile(r"^\((\d+),key(\d+)\)$")


def addvalidator_check_then_act(case, code):
    """A non-linearizable history of the pubkey cache in which two AddValidator calls for the same index, made by different
    goroutines, overlap in real time (the lookups of one run before the append of the other)."""
    if not case or case.get("kind") != "nonlinearizable" or case.get("component") != "pubkeys":
        return False
    adds = [h for h in case.get("history") or [] if h.get("method") == "AddValidator" and _ADD.match(h.get("args", ""))]
    for a in adds:
        for b in adds:
            if a is not b and a["t"] != b["t"] and _ADD.match(a["args"]).group(1) == _ADD.match(b["args"]).group(1) \
                    and a["start"] < b["end"] and b["start"] < a["end"]:
                return True
    return False


KNOWN_MATCH = {"addvalidator_check_then_act": addvalidator_check_then_act}

_STR = re.compile(r'"((?:[^"]|"")*)"')


def lock_obligations(ctx):
    """Regenerate gen/<tag>/GenLocks.v from the repository's working tree and re-prove the obligations over it."""
    chk = ctx["check"]
    problems = []
    gen = os.path.join(ROOT, "gen", _tag())
    if os.path.isdir(gen):
        shutil.rmtree(gen)
    os.makedirs(gen)
    tool = os.path.join(verif.BUILD, "locks2coq")
    os.makedirs(verif.BUILD, exist_ok=True)
    rc, out = verif.sh(["go", "build", "-o", tool, "."], cwd=os.path.join(ROOT, "tools", "locks2coq"), env=verif.GOENV, timeout=300)
    if rc != 0:
        return dict(obligations=3, discharged=0, problems=[dict(kind="translator", detail="tools/locks2coq does not build:\n" + out[-2000:])])
    rc, out = verif.sh([tool, "-repo", verif.REPO, "-out", gen], timeout=120)
    if rc != 0:
        return dict(obligations=3, discharged=0, problems=[dict(kind="translator", detail="locks2coq failed on the repository's working tree:\n" + out[-2000:])])
    ctx["coverage"]["translator"] = out.strip().splitlines()[-1] if out.strip() else ""
    ctx["coverage"]["level_claimed"] = "proof, PARTIAL: theorem about the extracted lock discipline; event extraction, Go memory model and scheduler are trusted"
    ctx["coverage"]["generated_checker_cmd"] = ("go build tools/locks2coq && locks2coq -repo %s -out gen/%s && coqc -Q coq V -Q gen/%s G GenLocks.v GenLocksCheck.v "
                                                "(Lemma gen_disc_ok / gen_lock_ok: vm_compute. reflexivity.)" % (verif.REPO, _tag(), _tag()))
    gj = json.load(open(os.path.join(gen, "GenLocks.json")))
    ctx["coverage"]["translated_methods"] = {c["name"]: [m["name"] for m in c["methods"]] for c in gj["classes"]}
    ctx["coverage"]["translator_tables"] = gj["tables"]
    excl = _known_excluded()
    excl_coq = "[" + "; ".join('("%s", "%s")' % cm for cm in excl) + "]"
    hdr = ("From Coq Require Import List String.\nFrom V Require Import Conc.LockLang Conc.LockCheck Conc.LockSound Conc.LockAtomic.\n"
           "From G Require Import GenLocks.\nImport ListNotations.\nLocal Open Scope string_scope.\n")
    with open(os.path.join(gen, "GenLocksCheck.v"), "w") as f:
        f.write(hdr + "Definition known_not_atomic : list (string * string) := %s.\n" % excl_coq +
                "Lemma gen_disc_ok : disc_ok GenLocks.program = true.\nProof. vm_compute. reflexivity. Qed.\n"
                "Lemma gen_lock_ok : lock_ok_excl known_not_atomic GenLocks.program = true.\nProof. vm_compute. reflexivity. Qed.\n"
                "(* the soundness theorems instantiated on the regenerated program *)\n"
                "Theorem gen_race_free_no_deadlock : forall w c0, wf_world w -> initial GenLocks.program w c0 ->\n"
                "  race_free GenLocks.program w c0 /\\ no_thread_blocked_forever GenLocks.program w c0.\n"
                "Proof. intros w c0. apply disc_ok_sound. exact gen_disc_ok. Qed.\n"
                "Theorem gen_serializable : forall w c0, wf_world w -> initial GenLocks.program w c0 -> avoids GenLocks.program w known_not_atomic c0 ->\n"
                "  conflict_serializable GenLocks.program w c0.\n"
                "Proof. intros w c0. apply lock_ok_sound_serializable. exact gen_lock_ok. Qed.\n"
                "Print Assumptions gen_race_free_no_deadlock.\nPrint Assumptions gen_serializable.\n")
    with open(os.path.join(gen, "GenLocksReport.v"), "w") as f:
        f.write(hdr +
                "Definition fmt (x : string * string * list string) : string := let '(c, m, rs) := x in c ++ \".\" ++ m ++ \" :: \" ++ String.concat \" ;; \" rs.\n"
                "Definition R := Eval vm_compute in map fmt (disc_report GenLocks.program).\nPrint R.\n"
                "Definition A := Eval vm_compute in map (fun cm => fst cm ++ \".\" ++ snd cm ++ \" :: not two-phase (more than one critical section, or a lock taken after one was released)\") (atomic_report %s GenLocks.program).\nPrint A.\n" % excl_coq)
    coqc = "coqc -Q %s V -Q %s G -w -notation-overridden " % (verif.COQ, gen)
    obligations, discharged = 3, 0
    rc, out = verif.sh(coqc + "GenLocks.v", cwd=gen, timeout=600)
    if rc != 0:
        problems.append(dict(kind="translator", detail="gen/GenLocks.v is not a well-formed program of the event language:\n" + out[-2000:]))
        return dict(obligations=obligations, discharged=0, problems=problems)
    discharged += 1
    rc, out = verif.sh(coqc + "GenLocksCheck.v", cwd=gen, timeout=900)
    failed = []
    if rc == 0:
        discharged += 2
        ctx["coverage"]["print_assumptions_generated"] = [l for l in out.splitlines() if l.strip()][-4:]
    else:
        rc2, rep = verif.sh(coqc + "GenLocksReport.v", cwd=gen, timeout=600)
        flat = " ".join(rep.split())
        lines = [s.replace('""', '"') for s in _STR.findall(flat)]
        disc_failed = [l for l in lines if "not two-phase" not in l]
        if not disc_failed and "gen_disc_ok" not in out.split("Error")[0]:
            pass
        if not any("not two-phase" not in l for l in lines) and lines:
            discharged += 1  # gen_disc_ok holds, only the atomicity obligation failed
        for l in lines:
            failed.append(l.split(" :: ")[0])
        detail = ("obligation lock_ok GenLocks.program = true fails on the program regenerated from %s:\n  " % verif.REPO +
                  "\n  ".join(lines or ["(the checker reports no failing method; coqc said: " + out[-1500:] + ")"]))
        problems.append(dict(kind="obligation", detail=detail, failed_methods=failed, obligation="gen_disc_ok / gen_lock_ok"))
    chk.targets = sorted(set(failed))
    return dict(obligations=obligations, discharged=discharged, problems=problems)


def coqchk_step(ctx):
    if ctx["tier"] != "thorough":
        return dict(obligations=0, discharged=0, problems=[])
    rc, out = verif.sh("coqchk -silent -o -Q . V V.Properties.C17", cwd=verif.COQ, timeout=1500)
    if rc != 0:
        return dict(obligations=1, discharged=0, problems=[dict(kind="proof", detail="coqchk rejects the closure of Properties/C17.vo:\n" + out[-2000:])])
    ctx["coverage"]["coqchk"] = "coqchk -silent -o V.Properties.C17: ok"
    return dict(obligations=1, discharged=1, problems=[])


class C17Check(verif.Check):
    targets = []

    def run(self, tier, seed, replay=None):
        # known findings of C17 live in fixes/known_findings_C17.json until the coordinator merges them
        orig = verif.known_findings

        def merged(prop):
            base = orig(prop)
            if prop != "C17":
                return base
            keys = {json.dumps(k.get("key"), sort_keys=True) for k in base}
            return base + [k for k in _own_known() if json.dumps(k.get("key"), sort_keys=True) not in keys]
        verif.known_findings = merged
        try:
            return super().run(tier, seed, replay)
        finally:
            verif.known_findings = orig

    def correspondence(self, tier, seed, replay=None):
        """Runtime evidence: race-detector stress + linearizability bursts; targeted stress of the methods whose obligation failed."""
        empty = dict(evaluations=0, distinct_nontrivial=0, samples=[], histogram={}, rule="")
        rc, out = verif.build_harness("C17", race=True)
        if rc != 0:
            return empty, [], [dict(kind="correspondence", detail="the C17 harness does not build (-race) against the repository's working tree:\n" + out[-3000:])]
        outdir = os.path.join(verif.RUN, _tag())
        extra = []
        if replay:
            try:
                if json.load(open(replay)).get("failing_case", {}).get("case", {}).get("spec"):
                    extra = [replay]
            except (OSError, ValueError):
                pass
        env = {"VERIF_C17_TARGET": ",".join(self.targets)} if self.targets and not extra else {}
        rc, out = verif.run_harness("C17", outdir, seed, tier, extra, timeout=self.harness_timeout, extra_env=env)
        if rc != 0:
            return empty, [], [dict(kind="correspondence", detail="harness run failed (rc=%d):\n%s" % (rc, out[-3000:]))]
        summ = json.load(open(os.path.join(outdir, "summary.json")))
        findings = json.load(open(os.path.join(outdir, "findings.json"))) or []
        found = []
        for i, f in enumerate(findings):
            # every runtime finding is a failing input for the property itself (code bit 2); "fatal" without a race is a harness problem
            if f.get("kind") == "fatal":
                return summ, [], [dict(kind="correspondence", detail="a harness child died: " + f.get("detail", "")[:2000])]
            found.append(dict(index=i, code=2, case=f, coq=None, kind=f.get("kind")))
        # order: findings that involve a method whose obligation failed come first (they become the replay)
        tset = set(self.targets)
        found.sort(key=lambda m: 0 if tset & set(m["case"].get("methods") or []) else 1)
        return summ, found, []


def make_check():
    return C17Check(
        "C17",
        make_targets=["Properties/C17.vo", "Conc/LockExamples.vo", "Conc/LockAtomic.vo"],
        trust=[
            "PARTIAL: the theorem is about the lock discipline extracted by tools/locks2coq (events per control-flow path), not about the compiled program",
            "the translator tools/locks2coq and its tables: immutable-after-construction fields (checked: no method writes them), immutable pointees that may leave a critical section, "
            "trusted callbacks invoked under the lock (justifiedStateBalances, search options), owned sub-objects (protoArray/voteStore: effect summary computed from the single implementation found); shallow alias tracking",
            "Go memory model (data-race-free programs are sequentially consistent; Unlock is synchronized before the next Lock returns) and scheduler fairness; the Go race detector and runtime (supporting evidence only)",
            "third-party code is not analysed: kilic/bls12-381 normalises points in place (found by the harness; the repaired CachedPubkey.Pubkey hands out copies)",
            "model abstractions: one mutex per object; branching = nondeterministic choice; a loop body runs 0 or 1 times; a call on a freshly built child object = a call on some child of the static forest; re-entrant RLock is treated as blocking always",
        ],
        model_files=["coq/Conc/LockLang.v", "coq/Conc/LockCheck.v", "coq/Conc/LockInv.v", "coq/Conc/LockSound.v", "coq/Conc/LockAtomic.v", "coq/Conc/LockExamples.v",
                     "coq/Properties/C17.v", "tools/locks2coq/main.go", "tools/locks2coq/translate.go", "gen/C17/GenLocks.v (regenerated)", "gen/C17/GenLocksCheck.v (regenerated)"],
        known_match=KNOWN_MATCH,
        pre_steps=[lock_obligations, coqchk_step],
        notes="level: partial. Obligations re-proved on every run over the program regenerated from the working tree: gen_disc_ok, gen_lock_ok (+ the instantiated soundness theorems). "
              "Runtime findings (race report, blocked call, non-linearizable history) are failing inputs; a failed obligation without runtime evidence is reported as no-failing-input-found.",
        harness_timeout=1500,
    )
