package chaingen

import (
	"crypto/sha256"
	"encoding/binary"
	"fmt"
	"sort"
	"strings"

	"verifharness/hx"

	"github.com/protolambda/zrnt/eth2/beacon"
	"github.com/protolambda/zrnt/eth2/beacon/altair"
	"github.com/protolambda/zrnt/eth2/beacon/bellatrix"
	"github.com/protolambda/zrnt/eth2/beacon/capella"
	"github.com/protolambda/zrnt/eth2/beacon/common"
	"github.com/protolambda/zrnt/eth2/beacon/deneb"
	"github.com/protolambda/zrnt/eth2/beacon/phase0"
	zmath "github.com/protolambda/zrnt/eth2/util/math"
	"github.com/protolambda/ztyp/view"
)

// ---- participation plans ----

const (
	VarCorrect = iota
	VarWrongHead
	VarWrongTarget
)

type Part struct {
	Attest  bool
	Variant int
	Delay   common.Slot
}

type EpochPlan struct {
	Epoch common.Epoch
	Mode  string
	Who   map[common.ValidatorIndex]Part
}

// PendingAtt is one aggregate waiting for inclusion.
type PendingAtt struct {
	Slot      common.Slot
	Index     common.CommitteeIndex
	Committee []common.ValidatorIndex
	Bits      []bool
	Variant   int
	Due       common.Slot
	Included  int
	Again     bool // include a second time in a later block (valid duplicate)
	// double vote: DoubleOf is the earlier (right source, WRONG target) vote of the same validators for the same epoch
	DoubleOf    *PendingAtt
	IncludedAt  common.Slot
	BeyondEpoch bool // deliberately held back beyond SLOTS_PER_EPOCH slots (deneb)
}

func bitlist(bits []bool) phase0.AttestationBits {
	n := len(bits)
	out := make(phase0.AttestationBits, n/8+1)
	for i, b := range bits {
		if b {
			out[i/8] |= 1 << uint(i%8)
		}
	}
	out[n/8] |= 1 << uint(n%8)
	return out
}

func isqrt(n uint64) uint64 { return zmath.IntegerSquareroot(n) }

// planEpoch decides who attests how in epoch e, from the shuffling of that epoch.
func (c *Chain) planEpoch(e common.Epoch, sh *common.ShufflingEpoch, epc *common.EpochsContext, flats []common.FlatValidator) *EpochPlan {
	if p, ok := c.Planned[e]; ok {
		return p
	}
	mode := "full"
	if c.Scenario != nil && c.Scenario.Mode != nil {
		mode = c.Scenario.Mode(c, e)
	}
	if c.CommitteeDropChain && e <= 2 {
		mode = "full" // every committee of the epochs around the committee-count drop attests and is included at once
	}
	if f := c.Spec.ALTAIR_FORK_EPOCH; c.Phase0LeakMix && e >= 1 && uint64(f) < uint64(c.Epochs) && e+1 < f {
		// phase0 leak: too few correct target votes to justify, many votes with the right source but a non-canonical target
		mode = "leakmix"
	}
	r := c.Rng
	p := &EpochPlan{Epoch: e, Mode: mode, Who: map[common.ValidatorIndex]Part{}}
	spe := uint64(c.Spec.SLOTS_PER_EPOCH)
	// members in committee order
	var members []common.ValidatorIndex
	for _, comms := range sh.Committees {
		for _, cm := range comms {
			members = append(members, cm...)
		}
	}
	eff := func(v common.ValidatorIndex) common.Gwei {
		if int(v) < len(flats) {
			return flats[v].EffectiveBalance
		}
		return 0
	}
	var total common.Gwei
	for _, v := range members {
		total += eff(v)
	}
	delays := []common.Slot{1, 1, 1, 1, 2, common.Slot(isqrt(spe)), common.Slot(isqrt(spe)) + 1, common.Slot(spe) - 1, common.Slot(spe), common.Slot(spe) + 1}
	switch mode {
	case "full":
		for _, v := range members {
			p.Who[v] = Part{Attest: true, Delay: 1}
		}
	case "mostly":
		for _, v := range members {
			pt := Part{Attest: r.Chance(92), Delay: 1}
			if r.Chance(10) {
				pt.Delay = delays[r.Intn(len(delays))]
			}
			if r.Chance(5) {
				pt.Variant = VarWrongHead
			}
			p.Who[v] = pt
		}
	case "boundary_hi", "boundary_lo":
		var acc common.Gwei
		var last common.ValidatorIndex
		have := false
		for _, v := range members {
			if int(v) < len(flats) && flats[v].Slashed {
				p.Who[v] = Part{Attest: true, Delay: 1}
				continue
			}
			if acc*3 >= total*2 {
				p.Who[v] = Part{}
				continue
			}
			acc += eff(v)
			p.Who[v] = Part{Attest: true, Delay: 1}
			last, have = v, true
		}
		if mode == "boundary_lo" && have {
			p.Who[last] = Part{}
		}
	case "minority":
		for _, v := range members {
			p.Who[v] = Part{Attest: r.Chance(40), Delay: 1}
		}
	case "none":
		for _, v := range members {
			p.Who[v] = Part{}
		}
	case "wrong_target":
		for _, v := range members {
			p.Who[v] = Part{Attest: true, Delay: 1, Variant: VarWrongTarget}
		}
	case "leakmix":
		wt := 35
		if c.LowBalances {
			wt = 60 // most validators miss the target and pay the leak penalty
		}
		for _, v := range members {
			switch x := r.Intn(100) - (wt - 35); {
			case x < 35:
				p.Who[v] = Part{Attest: true, Delay: 1, Variant: VarWrongTarget}
			case x < 50:
				p.Who[v] = Part{Attest: true, Delay: 1, Variant: VarWrongHead}
			case x < 85:
				p.Who[v] = Part{Attest: true, Delay: 1}
			default:
				p.Who[v] = Part{}
			}
		}
	case "late":
		d := delays[4+r.Intn(len(delays)-4)]
		for _, v := range members {
			p.Who[v] = Part{Attest: true, Delay: d}
		}
	default: // mixed
		for _, v := range members {
			pt := Part{Attest: r.Chance(85), Delay: delays[r.Intn(len(delays))]}
			switch r.Intn(10) {
			case 0:
				pt.Variant = VarWrongHead
			case 1:
				pt.Variant = VarWrongTarget
			}
			p.Who[v] = pt
		}
	}
	for v := range p.Who {
		if c.Absent[v] || (c.lateAbsent[v] && e >= c.lateAbsentFrom) {
			p.Who[v] = Part{}
		}
	}
	c.Planned[e] = p
	c.modeOf[e] = mode
	c.Stats.Inc("epochs_mode_" + mode)
	delete(c.Planned, e-3)
	return p
}

// genPending creates the aggregates of slot a.
func (c *Chain) genPending(a common.Slot, epc *common.EpochsContext, flats []common.FlatValidator) {
	sp := c.Spec
	e := sp.SlotToEpoch(a)
	var sh *common.ShufflingEpoch
	switch e {
	case epc.CurrentEpoch.Epoch:
		sh = epc.CurrentEpoch
	case epc.PreviousEpoch.Epoch:
		sh = epc.PreviousEpoch
	default:
		return
	}
	plan := c.planEpoch(e, sh, epc, flats)
	comms := sh.Committees[a%sp.SLOTS_PER_EPOCH]
	for ci, cm := range comms {
		if len(cm) == 0 {
			continue
		}
		// group members by (variant, delay)
		type gk struct {
			v int
			d common.Slot
		}
		groups := map[gk][]bool{}
		var order []gk
		for pos, vi := range cm {
			pt := plan.Who[vi]
			if !pt.Attest {
				continue
			}
			k := gk{pt.Variant, pt.Delay}
			if _, ok := groups[k]; !ok {
				groups[k] = make([]bool, len(cm))
				order = append(order, k)
			}
			groups[k][pos] = true
		}
		for _, k := range order {
			pa := &PendingAtt{Slot: a, Index: common.CommitteeIndex(ci), Committee: append([]common.ValidatorIndex(nil), cm...),
				Bits: groups[k], Variant: k.v, Due: a + k.d, Again: c.Rng.Chance(4)}
			// EIP-7045: a deneb block may include a vote of the previous epoch later than SLOTS_PER_EPOCH slots after its slot (it
			// still earns the target flag). Twice per chain the on-time votes of committee 0 of the FIRST slot of an epoch are held
			// back until the second slot of the next epoch (a deneb epoch); the votes of the THIRD slot likewise, with a wrong target.
			if m := c.modeOf[e]; ci == 0 && k.v == VarCorrect && k.d == 1 && uint64(e+1) < uint64(c.Epochs) && e+1 >= sp.DENEB_FORK_EPOCH &&
				m != "boundary_hi" && m != "boundary_lo" && !c.isSide {
				// (only the first two voters of the aggregate: the epoch's participation hardly changes)
				split := func(variant int) {
					sub := make([]bool, len(cm))
					cnt, total := 0, 0
					for _, b := range pa.Bits {
						if b {
							total++
						}
					}
					if total < 3 {
						return
					}
					rest := append([]bool(nil), pa.Bits...)
					for i, b := range rest {
						if b && cnt < 2 {
							sub[i], rest[i] = true, false
							cnt++
						}
					}
					pa.Bits = rest
					c.Pending = append(c.Pending, &PendingAtt{Slot: a, Index: common.CommitteeIndex(ci), Committee: pa.Committee, Bits: sub,
						Variant: variant, Due: a + sp.SLOTS_PER_EPOCH + 1, BeyondEpoch: true})
				}
				switch a % sp.SLOTS_PER_EPOCH {
				case 0:
					if c.Vars["late_deneb_correct"] < 2 {
						c.Vars["late_deneb_correct"]++
						split(VarCorrect)
					}
				case 2:
					if c.Vars["late_deneb_wrong_target"] < 2 && sp.SLOTS_PER_EPOCH >= 4 {
						c.Vars["late_deneb_wrong_target"]++
						split(VarWrongTarget)
					}
				}
			}
			if ci == 0 && a%sp.SLOTS_PER_EPOCH == 1 && k.v == VarCorrect && k.d == 1 && !c.NoDoubleVotes {
				// once per epoch: the first members of this aggregate ALSO sign a vote with the right source and a wrong target
				// (a slashable double vote, still valid to include); it is included FIRST, the fully correct vote after it —
				// in the same block (even epochs) or in the next one (odd epochs). The flags of both must be merged.
				first := make([]bool, len(cm))
				cnt := 0
				for i, b := range groups[k] {
					if b && cnt < 2 {
						first[i] = true
						cnt++
					}
				}
				if cnt > 0 {
					pa0 := &PendingAtt{Slot: a, Index: common.CommitteeIndex(ci), Committee: pa.Committee, Bits: first, Variant: VarWrongTarget, Due: a + 1}
					c.Pending = append(c.Pending, pa0)
					pa.DoubleOf = pa0
					pa.Again = false
					if e%2 == 1 {
						pa.Due = a + 2
					}
				}
			}
			if f := sp.ALTAIR_FORK_EPOCH; uint64(f) < uint64(c.Epochs) && e+1 == f && k.d == 1 && a%sp.SLOTS_PER_EPOCH+3 <= sp.SLOTS_PER_EPOCH && c.Rng.Chance(40) {
				// last phase0 epoch: the aggregate is included a second time later in the same epoch, so that
				// previous_epoch_attestations at the altair upgrade holds two records for the same validators, the later one
				// with fewer flags (no timely head, maybe no timely source)
				pa.Again = true
			}
			c.Pending = append(c.Pending, pa)
		}
	}
}

// ---- block building context ----

type ProposeCtx struct {
	C     *Chain
	A     common.BeaconState // state advanced to the block's slot
	Epc   *common.EpochsContext
	Slot  common.Slot
	Epoch common.Epoch
	Fork  ForkID
	Flats []common.FlatValidator
	Bals  []common.Gwei
	B     *Block
	// validators touched by operations of this block (avoid double use)
	used          map[common.ValidatorIndex]bool
	removed       int
	allowSelf     bool         // the next manufactured proposer slashing may name the block's own proposer
	forceOutside  bool         // the next manufactured slashing of an exiting validator is dated outside its window (no coin)
	forcePreFork  bool         // the next manufactured slashing is dated before the state's last fork epoch
	evidenceEpoch common.Epoch // override of the epoch the next manufactured attester slashing is dated at
	Ops           map[string]int
	// deposits this block must carry (after its own eth1 vote)
	PendingDeposits uint64
	preSlot         common.Slot // slot of the pre-state (corruption stream)
}

func (p *ProposeCtx) domain(dt common.BLSDomainType, e common.Epoch) common.BLSDomain {
	d, err := common.GetDomain(p.A, dt, e)
	if err != nil {
		panic(err)
	}
	return d
}

// lastForkEpoch is state.fork.epoch of the advanced state (0 before the first fork).
func (p *ProposeCtx) lastForkEpoch() common.Epoch {
	fk, err := p.A.Fork()
	if err != nil {
		panic(err)
	}
	return fk.Epoch
}

func (c *Chain) keyOfVal(v common.ValidatorIndex) KeyNum {
	if int(v) >= len(c.Vals) {
		panic(fmt.Sprintf("no key known for validator %d", v))
	}
	return c.Vals[v].Key
}

// spare: the chain keeps at least this many healthy validators (otherwise proposers/committees run dry).
func (p *ProposeCtx) spare() bool {
	c := p.C
	need := int(c.Spec.SLOTS_PER_EPOCH) + 2
	share := c.SpareShare
	if share == 0 {
		share = 40
	}
	if m := c.initialVals * share / 100; m > need {
		need = m
	}
	return c.healthy(p.Flats, p.Epoch)-p.removed > need
}

func (p *ProposeCtx) slashable(v common.ValidatorIndex) bool {
	if int(v) >= len(p.Flats) {
		return false
	}
	f := &p.Flats[v]
	return !f.Slashed && f.ActivationEpoch <= p.Epoch && p.Epoch < f.WithdrawableEpoch
}

// AddProposerSlashing manufactures two conflicting signed headers of validator v.
func (p *ProposeCtx) AddProposerSlashing(v common.ValidatorIndex) bool {
	c := p.C
	if c.Protected[v] || uint64(len(p.B.ProposerSlashings)) >= uint64(c.Spec.MAX_PROPOSER_SLASHINGS) || p.used[v] || !p.slashable(v) || (v == p.B.ProposerIndex && !p.allowSelf) || !p.spare() {
		return false
	}
	if v == p.B.ProposerIndex {
		// the block slashes its own proposer (valid: the header only requires the proposer not to be slashed BEFORE the block);
		// slashed validator, whistleblower and proposer are one and the same balance
		p.Ops["pslash_of_block_proposer"]++
	}
	p.removed++
	hslot := p.Slot - common.Slot(c.Rng.Intn(int(min64(uint64(p.Slot), 3))+1))
	if fe := p.lastForkEpoch(); fe > 0 && p.Epoch <= fe+1 && (p.forcePreFork || c.Rng.Chance(60)) {
		// headers from before the last fork: their domain is the PREVIOUS fork version
		hslot = common.Slot(fe)*c.Spec.SLOTS_PER_EPOCH - 1 - common.Slot(c.Rng.Intn(int(c.Spec.SLOTS_PER_EPOCH)))
	}
	if f := p.Flats[v]; p.forcePreFork {
		// keep the pre-fork date
	} else if f.WithdrawableEpoch != common.Epoch(FarFuture) && (c.Rng.Chance(75) || p.forceOutside) {
		// exit already initiated, still slashable NOW: the double-signed headers are for a slot at/after the withdrawable epoch
		// (the header slot is free data; only the signature domain looks at its epoch)
		hslot = common.Slot(f.WithdrawableEpoch+common.Epoch(c.Rng.Intn(3)))*c.Spec.SLOTS_PER_EPOCH + common.Slot(c.Rng.Intn(int(c.Spec.SLOTS_PER_EPOCH)))
		p.Ops["pslash_evidence_epoch_outside_window"]++
		p.Ops["pslash_evidence_after_withdrawable_epoch"]++
	} else if f.ActivationEpoch > 0 && f.ActivationEpoch != common.Epoch(FarFuture) && c.Rng.Chance(75) {
		// activated through the deposit queue at epoch A > 0: evidence dated before A
		hslot = common.Slot(c.Rng.Intn(int(uint64(f.ActivationEpoch) * uint64(c.Spec.SLOTS_PER_EPOCH))))
		p.Ops["pslash_evidence_epoch_outside_window"]++
		p.Ops["pslash_evidence_before_activation_epoch"]++
	}
	if fe := p.lastForkEpoch(); c.Spec.SlotToEpoch(hslot) < fe {
		p.Ops["pslash_pre_fork_headers"]++
	}
	ps := c.makeProposerSlashing(p, v, hslot)
	p.B.ProposerSlashings = append(p.B.ProposerSlashings, ps)
	p.used[v] = true
	p.Flats[v].Slashed = true
	p.Ops["pslash"]++
	c.noteSlashed(v)
	return true
}

func min64(a, b uint64) uint64 {
	if a < b {
		return a
	}
	return b
}

func (c *Chain) makeProposerSlashing(p *ProposeCtx, v common.ValidatorIndex, slot common.Slot) phase0.ProposerSlashing {
	mk := func(tag byte) common.SignedBeaconBlockHeader {
		h := common.BeaconBlockHeader{Slot: slot, ProposerIndex: v}
		copy(h.ParentRoot[:], c.Rng.Bytes(32))
		copy(h.StateRoot[:], c.Rng.Bytes(32))
		h.BodyRoot[0] = tag
		dom := p.domain(common.DOMAIN_BEACON_PROPOSER, c.Spec.SlotToEpoch(slot))
		msg := common.ComputeSigningRoot(h.HashTreeRoot(hFn()), dom)
		return common.SignedBeaconBlockHeader{Message: h, Signature: c.BLS.Sign1(c.keyOfVal(v), msg)}
	}
	return phase0.ProposerSlashing{SignedHeader1: mk(1), SignedHeader2: mk(2)}
}

// AddAttesterSlashing manufactures a double or surround vote of the given validators.
func (p *ProposeCtx) AddAttesterSlashing(vs []common.ValidatorIndex, surround bool) bool {
	c := p.C
	if uint64(len(p.B.AttesterSlashings)) >= uint64(c.Spec.MAX_ATTESTER_SLASHINGS) {
		return false
	}
	var set []common.ValidatorIndex
	any := false
	for _, v := range vs {
		if p.used[v] || int(v) >= len(p.Flats) || v == p.B.ProposerIndex || c.Protected[v] {
			continue
		}
		if p.slashable(v) {
			if !p.spare() {
				continue
			}
			p.removed++
			any = true
		}
		set = append(set, v)
	}
	if !any {
		return false
	}
	if fe := p.lastForkEpoch(); p.forcePreFork && fe > 1 {
		p.evidenceEpoch = fe - 1
		p.Ops["aslash_pre_fork_target"]++
	} else if len(set) == 1 {
		if f := p.Flats[set[0]]; f.WithdrawableEpoch != common.Epoch(FarFuture) && p.slashable(set[0]) && (c.Rng.Chance(75) || p.forceOutside) {
			p.evidenceEpoch = f.WithdrawableEpoch + 1
			p.Ops["aslash_evidence_epoch_outside_window"]++
		}
	}
	as := c.makeAttesterSlashing(p, set, surround)
	p.evidenceEpoch = 0
	p.B.AttesterSlashings = append(p.B.AttesterSlashings, as)
	for _, v := range set {
		p.used[v] = true
		if p.slashable(v) {
			p.Flats[v].Slashed = true
			c.noteSlashed(v)
			p.Ops["aslash_validators"]++
		}
	}
	p.Ops["aslash"]++
	return true
}

// AddOverlappingAttesterSlashings puts TWO attester slashings with overlapping index sets {a,b} and {b,c} into the block: b is
// slashed by the first one and must be skipped by the second, which stays valid because c is still slashable.
func (p *ProposeCtx) AddOverlappingAttesterSlashings() bool {
	c := p.C
	if uint64(len(p.B.AttesterSlashings))+2 > uint64(c.Spec.MAX_ATTESTER_SLASHINGS) {
		return false
	}
	var abc []common.ValidatorIndex
	n := len(p.Flats)
	for t := 0; t < 20*n && len(abc) < 3; t++ {
		v := common.ValidatorIndex(c.Rng.Intn(n))
		if p.used[v] || v == p.B.ProposerIndex || !p.slashable(v) || !p.spare() || c.Protected[v] {
			continue
		}
		dup := false
		for _, x := range abc {
			dup = dup || x == v
		}
		if dup {
			continue
		}
		abc = append(abc, v)
		p.removed++
	}
	if len(abc) < 3 {
		p.removed -= len(abc)
		return false
	}
	as1 := c.makeAttesterSlashing(p, []common.ValidatorIndex{abc[0], abc[1]}, c.Rng.Bool())
	as2 := c.makeAttesterSlashing(p, []common.ValidatorIndex{abc[1], abc[2]}, c.Rng.Bool())
	p.B.AttesterSlashings = append(p.B.AttesterSlashings, as1, as2)
	for _, v := range abc {
		p.used[v] = true
		p.Flats[v].Slashed = true
		c.noteSlashed(v)
		p.Ops["aslash_validators"]++
	}
	p.Ops["aslash"] += 2
	p.Ops["aslash_overlapping_pairs"]++
	return true
}

func (c *Chain) makeAttesterSlashing(p *ProposeCtx, set []common.ValidatorIndex, surround bool) phase0.AttesterSlashing {
	sort.Slice(set, func(i, j int) bool { return set[i] < set[j] })
	keys := make([]KeyNum, len(set))
	for i, v := range set {
		keys[i] = c.keyOfVal(v)
	}
	e := p.Epoch
	if p.evidenceEpoch != 0 {
		e = p.evidenceEpoch // votes dated outside the offender's slashability window (it is slashable now)
	}
	var d1, d2 phase0.AttestationData
	rnd := func() (r common.Root) { copy(r[:], c.Rng.Bytes(32)); return }
	if surround {
		d1 = phase0.AttestationData{Slot: p.Slot, Source: common.Checkpoint{Epoch: e, Root: rnd()}, Target: common.Checkpoint{Epoch: e + 3, Root: rnd()}, BeaconBlockRoot: rnd()}
		d2 = phase0.AttestationData{Slot: p.Slot, Source: common.Checkpoint{Epoch: e + 1, Root: rnd()}, Target: common.Checkpoint{Epoch: e + 2, Root: rnd()}, BeaconBlockRoot: rnd()}
	} else {
		src := common.Checkpoint{Epoch: e.Previous(), Root: rnd()}
		d1 = phase0.AttestationData{Slot: p.Slot, Source: src, Target: common.Checkpoint{Epoch: e, Root: rnd()}, BeaconBlockRoot: rnd()}
		d2 = phase0.AttestationData{Slot: p.Slot, Source: src, Target: common.Checkpoint{Epoch: e, Root: rnd()}, BeaconBlockRoot: rnd()}
	}
	mk := func(d phase0.AttestationData) phase0.IndexedAttestation {
		dom := p.domain(common.DOMAIN_BEACON_ATTESTER, d.Target.Epoch)
		msg := common.ComputeSigningRoot(d.HashTreeRoot(hFn()), dom)
		return phase0.IndexedAttestation{AttestingIndices: append(common.CommitteeIndices(nil), set...), Data: d, Signature: c.BLS.Sign(keys, msg)}
	}
	return phase0.AttesterSlashing{Attestation1: mk(d1), Attestation2: mk(d2)}
}

func (p *ProposeCtx) canExit(v common.ValidatorIndex) bool {
	if int(v) >= len(p.Flats) {
		return false
	}
	f := &p.Flats[v]
	return f.IsActive(p.Epoch) && f.ExitEpoch == common.Epoch(FarFuture) && p.Epoch >= f.ActivationEpoch+p.C.Spec.SHARD_COMMITTEE_PERIOD
}

func (c *Chain) makeExit(p *ProposeCtx, v common.ValidatorIndex, epoch common.Epoch) phase0.SignedVoluntaryExit {
	ex := phase0.VoluntaryExit{Epoch: epoch, ValidatorIndex: v}
	var dom common.BLSDomain
	if p.Fork >= Deneb {
		dom = common.ComputeDomain(common.DOMAIN_VOLUNTARY_EXIT, c.Spec.CAPELLA_FORK_VERSION, c.GVR)
	} else {
		dom = p.domain(common.DOMAIN_VOLUNTARY_EXIT, epoch)
	}
	msg := common.ComputeSigningRoot(ex.HashTreeRoot(hFn()), dom)
	return phase0.SignedVoluntaryExit{Message: ex, Signature: c.BLS.Sign1(c.keyOfVal(v), msg)}
}

func (p *ProposeCtx) AddExit(v common.ValidatorIndex) bool {
	c := p.C
	if uint64(len(p.B.VoluntaryExits)) >= uint64(c.Spec.MAX_VOLUNTARY_EXITS) || p.used[v] || !p.canExit(v) || p.Flats[v].Slashed || !p.spare() {
		return false
	}
	if p.Fork == Phase0 && p.PendingDeposits > 0 && c.Stats.Get("phase0.blocks_deposits_no_exits") == 0 {
		// the first phase0 block with deposits stays without exits: then the deposit loop holds the block's last context poll
		return false
	}
	p.removed++
	ep := p.Epoch
	if ep > 0 && c.Rng.Chance(30) {
		ep -= common.Epoch(c.Rng.Intn(int(min64(uint64(ep), 2)) + 1))
	}
	if fe := p.lastForkEpoch(); fe > 0 && p.Epoch <= fe+1 && (p.forcePreFork || c.Rng.Chance(60)) {
		ep = fe - 1 // an exit signed for an epoch before the last fork (pre-deneb: domain of the previous version)
	}
	if ep < p.lastForkEpoch() {
		p.Ops["exit_pre_fork_epoch"]++
	}
	p.B.VoluntaryExits = append(p.B.VoluntaryExits, c.makeExit(p, v, ep))
	p.used[v] = true
	p.Flats[v].ExitEpoch = 0 // marks "exit initiated" for this block's bookkeeping only
	p.Ops["exit"]++
	if p.Fork == Deneb && c.Spec.CAPELLA_FORK_EPOCH == c.Spec.DENEB_FORK_EPOCH {
		// EIP-7044 domain (CAPELLA_FORK_VERSION) in a state whose fork record has epoch == CAPELLA_FORK_EPOCH
		p.Ops["exit_with_capella_deneb_same_epoch"]++
	}
	c.noteExit(v)
	return true
}

func (c *Chain) makeBLSChange(v common.ValidatorIndex, wkey KeyNum, addr common.Eth1Address) common.SignedBLSToExecutionChange {
	ch := common.BLSToExecutionChange{ValidatorIndex: v, FromBLSPubKey: PubOf(wkey), ToExecutionAddress: addr}
	dom := common.ComputeDomain(common.DOMAIN_BLS_TO_EXECUTION_CHANGE, c.Spec.GENESIS_FORK_VERSION, c.GVR)
	msg := common.ComputeSigningRoot(ch.HashTreeRoot(hFn()), dom)
	return common.SignedBLSToExecutionChange{BLSToExecutionChange: ch, Signature: c.BLS.Sign1(wkey, msg)}
}

func (p *ProposeCtx) AddBLSChange(v common.ValidatorIndex) bool {
	c := p.C
	if p.Fork < Capella || uint64(len(p.B.BLSChanges)) >= uint64(c.Spec.MAX_BLS_TO_EXECUTION_CHANGES) || int(v) >= len(c.Vals) || c.Vals[v].WKey == 0 {
		return false
	}
	for _, x := range p.B.BLSChanges {
		if x.BLSToExecutionChange.ValidatorIndex == v {
			return false
		}
	}
	info := &c.Vals[v]
	addr := addrOf(info.Key)
	p.B.BLSChanges = append(p.B.BLSChanges, c.makeBLSChange(v, info.WKey, addr))
	info.WKey = 0
	info.Addr = addr
	p.Ops["blschange"]++
	return true
}

// ---- attestations ----

func (c *Chain) attData(p *ProposeCtx, pa *PendingAtt) (phase0.AttestationData, bool) {
	sp := c.Spec
	te := sp.SlotToEpoch(pa.Slot)
	var src common.Checkpoint
	var err error
	switch te {
	case p.Epoch:
		src, err = p.A.CurrentJustifiedCheckpoint()
	case p.Epoch.Previous():
		src, err = p.A.PreviousJustifiedCheckpoint()
	default:
		return phase0.AttestationData{}, false
	}
	if err != nil {
		panic(err)
	}
	head, err := common.GetBlockRootAtSlot(sp, p.A, pa.Slot)
	if err != nil {
		panic(err)
	}
	tr, err := common.GetBlockRoot(sp, p.A, te)
	if err != nil {
		panic(err)
	}
	d := phase0.AttestationData{Slot: pa.Slot, Index: pa.Index, BeaconBlockRoot: head, Source: src, Target: common.Checkpoint{Epoch: te, Root: tr}}
	switch pa.Variant {
	case VarWrongHead:
		d.BeaconBlockRoot = sha256.Sum256(append([]byte("wrong-head"), head[:]...))
	case VarWrongTarget:
		d.Target.Root = sha256.Sum256(append([]byte("wrong-target"), tr[:]...))
	}
	return d, true
}

func (c *Chain) makeAttestation(p *ProposeCtx, d phase0.AttestationData, committee []common.ValidatorIndex, bits []bool) phase0.Attestation {
	var keys []KeyNum
	for i, b := range bits {
		if b {
			keys = append(keys, c.keyOfVal(committee[i]))
		}
	}
	dom := p.domain(common.DOMAIN_BEACON_ATTESTER, d.Target.Epoch)
	msg := common.ComputeSigningRoot(d.HashTreeRoot(hFn()), dom)
	return phase0.Attestation{AggregationBits: bitlist(bits), Data: d, Signature: c.BLS.Sign(keys, msg)}
}

// includable: inclusion window of the block's fork.
func (p *ProposeCtx) includable(a common.Slot) bool {
	sp := p.C.Spec
	if a+sp.MIN_ATTESTATION_INCLUSION_DELAY > p.Slot {
		return false
	}
	te := sp.SlotToEpoch(a)
	if te != p.Epoch && te != p.Epoch.Previous() {
		return false
	}
	if p.Fork < Deneb && p.Slot > a+sp.SLOTS_PER_EPOCH {
		return false
	}
	return true
}

func (c *Chain) fillAttestations(p *ProposeCtx) {
	maxA := int(c.Spec.MAX_ATTESTATIONS)
	var keep []*PendingAtt
	for _, pa := range c.Pending {
		te := c.Spec.SlotToEpoch(pa.Slot)
		if te+1 < p.Epoch {
			c.Stats.Inc("att_expired")
			continue
		}
		if pa.Due > p.Slot || len(p.B.Attestations) >= maxA {
			keep = append(keep, pa)
			continue
		}
		if !p.includable(pa.Slot) {
			// may become includable? only if too new; otherwise it is lost
			if pa.Slot+c.Spec.MIN_ATTESTATION_INCLUSION_DELAY > p.Slot {
				keep = append(keep, pa)
			} else {
				c.Stats.Inc("att_expired")
			}
			continue
		}
		d, ok := c.attData(p, pa)
		if !ok {
			c.Stats.Inc("att_expired")
			continue
		}
		p.B.Attestations = append(p.B.Attestations, c.makeAttestation(p, d, pa.Committee, pa.Bits))
		if d.Target.Epoch < p.lastForkEpoch() {
			p.Ops["att_pre_fork_target"]++
		}
		if p.Fork == Phase0 && d.Target.Epoch < p.Epoch && p.Epc.CurrentEpoch != nil && len(p.Epc.CurrentEpoch.Committees) > 0 &&
			int(d.Index) >= len(p.Epc.CurrentEpoch.Committees[0]) {
			// committees per slot dropped at the epoch boundary: the index is valid for the target epoch only
			p.Ops["att_prev_epoch_index_above_current_count"]++
		}
		if pa.Variant == VarWrongTarget {
			c.wrongTargetIncluded[d.Target.Epoch]++
		}
		if pa.DoubleOf != nil && pa.DoubleOf.Included > 0 && pa.Included == 0 {
			p.Ops["att_double_vote_wrong_target_first"]++
			if pa.DoubleOf.IncludedAt == p.Slot {
				p.Ops["att_double_vote_same_block"]++
			} else {
				p.Ops["att_double_vote_later_block"]++
			}
		}
		pa.IncludedAt = p.Slot
		if f := c.Spec.ALTAIR_FORK_EPOCH; pa.Included >= 1 && p.Fork == Phase0 && d.Target.Epoch+1 == f && p.Epoch+1 == f {
			p.Ops["att_overlap_fewer_flags_last_phase0_epoch"]++
		}
		pa.Included++
		delay := p.Slot - pa.Slot
		p.Ops["att"]++
		if delay > 1 {
			p.Ops["att_late"]++
		}
		if delay > c.Spec.SLOTS_PER_EPOCH {
			p.Ops["att_beyond_epoch"]++
			if pa.Variant == VarWrongTarget {
				p.Ops["att_beyond_epoch_wrong_target"]++
			} else {
				p.Ops["att_beyond_epoch_correct_target"]++
			}
		}
		switch pa.Variant {
		case VarWrongHead:
			p.Ops["att_wrong_head"]++
		case VarWrongTarget:
			p.Ops["att_wrong_target"]++
		}
		if pa.Again && pa.Included == 1 {
			pa.Due = p.Slot + 1
			keep = append(keep, pa)
			p.Ops["att_reincluded_later"] += 0
		} else if pa.Included > 1 {
			p.Ops["att_duplicate_of_earlier"]++
		}
	}
	c.Pending = keep
}

// ---- sync aggregate ----

func (c *Chain) fillSync(p *ProposeCtx) {
	sp := c.Spec
	n := uint64(sp.SYNC_COMMITTEE_SIZE)
	bits := make(altair.SyncCommitteeBits, (n+7)/8)
	mode := "random"
	if c.Scenario != nil && c.Scenario.SyncMode != nil {
		mode = c.Scenario.SyncMode(c, p.Slot)
	}
	if mode == "random" {
		mode = pick(c.Rng, "full", "full", "most", "half", "few", "none")
	}
	if c.isForkStart(p.Slot) {
		mode = pick(c.Rng, "full", "most")
		p.Ops["sync_at_first_slot_of_fork"]++
	}
	var keys []KeyNum
	// members come from the STATE (the spec's truth), not from the context
	ss, ok := p.A.(common.SyncCommitteeBeaconState)
	if !ok {
		panic("altair+ state without sync committees")
	}
	scv, err := ss.CurrentSyncCommittee()
	if err != nil {
		panic(err)
	}
	pkv, err := scv.Pubkeys()
	if err != nil {
		panic(err)
	}
	memberPubs, err := pkv.Flatten()
	if err != nil {
		panic(err)
	}
	memberKey := func(i uint64) KeyNum {
		k, ok := KeyByPub(memberPubs[i])
		if !ok {
			panic("sync committee member with unknown key")
		}
		return k
	}
	for i := uint64(0); i < n; i++ {
		var on bool
		switch mode {
		case "full":
			on = true
		case "most":
			on = c.Rng.Chance(85)
		case "half":
			on = c.Rng.Chance(50)
		case "few":
			on = c.Rng.Chance(12)
		}
		if on && p.Epc.CurrentSyncCommittee != nil && (c.Absent[p.Epc.CurrentSyncCommittee.Indices[i]] ||
			(c.lateAbsent[p.Epc.CurrentSyncCommittee.Indices[i]] && p.Epoch >= c.lateAbsentFrom)) {
			on = false // validators a scenario keeps offline do not sign sync messages either
		}
		if on {
			bits[i/8] |= 1 << (i % 8)
			keys = append(keys, memberKey(i))
		}
	}
	prev := p.Slot.Previous()
	root, err := common.GetBlockRootAtSlot(sp, p.A, prev)
	if err != nil {
		panic(err)
	}
	dom := p.domain(common.DOMAIN_SYNC_COMMITTEE, sp.SlotToEpoch(prev))
	msg := common.ComputeSigningRoot(root, dom)
	p.B.Sync = altair.SyncAggregate{SyncCommitteeBits: bits, SyncCommitteeSignature: c.BLS.Sign(keys, msg)}
	p.Ops["sync_bits"] += len(keys)
	p.Ops["sync_"+mode]++
}

func (c *Chain) isForkStart(s common.Slot) bool {
	if s%c.Spec.SLOTS_PER_EPOCH != 0 {
		return false
	}
	e := c.Spec.SlotToEpoch(s)
	for _, fe := range c.forkEpochsInside() {
		if fe == e {
			return true
		}
	}
	return false
}

// ---- execution payload ----

type execState interface {
	LatestExecutionPayloadHeaderBlockHash() (common.Root, uint64, error)
}

func latestExec(st common.BeaconState) (blockHash common.Root, number uint64, merged bool) {
	switch s := st.(type) {
	case *bellatrix.BeaconStateView:
		h, err := s.LatestExecutionPayloadHeader()
		if err != nil {
			panic(err)
		}
		raw, err := h.Raw()
		if err != nil {
			panic(err)
		}
		m, _ := s.IsTransitionCompleted()
		return raw.BlockHash, uint64(raw.BlockNumber), m
	case *capella.BeaconStateView:
		h, err := s.LatestExecutionPayloadHeader()
		if err != nil {
			panic(err)
		}
		raw, err := h.Raw()
		if err != nil {
			panic(err)
		}
		return raw.BlockHash, uint64(raw.BlockNumber), raw.BlockHash != common.Root{}
	case *deneb.BeaconStateView:
		h, err := s.LatestExecutionPayloadHeader()
		if err != nil {
			panic(err)
		}
		raw, err := h.Raw()
		if err != nil {
			panic(err)
		}
		return raw.BlockHash, uint64(raw.BlockNumber), raw.BlockHash != common.Root{}
	}
	return common.Root{}, 0, false
}

func (c *Chain) fillPayload(p *ProposeCtx) {
	sp := c.Spec
	parent, num, merged := latestExec(p.A)
	if p.Fork == Bellatrix && !merged {
		// before the merge transition: empty payload until the scenario decides to merge
		doMerge := c.Rng.Chance(35)
		if c.Scenario != nil && c.Scenario.Merge != nil {
			doMerge = c.Scenario.Merge(c, p.Slot)
		}
		if c.ZeroHashMerge {
			// one empty pre-merge block, then the transition block at once
			doMerge = c.Stats.Get("bellatrix.payload_empty_premerge") >= 1
		}
		if !doMerge {
			p.Ops["payload_empty_premerge"]++
			return
		}
		copy(parent[:], c.Rng.Bytes(32)) // terminal PoW block hash
		p.Ops["payload_merge_block"]++
	}
	mix, err := mixAt(p.A, p.Epoch)
	if err != nil {
		panic(err)
	}
	ts, err := sp.TimeAtSlot(p.Slot, c.GenesisTime)
	if err != nil {
		panic(err)
	}
	pl := &p.B.Payload
	pl.ParentHash = parent
	copy(pl.FeeRecipient[:], c.Rng.Bytes(20))
	copy(pl.StateRoot[:], c.Rng.Bytes(32))
	copy(pl.ReceiptsRoot[:], c.Rng.Bytes(32))
	if c.Rng.Chance(30) {
		copy(pl.LogsBloom[:], c.Rng.Bytes(len(pl.LogsBloom)))
	}
	pl.PrevRandao = mix
	pl.BlockNumber = view.Uint64View(num + 1)
	pl.GasLimit = view.Uint64View(30000000)
	pl.GasUsed = view.Uint64View(c.Rng.Intn(30000000))
	pl.Timestamp = ts
	pl.ExtraData = c.Rng.Bytes(c.Rng.Intn(33))
	pl.BaseFeePerGas = view.Uint256View{uint64(c.Rng.Intn(1 << 30)), 0, 0, 0}
	copy(pl.BlockHash[:], c.Rng.Bytes(32))
	if p.Ops["payload_merge_block"] > 0 && c.ZeroHashMerge {
		// merge-transition payload that is non-default (prev_randao, timestamp, fee recipient, …) but has block_hash = 0:
		// is_merge_transition_block compares the WHOLE payload with the default one, so execution is enabled, the engine is
		// consulted and the header (with block_hash 0) is stored
		pl.BlockHash = common.Root{}
		p.Ops["payload_merge_block_zero_hash"]++
	}
	ntx := c.Rng.Intn(4)
	pl.Transactions = nil
	for i := 0; i < ntx; i++ {
		pl.Transactions = append(pl.Transactions, common.Transaction(c.Rng.Bytes(1+c.Rng.Intn(60))))
	}
	p.Ops["payload"]++
	if p.Fork >= Capella {
		ws, err := capella.GetExpectedWithdrawals(p.A.(capella.BeaconStateWithWithdrawals), sp)
		if err != nil {
			panic(err)
		}
		pl.Withdrawals = ws
		for _, w := range ws {
			if int(w.ValidatorIndex) < len(p.Flats) && p.Flats[w.ValidatorIndex].WithdrawableEpoch <= p.Epoch {
				p.Ops["withdrawal_full"]++
			} else {
				p.Ops["withdrawal_partial"]++
			}
		}
	}
	if p.Fork >= Deneb {
		nb := c.Rng.Intn(int(sp.MAX_BLOBS_PER_BLOCK) + 1)
		if c.Rng.Chance(50) {
			nb = c.Rng.Intn(3)
			if nb > int(sp.MAX_BLOBS_PER_BLOCK) {
				nb = int(sp.MAX_BLOBS_PER_BLOCK)
			}
		}
		for i := 0; i < nb; i++ {
			var k common.KZGCommitment
			copy(k[:], c.Rng.Bytes(48))
			p.B.Blobs = append(p.B.Blobs, k)
		}
		pl.BlobGasUsed = view.Uint64View(nb * 131072)
		pl.ExcessBlobGas = view.Uint64View(c.Rng.Intn(1 << 20))
		p.Ops["blob"] += nb
	}
}

func mixAt(st common.BeaconState, e common.Epoch) (common.Root, error) {
	mixes, err := st.RandaoMixes()
	if err != nil {
		return common.Root{}, err
	}
	return mixes.GetRandomMix(e)
}

// ---- deposits / eth1 ----

// QueueDeposit adds a deposit to the generator's deposit contract. The eth1 candidate the proposers vote for is
// re-pointed at the start of a voting period only (refreshCandidate), so that votes can reach the majority.
func (c *Chain) QueueDeposit(dd common.DepositData) {
	c.DepTree.Add(dd)
}

func (c *Chain) refreshCandidate() {
	n := c.DepTree.Count()
	if c.HaveCandidate && uint64(c.Eth1Candidate.DepositCount) == n {
		return
	}
	c.Eth1Candidate = common.Eth1Data{DepositRoot: c.DepTree.Root(n), DepositCount: common.DepositIndex(n)}
	copy(c.Eth1Candidate.BlockHash[:], c.Rng.Bytes(32))
	c.HaveCandidate = true
}

// NewDepositor queues a deposit of a brand-new validator key.
func (c *Chain) NewDepositor(amount common.Gwei, eth1 bool) KeyNum {
	k := c.nextValKey
	c.nextValKey++
	g := GenVal{Key: k, Balance: amount}
	if eth1 {
		g.Addr = addrOf(k)
	} else {
		g.WKey = WithdrawalKeyBase + k
		c.BLS.UseKey(g.WKey)
	}
	c.QueueDeposit(DepositDataFor(c.Spec, c.BLS, PubOf(k), g.Credentials(), amount, k))
	c.depositors[PubOf(k)] = g
	return k
}

// OddDepositor: a new validator whose credentials start with `prefix` (neither 0x00 nor 0x01) followed by the hash of its withdrawal key.
func (c *Chain) OddDepositor(amount common.Gwei, prefix byte) KeyNum {
	k := c.nextValKey
	c.nextValKey++
	g := GenVal{Key: k, Balance: amount, WKey: WithdrawalKeyBase + k, Prefix: prefix}
	c.BLS.UseKey(g.WKey)
	c.QueueDeposit(DepositDataFor(c.Spec, c.BLS, PubOf(k), g.Credentials(), amount, k))
	c.depositors[PubOf(k)] = g
	c.Stats.Inc("deposits_queued_odd_prefix_credentials")
	return k
}

// BadDepositor queues a deposit that process_deposit must skip (the block stays valid, no validator appears):
// proof of possession by another key / under another domain / unparseable, or an undecodable public key.
func (c *Chain) BadDepositor() string {
	return c.BadDepositorKind(pick(c.Rng, "wrong_key", "wrong_domain", "garbage_signature", "bad_pubkey"))
}

func (c *Chain) BadDepositorKind(kind string) string {
	k := c.nextStray
	c.nextStray++
	g := GenVal{Key: k, WKey: 0, Addr: addrOf(k)}
	amount := c.Spec.MAX_EFFECTIVE_BALANCE
	var dd common.DepositData
	switch kind {
	case "wrong_key":
		dd = DepositDataFor(c.Spec, c.BLS, PubOf(k), g.Credentials(), amount, k+1)
		c.nextStray++
		c.BLS.UseKey(k)
	case "wrong_domain":
		dd = common.DepositData{Pubkey: c.BLS.UseKey(k), WithdrawalCredentials: g.Credentials(), Amount: amount}
		dom := common.ComputeDomain(common.DOMAIN_DEPOSIT, c.Spec.ALTAIR_FORK_VERSION, c.GVR)
		dd.Signature = c.BLS.Sign1(k, common.ComputeSigningRoot(dd.MessageRoot(), dom))
	case "garbage_signature":
		dd = common.DepositData{Pubkey: c.BLS.UseKey(k), WithdrawalCredentials: g.Credentials(), Amount: amount}
		copy(dd.Signature[:], c.Rng.Bytes(96))
	default:
		dd = DepositDataFor(c.Spec, c.BLS, PubOf(k), g.Credentials(), amount, k)
		dd.Pubkey = badPubkey(c.Rng)
	}
	c.QueueDeposit(dd)
	c.Stats.Inc("deposits_queued_to_be_skipped_" + kind)
	return kind
}

// QueueAlternatingDeposits: 16 new validators, alternately with the full amount and one increment short; the short ones are topped
// up as soon as they are registered, so they become eligible for activation two epochs after the full ones: the activation
// queue then holds more than 12 entries whose eligibility epochs are not monotone in index order.
func (c *Chain) QueueAlternatingDeposits(n int) {
	for i := 0; i < n; i++ {
		if i == 2 || i == 6 {
			c.OddDepositor(c.Spec.MAX_EFFECTIVE_BALANCE, []byte{0, 0, 0xff, 0, 0, 0, 0x02}[i])
		} else if i%2 == 0 {
			c.NewDepositor(c.Spec.MAX_EFFECTIVE_BALANCE, c.Rng.Chance(40))
		} else {
			k := c.NewDepositor(c.Spec.MAX_EFFECTIVE_BALANCE-c.Spec.EFFECTIVE_BALANCE_INCREMENT, c.Rng.Chance(40))
			c.partialKeys[k] = true
		}
	}
	c.Stats.Add("deposits_queued", n)
}

// ZeroAmountDepositor: a new key deposits 0 Gwei with a valid proof of possession (the validator is registered with balance 0),
// an ordinary deposit follows, then a top-up of the zero key whose signature does not verify.
func (c *Chain) ZeroAmountDepositor() {
	k := c.NewDepositor(0, c.Rng.Bool())
	c.NewDepositor(c.Spec.MAX_EFFECTIVE_BALANCE, c.Rng.Bool())
	g := c.depositors[PubOf(k)]
	dd := DepositDataFor(c.Spec, c.BLS, PubOf(k), g.Credentials(), c.Spec.MAX_EFFECTIVE_BALANCE, c.nextStray)
	c.nextStray++
	c.QueueDeposit(dd)
	c.zeroKeys[k] = true
	c.Stats.Add("deposits_queued", 3)
	c.Stats.Inc("zero_amount_depositors_queued")
}

// fractionalAboveMax: an amount above MAX_EFFECTIVE_BALANCE that is not a whole number of increments (32.5, 100.25, … ETH):
// effective balance must be min(balance - balance % INCREMENT, MAX), not min(balance, MAX) - balance % INCREMENT.
func (c *Chain) fractionalAboveMax() common.Gwei {
	inc := c.Spec.EFFECTIVE_BALANCE_INCREMENT
	whole := common.Gwei(pick(c.Rng, 0, 0, 1, 3, 68))
	frac := inc / common.Gwei(pick(c.Rng, 2, 4, 8))
	if c.Rng.Chance(20) {
		frac = inc - 1
	}
	return c.Spec.MAX_EFFECTIVE_BALANCE + whole*inc + frac
}

// TopUp queues a deposit for an existing validator (signature deliberately sometimes invalid: it is not checked).
func (c *Chain) TopUp(v common.ValidatorIndex, amount common.Gwei) {
	info := c.Vals[v]
	g := GenVal{Key: info.Key, WKey: info.WKey, Addr: info.Addr}
	dd := DepositDataFor(c.Spec, c.BLS, PubOf(info.Key), g.Credentials(), amount, info.Key)
	if c.Rng.Chance(30) {
		copy(dd.Signature[:], c.Rng.Bytes(96))
	}
	c.QueueDeposit(dd)
}

func (c *Chain) fillEth1AndDeposits(p *ProposeCtx) {
	sp := c.Spec
	cur, err := p.A.Eth1Data()
	if err != nil {
		panic(err)
	}
	vote := cur
	votes, err := p.A.Eth1DataVotes()
	if err != nil {
		panic(err)
	}
	if nv, _ := votes.Length(); nv == 0 || !c.HaveCandidate {
		if c.DepTree.Count() > uint64(cur.DepositCount) {
			c.refreshCandidate()
		}
	}
	period := uint64(sp.EPOCHS_PER_ETH1_VOTING_PERIOD) * uint64(sp.SLOTS_PER_EPOCH)
	if c.Eth1HalfPattern {
		c.voteHalfPattern(p, cur, votes, period)
		vote = p.B.Eth1Data
	} else if c.HaveCandidate && cur != c.Eth1Candidate && c.Eth1Candidate.DepositCount > cur.DepositCount {
		x := c.Rng.Intn(100)
		if c.VoteAlways {
			x = 0
		}
		switch {
		case x < 94:
			vote = c.Eth1Candidate
			p.Ops["eth1_vote_candidate"]++
		case x < 97:
			p.Ops["eth1_vote_current"]++
		default:
			copy(vote.BlockHash[:], c.Rng.Bytes(32))
			copy(vote.DepositRoot[:], c.Rng.Bytes(32))
			p.Ops["eth1_vote_garbage"]++
		}
	} else if c.Rng.Chance(10) {
		copy(vote.BlockHash[:], c.Rng.Bytes(32))
		p.Ops["eth1_vote_garbage"]++
	}
	p.B.Eth1Data = vote
	// the vote itself may change state.eth1_data before deposits are processed: predict it
	eff := cur
	cnt, err := votes.Count(vote)
	if err != nil {
		panic(err)
	}
	if (cnt+1)*2 > period {
		eff = vote
		if eff != cur {
			p.Ops["eth1_data_adopted"]++
		}
	}
	idx, err := p.A.Eth1DepositIndex()
	if err != nil {
		panic(err)
	}
	if eff.DepositCount > idx {
		n := uint64(eff.DepositCount - idx)
		if n > uint64(sp.MAX_DEPOSITS) {
			n = uint64(sp.MAX_DEPOSITS)
			p.Ops["deposits_capped"]++
		}
		if uint64(eff.DepositCount) > c.DepTree.Count() || c.DepTree.Root(uint64(eff.DepositCount)) != eff.DepositRoot {
			c.problem("state eth1_data is not one of the generator's deposit trees (count %d)", eff.DepositCount)
			return
		}
		for i := uint64(0); i < n; i++ {
			p.B.Deposits = append(p.B.Deposits, c.DepTree.Deposit(uint64(idx)+i, uint64(eff.DepositCount)))
			p.Ops["deposit"]++
		}
	}
}

// voteHalfPattern (scenario eth1_votes): the first vote of a period is some X; then Y is voted until it has EXACTLY half of the
// period's votes (count*2 == period, not adopted); in even periods other values follow so that Y stays at exactly half, in odd
// periods Y is voted once more and is adopted.
func (c *Chain) voteHalfPattern(p *ProposeCtx, cur common.Eth1Data, votes common.Eth1DataVotes, period uint64) {
	nv, _ := votes.Length()
	garbage := func() common.Eth1Data {
		g := cur
		copy(g.BlockHash[:], c.Rng.Bytes(32))
		return g
	}
	if nv == 0 {
		// new period: choose Y (the deposit candidate when there is one, else the current data under another block hash)
		if c.HaveCandidate && c.Eth1Candidate.DepositCount > cur.DepositCount {
			c.halfY = c.Eth1Candidate
		} else {
			c.halfY = garbage()
		}
		c.halfPeriod++
		p.B.Eth1Data = garbage()
		p.Ops["eth1_vote_garbage"]++
		return
	}
	cntY, _ := votes.Count(c.halfY)
	switch {
	case cntY*2 < period:
		p.B.Eth1Data = c.halfY
		p.Ops["eth1_vote_candidate"]++
		if (cntY+1)*2 == period {
			p.Ops["eth1_vote_reaches_exactly_half"]++
		}
	case c.halfPeriod%2 == 1:
		p.B.Eth1Data = c.halfY
		p.Ops["eth1_vote_candidate"]++
	default:
		p.B.Eth1Data = garbage()
		p.Ops["eth1_vote_garbage"]++
		p.Ops["eth1_vote_while_other_at_exactly_half"]++
	}
}

// learnValidators extends c.Vals after a block added validators.
func (c *Chain) learnValidators() {
	n := c.ValCount()
	vals, _ := c.St.Validators()
	for i := uint64(len(c.Vals)); i < n; i++ {
		v, err := vals.Validator(common.ValidatorIndex(i))
		if err != nil {
			panic(err)
		}
		pub, _ := v.Pubkey()
		g, ok := c.depositors[pub]
		if !ok {
			panic(fmt.Sprintf("validator %d has a pubkey the generator never deposited", i))
		}
		c.Vals = append(c.Vals, valInfoOf(g))
		c.Stats.Inc("validators_added_by_deposit")
		if c.Spec.ALTAIR_FORK_EPOCH == 0 {
			c.Stats.Inc("validators_added_by_deposit_with_fork_at_epoch_0")
		}
		if c.partialKeys[g.Key] {
			delete(c.partialKeys, g.Key)
			c.queueTopUpForKey(g.Key, c.Spec.EFFECTIVE_BALANCE_INCREMENT*3/2)
			c.Stats.Add("deposits_queued", 1)
			c.Stats.Inc("partial_depositors_topped_up")
		}
		if c.zeroKeys[g.Key] {
			c.Stats.Inc("validators_added_with_zero_amount")
			c.zeroIndex[common.ValidatorIndex(i)] = true
		}
		if c.depForkArmed && i == c.depForkIndex && g.Key == c.depForkKey {
			// registered at an index where the shared pubkey cache already holds the side branch's key
			c.Stats.Inc("deposit_fork_conflicting_registration")
			if c.Vars["depfork_badpop"] == 1 {
				// the deposit for the side branch's key with a foreign proof of possession came first and registered nobody
				c.Stats.Inc("deposit_fork_side_key_foreign_pop_skipped")
			}
			if br, err := c.St.Balances(); err == nil {
				if b, err := br.GetBalance(common.ValidatorIndex(i)); err == nil && b > g.Balance {
					c.Stats.Inc("deposit_fork_topup_credited_after_conflict")
				}
			}
			c.depForkArmed = false
		}
		if g.Balance > c.Spec.MAX_EFFECTIVE_BALANCE && g.Balance%c.Spec.EFFECTIVE_BALANCE_INCREMENT != 0 {
			c.Stats.Inc("validators_added_with_fractional_amount_above_max")
			if c.Slot()%c.Spec.SLOTS_PER_EPOCH != 0 {
				c.Stats.Inc("validators_added_with_fractional_amount_above_max_mid_epoch")
			}
		}
		if c.Slot()%c.Spec.SLOTS_PER_EPOCH != 0 {
			c.Stats.Inc("validators_added_mid_epoch")
		}
	}
}

// ---- the block ----

// Propose builds, records and applies a block at slot s (s > head slot). Returns false when the slot cannot have a block
// (slashed proposer).
func (c *Chain) Propose(s common.Slot) (bool, error) {
	sp := c.Spec
	// 1. advance a private copy
	adv := RunSlots(sp, c.St, c.Epc, s, -1)
	if adv.Err != nil || adv.Panicked {
		c.problem("advance to %d for proposing failed: %v %v", s, adv.Err, adv.PanicVal)
		return false, fmt.Errorf("advance: %v %v", adv.Err, adv.PanicVal)
	}
	A := Unwrap(adv.Post)
	eA := adv.Epc
	advPost, advEpc := adv.Post, adv.Epc
	// The producer works from what the state says: a context computed from scratch. When the live context
	// (advanced alongside) says something else, that is recorded, not hidden.
	if eF, err := common.NewEpochsContext(specWith(sp, nil), A); err != nil {
		return false, fmt.Errorf("fresh context at slot %d: %w", s, err)
	} else {
		n := uint64(len(eA.EffectiveBalances))
		if vals, err := A.Validators(); err == nil {
			n, _ = vals.ValidatorCount()
		}
		if ld, fd := DumpEPC(eA, n, false), DumpEPC(eF, n, false); string(ld) != string(fd) {
			c.Stats.Inc("build_live_ctx_differs_from_fresh")
			c.Stats.Inc("build_live_ctx_differs_" + epcDiffKind(ld, fd))
		}
		eA = eF
	}
	proposer, err := eA.GetBeaconProposer(s)
	if err != nil {
		return false, err
	}
	vals, _ := A.Validators()
	flats, err := common.FlattenValidators(vals)
	if err != nil {
		return false, err
	}
	if flats[proposer].Slashed {
		c.Stats.Inc("slots_skipped_slashed_proposer")
		return false, nil
	}
	balsReg, _ := A.Balances()
	bals, _ := balsReg.AllBalances()
	fork := StateFork(A)
	hdr, _ := A.LatestBlockHeader()
	p := &ProposeCtx{C: c, A: A, Epc: eA, Slot: s, Epoch: sp.SlotToEpoch(s), Fork: fork, Flats: flats, Bals: bals,
		used: map[common.ValidatorIndex]bool{}, Ops: map[string]int{}}
	p.B = &Block{Fork: fork, Slot: s, ProposerIndex: proposer, ParentRoot: hdr.HashTreeRoot(hFn())}
	copy(p.B.Graffiti[:], c.Rng.Bytes(32))
	// randao
	{
		dom := p.domain(common.DOMAIN_RANDAO, p.Epoch)
		msg := common.ComputeSigningRoot(p.Epoch.HashTreeRoot(hFn()), dom)
		p.B.Randao = c.BLS.Sign1(c.keyOfVal(proposer), msg)
	}
	// attestations of all slots up to s-1
	for a := c.attGenUpTo; a < s; a++ {
		c.genPending(a, eA, flats)
	}
	c.attGenUpTo = s
	c.fillEth1AndDeposits(p)
	p.PendingDeposits = uint64(len(p.B.Deposits))
	if c.SyncSeat {
		c.syncSeatScript(p)
	}
	if c.Scenario != nil && c.Scenario.BeforeBlock != nil {
		c.Scenario.BeforeBlock(c, p)
	}
	c.jointBoundaryOps(p)
	c.syncBoundaryOps(p)
	c.defaultOps(p)
	c.fillAttestations(p)
	if fork >= Altair {
		c.fillSync(p)
	}
	if fork >= Bellatrix {
		c.fillPayload(p)
	}
	c.noteSeatTopUp(p)
	// 2. dry run for the state root
	engMode := "none"
	if fork >= Bellatrix {
		engMode = "valid"
		if fork == Bellatrix && p.Ops["payload"] == 0 && c.Rng.Chance(50) {
			engMode = "none"
		}
	}
	sb := p.B.Signed()
	var dryErr error
	{
		st := CopyState(A)
		spx := specWith(sp, nil)
		if engMode != "none" {
			spx = specWith(sp, newEngine(sp, "valid", -1))
		}
		// a context of its own, built from scratch (NOT a Clone(): the producer must not depend on what it is probing)
		e2, e2err := common.NewEpochsContext(spx, st)
		if e2err != nil {
			e2 = eA
		}
		env := EnvelopeFor(spx, sb, fork, A)
		func() {
			defer func() {
				if r := recover(); r != nil {
					dryErr = fmt.Errorf("panic: %v", r)
				}
			}()
			dryErr = common.PostSlotTransition(bgCtx, spx, e2, &beacon.StandardUpgradeableBeaconState{BeaconState: st}, env, false)
		}()
		if dryErr == nil {
			p.B.StateRoot = StateRoot(st)
		}
	}
	// 3. sign under the state's current fork version
	{
		fk, _ := A.Fork()
		dom := common.ComputeDomain(common.DOMAIN_BEACON_PROPOSER, fk.CurrentVersion, c.GVR)
		msg := common.ComputeSigningRoot(p.B.Root(sp), dom)
		p.B.Signature = c.BLS.Sign1(c.keyOfVal(proposer), msg)
	}
	sb = p.B.Signed()
	// the slot processing up to the block's slot is also judged on its own (always when it crosses an epoch or fork
	// boundary, otherwise for a sample)
	if c.Epoch() != p.Epoch || StateFork(c.St) != fork || c.Rng.Chance(20) {
		aid := c.Rec.State(advPost)
		c.Rec.Line("slots %s %d %s", c.StID, s, aid)
		c.SlotSteps = append(c.SlotSteps, HonestSlots{PreID: c.StID, Target: s})
		c.Stats.Inc("slots_records")
		c.Stats.Inc("slots_records_before_block")
		if c.Epoch() != p.Epoch {
			c.recordEPC(aid, advPost, advEpc, StateFork(c.St) != fork)
		}
		c.noteState(advPost)
	}
	blkID := c.Rec.BlockBytes(fork, EncodeObj(sp, sb))
	// 4. the recorded transition
	preEpoch := c.Epoch()
	preFork := StateFork(c.St)
	preID := c.StID
	res := RunTransition(sp, c.St, c.Epc, sb, fork, true, engMode, -1, -1)
	tags := c.opsTag(p)
	if (res.Err != nil || res.Panicked) && dryErr == nil {
		// does a context computed from the pre-state accept it?
		fres := RunTransition(sp, c.St, nil, sb, fork, true, engMode, -1, -1)
		if fres.Err == nil && !fres.Panicked {
			line := c.Rec.Line("trans %s %s 1 %s %s kind=honest ctx=live %s", preID, blkID, engMode, res.Verdict(), tags)
			c.recordEngine(line, res.Engine)
			c.Rec.Comment(fmt.Sprintf("live-context error: %v %v", res.Err, res.PanicVal))
			c.Stats.Inc("live_ctx_diverged")
			c.Stats.Inc("live_ctx_diverged_" + fork.String())
			c.divergences = append(c.divergences, fmt.Sprintf("line %d slot %d %s: live context: %v; fresh context accepts", line, s, fork, res.Err))
			c.Rec.Line("reload %s", preID)
			res = fres
			tags = "ctx=fresh " + tags
		}
	}
	if res.Err != nil || res.Panicked || dryErr != nil {
		line := c.Rec.Line("trans %s %s 1 %s %s kind=honest %s", preID, blkID, engMode, res.Verdict(), tags)
		c.recordEngine(line, res.Engine)
		c.problem("zrnt rejected an honest block at slot %d (%s, line %d): dry=%v real=%v panic=%v ops=%s", s, fork, line, dryErr, res.Err, res.PanicVal, tags)
		c.Stats.Inc("honest_rejected")
		if dryErr != nil {
			// the state root could not be computed, so the line above is rejected by anyone; the same block without result
			// validation shows the disagreement (the Spec accepts what the producer believes valid)
			r0 := RunTransition(sp, c.St, nil, sb, fork, false, engMode, -1, -1)
			post := r0.Verdict()
			if r0.Post != nil {
				post = c.Rec.State(r0.Post)
			}
			l0 := c.Rec.Line("trans %s %s 0 %s %s kind=honest ctx=fresh state_root=unknown %s", preID, blkID, engMode, post, tags)
			c.recordEngine(l0, r0.Engine)
			if r0.Err != nil {
				c.Rec.Comment("error: " + firstLine(r0.Err.Error()))
			}
		}
		// the rejected block still seeds the corruption / cancellation streams (a defect may sit exactly at this kind of
		// block, e.g. the first slot of a fork epoch), and the chain goes on with this slot left empty
		c.Honest = append(c.Honest, HonestStep{PreID: preID, Blk: p.B, BlkID: blkID, Engine: engMode, Line: line, Rejected: true})
		return false, &RejectedError{Slot: s, Dry: dryErr, Real: res.Err}
	}
	postID := c.Rec.State(res.Post)
	line := c.Rec.Line("trans %s %s 1 %s %s kind=honest %s", preID, blkID, engMode, postID, tags)
	c.recordEngine(line, res.Engine)
	c.Honest = append(c.Honest, HonestStep{PreID: preID, Blk: p.B, BlkID: blkID, Engine: engMode, Line: line, HasPayload: p.Ops["payload"] > 0, ZeroHashMerge: p.Ops["payload_merge_block_zero_hash"] > 0})
	c.Stats.Inc("blocks")
	c.Stats.Inc(fork.String() + ".blocks")
	if len(p.B.Deposits) > 0 && len(p.B.VoluntaryExits) == 0 {
		c.Stats.Inc(fork.String() + ".blocks_deposits_no_exits")
	}
	{
		// validators whose exit this single block initiates (voluntary exits + slashings): the exit queue overflows inside
		// one block when there are more than the churn limit, and advances twice from 2*churn+1 on
		n := len(p.B.VoluntaryExits) + p.Ops["pslash"] + p.Ops["aslash_validators"]
		churn := int(sp.GetChurnLimit(uint64(len(eA.CurrentEpoch.ActiveIndices))))
		c.Stats.Max("max_exits_initiated_in_one_block", n)
		if n > churn {
			c.Stats.Inc("blocks_exit_queue_overflow")
		}
		if n >= 2*churn+1 {
			c.Stats.Inc("blocks_exit_queue_advanced_twice")
			c.Stats.Inc(fork.String() + ".blocks_exit_queue_advanced_twice")
		}
	}
	if b := p.B; len(b.Attestations) > 0 && len(b.ProposerSlashings) > 0 && len(b.AttesterSlashings) > 0 && len(b.Deposits) > 0 && len(b.VoluntaryExits) > 0 &&
		(fork < Capella || len(b.BLSChanges) > 0) {
		c.Stats.Inc("blocks_with_all_ops")
		c.Stats.Inc(fork.String() + ".blocks_with_all_ops")
	}
	for k, v := range p.Ops {
		if v != 0 {
			c.Stats.Add(fork.String()+"."+k, v)
		}
	}
	if fork >= Capella {
		if a, ok := A.(capella.BeaconStateWithWithdrawals); ok {
			if b, ok := Unwrap(res.Post).(capella.BeaconStateWithWithdrawals); ok {
				x, _ := a.NextWithdrawalValidatorIndex()
				y, _ := b.NextWithdrawalValidatorIndex()
				if y < x {
					c.Stats.Inc(fork.String() + ".withdrawal_sweep_wrap")
				}
			}
		}
	}
	if !c.cloneBlockDone[fork] && !c.isSide {
		c.cloneBlockCheck(A, advEpc, sb, fork, engMode, res.Post, postID)
	}
	sibSt, sibEpc, sibCount := c.St, c.Epc, c.ValCount()
	c.afterStep(res.Post, res.Epc, postID, preEpoch, preFork, true)
	c.learnValidators()
	if !c.siblingDone && !c.isSide && c.ValCount() > sibCount {
		c.siblingBlock(sibSt, sibEpc, preID, s)
	}
	for v := range c.zeroIndex {
		// the invalid-signature top-up of a key first registered with amount 0 was credited
		if br, err := c.St.Balances(); err == nil {
			if b, err := br.GetBalance(v); err == nil && b > 0 {
				c.Stats.Inc("topup_invalid_sig_credited_after_zero_amount_registration")
				delete(c.zeroIndex, v)
			}
		}
	}
	if _, _, merged := latestExec(c.St); merged {
		c.MergeDone = true
	}
	return true, nil
}

func (c *Chain) recordEngine(line int, e *ScriptedEngine) {
	if e == nil {
		return
	}
	for _, call := range e.Calls {
		c.Rec.Line("%s", EngineLine(line, call))
		c.Stats.Inc("engine_records")
	}
}

func (c *Chain) opsTag(p *ProposeCtx) string {
	b := p.B
	parts := []string{}
	add := func(n string, k int) {
		if k > 0 {
			parts = append(parts, fmt.Sprintf("%s:%d", n, k))
		}
	}
	add("att", len(b.Attestations))
	add("pslash", len(b.ProposerSlashings))
	add("aslash", len(b.AttesterSlashings))
	add("dep", len(b.Deposits))
	add("exit", len(b.VoluntaryExits))
	add("blschg", len(b.BLSChanges))
	add("wd", len(b.Payload.Withdrawals))
	add("blob", len(b.Blobs))
	add("tx", len(b.Payload.Transactions))
	if len(parts) == 0 {
		return "ops=-"
	}
	return "ops=" + strings.Join(parts, ",")
}

// jointEpochs: epochs inside the chain at which two or more forks are scheduled together.
func (c *Chain) jointEpochs() (out []common.Epoch) {
	fe := []common.Epoch{c.Spec.ALTAIR_FORK_EPOCH, c.Spec.BELLATRIX_FORK_EPOCH, c.Spec.CAPELLA_FORK_EPOCH, c.Spec.DENEB_FORK_EPOCH}
	for i := 0; i+1 < len(fe); i++ {
		if fe[i] == fe[i+1] && uint64(fe[i]) < uint64(c.Epochs) && (len(out) == 0 || out[len(out)-1] != fe[i]) {
			out = append(out, fe[i])
		}
	}
	return
}

// jointBoundaryOps: the first blocks after a boundary at which several forks start together carry every operation kind whose
// signature domain depends on a fork version: exit, BLS change, proposer / attester slashing with evidence from before the
// boundary (attestations for the pre-fork epoch, the sync aggregate of the boundary slot and deposits come from the ordinary
// producer). The state's fork record then names the LAST of the joint forks and, as previous version, the one before it.
func (c *Chain) jointBoundaryOps(p *ProposeCtx) {
	if c.QuietRegistry || c.isSide {
		return
	}
	for _, e := range c.jointEpochs() {
		key := fmt.Sprintf("joint_blocks_%d", e)
		if p.Epoch+2 >= e && p.Epoch <= e && c.Vars[key+"_queued"] < 6 {
			// deposits that become includable around the boundary (the proposers vote for the candidate meanwhile)
			c.Vars[key+"_queued"]++
			if c.Vars[key+"_queued"]%2 == 1 {
				c.NewDepositor(c.Spec.MAX_EFFECTIVE_BALANCE, c.Rng.Bool())
			} else {
				c.TopUp(common.ValidatorIndex(c.Rng.Intn(len(c.Vals))), c.Spec.MIN_DEPOSIT_AMOUNT)
			}
			c.Stats.Add("deposits_queued", 1)
			if !c.VoteAlways {
				c.VoteAlways = true
				c.Vars["joint_vote_forced"] = 1
			}
		}
		if p.Epoch > e+1 && c.Vars["joint_vote_forced"] == 1 {
			c.VoteAlways = false
			c.Vars["joint_vote_forced"] = 0
		}
		if p.Epoch < e || p.Epoch > e+1 || c.Vars[key] >= 4 {
			continue
		}
		c.Vars[key]++
		n := len(p.Flats)
		try := func(kind string, f func(v common.ValidatorIndex) bool) {
			if c.Vars[key+"_"+kind] >= 2 {
				return
			}
			for k := 0; k < 40; k++ {
				if f(common.ValidatorIndex(c.Rng.Intn(n))) {
					c.Vars[key+"_"+kind]++
					p.Ops["joint_boundary_"+kind]++
					return
				}
			}
		}
		try("exit", p.AddExit)
		if p.Fork >= Capella {
			try("blschange", p.AddBLSChange)
		}
		p.forcePreFork = true
		if fe := p.lastForkEpoch(); fe > 0 && p.Epoch <= fe+1 { // (then the forced date is always taken)
			try("pslash_pre_fork", p.AddProposerSlashing)
		}
		if fe := p.lastForkEpoch(); fe > 1 {
			try("aslash_pre_fork", func(v common.ValidatorIndex) bool {
				return p.AddAttesterSlashing([]common.ValidatorIndex{v}, false)
			})
		}
		p.forcePreFork = false
		if len(p.B.Deposits) > 0 {
			p.Ops["joint_boundary_deposit"]++
		}
	}
}

// syncBoundaryOps: an exit initiated now takes effect at epoch+1+MAX_SEED_LOOKAHEAD; when that is the first epoch of a sync
// committee period (in an altair+ stretch) or the epoch after the altair fork epoch, the active set of the epoch the next sync
// committee is drawn from differs from the current one. Done for the first few such epochs of every chain.
func (c *Chain) syncBoundaryOps(p *ProposeCtx) {
	sp := c.Spec
	if c.syncTargetsDone == nil {
		c.syncTargetsDone = map[common.Epoch]bool{}
	}
	if c.QuietRegistry || len(c.syncTargetsDone) >= 4 || uint64(sp.ALTAIR_FORK_EPOCH) >= uint64(c.Epochs) {
		return
	}
	t := sp.ComputeActivationExitEpoch(p.Epoch)
	f := sp.ALTAIR_FORK_EPOCH
	isTarget := t == f+1 || t == f || (t%sp.EPOCHS_PER_SYNC_COMMITTEE_PERIOD == 0 && t >= f+1)
	if !isTarget || c.syncTargetsDone[t] || uint64(t) >= uint64(c.Epochs) {
		return
	}
	n := len(p.Flats)
	for try := 0; try < 40; try++ {
		v := common.ValidatorIndex(c.Rng.Intn(n))
		if p.AddExit(v) || (try > 20 && p.AddProposerSlashing(v)) {
			c.syncTargetsDone[t] = true
			p.Ops["exit_timed_for_sync_boundary"]++
			return
		}
	}
}

// slashExiting: once per fork (and chain) a validator whose exit is already initiated (finite withdrawable epoch, still slashable
// now) is slashed with evidence dated at/after its withdrawable epoch: proposer slashing, next time attester slashing.
func (c *Chain) slashExiting(p *ProposeCtx) {
	key := "slash_exiting_" + p.Fork.String()
	if c.Vars[key] >= 2 || c.isSide {
		return
	}
	for i := range p.Flats {
		v := common.ValidatorIndex((i*13 + int(p.Slot)) % len(p.Flats))
		f := p.Flats[v]
		if f.WithdrawableEpoch == common.Epoch(FarFuture) || !p.slashable(v) || p.used[v] || c.Protected[v] || v == p.B.ProposerIndex {
			continue
		}
		before := p.Ops["pslash_evidence_epoch_outside_window"] + p.Ops["aslash_evidence_epoch_outside_window"]
		ok := false
		p.forceOutside = true
		// proposer and attester slashings alternate over the whole chain (exiting validators are scarce in some forks)
		if c.Vars["slash_exiting_aslash"] >= c.Vars["slash_exiting_pslash"] {
			if ok = p.AddProposerSlashing(v); ok {
				c.Vars["slash_exiting_pslash"]++
			}
		} else {
			if ok = p.AddAttesterSlashing([]common.ValidatorIndex{v}, c.Rng.Bool()); ok {
				c.Vars["slash_exiting_aslash"]++
			}
		}
		p.forceOutside = false
		if ok && p.Ops["pslash_evidence_epoch_outside_window"]+p.Ops["aslash_evidence_epoch_outside_window"] > before {
			c.Vars[key]++
		}
		if ok {
			return
		}
	}
}

// defaultOps adds the scenario-independent background rate of operations.
func (c *Chain) defaultOps(p *ProposeCtx) {
	r := c.Rng
	n := len(p.Flats)
	rate := c.OpRate
	if c.SlashExiting {
		c.slashExiting(p)
	}
	// once per chain (not in `basic`, whose finality expectations are tight; not without shuffling, where one validator proposes
	// every slot): the proposer includes the evidence against itself — slashed validator, whistleblower and proposer are one balance
	if c.Vars["self_slash_total"] < 1 && p.Epoch >= 2 && !c.isSide && !c.SlashExiting && !c.QuietRegistry && !c.SyncSeat && c.Spec.SHUFFLE_ROUND_COUNT > 0 {
		// (own random stream: the rest of the chain stays what it was)
		saved := c.Rng
		c.Rng = hx.NewEnv("self", "", binary.LittleEndian.Uint64(c.GVR[:8])+uint64(p.Slot), "").Rng
		p.allowSelf = true
		if p.AddProposerSlashing(p.B.ProposerIndex) {
			c.Vars["self_slash_total"]++
		}
		p.allowSelf = false
		c.Rng = saved
	}

	if r.Chance(rate.Exit) {
		for k := 0; k < 1+r.Intn(3); k++ {
			p.AddExit(common.ValidatorIndex(r.Intn(n)))
		}
	}
	if r.Chance(rate.PSlash) {
		p.AddProposerSlashing(common.ValidatorIndex(r.Intn(n)))
	}
	if r.Chance(rate.ASlash) {
		k := 1 + r.Intn(3)
		var vs []common.ValidatorIndex
		for i := 0; i < k; i++ {
			vs = append(vs, common.ValidatorIndex(r.Intn(n)))
		}
		p.AddAttesterSlashing(dedup(vs), r.Chance(40))
	}
	if p.Fork >= Capella && r.Chance(rate.BLSChange) {
		for k := 0; k < 1+r.Intn(3); k++ {
			p.AddBLSChange(common.ValidatorIndex(r.Intn(n)))
		}
	}
	if r.Chance(rate.Deposit) {
		k := 1 + r.Intn(3)
		for i := 0; i < k; i++ {
			switch r.Intn(5) {
			case 0:
				ta := c.Spec.MIN_DEPOSIT_AMOUNT * common.Gwei(1+r.Intn(3))
				if r.Bool() {
					ta += c.Spec.EFFECTIVE_BALANCE_INCREMENT / common.Gwei(pick(r, 2, 4, 8, 1000)) // fractional top-up
				}
				c.TopUp(common.ValidatorIndex(r.Intn(len(c.Vals))), ta)
			case 1:
				c.BadDepositor()
			default:
				amt := c.Spec.MAX_EFFECTIVE_BALANCE
				switch x := r.Intn(100); {
				case x < 20:
					amt -= c.Spec.EFFECTIVE_BALANCE_INCREMENT * common.Gwei(1+r.Intn(3))
				case x < 35:
					amt += c.Spec.EFFECTIVE_BALANCE_INCREMENT * common.Gwei(1+r.Intn(3))
				case x < 60:
					amt = c.fractionalAboveMax()
				case x < 68:
					amt -= c.Spec.EFFECTIVE_BALANCE_INCREMENT / common.Gwei(pick(r, 2, 4, 1000))
				}
				c.NewDepositor(amt, r.Chance(40))
			}
		}
		c.Stats.Add("deposits_queued", k)
	}
}

func dedup(vs []common.ValidatorIndex) []common.ValidatorIndex {
	seen := map[common.ValidatorIndex]bool{}
	var out []common.ValidatorIndex
	for _, v := range vs {
		if !seen[v] {
			seen[v] = true
			out = append(out, v)
		}
	}
	return out
}

// OpRates in percent per block.
type OpRates struct {
	Exit, PSlash, ASlash, BLSChange, Deposit int
}

// epcDiffKind names the first dump key on which two context dumps differ.
func epcDiffKind(a, b []byte) string {
	la, lb := strings.Split(string(a), "\n"), strings.Split(string(b), "\n")
	for i := 0; i < len(la) && i < len(lb); i++ {
		if la[i] != lb[i] {
			f := strings.Fields(la[i])
			if len(f) > 0 {
				return f[0]
			}
			return "line"
		}
	}
	return "length"
}

// RejectedError: zrnt rejected a block the producer believes valid (recorded; the slot stays empty).
type RejectedError struct {
	Slot      common.Slot
	Dry, Real error
}

func (e *RejectedError) Error() string {
	return fmt.Sprintf("honest block rejected at slot %d: dry=%v real=%v", e.Slot, e.Dry, e.Real)
}

// cloneBlockCheck (once per fork and chain): the block just applied on the main path is applied again to a copy of the
// slot-advanced state with a Clone() of the slot-advanced LIVE context — block processing on a freshly cloned context, no epoch
// rotation in between. The clone's context after the block is dumped against the (identical) post-state.
func (c *Chain) cloneBlockCheck(A common.BeaconState, advEpc *common.EpochsContext, sb SignedBlock, fork ForkID, engMode string,
	mainPost common.BeaconState, postID string) {
	c.cloneBlockDone[fork] = true
	sp := c.Spec
	st := CopyState(A)
	clone := advEpc.Clone()
	spx := specWith(sp, nil)
	if engMode != "none" {
		spx = specWith(sp, newEngine(sp, "valid", -1))
	}
	env := EnvelopeFor(spx, sb, fork, A)
	var err error
	func() {
		defer func() {
			if r := recover(); r != nil {
				err = fmt.Errorf("panic: %v", r)
			}
		}()
		err = common.PostSlotTransition(bgCtx, spx, clone, &beacon.StandardUpgradeableBeaconState{BeaconState: st}, env, true)
	}()
	c.Stats.Inc("clone_block_checks")
	c.Stats.Inc("clone_block_checks." + fork.String())
	if err != nil || StateRoot(st) != StateRoot(mainPost) {
		c.Stats.Inc("clone_block_differs")
		c.problem("block processed on a cloned context differs from the main path (%s, post %s): %v", fork, postID, err)
		c.Rec.Comment(fmt.Sprintf("clone_block: PostSlotTransition on Clone() of the advanced live context: %v", err))
		if err != nil {
			return
		}
	}
	c.recordEPCTagged(postID, Unwrap(mainPost), clone, false, "branch=clone_after_block")
}
