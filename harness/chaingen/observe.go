package chaingen

import (
	"github.com/protolambda/zrnt/eth2/beacon/common"
	"sort"
)

func (c *Chain) noteSlashed(v common.ValidatorIndex) {
	if !c.slashedSet[v] {
		c.slashedSet[v] = true
		c.exitSet[v] = true
		c.Stats.Inc("validators_slashed")
	}
}

func (c *Chain) noteExit(v common.ValidatorIndex) {
	if !c.exitSet[v] {
		c.exitSet[v] = true
		c.Stats.Inc("validators_exited_voluntarily")
	}
}

// healthy counts validators that are active, not slashed and not exiting (used to keep chains alive).
func (c *Chain) healthy(flats []common.FlatValidator, e common.Epoch) int {
	n := 0
	for i := range flats {
		f := &flats[i]
		if f.IsActive(e) && !f.Slashed && f.ExitEpoch == common.Epoch(FarFuture) && !c.exitSet[common.ValidatorIndex(i)] {
			n++
		}
	}
	return n
}

func (c *Chain) initSets() {
	vals, _ := c.St.Validators()
	flats, _ := common.FlattenValidators(vals)
	for i := range flats {
		if flats[i].ActivationEpoch != common.Epoch(FarFuture) {
			c.activated[common.ValidatorIndex(i)] = true
		}
	}
	c.lastFin, _ = c.St.FinalizedCheckpoint()
	c.lastJust, _ = c.St.CurrentJustifiedCheckpoint()
	c.initialVals = len(flats)
}

// notePartial: a failed run may have processed slots (and rotated sync committees) before it failed; whoever replays it
// needs those aggregates too.
func (c *Chain) notePartial(res *RunResult) {
	if res.Partial == nil {
		return
	}
	defer func() { recover() }()
	c.noteState(res.Partial)
}

// noteState records the sync-committee aggregates a recorded state contains (AGG table), computed independently of zrnt.
func (c *Chain) noteState(st common.BeaconState) {
	ss, ok := Unwrap(st).(common.SyncCommitteeBeaconState)
	if !ok {
		return
	}
	for k, get := range []func() (*common.SyncCommitteeView, error){ss.CurrentSyncCommittee, ss.NextSyncCommittee} {
		v, err := get()
		if err != nil {
			panic(err)
		}
		root := v.HashTreeRoot(hFn())
		if c.aggDone[root] {
			continue
		}
		c.aggDone[root] = true
		pv, err := v.Pubkeys()
		if err != nil {
			panic(err)
		}
		pubs, err := pv.Flatten()
		if err != nil {
			panic(err)
		}
		agg, err := c.BLS.Aggregate(pubs)
		if err != nil {
			c.problem("sync committee %d of a state holds an invalid pubkey: %v", k, err)
			continue
		}
		have, _ := v.AggregatePubkey()
		if have != agg {
			c.problem("state sync committee aggregate pubkey %x differs from independently computed %x", have[:], agg[:])
		}
		c.Stats.Inc("sync_committees_seen")
	}
}

// onEpochBoundary updates the measured distribution after the head crossed one or more epoch boundaries.
func (c *Chain) onEpochBoundary(ended common.Epoch) {
	sp := c.Spec
	st := c.St
	cur := c.Epoch()
	c.Stats.Add("epoch_transitions", int(cur-ended))
	vals, _ := st.Validators()
	flats, _ := common.FlattenValidators(vals)
	fin, _ := st.FinalizedCheckpoint()
	just, _ := st.CurrentJustifiedCheckpoint()
	if fin.Epoch > c.lastFin.Epoch {
		c.Stats.Inc("epochs_finality_advanced")
		c.Stats.Max("max_finalized_epoch", int(fin.Epoch))
	}
	if just.Epoch > c.lastJust.Epoch {
		c.Stats.Inc("epochs_justification_advanced")
	}
	c.lastFin, c.lastJust = fin, just
	c.justified[just.Epoch] = true
	if pj, err := st.PreviousJustifiedCheckpoint(); err == nil {
		c.justified[pj.Epoch] = true
	}
	// leak (as of the transition that ended `cur-1`)
	prev := (cur - 1).Previous()
	if prev > fin.Epoch && prev-fin.Epoch > sp.MIN_EPOCHS_TO_INACTIVITY_PENALTY {
		// the fork whose epoch processing applied the leak: the one of the epoch that ended
		lf := c.forkAtEpoch(cur - 1)
		if lf == Phase0 && cur >= 2 && c.wrongTargetIncluded[cur-2] > 0 {
			// the phase0 transition that ended epoch cur-1 ran in a leak and its previous epoch (cur-2) has included votes
			// with the right source and a non-canonical target
			c.Stats.Inc("phase0_leak_epochs_with_wrong_target_votes")
		}
		c.Stats.Inc("epochs_in_leak")
		c.Stats.Inc("epochs_in_leak_" + lf.String())
		c.leakForks[lf] = true
	}
	ejected, activated, penalised := 0, 0, 0
	var maxExit common.Epoch
	for i := range flats {
		f := &flats[i]
		vi := common.ValidatorIndex(i)
		if f.ExitEpoch != common.Epoch(FarFuture) {
			if !c.exitSet[vi] {
				c.exitSet[vi] = true
				ejected++
			}
			if f.ExitEpoch > maxExit {
				maxExit = f.ExitEpoch
			}
		}
		if f.ActivationEpoch != common.Epoch(FarFuture) && !c.activated[vi] {
			c.activated[vi] = true
			activated++
		}
		if f.Slashed {
			for e := ended; e < cur; e++ {
				if e+sp.EPOCHS_PER_SLASHINGS_VECTOR/2 == f.WithdrawableEpoch {
					penalised++
				}
			}
		}
	}
	if ejected > 0 {
		c.Stats.Inc("epochs_with_ejections")
		c.Stats.Add("validators_ejected", ejected)
		c.Stats.Max("max_ejections_in_one_epoch", ejected)
		if ejected > int(sp.GetChurnLimit(uint64(len(c.Epc.PreviousEpoch.ActiveIndices)))) {
			c.Stats.Inc("epochs_ejections_exceed_churn")
		}
	}
	for i := range flats {
		f := &flats[i]
		if f.Slashed && f.WithdrawableEpoch >= ended && f.WithdrawableEpoch <= cur {
			// processed by an epoch transition with withdrawable_epoch == current epoch / == previous+1
			c.Stats.Inc("slashed_reaching_withdrawable_epoch")
			c.Stats.Inc("slashed_reaching_withdrawable_epoch_" + c.forkAtEpoch(cur-1).String())
		}
	}
	if activated > 0 {
		c.Stats.Inc("epochs_with_activations")
		c.Stats.Add("validators_activated", activated)
	}
	if penalised > 0 {
		c.Stats.Inc("epochs_with_slashing_penalties")
		c.Stats.Add("slashing_penalties_applied", penalised)
		// own arithmetic: was the correlation penalty of this transition in the band where min(sum*multiplier, total) clamps
		// (sum*multiplier > total > sum), with a penalised validator keeping some balance?
		func() {
			defer func() { recover() }()
			sl, err := st.Slashings()
			if err != nil || cur != ended+1 {
				return
			}
			var sum, total common.Gwei
			for e := common.Epoch(0); e < sp.EPOCHS_PER_SLASHINGS_VECTOR; e++ {
				if e == cur%sp.EPOCHS_PER_SLASHINGS_VECTOR {
					continue // reset by this very transition (after the penalties)
				}
				v, err := sl.GetSlashingsValue(e)
				if err != nil {
					return
				}
				sum += v
			}
			for i := range flats {
				if f := &flats[i]; f.ActivationEpoch <= ended && ended < f.ExitEpoch {
					eff := f.EffectiveBalance
					if i < len(c.prevEff) {
						eff = c.prevEff[i] // as it was when the penalties were computed
					}
					total += eff
				}
			}
			mult := common.Gwei(sp.PROPORTIONAL_SLASHING_MULTIPLIER)
			switch fk := StateFork(st); {
			case fk >= Bellatrix:
				mult = common.Gwei(sp.PROPORTIONAL_SLASHING_MULTIPLIER_BELLATRIX)
			case fk >= Altair:
				mult = common.Gwei(sp.PROPORTIONAL_SLASHING_MULTIPLIER_ALTAIR)
			}
			if total > 0 {
				c.Stats.Max("max_slashings_sum_permille_of_total_at_penalty_epoch", int(sum*1000/total))
			}
			if !(sum*mult > total && total > sum) {
				return
			}
			c.Stats.Inc("slashing_penalty_epochs_in_clamp_band")
			bals, err := st.Balances()
			if err != nil {
				return
			}
			for i := range flats {
				if f := &flats[i]; f.Slashed && ended+sp.EPOCHS_PER_SLASHINGS_VECTOR/2 == f.WithdrawableEpoch {
					if b, err := bals.GetBalance(common.ValidatorIndex(i)); err == nil && b > 0 {
						c.Stats.Inc("slashing_penalty_in_clamp_band")
						c.Stats.Inc("slashing_penalty_in_clamp_band." + StateFork(st).String())
						return
					}
				}
			}
		}()
	}
	if q := sp.ComputeActivationExitEpoch(cur); maxExit >= q {
		c.Stats.Max("max_exit_queue_span", int(maxExit-q)+1)
	}
	// pending activation queue length
	pend := 0
	for i := range flats {
		f := &flats[i]
		if f.ActivationEligibilityEpoch != common.Epoch(FarFuture) && f.ActivationEpoch == common.Epoch(FarFuture) {
			pend++
		}
	}
	c.Stats.Max("max_activation_queue", pend)
	{
		// waiting validators whose eligibility epoch is reached: more than 12, eligibility epochs not monotone in index
		// order, and finality already beyond the lowest of them (so the churn-limited dequeuing has to break ties by index)
		var keys []common.Epoch
		for i := range flats {
			f := &flats[i]
			if f.ActivationEpoch == common.Epoch(FarFuture) && f.ActivationEligibilityEpoch <= cur {
				keys = append(keys, f.ActivationEligibilityEpoch)
			}
		}
		mono := true
		lowest := common.Epoch(FarFuture)
		for i, k := range keys {
			if i > 0 && k < keys[i-1] {
				mono = false
			}
			if k < lowest {
				lowest = k
			}
		}
		if len(keys) > 12 && !mono && fin.Epoch >= lowest {
			c.Stats.Inc("activation_queue_over_12_non_monotone")
		}
	}
	// sync committee rotation
	if ss, ok := st.(common.SyncCommitteeBeaconState); ok {
		nv, _ := ss.NextSyncCommittee()
		r := nv.HashTreeRoot(hFn())
		if c.lastNextSync != (common.Root{}) && r != c.lastNextSync {
			c.Stats.Inc("sync_committee_rotations")
		}
		if cur%sp.EPOCHS_PER_SYNC_COMMITTEE_PERIOD == 0 {
			c.Stats.Inc("sync_period_boundaries")
			for _, fe := range []common.Epoch{sp.ALTAIR_FORK_EPOCH, sp.BELLATRIX_FORK_EPOCH, sp.CAPELLA_FORK_EPOCH, sp.DENEB_FORK_EPOCH} {
				if fe == cur {
					c.Stats.Inc("sync_period_boundary_at_fork")
					break
				}
			}
		}
		c.lastNextSync = r
	}
	// active-set change exactly at the epoch the next sync committee is drawn from
	if cur == ended+1 {
		f := sp.ALTAIR_FORK_EPOCH
		count := func(e common.Epoch) int {
			k := 0
			for i := range flats {
				if flats[i].ActivationEpoch == e || flats[i].ExitEpoch == e {
					k++
				}
			}
			return k
		}
		if cur%sp.EPOCHS_PER_SYNC_COMMITTEE_PERIOD == 0 && cur >= f+1 && count(cur) > 0 {
			// computed by the transition that ended cur-1 (an altair+ state) from the active set of epoch cur
			c.Stats.Inc("sync_period_boundaries_with_active_set_change")
			c.Stats.Inc("sync_period_boundaries_with_active_set_change_" + c.forkAtEpoch(cur-1).String())
		}
		if cur == f && f > 0 && f%sp.EPOCHS_PER_SYNC_COMMITTEE_PERIOD == 0 {
			c.Stats.Inc("altair_fork_on_sync_period_boundary")
		}
		if cur == f && count(f+1) > 0 {
			// upgrade_to_altair draws both committees from the active set of epoch fork+1
			c.Stats.Inc("altair_upgrade_with_active_set_change")
		}
	}
	c.samplingCounters(st, flats, ended, cur)
	c.proposerSensitivity(st, flats, ended, cur)
	c.noteState(st)
}

// proposerSensitivity: would the proposers of the new epoch be different if they were sampled with the effective balances
// from BEFORE this epoch transition? (They must be sampled with the new ones.)
func (c *Chain) proposerSensitivity(st common.BeaconState, flats []common.FlatValidator, ended, cur common.Epoch) {
	old := c.prevEff
	c.prevEff = make([]common.Gwei, len(flats))
	for i := range flats {
		c.prevEff[i] = flats[i].EffectiveBalance
	}
	if old == nil || cur != ended+1 {
		return
	}
	inc := c.Spec.EFFECTIVE_BALANCE_INCREMENT
	big := 0
	changed := false
	for i := range flats {
		if i >= len(old) || !flats[i].IsActive(cur) {
			continue
		}
		o, n := old[i], flats[i].EffectiveBalance
		if o != n {
			changed = true
		}
		if o >= n+8*inc || n >= o+8*inc {
			big++
		}
	}
	if big > 0 {
		c.Stats.Inc("epochs_active_effbal_changed_8_increments")
		c.Stats.Max("max_active_validators_effbal_changed_8_increments", big)
	}
	if !changed {
		return
	}
	defer func() { recover() }()
	// own transcription of compute_proposer_index, once with the pre-transition and once with the new effective balances
	active := specActive(flats, cur)
	oldEff := make([]common.Gwei, len(flats))
	for i := range flats {
		oldEff[i] = flats[i].EffectiveBalance
		if i < len(old) {
			oldEff[i] = old[i]
		}
	}
	with, _, err := specProposers(c.Spec, st, oldEff, active, cur)
	if err != nil || with == nil {
		return
	}
	now, _, err := specProposers(c.Spec, st, c.prevEff, active, cur)
	if err != nil || now == nil {
		return
	}
	for i := range now {
		if now[i] != with[i] {
			c.Stats.Inc("epochs_proposers_sensitive_to_effbal_change")
			c.Stats.Inc("epochs_proposers_sensitive_to_effbal_change_" + StateFork(st).String())
			break
		}
	}
	// the same question for the sync committee drawn by this transition (period boundary in an altair+ stretch)
	sp := c.Spec
	if f := sp.ALTAIR_FORK_EPOCH; cur > f && cur%sp.EPOCHS_PER_SYNC_COMMITTEE_PERIOD == 0 {
		a, _, _, err1 := specSyncCommittee(sp, st, oldEff, active, cur)
		b, _, _, err2 := specSyncCommittee(sp, st, c.prevEff, active, cur)
		if err1 == nil && err2 == nil && len(a) == len(b) {
			for i := range a {
				if a[i] != b[i] {
					lf := c.forkAtEpoch(cur - 1)
					c.Stats.Inc("sync_sampling_sensitive_to_effbal_update")
					c.Stats.Inc("sync_sampling_sensitive_to_effbal_update_" + lf.String())
					break
				}
			}
		}
	}
}

func (c *Chain) forkAtEpoch(e common.Epoch) ForkID {
	sp := c.Spec
	switch {
	case e >= sp.DENEB_FORK_EPOCH:
		return Deneb
	case e >= sp.CAPELLA_FORK_EPOCH:
		return Capella
	case e >= sp.BELLATRIX_FORK_EPOCH:
		return Bellatrix
	case e >= sp.ALTAIR_FORK_EPOCH:
		return Altair
	}
	return Phase0
}

// samplingCounters re-runs the specification's two balance-weighted sampling loops (own transcriptions, specfn.go) and counts
// how many candidates they look at.
func (c *Chain) samplingCounters(st common.BeaconState, flats []common.FlatValidator, ended, cur common.Epoch) {
	sp := c.Spec
	if cur != ended+1 {
		return
	}
	defer func() { recover() }()
	eff := make([]common.Gwei, len(flats))
	for i := range flats {
		eff[i] = flats[i].EffectiveBalance
	}
	// get_next_sync_committee_indices as it ran for this boundary
	f := sp.ALTAIR_FORK_EPOCH
	var base common.Epoch
	do := false
	switch {
	case cur == f:
		base, do = cur+1, true // upgrade_to_altair: epoch of the state + 1
	case cur > f && cur%sp.EPOCHS_PER_SYNC_COMMITTEE_PERIOD == 0:
		base, do = cur, true // computed by the transition that ended cur-1
	}
	if do {
		active := specActive(flats, base)
		mine, examined, rejected, err := specSyncCommittee(sp, st, eff, active, base)
		if err == nil && len(mine) == int(sp.SYNC_COMMITTEE_SIZE) {
			// consecutive committees (own transcription): the same members, each as often, at other positions
			if prev := c.prevSyncDraw; len(prev) == len(mine) {
				a := append([]common.ValidatorIndex(nil), prev...)
				b := append([]common.ValidatorIndex(nil), mine...)
				sort.Slice(a, func(i, j int) bool { return a[i] < a[j] })
				sort.Slice(b, func(i, j int) bool { return b[i] < b[j] })
				sameSet, sameOrder := true, true
				for i := range a {
					sameSet = sameSet && a[i] == b[i]
					sameOrder = sameOrder && prev[i] == mine[i]
				}
				if sameSet && !sameOrder {
					c.Stats.Inc("consecutive_sync_committees_same_multiset_different_order")
				}
			}
			c.prevSyncDraw = mine
			// the state's next committee lists exactly these validators' keys in this order
			if ss, ok := st.(common.SyncCommitteeBeaconState); ok {
				if nv, e1 := ss.NextSyncCommittee(); e1 == nil {
					if pv, e2 := nv.Pubkeys(); e2 == nil {
						if pubs, e3 := pv.Flatten(); e3 == nil && len(pubs) == len(mine) {
							for i, v := range mine {
								if int(v) >= len(c.Vals) || PubOf(c.Vals[v].Key) != pubs[i] {
									c.Stats.Inc("own_next_sync_committee_differs_from_state")
									break
								}
							}
						}
					}
				}
			}
		}
		if n := uint64(len(active)); err == nil && n > 0 {
			c.Stats.Max("max_sync_sampling_candidates_over_active_permille", int(examined*1000/n))
			if examined > n {
				c.Stats.Inc("sync_sampling_wrapped_candidates")
				if rejected > 0 {
					// more candidates than active validators AND balance-dependent rejections: the byte stream must go on
					c.Stats.Inc("sync_sampling_wrapped_with_rejections")
				}
			}
		}
	}
	// compute_proposer_index of every slot of the new epoch
	props, maxRow, err := specProposers(sp, st, eff, specActive(flats, cur), cur)
	if err == nil && c.Epc != nil && c.Epc.Proposers != nil && len(props) == len(c.Epc.Proposers.Proposers) {
		// informational cross-check of the transcription against the live context (differs under context defects)
		for i := range props {
			if props[i] != c.Epc.Proposers.Proposers[i] {
				c.Stats.Inc("own_proposers_differ_from_live_context")
				break
			}
		}
	}
	if err == nil {
		c.Stats.Max("max_proposer_sampling_rejections_in_a_row", maxRow)
		if maxRow >= 2 {
			c.Stats.Inc("proposer_sampling_rejections_in_a_row")
		}
	}
}
