package chaingen

import (
	"fmt"

	"github.com/protolambda/zrnt/eth2/beacon/common"
)

var Scenarios = map[string]*Scenario{}
var ScenarioOrder []string

func register(s *Scenario) {
	Scenarios[s.Name] = s
	ScenarioOrder = append(ScenarioOrder, s.Name)
}

// forkEpochsInside lists the configured fork epochs that fall inside the chain.
func (c *Chain) forkEpochsInside() []common.Epoch {
	var out []common.Epoch
	for _, fe := range []common.Epoch{c.Spec.ALTAIR_FORK_EPOCH, c.Spec.BELLATRIX_FORK_EPOCH, c.Spec.CAPELLA_FORK_EPOCH, c.Spec.DENEB_FORK_EPOCH} {
		if uint64(fe) < uint64(c.Epochs) {
			out = append(out, fe)
		}
	}
	return out
}

func expect(ok bool, out *[]string, format string, a ...interface{}) {
	if !ok {
		*out = append(*out, fmt.Sprintf(format, a...))
	}
}

// commonChecks: every fork inside the schedule was reached and produced blocks.
func commonChecks(c *Chain, out *[]string) {
	sp := c.Spec
	reach := []struct {
		f  ForkID
		fe common.Epoch
	}{{Altair, sp.ALTAIR_FORK_EPOCH}, {Bellatrix, sp.BELLATRIX_FORK_EPOCH}, {Capella, sp.CAPELLA_FORK_EPOCH}, {Deneb, sp.DENEB_FORK_EPOCH}}
	for i, r := range reach {
		if uint64(r.fe) >= uint64(c.Epochs) {
			continue
		}
		// a fork that is immediately superseded (equal epochs) has no blocks
		if i+1 < len(reach) && reach[i+1].fe == r.fe {
			continue
		}
		// a fork that lasts a single epoch can stay without blocks when its proposers are slashed
		if i+1 < len(reach) && reach[i+1].fe == r.fe+1 && c.Stats.Get("slots_skipped_slashed_proposer") > 0 {
			continue
		}
		// (with SHUFFLE_ROUND_COUNT 0 one slashed validator is the proposer of every slot until it exits)
		if c.Stats.Get("slots_skipped_slashed_proposer") >= int(sp.SLOTS_PER_EPOCH) {
			continue
		}
		expect(c.Stats.Get(r.f.String()+".blocks") > 0, out, "no %s block although the fork epoch %d is inside the chain", r.f, r.fe)
	}
	expect(c.Stats.Get("honest_rejected") == 0, out, "honest blocks were rejected")
}

func init() {
	register(&Scenario{
		Name:  "basic",
		Knobs: SpecKnobs{AllForksInside: true, TwoAttesterSlashings: true},
		Gen:   GenesisKnobs{MinVals: 48, MaxVals: 96, Eth1Share: 30, AboveShare: 12, BelowShare: 8},
		Rates: OpRates{Exit: 8, PSlash: 4, ASlash: 4, BLSChange: 20, Deposit: 10},
		Init: func(c *Chain) {
			c.SpareShare = 65
			c.VoteAlways = true
			c.NoSkipBeforePhase0Deposit = true
			c.SlashExiting = true
		},
		BeforeBlock: func(c *Chain, p *ProposeCtx) {
			// every operation kind at least once in every fork: add what this fork has not seen yet
			f := p.Fork.String()
			n := len(p.Flats)
			try := func(op string, add func(v common.ValidatorIndex) bool) {
				if c.Stats.Get(f+"."+op) > 0 {
					return
				}
				for t := 0; t < 30; t++ {
					if add(common.ValidatorIndex(c.Rng.Intn(n))) {
						return
					}
				}
			}
			try("exit", p.AddExit)
			try("pslash", p.AddProposerSlashing)
			if c.Vars["aslash_overlap"] == 0 && p.Epoch >= 1 && p.AddOverlappingAttesterSlashings() {
				// once per chain: two attester slashings with overlapping index sets in one block
				c.Vars["aslash_overlap"] = 1
			}
			try("aslash", func(v common.ValidatorIndex) bool {
				return p.AddAttesterSlashing([]common.ValidatorIndex{v}, c.Rng.Bool())
			})
			if p.Fork >= Capella {
				try("blschange", p.AddBLSChange)
			}
			if c.Stats.Get(f+".deposit") == 0 && c.Vars["dep_"+f] == 0 {
				c.Vars["dep_"+f] = 1
				c.NewDepositor(c.fractionalAboveMax(), c.Rng.Chance(40))
				if c.Stats.Get("zero_amount_depositors_queued") == 0 {
					c.ZeroAmountDepositor()
				} else {
					c.NewDepositor(c.Spec.MAX_EFFECTIVE_BALANCE, c.Rng.Chance(40))
				}
				c.TopUp(common.ValidatorIndex(c.Rng.Intn(len(c.Vals))), c.Spec.MIN_DEPOSIT_AMOUNT+c.Spec.EFFECTIVE_BALANCE_INCREMENT/4)
				c.Stats.Add("deposits_queued", 3)
			}
		},
		Mode: func(c *Chain, e common.Epoch) string {
			if c.Rng.Chance(65) {
				return "full"
			}
			return pick(c.Rng, "mostly", "mixed", "boundary_hi", "boundary_hi", "boundary_lo", "late")
		},
		Check: func(c *Chain) (out []string) {
			commonChecks(c, &out)
			if c.Epochs >= 6 {
				expect(c.Stats.Get("epochs_justification_advanced") >= 2, &out, "justification advanced only %d times", c.Stats.Get("epochs_justification_advanced"))
				expect(c.Stats.Get("epochs_finality_advanced") >= 1, &out, "finality never advanced")
			}
			return
		},
	})

	register(&Scenario{
		Name:  "exits_then_ejection",
		Knobs: SpecKnobs{AllForksInside: true, StrongPenalty: true, HugeRewards: true, EjectionNear: true, SmallChurn: true},
		Gen:   GenesisKnobs{MinVals: 24, MaxVals: 64, AllMax: true, Eth1Share: 40},
		Rates: OpRates{BLSChange: 5},
		Init: func(c *Chain) {
			// n/4+3 validators never attest (nor sign sync messages): with the large base reward their effective balance drops
			// below the ejection balance at the end of epoch 1 and they are ejected together at the end of epoch 2 — behind
			// the voluntary exits queued at epoch SHARD_COMMITTEE_PERIOD (1 or 2)
			n := len(c.Vals)
			for i := 0; i < n/4+3; i++ {
				v := c.Rng.Intn(n)
				c.Vars[fmt.Sprintf("lazy%d", v)] = 1
				c.Absent[common.ValidatorIndex(v)] = true
			}
			c.Vars["exit_epoch"] = int(c.Spec.SHARD_COMMITTEE_PERIOD)
		},
		Mode: func(c *Chain, e common.Epoch) string { return "full" },
		BeforeBlock: func(c *Chain, p *ProposeCtx) {
			ee := common.Epoch(c.Vars["exit_epoch"])
			if p.Epoch >= ee && c.Vars["exits_done"] < 7 {
				// several exits at once so that the queue spans epochs (churn limit 2)
				for i := 0; i < len(p.Flats) && c.Vars["exits_done"] < 7; i++ {
					v := common.ValidatorIndex((i*7 + 3) % len(p.Flats))
					if c.Vars[fmt.Sprintf("lazy%d", v)] == 1 {
						continue
					}
					if p.AddExit(v) {
						c.Vars["exits_done"]++
					}
				}
			}
		},
		Check: func(c *Chain) (out []string) {
			commonChecks(c, &out)
			expect(c.Stats.Get("validators_exited_voluntarily") >= 3, &out, "only %d voluntary exits", c.Stats.Get("validators_exited_voluntarily"))
			expect(c.Stats.Get("max_exit_queue_span") >= 2, &out, "exit queue never spanned epochs (span %d)", c.Stats.Get("max_exit_queue_span"))
			expect(c.Stats.Get("validators_ejected") >= 1, &out, "nobody was ejected")
			expect(c.Stats.Get("epochs_ejections_exceed_churn") >= 1, &out, "never more ejections in one epoch than the churn limit (max %d)", c.Stats.Get("max_ejections_in_one_epoch"))
			return
		},
	})

	register(&Scenario{
		Name:      "mass_slashing",
		Knobs:     SpecKnobs{AllForksInside: true, SmallChurn: true, PenaltyWhileActive: true},
		MinEpochs: 11,
		Gen:       GenesisKnobs{MinVals: 24, MaxVals: 96, Eth1Share: 30, AboveShare: 40, AboveBoost: 8, BelowShare: 5}, // balances 8-12 ETH above the cap: something is left after a full correlation penalty
		Rates:     OpRates{Exit: 2, BLSChange: 5},
		Init: func(c *Chain) {
			c.Vars["slash_epoch"] = 1
			// more than a third of the registry (multiplier 3 in every fork of this scenario): the correlation penalty
			// min(sum*3, total) clamps at `total`
			c.Vars["slash_target"] = len(c.Vals)/3 + 3 + c.Rng.Intn(len(c.Vals)/8+1)
		},
		Mode: func(c *Chain, e common.Epoch) string { return "full" },
		BeforeBlock: func(c *Chain, p *ProposeCtx) {
			if int(p.Epoch) < c.Vars["slash_epoch"] || c.Stats.Get("validators_slashed") >= c.Vars["slash_target"] {
				return
			}
			n := len(p.Flats)
			churn := int(c.Spec.GetChurnLimit(uint64(len(p.Epc.CurrentEpoch.ActiveIndices))))
			// the first slashing block hits 2*churn+1 (or more) validators with ONE attester slashing: the exit queue
			// advances twice inside the block
			size := 2 + c.Rng.Intn(8)
			if c.Vars["big_done"] == 0 {
				// large: all but the first `churn` of them get an exit epoch later than penalty epoch + 1, so the correlation
				// penalty (multiplier 3, about a third of the stake slashed) empties their balance while they are still active
				size = 2*churn + 5 + c.Rng.Intn(4)
			}
			for k := 0; k < int(c.Spec.MAX_ATTESTER_SLASHINGS); k++ {
				var vs []common.ValidatorIndex
				for t := 0; t < 8*size && len(vs) < size; t++ {
					v := common.ValidatorIndex(c.Rng.Intn(n))
					if p.slashable(v) && !p.used[v] && v != p.B.ProposerIndex {
						vs = dedup(append(vs, v))
					}
				}
				before := p.Ops["aslash_validators"]
				if p.AddAttesterSlashing(vs, c.Rng.Chance(50)) && p.Ops["aslash_validators"]-before >= 2*churn+1 {
					c.Vars["big_done"] = 1
				}
				size = 2 + c.Rng.Intn(8)
			}
			for k := 0; k < 2; k++ {
				p.AddProposerSlashing(common.ValidatorIndex(c.Rng.Intn(n)))
			}
		},
		Check: func(c *Chain) (out []string) {
			commonChecks(c, &out)
			expect(c.Stats.Get("validators_slashed") >= c.initialVals/5, &out, "only %d of %d validators slashed", c.Stats.Get("validators_slashed"), c.initialVals)
			expect(c.Stats.Get("epochs_with_slashing_penalties") >= 1, &out, "no epoch applied correlated slashing penalties")
			if c.Epochs >= 11 {
				expect(c.Stats.Get("slashing_penalty_in_clamp_band") >= 1, &out, "no correlation penalty in the band sum*multiplier > total > sum")
			}
			expect(c.Stats.Get("blocks_exit_queue_advanced_twice") >= 1, &out, "no block initiated 2*churn+1 exits at once (max %d)", c.Stats.Get("max_exits_initiated_in_one_block"))
			if c.Epochs >= 11 {
				expect(c.Stats.Get("slashed_reaching_withdrawable_epoch") >= 1, &out, "no slashed validator reached its withdrawable epoch")
				expect(c.Stats.Get("epochs_active_effbal_changed_8_increments") >= 1, &out, "no active validator lost 8 increments of effective balance at one boundary")
				expect(c.Stats.Get("epochs_proposers_sensitive_to_effbal_change") >= 1, &out, "proposer sampling never depended on the effective-balance update of the boundary")
			}
			return
		},
	})

	register(&Scenario{
		Name:  "leak_across_fork",
		Knobs: SpecKnobs{AllForksInside: true, ShortLeak: true, StrongPenalty: true},
		Rates: OpRates{Exit: 2, PSlash: 1, ASlash: 1, BLSChange: 5, Deposit: 2},
		Init: func(c *Chain) {
			fes := c.forkEpochsInside()
			min := int(c.Spec.MIN_EPOCHS_TO_INACTIVITY_PENALTY)
			// the leak is visible from (first unfinalized epoch + min + 2) on and must reach beyond a fork epoch
			var fit []common.Epoch
			for _, f := range fes {
				if int(f) >= min+3 && int(f)+2 <= c.Epochs-1 {
					fit = append(fit, f)
				}
			}
			f := fes[len(fes)-1]
			if len(fit) > 0 {
				f = fit[c.Rng.Intn(len(fit))]
			}
			start := int(f) - min - 3 - c.Rng.Intn(2)
			if start < 1 {
				start = 1
			}
			c.Vars["leak_start"] = start
			c.Vars["leak_end"] = int(f) + 1 + c.Rng.Intn(2)
			if len(fit) == 0 {
				// all forks are too early for a leak to begin before them (the first leak epoch is min+2): leak after them
				c.Vars["no_fit"] = 1
				c.Vars["leak_end"] = start + min + 4
			}
		},
		Mode: func(c *Chain, e common.Epoch) string {
			if int(e) >= c.Vars["leak_start"] && int(e) < c.Vars["leak_end"] {
				return pick(c.Rng, "none", "minority", "boundary_lo", "wrong_target")
			}
			return "full"
		},
		Check: func(c *Chain) (out []string) {
			commonChecks(c, &out)
			expect(c.Stats.Get("epochs_in_leak") >= 2, &out, "only %d epochs in leak", c.Stats.Get("epochs_in_leak"))
			nf := 0
			for _, b := range c.leakForks {
				if b {
					nf++
				}
			}
			if c.Vars["no_fit"] == 0 {
				expect(nf >= 2, &out, "leak did not span a fork boundary (forks in leak: %d)", nf)
			}
			return
		},
	})

	register(&Scenario{
		Name:  "deposits_mid_epoch",
		Knobs: SpecKnobs{AllForksInside: true, FastEth1: true},
		Rates: OpRates{Exit: 2, BLSChange: 5, Deposit: 35},
		Init:  func(c *Chain) { c.VoteAlways = c.Rng.Chance(60) },
		Mode: func(c *Chain, e common.Epoch) string {
			if c.Rng.Chance(80) {
				return "full"
			}
			return "mostly"
		},
		Check: func(c *Chain) (out []string) {
			commonChecks(c, &out)
			expect(c.Stats.Get("validators_added_by_deposit") >= 1, &out, "no deposit added a validator")
			expect(c.Stats.Get("validators_added_mid_epoch") >= 1, &out, "no validator was added mid-epoch")
			return
		},
	})

	register(&Scenario{
		Name:  "sync_boundary_at_fork",
		Knobs: SpecKnobs{AllForksInside: true, SyncAtFork: true},
		Rates: OpRates{Exit: 3, PSlash: 2, ASlash: 2, BLSChange: 10, Deposit: 4},
		Mode:  func(c *Chain, e common.Epoch) string { return pick(c.Rng, "full", "full", "mostly") },
		Check: func(c *Chain) (out []string) {
			commonChecks(c, &out)
			expect(c.Stats.Get("sync_period_boundary_at_fork") >= 1, &out, "no sync period boundary coincided with a fork epoch")
			if c.Spec.SHUFFLE_ROUND_COUNT > 0 { // without shuffling the committee is always the first eligible validators
				expect(c.Stats.Get("sync_committee_rotations") >= 1, &out, "sync committee never rotated")
			}
			return
		},
	})

	// every sync committee is the whole registry (16 or 32 validators at the maximum, SYNC_COMMITTEE_SIZE 32: no candidate is ever
	// rejected), consecutive committees differ in ORDER only; nothing changes the registry
	register(&Scenario{
		Name:  "sync_same_multiset",
		Knobs: SpecKnobs{AllForksInside: true, SameMultiset: true, ForkBias: "early"},
		Gen:   GenesisKnobs{MinVals: 16, MaxVals: 32, SameMultiset: true, AllMax: true, Eth1Share: 30},
		Rates: OpRates{},
		Init: func(c *Chain) {
			c.NoDoubleVotes = true
			c.VoteAlways = true
			c.QuietRegistry = true
		},
		Mode:     func(c *Chain, e common.Epoch) string { return "full" },
		SyncMode: func(c *Chain, s common.Slot) string { return pick(c.Rng, "most", "most", "half", "full") },
		Check: func(c *Chain) (out []string) {
			commonChecks(c, &out)
			if c.Spec.EPOCHS_PER_SYNC_COMMITTEE_PERIOD == 2 && int(c.Spec.ALTAIR_FORK_EPOCH)+4 < c.Epochs {
				expect(c.Stats.Get("consecutive_sync_committees_same_multiset_different_order") >= 1, &out, "no two consecutive sync committees with the same members in another order")
			}
			return
		},
	})

	// ALTAIR_FORK_EPOCH 0 (possibly BELLATRIX too): the phase0 genesis state is upgraded before the first block; deposits of new
	// keys are still verified under GENESIS_FORK_VERSION
	register(&Scenario{
		Name:    "forks_at_genesis",
		Knobs:   SpecKnobs{AllForksInside: true, ForkBias: "zero", FastEth1: true},
		Gen:     GenesisKnobs{MinVals: 16, MaxVals: 24, AllMax: true, Eth1Share: 30},
		Rates:   OpRates{Exit: 4, BLSChange: 10, Deposit: 50},
		SkipPct: 5,
		Init: func(c *Chain) {
			c.VoteAlways = true
			c.NewDepositor(c.Spec.MAX_EFFECTIVE_BALANCE, false)
			c.NewDepositor(c.Spec.MAX_EFFECTIVE_BALANCE, true)
			c.BadDepositorKind("wrong_domain")
			c.Stats.Add("deposits_queued", 3)
		},
		Mode: func(c *Chain, e common.Epoch) string { return "full" },
		Check: func(c *Chain) (out []string) {
			commonChecks(c, &out)
			expect(c.Spec.ALTAIR_FORK_EPOCH != 0 || c.Stats.Get("validators_added_by_deposit_with_fork_at_epoch_0") >= 1, &out, "no validator registered by deposit")
			return
		},
	})

	register(&Scenario{
		Name:  "activation_queue",
		Knobs: SpecKnobs{AllForksInside: true, SmallChurn: true, FastEth1: true},
		Gen:   GenesisKnobs{MinVals: 16, MaxVals: 48, AllMax: true, Eth1Share: 30},
		Rates: OpRates{BLSChange: 5},
		Init: func(c *Chain) {
			c.VoteAlways = true
			k := 6 + c.Rng.Intn(6)
			for i := 0; i < k; i++ {
				c.NewDepositor(c.Spec.MAX_EFFECTIVE_BALANCE, c.Rng.Chance(40))
			}
			c.Stats.Add("deposits_queued", k)
			c.Vars["stall_end"] = 3 + c.Rng.Intn(2)
			if c.Epochs >= 16 {
				c.Vars["stall_end"] = 5 + c.Rng.Intn(4)
			}
		},
		Mode: func(c *Chain, e common.Epoch) string {
			if int(e) >= 1 && int(e) < c.Vars["stall_end"] {
				return pick(c.Rng, "none", "minority")
			}
			return "full"
		},
		Check: func(c *Chain) (out []string) {
			commonChecks(c, &out)
			expect(c.Stats.Get("validators_added_by_deposit") >= 5, &out, "only %d validators added", c.Stats.Get("validators_added_by_deposit"))
			expect(c.Stats.Get("max_activation_queue") > int(c.Spec.MIN_PER_EPOCH_CHURN_LIMIT), &out, "activation queue never exceeded the churn limit (max %d)", c.Stats.Get("max_activation_queue"))
			if c.Epochs >= 16 {
				expect(c.Stats.Get("validators_activated") >= 1, &out, "no queued validator was activated")
			}
			return
		},
	})

	register(&Scenario{
		Name:  "withdrawals",
		Knobs: SpecKnobs{AllForksInside: true, SmallSweep: true},
		Gen:   GenesisKnobs{MinVals: 8, MaxVals: 40, Eth1Share: 60, AboveShare: 40, BelowShare: 5},
		Rates: OpRates{Exit: 12, PSlash: 1, ASlash: 1, BLSChange: 40, Deposit: 6},
		Mode:  func(c *Chain, e common.Epoch) string { return pick(c.Rng, "full", "full", "full", "mostly") },
		Check: func(c *Chain) (out []string) {
			commonChecks(c, &out)
			full := c.Stats.Get("capella.withdrawal_full") + c.Stats.Get("deneb.withdrawal_full")
			part := c.Stats.Get("capella.withdrawal_partial") + c.Stats.Get("deneb.withdrawal_partial")
			wrap := c.Stats.Get("capella.withdrawal_sweep_wrap") + c.Stats.Get("deneb.withdrawal_sweep_wrap")
			expect(part >= 1, &out, "no partial withdrawal")
			if c.Epochs >= 12 {
				expect(full >= 1, &out, "no full withdrawal")
			}
			expect(wrap >= 1, &out, "withdrawal sweep never wrapped around")
			return
		},
	})

	register(&Scenario{
		Name:  "all_ops_one_block",
		Knobs: SpecKnobs{AllForksInside: true, FastEth1: true},
		Gen:   GenesisKnobs{MinVals: 32, MaxVals: 96, Eth1Share: 30, AboveShare: 15, BelowShare: 5},
		Rates: OpRates{Deposit: 30},
		Init:  func(c *Chain) { c.VoteAlways = true },
		Mode:  func(c *Chain, e common.Epoch) string { return pick(c.Rng, "full", "full", "mostly") },
		BeforeBlock: func(c *Chain, p *ProposeCtx) {
			// once per fork (and again with some probability) put every operation kind into the block
			key := "allops_" + p.Fork.String()
			if c.Vars[key] >= 2 && !c.Rng.Chance(10) {
				return
			}
			if p.PendingDeposits == 0 && !c.Rng.Chance(12) {
				return // wait for a block that must carry deposits
			}
			n := len(p.Flats)
			okP, okA, okE := false, false, false
			for t := 0; t < 20 && !okP; t++ {
				okP = p.AddProposerSlashing(common.ValidatorIndex(c.Rng.Intn(n)))
			}
			for t := 0; t < 20 && !okA; t++ {
				okA = p.AddAttesterSlashing(dedup([]common.ValidatorIndex{common.ValidatorIndex(c.Rng.Intn(n)), common.ValidatorIndex(c.Rng.Intn(n))}), c.Rng.Bool())
			}
			for t := 0; t < 40 && !okE; t++ {
				okE = p.AddExit(common.ValidatorIndex(c.Rng.Intn(n)))
			}
			okB := p.Fork < Capella
			for t := 0; t < 40 && !okB; t++ {
				okB = p.AddBLSChange(common.ValidatorIndex(c.Rng.Intn(n)))
			}
			if okP && okA && okE && okB {
				c.Vars[key]++
			}
		},
		Check: func(c *Chain) (out []string) {
			commonChecks(c, &out)
			expect(c.Stats.Get("blocks_with_all_ops") >= 1, &out, "no block carried every operation kind of its fork")
			return
		},
	})

	register(&Scenario{
		Name:    "eth1_votes",
		Knobs:   SpecKnobs{AllForksInside: true},
		Rates:   OpRates{Exit: 3, PSlash: 1, ASlash: 1, BLSChange: 10, Deposit: 12},
		SkipPct: 6,
		Init:    func(c *Chain) { c.Eth1HalfPattern = true },
		Mode:    func(c *Chain, e common.Epoch) string { return pick(c.Rng, "full", "full", "mostly") },
		Check: func(c *Chain) (out []string) {
			commonChecks(c, &out)
			half, stay := 0, 0
			for _, f := range ForkNames {
				half += c.Stats.Get(f + ".eth1_vote_reaches_exactly_half")
				stay += c.Stats.Get(f + ".eth1_vote_while_other_at_exactly_half")
			}
			expect(half >= 1, &out, "no eth1 vote count reached exactly half of the period")
			expect(stay >= 1, &out, "no block voted while another value sat at exactly half")
			return
		},
	})

	// genesis: C13 stream only (adversarial deposit lists through GenesisFromEth1); with --scenario genesis a chain follows
	register(&Scenario{
		Name:  "genesis",
		Knobs: SpecKnobs{AllForksInside: true},
		Rates: OpRates{Exit: 3, Deposit: 5},
		Mode:  func(c *Chain, e common.Epoch) string { return "full" },
	})
}
