package chaingen

import (
	"crypto/sha256"
	"encoding/hex"
	"encoding/json"
	"fmt"
	"os"
	"path/filepath"
	"sort"
	"strings"

	"github.com/protolambda/zrnt/eth2/beacon/common"
)

// Recorder writes one chain directory.
type Recorder struct {
	Dir   string
	Spec  *common.Spec
	lines []string

	blobID   map[[32]byte]string // content hash -> declared id (states and blocks) or file (others)
	nState   int
	nBlk     int
	nOther   int
	Bytes    int64
	stateFk  map[string]ForkID
	blkFk    map[string]ForkID
	stateRaw map[string][]byte // kept in memory for sampling streams (C03/C18); dropped by DropCache
	blkRaw   map[string][]byte
}

func NewRecorder(dir string, spec *common.Spec) (*Recorder, error) {
	if err := os.MkdirAll(filepath.Join(dir, "data"), 0o755); err != nil {
		return nil, err
	}
	return &Recorder{Dir: dir, Spec: spec, blobID: map[[32]byte]string{}, stateFk: map[string]ForkID{}, blkFk: map[string]ForkID{},
		stateRaw: map[string][]byte{}, blkRaw: map[string][]byte{}}, nil
}

func (r *Recorder) Comment(s string) { r.lines = append(r.lines, "# "+s) }

// Line appends a record and returns its 1-based line number in steps.txt.
func (r *Recorder) Line(format string, a ...interface{}) int {
	r.lines = append(r.lines, fmt.Sprintf(format, a...))
	return len(r.lines)
}

func (r *Recorder) writeBlob(name string, data []byte) {
	if err := os.WriteFile(filepath.Join(r.Dir, "data", name), data, 0o644); err != nil {
		panic(err)
	}
	r.Bytes += int64(len(data))
}

// StateBytes declares (once per distinct content) a state blob and returns its id.
func (r *Recorder) StateBytes(f ForkID, data []byte) string { return r.stateDecl(f, data, nil) }

// stateDecl declares the blob; when the hash-tree-root zrnt computes for it is known it is appended as `root=<hex>`.
func (r *Recorder) stateDecl(f ForkID, data []byte, root *common.Root) string {
	h := sha256.Sum256(append([]byte{'S', byte(f)}, data...))
	if id, ok := r.blobID[h]; ok {
		return id
	}
	id := fmt.Sprintf("s%d", r.nState)
	r.nState++
	file := id + ".ssz"
	r.writeBlob(file, data)
	r.blobID[h] = id
	r.stateFk[id] = f
	r.stateRaw[id] = data
	if root != nil {
		r.Line("state %s %s data/%s root=%s", id, f, file, hex.EncodeToString(root[:]))
	} else {
		r.Line("state %s %s data/%s", id, f, file)
	}
	return id
}

func (r *Recorder) State(st common.BeaconState) string {
	root := StateRoot(st)
	return r.stateDecl(StateFork(st), EncodeState(st), &root)
}

// BlockBytes declares a SignedBeaconBlock blob of the given fork.
func (r *Recorder) BlockBytes(f ForkID, data []byte) string {
	h := sha256.Sum256(append([]byte{'B', byte(f)}, data...))
	if id, ok := r.blobID[h]; ok {
		return id
	}
	id := fmt.Sprintf("b%d", r.nBlk)
	r.nBlk++
	file := id + ".ssz"
	r.writeBlob(file, data)
	r.blobID[h] = id
	r.blkFk[id] = f
	r.blkRaw[id] = data
	r.Line("blk %s %s data/%s", id, f, file)
	return id
}

// Other writes an auxiliary file (deposit lists, epc dumps), deduplicated by content; returns the relative path.
func (r *Recorder) Other(prefix, ext string, data []byte) string {
	h := sha256.Sum256(append([]byte{'O'}, data...))
	if f, ok := r.blobID[h]; ok {
		return f
	}
	name := fmt.Sprintf("%s%d.%s", prefix, r.nOther, ext)
	r.nOther++
	r.writeBlob(name, data)
	r.blobID[h] = "data/" + name
	return "data/" + name
}

func (r *Recorder) StateRaw(id string) ([]byte, ForkID) { return r.stateRaw[id], r.stateFk[id] }
func (r *Recorder) BlockRaw(id string) ([]byte, ForkID) { return r.blkRaw[id], r.blkFk[id] }

func (r *Recorder) Finish(meta map[string]interface{}, bls *BLSTable) error {
	if err := os.WriteFile(filepath.Join(r.Dir, "steps.txt"), []byte(strings.Join(r.lines, "\n")+"\n"), 0o644); err != nil {
		return err
	}
	if err := WriteConfigYAML(r.Spec, filepath.Join(r.Dir, "config.yaml")); err != nil {
		return err
	}
	if err := bls.Write(filepath.Join(r.Dir, "bls.txt")); err != nil {
		return err
	}
	b, err := json.MarshalIndent(meta, "", " ")
	if err != nil {
		return err
	}
	return os.WriteFile(filepath.Join(r.Dir, "meta.json"), b, 0o644)
}

// ---- EpochsContext dump ----

func DumpEPC(epc *common.EpochsContext, valCount uint64, withPubkeys bool) []byte {
	var sb strings.Builder
	wl := func(key string, xs []common.ValidatorIndex) {
		sb.WriteString(key)
		for _, x := range xs {
			fmt.Fprintf(&sb, " %d", x)
		}
		sb.WriteByte('\n')
	}
	if epc.CurrentEpoch != nil {
		fmt.Fprintf(&sb, "current_epoch %d\n", epc.CurrentEpoch.Epoch)
	} else {
		sb.WriteString("current_epoch -\n")
	}
	shuf := func(name string, s *common.ShufflingEpoch) {
		if s == nil {
			return
		}
		wl(name+"_active", s.ActiveIndices)
		// the count the context's own getter reports for that epoch (what attestation processing checks indices against)
		if cnt, err := epc.GetCommitteeCountPerSlot(s.Epoch); err == nil {
			fmt.Fprintf(&sb, "%s_committee_count %d\n", name, cnt)
		} else {
			fmt.Fprintf(&sb, "%s_committee_count ERR\n", name)
		}
		for si, comms := range s.Committees {
			for ci, c := range comms {
				wl(fmt.Sprintf("%s_committee %d %d", name, si, ci), c)
			}
		}
	}
	shuf("prev", epc.PreviousEpoch)
	shuf("cur", epc.CurrentEpoch)
	shuf("next", epc.NextEpoch)
	if epc.Proposers != nil {
		wl("proposers", epc.Proposers.Proposers)
	} else {
		sb.WriteString("proposers\n")
	}
	sb.WriteString("effective_balances")
	for _, b := range epc.EffectiveBalances {
		fmt.Fprintf(&sb, " %d", b)
	}
	sb.WriteByte('\n')
	fmt.Fprintf(&sb, "total_active_stake %d\n", epc.TotalActiveStake)
	fmt.Fprintf(&sb, "total_active_stake_sqrt %d\n", epc.TotalActiveStakeSqRoot)
	if epc.CurrentSyncCommittee != nil {
		wl("sync_current", epc.CurrentSyncCommittee.Indices)
	}
	if epc.NextSyncCommittee != nil {
		wl("sync_next", epc.NextSyncCommittee.Indices)
	}
	if withPubkeys && epc.ValidatorPubkeyCache != nil {
		for i := uint64(0); i < valCount; i++ {
			p, ok := epc.ValidatorPubkeyCache.Pubkey(common.ValidatorIndex(i))
			if !ok {
				fmt.Fprintf(&sb, "pubkey %d -\n", i)
				continue
			}
			fmt.Fprintf(&sb, "pubkey %d 0x%s\n", i, hex.EncodeToString(p.Compressed[:]))
		}
	}
	return []byte(sb.String())
}

// sortedKeys helps deterministic JSON-ish output.
func sortedKeys(m map[string]int) []string {
	ks := make([]string, 0, len(m))
	for k := range m {
		ks = append(ks, k)
	}
	sort.Strings(ks)
	return ks
}
