package chaingen

import (
	"context"
	"fmt"

	"verifharness/hx"

	"github.com/protolambda/zrnt/eth2/beacon"
	"github.com/protolambda/zrnt/eth2/beacon/common"
)

// ValInfo is what the generator knows about the validator at an index.
type ValInfo struct {
	Key  KeyNum
	WKey KeyNum // BLS withdrawal key (0 when the credentials are ETH1 from the start)
	Addr common.Eth1Address
	Odd  byte // credentials prefix when neither 0x00 nor 0x01
}

// RunResult of a transition executed under recover().
type RunResult struct {
	Post     common.BeaconState // nil unless success
	Epc      *common.EpochsContext
	Err      error
	Panicked bool
	PanicVal interface{}
	Polls    int
	Engine   *ScriptedEngine
	// Partial is the working state when the run failed (slots may have been processed, sync committees rotated)
	Partial common.BeaconState
}

func (r *RunResult) Verdict() string {
	if r.Panicked {
		return "PANIC"
	}
	if r.Err != nil {
		return "ERR"
	}
	return "OK"
}

// specWith returns a shallow copy of the spec carrying the given engine.
func specWith(sp *common.Spec, eng common.ExecutionEngine) *common.Spec {
	c := *sp
	c.ExecutionEngine = eng
	return &c
}

// newEngine builds the engine of a `trans` record: none|valid|invalid|error, at = call number or -1.
func newEngine(sp *common.Spec, mode string, at int) *ScriptedEngine {
	if mode == "none" {
		return nil
	}
	return &ScriptedEngine{Spec: sp, Verdict: mode, At: at}
}

// RunTransition runs common.StateTransition on a private copy of pre with the given context.
// epc == nil means: fresh context from the pre-state.
func RunTransition(sp *common.Spec, pre common.BeaconState, epc *common.EpochsContext, sb SignedBlock, bf ForkID,
	validate bool, engMode string, engAt int, failFrom int) (res RunResult) {
	return RunTransitionCtx(sp, pre, epc, sb, bf, validate, engMode, engAt, failFrom, false)
}

// RunTransitionCtx: like RunTransition; deadline selects the error the failing context reports (DeadlineExceeded / Canceled).
func RunTransitionCtx(sp *common.Spec, pre common.BeaconState, epc *common.EpochsContext, sb SignedBlock, bf ForkID,
	validate bool, engMode string, engAt int, failFrom int, deadline bool) (res RunResult) {
	st := CopyState(pre)
	eng := newEngine(sp, engMode, engAt)
	var spx *common.Spec
	if eng != nil {
		spx = specWith(sp, eng)
	} else {
		spx = specWith(sp, nil)
	}
	res.Engine = eng
	ctx := NewPollCtx(failFrom)
	ctx.ByDeadline = deadline
	var partial *beacon.StandardUpgradeableBeaconState
	defer func() {
		res.Polls = ctx.Polls
		if r := recover(); r != nil {
			res.Panicked = true
			res.PanicVal = r
			res.Post = nil
			if partial != nil {
				res.Partial = partial.BeaconState
			}
		}
	}()
	if epc == nil {
		var err error
		epc, err = common.NewEpochsContext(spx, st)
		if err != nil {
			res.Err = fmt.Errorf("fresh epc: %w", err)
			return
		}
	} else {
		epc = epc.Clone()
	}
	res.Epc = epc
	ust := &beacon.StandardUpgradeableBeaconState{BeaconState: st}
	partial = ust
	env := EnvelopeFor(spx, sb, bf, pre)
	err := common.StateTransition(ctx, spx, epc, ust, env, validate)
	if err != nil {
		res.Err = err
		res.Partial = ust.BeaconState
		return
	}
	res.Post = ust.BeaconState
	return
}

// RunSlots runs common.ProcessSlots on a private copy.
func RunSlots(sp *common.Spec, pre common.BeaconState, epc *common.EpochsContext, target common.Slot, failFrom int) (res RunResult) {
	st := CopyState(pre)
	spx := specWith(sp, nil)
	ctx := NewPollCtx(failFrom)
	defer func() {
		res.Polls = ctx.Polls
		if r := recover(); r != nil {
			res.Panicked = true
			res.PanicVal = r
			res.Post = nil
		}
	}()
	if epc == nil {
		var err error
		epc, err = common.NewEpochsContext(spx, st)
		if err != nil {
			res.Err = fmt.Errorf("fresh epc: %w", err)
			return
		}
	} else {
		epc = epc.Clone()
	}
	res.Epc = epc
	ust := &beacon.StandardUpgradeableBeaconState{BeaconState: st}
	if err := common.ProcessSlots(ctx, spx, epc, ust, target); err != nil {
		res.Err = err
		return
	}
	res.Post = ust.BeaconState
	return
}

// Chain is one generated chain with the generator's bookkeeping.
type Chain struct {
	Name     string
	Scenario *Scenario
	Spec     *common.Spec
	Rng      *hx.Rng
	Rec      *Recorder
	BLS      *BLSTable
	Stats    *Stats

	St   common.BeaconState
	Epc  *common.EpochsContext
	StID string

	Vals    []ValInfo // by validator index
	DepTree DepositTree
	// eth1 voting
	Eth1Candidate common.Eth1Data
	HaveCandidate bool

	GenesisTime common.Timestamp
	GVR         common.Root

	Planned    map[common.Epoch]*EpochPlan
	Pending    []*PendingAtt
	nextStray  KeyNum
	nextValKey KeyNum

	// samples for the C03 / C18 streams: honest transitions
	Honest []HonestStep
	// scenario state
	Vars map[string]int

	MergeDone bool
	Problems  []string // producer/zrnt disagreements (go to chaingen.md by hand)
	Epochs    int

	OpRate                    OpRates
	attGenUpTo                common.Slot
	depositors                map[common.BLSPubkey]GenVal
	slashedSet                map[common.ValidatorIndex]bool
	exitSet                   map[common.ValidatorIndex]bool
	activated                 map[common.ValidatorIndex]bool
	aggDone                   map[common.Root]bool
	lastFin                   common.Checkpoint
	lastJust                  common.Checkpoint
	lastNextSync              common.Root
	leakForks                 [5]bool
	initialVals               int
	divergences               []string
	Absent                    map[common.ValidatorIndex]bool
	SlotSteps                 []HonestSlots
	prevEff                   []common.Gwei
	cancelDone                map[string]bool
	QuietRegistry             bool                    // no operation ever touches the registry (sync_same_multiset)
	prevSyncDraw              []common.ValidatorIndex // own transcription of the previous get_next_sync_committee_indices
	partialKeys               map[KeyNum]bool
	zeroKeys                  map[KeyNum]bool
	zeroIndex                 map[common.ValidatorIndex]bool
	depForkIndex              uint64
	depForkKey                KeyNum
	depForkArmed              bool
	Phase0LeakMix             bool
	SlashExiting              bool // slash validators whose exit is initiated with evidence dated outside their window
	cloneBlockDone            [5]bool
	SyncSeat                  bool
	seatPhase                 int
	seatM                     common.ValidatorIndex
	Protected                 map[common.ValidatorIndex]bool
	lateAbsent                map[common.ValidatorIndex]bool // validators that stop attesting / sync-signing from lateAbsentFrom on
	lateAbsentFrom            common.Epoch
	siblingDone               bool
	isSide                    bool // a side producer (forkChain)
	NoDoubleVotes             bool
	LowBalances               bool
	CommitteeDropChain        bool
	wrongTargetIncluded       map[common.Epoch]int
	epcTag                    string // tag put on untagged epc records (side branches)
	NoSkipBeforePhase0Deposit bool
	CoverForks                [5]bool // forks whose (fork, operation) pairs this chain covers with cancellation sweeps
	branches                  int
	heldSt                    common.BeaconState    // reverse branch: an untouched copy taken earlier …
	heldEpc                   *common.EpochsContext // … with a Clone() of the context of that moment
	heldID                    string
	heldEpoch                 common.Epoch
	syncTargetsDone           map[common.Epoch]bool
	ZeroHashMerge             bool // the merge-transition payload gets block_hash = 0
	rejections                int
	runErr                    error
	Eth1HalfPattern           bool
	halfY                     common.Eth1Data
	halfPeriod                int
	justified                 map[common.Epoch]bool
	modeOf                    map[common.Epoch]string
	SpareShare                int  // percent of the genesis validators that operations must leave healthy (default 40)
	VoteAlways                bool // proposers always vote for the eth1 candidate
}

// HonestStep remembers one honest `trans` for the corruption and cancellation streams.
type HonestStep struct {
	PreID  string
	Blk    *Block
	BlkID  string
	Engine string
	Line   int
	// Rejected: zrnt did not accept this block (kept as a seed for the derived streams)
	Rejected      bool
	HasPayload    bool
	ZeroHashMerge bool
}

func (c *Chain) Slot() common.Slot {
	s, err := c.St.Slot()
	if err != nil {
		panic(err)
	}
	return s
}

func (c *Chain) Epoch() common.Epoch { return c.Spec.SlotToEpoch(c.Slot()) }

func (c *Chain) ValCount() uint64 {
	vals, err := c.St.Validators()
	if err != nil {
		panic(err)
	}
	n, err := vals.ValidatorCount()
	if err != nil {
		panic(err)
	}
	return n
}

func (c *Chain) problem(format string, a ...interface{}) {
	msg := fmt.Sprintf(format, a...)
	c.Problems = append(c.Problems, msg)
	c.Rec.Comment("PROBLEM " + msg)
}

// recordEPC writes an `epc` record for (state id, live context).
func (c *Chain) recordEPC(id string, st common.BeaconState, live *common.EpochsContext, withPub bool) {
	c.recordEPCTagged(id, st, live, withPub, c.epcTag)
}

// recordEPCTagged returns whether the live dump equals the dump of a context computed from scratch.
func (c *Chain) recordEPCTagged(id string, st common.BeaconState, live *common.EpochsContext, withPub bool, tag string) bool {
	n := uint64(0)
	if vals, err := st.Validators(); err == nil {
		n, _ = vals.ValidatorCount()
	}
	liveDump := DumpEPC(live, n, withPub)
	var freshDump []byte
	func() {
		defer func() {
			if r := recover(); r != nil {
				freshDump = []byte(fmt.Sprintf("PANIC %v\n", r))
			}
		}()
		fresh, err := common.NewEpochsContext(specWith(c.Spec, nil), CopyState(st))
		if err != nil {
			freshDump = []byte("ERR " + err.Error() + "\n")
			return
		}
		freshDump = DumpEPC(fresh, n, withPub)
	}()
	lf := c.Rec.Other("e", "epc", liveDump)
	ff := c.Rec.Other("e", "epc", freshDump)
	if tag != "" {
		c.Rec.Line("epc %s %s %s %s", id, lf, ff, tag)
	} else {
		c.Rec.Line("epc %s %s %s", id, lf, ff)
	}
	c.Stats.Inc("epc_records")
	if string(liveDump) != string(freshDump) {
		c.Stats.Inc("epc_live_differs_from_fresh")
		return false
	}
	return true
}

// adopt makes (st, epc) the head of the chain.
func (c *Chain) adopt(st common.BeaconState, epc *common.EpochsContext, id string) {
	c.St, c.Epc, c.StID = Unwrap(st), epc, id
}

// AdvanceSlots records a `slots` step on the chain and continues from its result.
func (c *Chain) AdvanceSlots(target common.Slot) error {
	preEpoch := c.Epoch()
	preFork := StateFork(c.St)
	res := RunSlots(c.Spec, c.St, c.Epc, target, -1)
	if res.Err != nil || res.Panicked {
		c.Rec.Line("slots %s %d %s", c.StID, target, res.Verdict())
		c.problem("honest slots to %d failed: %v %v", target, res.Err, res.PanicVal)
		return fmt.Errorf("slots to %d: %v %v", target, res.Err, res.PanicVal)
	}
	id := c.Rec.State(res.Post)
	c.Rec.Line("slots %s %d %s", c.StID, target, id)
	c.SlotSteps = append(c.SlotSteps, HonestSlots{PreID: c.StID, Target: target})
	c.Stats.Inc("slots_records")
	c.afterStep(res.Post, res.Epc, id, preEpoch, preFork, false)
	return nil
}

// afterStep adopts the result and writes the epc records the format asks for.
func (c *Chain) afterStep(post common.BeaconState, epc *common.EpochsContext, id string, preEpoch common.Epoch, preFork ForkID, isBlock bool) {
	preCount := c.ValCount()
	c.adopt(post, epc, id)
	newCount := c.ValCount()
	boundary := c.Epoch() != preEpoch
	upgraded := StateFork(c.St) != preFork
	if isBlock || boundary || upgraded || newCount != preCount {
		c.recordEPC(id, c.St, c.Epc, newCount != preCount || upgraded)
	}
	if boundary {
		c.onEpochBoundary(preEpoch)
	}
	if upgraded {
		c.Stats.Inc("upgrade_" + StateFork(c.St).String())
	}
}

// Reload serialises the head state, reads it back into a fresh view with a fresh context and continues from there.
func (c *Chain) Reload() error {
	raw := EncodeState(c.St)
	f := StateFork(c.St)
	st, err := DecodeState(c.Spec, f, raw)
	if err != nil {
		return err
	}
	if StateRoot(st) != StateRoot(c.St) {
		c.problem("reload changed the state root at %s", c.StID)
	}
	epc, err := common.NewEpochsContext(specWith(c.Spec, nil), st)
	if err != nil {
		return err
	}
	n := c.ValCount()
	if string(DumpEPC(epc, n, true)) != string(DumpEPC(c.Epc, n, true)) {
		c.Stats.Inc("reload_epc_differs")
	}
	c.Rec.Line("reload %s", c.StID)
	c.Stats.Inc("reload_records")
	c.St, c.Epc = st, epc
	return nil
}

var bgCtx = context.Background()
