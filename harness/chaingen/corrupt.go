package chaingen

import (
	"bytes"
	"crypto/sha256"
	"fmt"
	"sort"
	"strings"
	"sync/atomic"

	"verifharness/hx"

	"github.com/protolambda/zrnt/eth2/beacon"
	"github.com/protolambda/zrnt/eth2/beacon/altair"
	"github.com/protolambda/zrnt/eth2/beacon/common"
	"github.com/protolambda/zrnt/eth2/beacon/phase0"
	"github.com/protolambda/ztyp/view"
)

// RuleClass maps a zrnt error message to the rule class that rejected the block.
func RuleClass(err error) string {
	if err == nil {
		return "accepted"
	}
	m := err.Error()
	has := func(ss ...string) bool {
		for _, s := range ss {
			if strings.Contains(m, s) {
				return true
			}
		}
		return false
	}
	switch {
	case strings.HasPrefix(m, "decode:"):
		return "decode"
	case has("must match justified"):
		return "att"
	case has("less than modulus", "correct subgroup", "not on curve", "infinity", "compression flag", "invalid compress"):
		return "bls_decode"
	case has("higher or equal slot"):
		return "slot"
	case has("block has invalid signature"):
		return "block_sig"
	case has("slot of block does not match", "bad block header", "must run on state with same slot"):
		return "header_slot"
	case has("proposer index is out of range", "does not match expected index"):
		return "proposer"
	case has("previous block root"):
		return "parent_root"
	case has("slashed proposer"):
		return "proposer_slashed"
	case has("unexpected block type"):
		return "fork_type"
	case has("does not support"):
		return "payload"
	case has("withdrawal"):
		return "withdrawals"
	case has("parent hash", "random data", "execution payload time", "execution engine", "execution-engine", "blob KZG", "failed to check block hash", "problem in execution engine"):
		return "payload"
	case has("randao"):
		return "randao"
	case has("Eth1 vote"):
		return "eth1"
	case has("too many"):
		return "limits"
	case has("proposer slashing", "invalid proposer index"):
		return "pslash"
	case has("attester slashing", "attester-slashing"):
		return "aslash"
	case has("attestation", "committee"):
		if has("sync committee") {
			return "sync"
		}
		return "att"
	case has("deposit"):
		return "deposit"
	case has("exit", "must be active"):
		return "exit"
	case has("bls to execution"):
		return "blschange"
	case has("sync"):
		return "sync"
	case has("invalid state root"):
		return "state_root"
	case has("context canceled", "deadline exceeded"):
		return "cancelled"
	case has("no active validators"):
		return "no_active_validators"
	}
	return "other"
}

// mctx is the working context of one corruption.
type mctx struct {
	c *Chain
	r *hx.Rng
	p *ProposeCtx // p.B is a private clone of the honest block; p.A the pre-state advanced to the block slot
	// what to do after the mutation
	resign   bool // sign the block properly afterwards
	fixRoot  bool // try a dry run and fill the state root when the block is still processable
	validate bool
	engine   string
	engineAt int
	note     string
	both     bool // record the block with validate=1 and with validate=0
	force    int  // >= 0: the variant the mutator has to take (coverage phase); -1: drawn at random
	vidx     int  // variant taken (-1: the mutator has none)
	mu       *mutator
}

// variant: which of the k variants of this corruption to produce. Drawn at random in the random stream, imposed in the coverage
// phase. The number of variants is remembered in the table (the required-coverage list is derived from it).
func (m *mctx) variant(k int) int {
	if m.mu != nil && int(atomic.LoadInt32(&m.mu.nvar)) < k {
		atomic.StoreInt32(&m.mu.nvar, int32(k))
	}
	v := m.r.Intn(k)
	if m.force >= 0 && m.force < k {
		v = m.force
	}
	m.vidx = v
	return v
}

type mutator struct {
	name   string
	intent []string // acceptable rule classes ("" = unknown)
	fn     func(m *mctx) bool
	// coverage: forks the corruption applies to, and whether every such fork must show it in every run ("fork") or whether one
	// occurrence per run suffices ("run": it needs a situation a chain has only now and then)
	minFork, maxFork ForkID
	scope            string
	nvar             int32 // number of variants (0: none), learnt from the first call of mctx.variant
}

// ---- signing helpers for the corruption stream ----

func (m *mctx) stateVersion() common.Version {
	fk, err := m.p.A.Fork()
	if err != nil {
		panic(err)
	}
	return fk.CurrentVersion
}

func (m *mctx) otherVersion() common.Version {
	sp := m.c.Spec
	vs := []common.Version{sp.GENESIS_FORK_VERSION, sp.ALTAIR_FORK_VERSION, sp.BELLATRIX_FORK_VERSION, sp.CAPELLA_FORK_VERSION, sp.DENEB_FORK_VERSION, sp.ELECTRA_FORK_VERSION}
	cur := m.stateVersion()
	for {
		v := vs[m.r.Intn(len(vs))]
		if v != cur {
			return v
		}
	}
}

func (m *mctx) rndRoot() (r common.Root) { copy(r[:], m.r.Bytes(32)); return }

func (m *mctx) strayKey() KeyNum {
	k := m.c.nextStray
	m.c.nextStray++
	return k
}

// signBlock signs p.B as the proposer would.
func (m *mctx) signBlock() {
	b := m.p.B
	if int(b.ProposerIndex) >= len(m.c.Vals) {
		return
	}
	dom := common.ComputeDomain(common.DOMAIN_BEACON_PROPOSER, m.stateVersion(), m.c.GVR)
	b.Signature = m.c.BLS.Sign1(m.c.keyOfVal(b.ProposerIndex), common.ComputeSigningRoot(b.Root(m.c.Spec), dom))
}

// variantDomain returns a wrong domain for (type, epoch): other domain type, other fork version or other genesis validators root.
func (m *mctx) variantDomain(dt common.BLSDomainType, epoch common.Epoch, which int) (common.BLSDomain, string) {
	fk, _ := m.p.A.Fork()
	ver := fk.CurrentVersion
	if epoch < fk.Epoch {
		ver = fk.PreviousVersion
	}
	switch which % 3 {
	case 0:
		other := common.DOMAIN_SELECTION_PROOF
		if dt == other {
			other = common.DOMAIN_RANDAO
		}
		return common.ComputeDomain(other, ver, m.c.GVR), "domain_type"
	case 1:
		other := m.otherVersion()
		for other == ver { // (for a pre-fork epoch the correct version is the previous one)
			other = m.otherVersion()
		}
		return common.ComputeDomain(dt, other, m.c.GVR), "fork_version"
	default:
		return common.ComputeDomain(dt, ver, m.rndRoot()), "genesis_validators_root"
	}
}

// committee members of an attestation according to the context of the advanced state
func (m *mctx) committee(d *phase0.AttestationData) []common.ValidatorIndex {
	var cm []common.ValidatorIndex
	hx.Catch(func() {
		x, err := m.p.Epc.GetBeaconCommittee(d.Slot, d.Index)
		if err == nil {
			cm = x
		}
	})
	return cm
}

func bitsOf(a phase0.AttestationBits) []bool {
	n := a.BitLen()
	out := make([]bool, n)
	for i := uint64(0); i < n; i++ {
		out[i] = a.GetBit(i)
	}
	return out
}

// resignAtt re-signs attestation i for exactly its bits (when the committee is known).
func (m *mctx) resignAtt(att *phase0.Attestation) bool {
	cm := m.committee(&att.Data)
	bits := bitsOf(att.AggregationBits)
	if cm == nil || len(cm) != len(bits) {
		return false
	}
	var keys []KeyNum
	for i, b := range bits {
		if b {
			keys = append(keys, m.c.keyOfVal(cm[i]))
		}
	}
	var dom common.BLSDomain
	okDom := true
	hx.Catch(func() {
		d, err := common.GetDomain(m.p.A, common.DOMAIN_BEACON_ATTESTER, att.Data.Target.Epoch)
		if err != nil {
			okDom = false
		}
		dom = d
	})
	if !okDom {
		return false
	}
	att.Signature = m.c.BLS.Sign(keys, common.ComputeSigningRoot(att.Data.HashTreeRoot(hFn()), dom))
	return true
}

func (m *mctx) find(pred func(i common.ValidatorIndex, f *common.FlatValidator) bool) (common.ValidatorIndex, bool) {
	n := len(m.p.Flats)
	if n > len(m.c.Vals) {
		n = len(m.c.Vals)
	}
	off := m.r.Intn(n)
	for k := 0; k < n; k++ {
		i := common.ValidatorIndex((off + k) % n)
		if m.p.used[i] {
			continue
		}
		if pred(i, &m.p.Flats[i]) {
			return i, true
		}
	}
	return 0, false
}

func (m *mctx) credsOf(v common.ValidatorIndex) common.Root {
	vals, _ := m.p.A.Validators()
	val, err := vals.Validator(v)
	if err != nil {
		panic(err)
	}
	wc, _ := val.WithdrawalCredentials()
	return wc
}

// opsUsed marks validators touched by the honest block's own operations.
func (m *mctx) opsUsed() {
	b := m.p.B
	for _, ps := range b.ProposerSlashings {
		m.p.used[ps.SignedHeader1.Message.ProposerIndex] = true
	}
	for _, as := range b.AttesterSlashings {
		for _, v := range as.Attestation1.AttestingIndices {
			m.p.used[v] = true
		}
		for _, v := range as.Attestation2.AttestingIndices {
			m.p.used[v] = true
		}
	}
	for _, e := range b.VoluntaryExits {
		m.p.used[e.Message.ValidatorIndex] = true
	}
	for _, ch := range b.BLSChanges {
		m.p.used[ch.BLSToExecutionChange.ValidatorIndex] = true
	}
	m.p.used[b.ProposerIndex] = true
}

var allMutators []mutator

func mut(name string, intent string, fn func(m *mctx) bool) {
	var in []string
	if intent != "" {
		in = strings.Split(intent, "|")
	}
	allMutators = append(allMutators, mutator{name: name, intent: in, fn: fn, minFork: Phase0, maxFork: Deneb, scope: "fork"})
}

func init() {
	// ---------- header ----------
	mut("slot_plus_one", "block_sig|proposer|state_root|att|payload|sync|randao|withdrawals|deposit", func(m *mctx) bool {
		m.p.B.Slot++
		m.fixRoot = false
		return true
	})
	mut("slot_equal_pre", "slot", func(m *mctx) bool {
		s, _ := m.c.stateSlot(m.p)
		m.p.B.Slot = s
		m.fixRoot = false
		return true
	})
	mut("slot_before_pre", "slot", func(m *mctx) bool {
		s, _ := m.c.stateSlot(m.p)
		if s == 0 {
			return false
		}
		m.p.B.Slot = s - 1 - common.Slot(m.r.Intn(int(min64(uint64(s-1), 3))+1))
		m.fixRoot = false
		return true
	})
	mut("proposer_index_other", "block_sig|proposer", func(m *mctx) bool {
		v, ok := m.find(func(i common.ValidatorIndex, f *common.FlatValidator) bool { return i != m.p.B.ProposerIndex })
		if !ok {
			return false
		}
		m.p.B.ProposerIndex = v
		m.fixRoot = false
		return true
	})
	mut("proposer_index_out_of_range", "block_sig|proposer", func(m *mctx) bool {
		m.p.B.ProposerIndex = common.ValidatorIndex(len(m.p.Flats) + m.r.Intn(3))
		m.fixRoot, m.resign = false, false
		return true
	})
	mut("proposer_index_unsigned_check", "proposer", func(m *mctx) bool {
		// validate=0: only process_block_header can catch it
		v, ok := m.find(func(i common.ValidatorIndex, f *common.FlatValidator) bool { return i != m.p.B.ProposerIndex })
		if !ok {
			return false
		}
		m.p.B.ProposerIndex = v
		m.fixRoot, m.validate = false, false
		return true
	})
	mut("parent_root", "parent_root", func(m *mctx) bool {
		m.p.B.ParentRoot[m.r.Intn(32)] ^= 1 << uint(m.r.Intn(8))
		m.fixRoot = false
		return true
	})
	mut("state_root", "state_root", func(m *mctx) bool {
		m.p.B.StateRoot[m.r.Intn(32)] ^= 1 << uint(m.r.Intn(8))
		m.fixRoot = false
		return true
	})
	mut("state_root_unchecked", "accepted", func(m *mctx) bool {
		m.p.B.StateRoot = m.rndRoot()
		m.fixRoot, m.validate = false, false
		return true
	})
	mut("graffiti_without_resign", "block_sig", func(m *mctx) bool {
		m.p.B.Graffiti = m.rndRoot()
		m.resign, m.fixRoot = false, false
		return true
	})
	mut("block_signature", "block_sig", func(m *mctx) bool {
		b := m.p.B
		root := b.Root(m.c.Spec)
		key := m.c.keyOfVal(b.ProposerIndex)
		good := common.ComputeDomain(common.DOMAIN_BEACON_PROPOSER, m.stateVersion(), m.c.GVR)
		switch m.variant(8) {
		case 0:
			copy(b.Signature[:], m.r.Bytes(96))
			m.note = "random_bytes"
		case 1:
			b.Signature = InfinitySig
			m.note = "infinity"
		case 2:
			b.Signature = m.c.BLS.Sign1(m.strayKey(), common.ComputeSigningRoot(root, good))
			m.note = "wrong_key"
		case 3:
			v, ok := m.find(func(i common.ValidatorIndex, f *common.FlatValidator) bool { return i != b.ProposerIndex })
			if !ok {
				return false
			}
			b.Signature = m.c.BLS.Sign1(m.c.keyOfVal(v), common.ComputeSigningRoot(root, good))
			m.note = "other_validator"
		case 4:
			b.Signature = m.c.BLS.Sign1(key, common.ComputeSigningRoot(m.rndRoot(), good))
			m.note = "other_message"
		default:
			d, what := m.variantDomain(common.DOMAIN_BEACON_PROPOSER, m.p.Epoch, m.vidx)
			b.Signature = m.c.BLS.Sign1(key, common.ComputeSigningRoot(root, d))
			m.note = what
		}
		m.resign = false
		return true
	})
	mut("block_signature_unchecked", "accepted", func(m *mctx) bool {
		copy(m.p.B.Signature[:], m.r.Bytes(96))
		m.resign, m.validate = false, false
		return true
	})
	// ---------- randao ----------
	mut("randao_reveal", "randao", func(m *mctx) bool {
		b := m.p.B
		key := m.c.keyOfVal(b.ProposerIndex)
		good, err := common.GetDomain(m.p.A, common.DOMAIN_RANDAO, m.p.Epoch)
		if err != nil {
			return false
		}
		switch m.variant(6) {
		case 0:
			copy(b.Randao[:], m.r.Bytes(96))
			m.note = "random_bytes"
		case 1:
			e := m.p.Epoch + 1
			b.Randao = m.c.BLS.Sign1(key, common.ComputeSigningRoot(e.HashTreeRoot(hFn()), good))
			m.note = "other_epoch"
		case 2:
			b.Randao = m.c.BLS.Sign1(m.strayKey(), common.ComputeSigningRoot(m.p.Epoch.HashTreeRoot(hFn()), good))
			m.note = "wrong_key"
		default:
			d, what := m.variantDomain(common.DOMAIN_RANDAO, m.p.Epoch, m.vidx)
			b.Randao = m.c.BLS.Sign1(key, common.ComputeSigningRoot(m.p.Epoch.HashTreeRoot(hFn()), d))
			m.note = what
		}
		return true
	})
	// ---------- proposer slashings ----------
	mut("pslash_not_slashable_headers", "pslash", func(m *mctx) bool {
		v, ok := m.find(func(i common.ValidatorIndex, f *common.FlatValidator) bool { return m.p.slashable(i) })
		if !ok || uint64(len(m.p.B.ProposerSlashings)) >= uint64(m.c.Spec.MAX_PROPOSER_SLASHINGS) {
			return false
		}
		ps := m.c.makeProposerSlashing(m.p, v, m.p.Slot)
		switch m.variant(3) {
		case 0:
			ps.SignedHeader2 = ps.SignedHeader1
			m.note = "identical"
		case 1:
			h := ps.SignedHeader2.Message
			h.Slot++
			dom, _ := common.GetDomain(m.p.A, common.DOMAIN_BEACON_PROPOSER, m.c.Spec.SlotToEpoch(h.Slot))
			ps.SignedHeader2 = common.SignedBeaconBlockHeader{Message: h, Signature: m.c.BLS.Sign1(m.c.keyOfVal(v), common.ComputeSigningRoot(h.HashTreeRoot(hFn()), dom))}
			m.note = "different_slots"
		default:
			w, ok := m.find(func(i common.ValidatorIndex, f *common.FlatValidator) bool { return i != v })
			if !ok {
				return false
			}
			h := ps.SignedHeader2.Message
			h.ProposerIndex = w
			dom, _ := common.GetDomain(m.p.A, common.DOMAIN_BEACON_PROPOSER, m.c.Spec.SlotToEpoch(h.Slot))
			ps.SignedHeader2 = common.SignedBeaconBlockHeader{Message: h, Signature: m.c.BLS.Sign1(m.c.keyOfVal(w), common.ComputeSigningRoot(h.HashTreeRoot(hFn()), dom))}
			m.note = "different_proposers"
		}
		m.p.B.ProposerSlashings = append(m.p.B.ProposerSlashings, ps)
		return true
	})
	mut("pslash_validator_not_slashable", "pslash", func(m *mctx) bool {
		want := m.variant(3)
		kind := func(f *common.FlatValidator) int {
			switch {
			case f.Slashed:
				return 0
			case f.ActivationEpoch > m.p.Epoch:
				return 1
			}
			return 2
		}
		v, ok := m.find(func(i common.ValidatorIndex, f *common.FlatValidator) bool {
			return !m.p.slashable(i) && (m.force < 0 || kind(f) == want)
		})
		if !ok || uint64(len(m.p.B.ProposerSlashings)) >= uint64(m.c.Spec.MAX_PROPOSER_SLASHINGS) {
			return false
		}
		m.p.B.ProposerSlashings = append(m.p.B.ProposerSlashings, m.c.makeProposerSlashing(m.p, v, m.p.Slot))
		m.vidx = kind(&m.p.Flats[v])
		m.note = []string{"already_slashed", "not_yet_active", "withdrawable"}[m.vidx]
		return true
	})
	// slashability is judged at the CURRENT epoch: evidence dated inside the offender's window does not help once it is withdrawable
	mut("pslash_withdrawable_evidence_inside_window", "pslash", func(m *mctx) bool {
		v, ok := m.find(func(i common.ValidatorIndex, f *common.FlatValidator) bool {
			return !f.Slashed && f.WithdrawableEpoch <= m.p.Epoch && f.WithdrawableEpoch > 0 && f.ActivationEpoch < f.WithdrawableEpoch
		})
		if !ok {
			return false
		}
		f := m.p.Flats[v]
		slot := common.Slot(f.WithdrawableEpoch-1)*m.c.Spec.SLOTS_PER_EPOCH + common.Slot(m.r.Intn(int(m.c.Spec.SLOTS_PER_EPOCH)))
		m.p.B.ProposerSlashings = phase0.ProposerSlashings{m.c.makeProposerSlashing(m.p, v, slot)}
		m.note = fmt.Sprintf("withdrawable_since_%d_epochs", m.p.Epoch-f.WithdrawableEpoch)
		return true
	})
	// is_slashable_validator: epoch < withdrawable_epoch — refused in exactly the epoch current_epoch == withdrawable_epoch …
	mut("pslash_at_withdrawable_epoch", "pslash", func(m *mctx) bool {
		v, ok := m.find(func(i common.ValidatorIndex, f *common.FlatValidator) bool {
			return !f.Slashed && f.ActivationEpoch <= m.p.Epoch && f.WithdrawableEpoch == m.p.Epoch
		})
		if !ok {
			return false
		}
		m.p.B.ProposerSlashings = phase0.ProposerSlashings{m.c.makeProposerSlashing(m.p, v, m.p.Slot)}
		return true
	})
	// … and still fine one epoch earlier (the control: a valid block)
	mut("pslash_last_slashable_epoch", "accepted", func(m *mctx) bool {
		v, ok := m.find(func(i common.ValidatorIndex, f *common.FlatValidator) bool {
			return !f.Slashed && f.ActivationEpoch <= m.p.Epoch && f.WithdrawableEpoch == m.p.Epoch+1 && i != m.p.B.ProposerIndex
		})
		if !ok {
			return false
		}
		m.p.B.ProposerSlashings = phase0.ProposerSlashings{m.c.makeProposerSlashing(m.p, v, m.p.Slot)}
		return true
	})
	mut("pslash_index_out_of_range", "pslash", func(m *mctx) bool {
		if uint64(len(m.p.B.ProposerSlashings)) >= uint64(m.c.Spec.MAX_PROPOSER_SLASHINGS) {
			return false
		}
		v, ok := m.find(func(i common.ValidatorIndex, f *common.FlatValidator) bool { return true })
		if !ok {
			return false
		}
		ps := m.c.makeProposerSlashing(m.p, v, m.p.Slot)
		bad := common.ValidatorIndex(len(m.p.Flats) + m.r.Intn(4))
		ps.SignedHeader1.Message.ProposerIndex = bad
		ps.SignedHeader2.Message.ProposerIndex = bad
		m.p.B.ProposerSlashings = append(m.p.B.ProposerSlashings, ps)
		return true
	})
	mut("pslash_bad_signature", "pslash", func(m *mctx) bool {
		v, ok := m.find(func(i common.ValidatorIndex, f *common.FlatValidator) bool { return m.p.slashable(i) })
		if !ok || uint64(len(m.p.B.ProposerSlashings)) >= uint64(m.c.Spec.MAX_PROPOSER_SLASHINGS) {
			return false
		}
		ps := m.c.makeProposerSlashing(m.p, v, m.p.Slot)
		// variants 0..4: the first header carries the bad signature, 5..9: the second one
		vv := m.variant(10)
		h := &ps.SignedHeader1
		if vv >= 5 {
			h = &ps.SignedHeader2
		}
		root := h.Message.HashTreeRoot(hFn())
		switch vv % 5 {
		case 0:
			copy(h.Signature[:], m.r.Bytes(96))
			m.note = "random_bytes"
		case 1:
			good, _ := common.GetDomain(m.p.A, common.DOMAIN_BEACON_PROPOSER, m.p.Epoch)
			h.Signature = m.c.BLS.Sign1(m.strayKey(), common.ComputeSigningRoot(root, good))
			m.note = "wrong_key"
		default:
			d, what := m.variantDomain(common.DOMAIN_BEACON_PROPOSER, m.p.Epoch, vv%5)
			h.Signature = m.c.BLS.Sign1(m.c.keyOfVal(v), common.ComputeSigningRoot(root, d))
			m.note = what
		}
		m.p.B.ProposerSlashings = append(m.p.B.ProposerSlashings, ps)
		return true
	})
	mut("pslash_pre_fork_headers_new_version", "pslash", func(m *mctx) bool {
		// headers of a slot before the last fork epoch, signed under the state's CURRENT version (must be the previous one)
		fe := m.p.lastForkEpoch()
		if fe == 0 || uint64(len(m.p.B.ProposerSlashings)) >= uint64(m.c.Spec.MAX_PROPOSER_SLASHINGS) {
			return false
		}
		v, ok := m.find(func(i common.ValidatorIndex, f *common.FlatValidator) bool { return m.p.slashable(i) })
		if !ok {
			return false
		}
		slot := common.Slot(fe)*m.c.Spec.SLOTS_PER_EPOCH - 1 - common.Slot(m.r.Intn(int(m.c.Spec.SLOTS_PER_EPOCH)))
		ps := m.c.makeProposerSlashing(m.p, v, slot)
		dom := common.ComputeDomain(common.DOMAIN_BEACON_PROPOSER, m.stateVersion(), m.c.GVR)
		for _, h := range []*common.SignedBeaconBlockHeader{&ps.SignedHeader1, &ps.SignedHeader2} {
			h.Signature = m.c.BLS.Sign1(m.c.keyOfVal(v), common.ComputeSigningRoot(h.Message.HashTreeRoot(hFn()), dom))
		}
		// the only proposer slashing of the block: a genuine pre-fork one next to it would mask the verdict under a defect
		m.p.B.ProposerSlashings = phase0.ProposerSlashings{ps}
		return true
	})
	mut("pslash_duplicate", "pslash", func(m *mctx) bool {
		b := m.p.B
		if uint64(len(b.ProposerSlashings))+2 > uint64(m.c.Spec.MAX_PROPOSER_SLASHINGS) {
			return false
		}
		var ps phase0.ProposerSlashing
		if len(b.ProposerSlashings) > 0 {
			ps = b.ProposerSlashings[m.r.Intn(len(b.ProposerSlashings))]
		} else {
			v, ok := m.find(func(i common.ValidatorIndex, f *common.FlatValidator) bool { return m.p.slashable(i) })
			if !ok {
				return false
			}
			ps = m.c.makeProposerSlashing(m.p, v, m.p.Slot)
			b.ProposerSlashings = append(b.ProposerSlashings, ps)
		}
		b.ProposerSlashings = append(b.ProposerSlashings, ps)
		return true
	})
	// ---------- attester slashings ----------
	mut("aslash_not_slashable_data", "aslash", func(m *mctx) bool {
		v, ok := m.find(func(i common.ValidatorIndex, f *common.FlatValidator) bool { return m.p.slashable(i) })
		if !ok || uint64(len(m.p.B.AttesterSlashings)) >= uint64(m.c.Spec.MAX_ATTESTER_SLASHINGS) {
			return false
		}
		as := m.c.makeAttesterSlashing(m.p, []common.ValidatorIndex{v}, false)
		if m.variant(2) == 0 {
			as.Attestation2 = as.Attestation1
			m.note = "same_data"
		} else {
			// different targets, no surround
			d := as.Attestation2.Data
			d.Target.Epoch += 5
			d.Source.Epoch = d.Target.Epoch - 1
			dom, err := common.GetDomain(m.p.A, common.DOMAIN_BEACON_ATTESTER, d.Target.Epoch)
			if err != nil {
				return false
			}
			as.Attestation2.Data = d
			as.Attestation2.Signature = m.c.BLS.Sign1(m.c.keyOfVal(v), common.ComputeSigningRoot(d.HashTreeRoot(hFn()), dom))
			m.note = "disjoint_votes"
		}
		m.p.B.AttesterSlashings = append(m.p.B.AttesterSlashings, as)
		return true
	})
	mut("aslash_indices", "aslash", func(m *mctx) bool {
		if uint64(len(m.p.B.AttesterSlashings)) >= uint64(m.c.Spec.MAX_ATTESTER_SLASHINGS) {
			return false
		}
		var vs []common.ValidatorIndex
		for k := 0; k < 3; k++ {
			v, ok := m.find(func(i common.ValidatorIndex, f *common.FlatValidator) bool { return m.p.slashable(i) })
			if !ok {
				return false
			}
			m.p.used[v] = true
			vs = append(vs, v)
		}
		as := m.c.makeAttesterSlashing(m.p, vs, m.r.Bool())
		// variants 0..3: the first attestation is malformed, 4..7: the second one
		vv := m.variant(8)
		bad := &as.Attestation1
		if vv >= 4 {
			bad = &as.Attestation2
		}
		ix := bad.AttestingIndices
		switch vv % 4 {
		case 0:
			ix[0], ix[1] = ix[1], ix[0]
			m.note = "unsorted"
		case 1:
			ix[1] = ix[0]
			m.note = "duplicate_index"
		case 2:
			bad.AttestingIndices = ix[:0]
			m.note = "empty"
		default:
			ix[2] = common.ValidatorIndex(len(m.p.Flats) + m.r.Intn(3))
			m.note = "out_of_range"
		}
		if vv >= 4 {
			m.note += "_in_attestation_2"
		}
		m.p.B.AttesterSlashings = append(m.p.B.AttesterSlashings, as)
		return true
	})
	mut("aslash_duplicate_index_valid_signature", "aslash", func(m *mctx) bool {
		// attesting_indices [V, V] signed by Aggregate(sig_V, sig_V): only the sorted-and-unique rule can reject it
		if uint64(len(m.p.B.AttesterSlashings)) >= uint64(m.c.Spec.MAX_ATTESTER_SLASHINGS) {
			return false
		}
		v, ok := m.find(func(i common.ValidatorIndex, f *common.FlatValidator) bool { return m.p.slashable(i) })
		if !ok {
			return false
		}
		as := m.c.makeAttesterSlashing(m.p, []common.ValidatorIndex{v}, m.r.Bool())
		k := m.c.keyOfVal(v)
		which := m.variant(3) // 0: both attestations malformed, 1: only the first, 2: only the second
		m.note = []string{"both", "first_only", "second_only"}[which]
		for _, a := range []*phase0.IndexedAttestation{&as.Attestation1, &as.Attestation2} {
			if (a == &as.Attestation2 && which == 1) || (a == &as.Attestation1 && which == 2) {
				continue
			}
			a.AttestingIndices = common.CommitteeIndices{v, v}
			dom, err := common.GetDomain(m.p.A, common.DOMAIN_BEACON_ATTESTER, a.Data.Target.Epoch)
			if err != nil {
				return false
			}
			a.Signature = m.c.BLS.Sign([]KeyNum{k, k}, common.ComputeSigningRoot(a.Data.HashTreeRoot(hFn()), dom))
		}
		m.p.B.AttesterSlashings = append(m.p.B.AttesterSlashings, as)
		return true
	})
	mut("aslash_unsorted_valid_signature", "aslash", func(m *mctx) bool {
		if uint64(len(m.p.B.AttesterSlashings)) >= uint64(m.c.Spec.MAX_ATTESTER_SLASHINGS) {
			return false
		}
		a, ok1 := m.find(func(i common.ValidatorIndex, f *common.FlatValidator) bool { return m.p.slashable(i) })
		m.p.used[a] = true
		b, ok2 := m.find(func(i common.ValidatorIndex, f *common.FlatValidator) bool { return m.p.slashable(i) })
		if !ok1 || !ok2 {
			return false
		}
		as := m.c.makeAttesterSlashing(m.p, []common.ValidatorIndex{a, b}, m.r.Bool())
		ix := as.Attestation1.AttestingIndices // sorted by the maker; the aggregate signature does not depend on the order
		ix[0], ix[1] = ix[1], ix[0]
		m.p.B.AttesterSlashings = append(m.p.B.AttesterSlashings, as)
		return true
	})
	mut("aslash_surround_reverse_order", "aslash", func(m *mctx) bool {
		// attestation_1 is the surrounded (inner) vote, attestation_2 the surrounding one: is_slashable_attestation_data is
		// not symmetric, in this order it is false
		if uint64(len(m.p.B.AttesterSlashings)) >= uint64(m.c.Spec.MAX_ATTESTER_SLASHINGS) {
			return false
		}
		v, ok := m.find(func(i common.ValidatorIndex, f *common.FlatValidator) bool { return m.p.slashable(i) })
		if !ok {
			return false
		}
		as := m.c.makeAttesterSlashing(m.p, []common.ValidatorIndex{v}, true)
		as.Attestation1, as.Attestation2 = as.Attestation2, as.Attestation1
		m.p.B.AttesterSlashings = append(m.p.B.AttesterSlashings, as)
		return true
	})
	mut("aslash_at_withdrawable_epoch", "aslash", func(m *mctx) bool {
		v, ok := m.find(func(i common.ValidatorIndex, f *common.FlatValidator) bool {
			return !f.Slashed && f.ActivationEpoch <= m.p.Epoch && f.WithdrawableEpoch == m.p.Epoch
		})
		if !ok {
			return false
		}
		m.p.B.AttesterSlashings = phase0.AttesterSlashings{m.c.makeAttesterSlashing(m.p, []common.ValidatorIndex{v}, m.r.Bool())}
		return true
	})
	mut("aslash_last_slashable_epoch", "accepted", func(m *mctx) bool {
		v, ok := m.find(func(i common.ValidatorIndex, f *common.FlatValidator) bool {
			return !f.Slashed && f.ActivationEpoch <= m.p.Epoch && f.WithdrawableEpoch == m.p.Epoch+1 && i != m.p.B.ProposerIndex
		})
		if !ok {
			return false
		}
		m.p.B.AttesterSlashings = phase0.AttesterSlashings{m.c.makeAttesterSlashing(m.p, []common.ValidatorIndex{v}, m.r.Bool())}
		return true
	})
	mut("aslash_withdrawable_evidence_inside_window", "aslash", func(m *mctx) bool {
		v, ok := m.find(func(i common.ValidatorIndex, f *common.FlatValidator) bool {
			return !f.Slashed && f.WithdrawableEpoch <= m.p.Epoch && f.WithdrawableEpoch > 1 && f.ActivationEpoch < f.WithdrawableEpoch
		})
		if !ok {
			return false
		}
		save := m.p.evidenceEpoch
		m.p.evidenceEpoch = m.p.Flats[v].WithdrawableEpoch - 1
		m.p.B.AttesterSlashings = phase0.AttesterSlashings{m.c.makeAttesterSlashing(m.p, []common.ValidatorIndex{v}, false)}
		m.p.evidenceEpoch = save
		return true
	})
	mut("aslash_nobody_slashable", "aslash", func(m *mctx) bool {
		if uint64(len(m.p.B.AttesterSlashings)) >= uint64(m.c.Spec.MAX_ATTESTER_SLASHINGS) {
			return false
		}
		if m.variant(2) == 0 {
			v, ok := m.find(func(i common.ValidatorIndex, f *common.FlatValidator) bool { return !m.p.slashable(i) })
			if !ok {
				return false
			}
			m.p.B.AttesterSlashings = append(m.p.B.AttesterSlashings, m.c.makeAttesterSlashing(m.p, []common.ValidatorIndex{v}, m.r.Bool()))
			m.note = "only_unslashable_validators"
			return true
		}
		// disjoint index sets
		a, ok1 := m.find(func(i common.ValidatorIndex, f *common.FlatValidator) bool { return m.p.slashable(i) })
		m.p.used[a] = true
		b, ok2 := m.find(func(i common.ValidatorIndex, f *common.FlatValidator) bool { return m.p.slashable(i) })
		if !ok1 || !ok2 {
			return false
		}
		as1 := m.c.makeAttesterSlashing(m.p, []common.ValidatorIndex{a}, false)
		as2 := m.c.makeAttesterSlashing(m.p, []common.ValidatorIndex{b}, false)
		as1.Attestation2 = as2.Attestation2
		// still a double vote (same target epoch, different data) but no common signer
		m.p.B.AttesterSlashings = append(m.p.B.AttesterSlashings, as1)
		m.note = "disjoint_signers"
		return true
	})
	mut("aslash_bad_signature", "aslash", func(m *mctx) bool {
		v, ok := m.find(func(i common.ValidatorIndex, f *common.FlatValidator) bool { return m.p.slashable(i) })
		if !ok || uint64(len(m.p.B.AttesterSlashings)) >= uint64(m.c.Spec.MAX_ATTESTER_SLASHINGS) {
			return false
		}
		as := m.c.makeAttesterSlashing(m.p, []common.ValidatorIndex{v}, m.r.Bool())
		// variants 0..4: the first attestation carries the bad signature, 5..9: the second one
		vv := m.variant(10)
		a := &as.Attestation1
		if vv >= 5 {
			a = &as.Attestation2
		}
		root := a.Data.HashTreeRoot(hFn())
		switch vv % 5 {
		case 0:
			copy(a.Signature[:], m.r.Bytes(96))
			m.note = "random_bytes"
		case 1:
			good, _ := common.GetDomain(m.p.A, common.DOMAIN_BEACON_ATTESTER, a.Data.Target.Epoch)
			a.Signature = m.c.BLS.Sign1(m.strayKey(), common.ComputeSigningRoot(root, good))
			m.note = "wrong_key"
		default:
			d, what := m.variantDomain(common.DOMAIN_BEACON_ATTESTER, a.Data.Target.Epoch, vv%5)
			a.Signature = m.c.BLS.Sign1(m.c.keyOfVal(v), common.ComputeSigningRoot(root, d))
			m.note = what
		}
		m.p.B.AttesterSlashings = append(m.p.B.AttesterSlashings, as)
		return true
	})
	mut("aslash_duplicate", "aslash", func(m *mctx) bool {
		b := m.p.B
		if uint64(len(b.AttesterSlashings))+2 > uint64(m.c.Spec.MAX_ATTESTER_SLASHINGS) {
			return false
		}
		v, ok := m.find(func(i common.ValidatorIndex, f *common.FlatValidator) bool { return m.p.slashable(i) })
		if !ok {
			return false
		}
		as := m.c.makeAttesterSlashing(m.p, []common.ValidatorIndex{v}, m.r.Bool())
		b.AttesterSlashings = append(b.AttesterSlashings, as, as)
		return true
	})
	// ---------- attestations ----------
	attMut := func(name, intent string, fn func(m *mctx, a *phase0.Attestation) bool) {
		mut(name, intent, func(m *mctx) bool {
			if len(m.p.B.Attestations) == 0 {
				return false
			}
			return fn(m, &m.p.B.Attestations[m.r.Intn(len(m.p.B.Attestations))])
		})
	}
	attMut("att_committee_index_out_of_range", "att", func(m *mctx, a *phase0.Attestation) bool {
		a.Data.Index = common.CommitteeIndex(uint64(m.c.Spec.MAX_COMMITTEES_PER_SLOT) + uint64(m.r.Intn(3)))
		if m.variant(2) == 0 {
			n := uint64(0)
			hx.Catch(func() { n, _ = m.p.Epc.GetCommitteeCountPerSlot(a.Data.Target.Epoch) })
			a.Data.Index = common.CommitteeIndex(n)
		}
		return true
	})
	attMut("att_other_committee", "att", func(m *mctx, a *phase0.Attestation) bool {
		n := uint64(0)
		hx.Catch(func() { n, _ = m.p.Epc.GetCommitteeCountPerSlot(a.Data.Target.Epoch) })
		if n < 2 {
			return false
		}
		a.Data.Index = common.CommitteeIndex((uint64(a.Data.Index) + 1) % n)
		return true // bits may or may not fit; signature is for the other committee
	})
	attMut("att_target_epoch", "att", func(m *mctx, a *phase0.Attestation) bool {
		switch m.variant(3) {
		case 0:
			a.Data.Target.Epoch = m.p.Epoch + 1
			m.note = "future"
		case 1:
			if m.p.Epoch < 2 {
				return false
			}
			a.Data.Target.Epoch = m.p.Epoch - 2
			m.note = "too_old"
		default:
			if a.Data.Target.Epoch == m.p.Epoch {
				if m.p.Epoch == 0 {
					return false
				}
				a.Data.Target.Epoch--
			} else {
				a.Data.Target.Epoch++
			}
			m.note = "slot_epoch_mismatch"
		}
		return true
	})
	attMut("att_target_root_resigned", "accepted", func(m *mctx, a *phase0.Attestation) bool {
		a.Data.Target.Root = m.rndRoot()
		return m.resignAtt(a)
	})
	attMut("att_head_root_resigned", "accepted", func(m *mctx, a *phase0.Attestation) bool {
		a.Data.BeaconBlockRoot = m.rndRoot()
		return m.resignAtt(a)
	})
	attMut("att_source_checkpoint", "att", func(m *mctx, a *phase0.Attestation) bool {
		if m.variant(2) == 0 {
			a.Data.Source.Root = m.rndRoot()
			m.note = "root"
		} else {
			a.Data.Source.Epoch++
			m.note = "epoch"
		}
		return m.resignAtt(a)
	})
	attMut("att_slot_too_new", "att", func(m *mctx, a *phase0.Attestation) bool {
		if m.c.Spec.SlotToEpoch(m.p.Slot) != a.Data.Target.Epoch {
			return false
		}
		a.Data.Slot = m.p.Slot
		return true
	})
	mut("att_out_of_inclusion_window", "att", func(m *mctx) bool {
		// manufacture an attestation that is one slot too old for this fork
		sp := m.c.Spec
		var a common.Slot
		if m.p.Fork >= Deneb {
			if m.p.Epoch < 2 {
				return false
			}
			a = (common.Slot(m.p.Epoch-1) * sp.SLOTS_PER_EPOCH) - 1
		} else {
			if m.p.Slot < sp.SLOTS_PER_EPOCH+1 {
				return false
			}
			a = m.p.Slot - sp.SLOTS_PER_EPOCH - 1
		}
		te := sp.SlotToEpoch(a)
		if te+1 < m.p.Epoch && m.p.Fork < Deneb {
			return false // would fail on the target epoch first; still fine but not the intended rule
		}
		if uint64(len(m.p.B.Attestations)) >= uint64(sp.MAX_ATTESTATIONS) {
			return false
		}
		var cm []common.ValidatorIndex
		hx.Catch(func() { cm, _ = m.p.Epc.GetBeaconCommittee(a, 0) })
		if len(cm) == 0 {
			return false
		}
		src, _ := m.p.A.PreviousJustifiedCheckpoint()
		if te == m.p.Epoch {
			src, _ = m.p.A.CurrentJustifiedCheckpoint()
		}
		head, _ := common.GetBlockRootAtSlot(sp, m.p.A, a)
		tr, _ := common.GetBlockRoot(sp, m.p.A, te)
		d := phase0.AttestationData{Slot: a, Index: 0, BeaconBlockRoot: head, Source: src, Target: common.Checkpoint{Epoch: te, Root: tr}}
		bits := make([]bool, len(cm))
		for i := range bits {
			bits[i] = true
		}
		var att phase0.Attestation
		ok := true
		hx.Catch(func() { att = m.c.makeAttestation(m.p, d, cm, bits) })
		if !ok || att.AggregationBits == nil {
			return false
		}
		m.p.B.Attestations = append(m.p.B.Attestations, att)
		return true
	})
	attMut("att_bits_length", "att", func(m *mctx, a *phase0.Attestation) bool {
		bits := bitsOf(a.AggregationBits)
		if m.variant(2) == 0 {
			bits = append(bits, m.r.Bool())
			m.note = "longer"
		} else {
			if len(bits) < 2 {
				return false
			}
			bits = bits[:len(bits)-1]
			m.note = "shorter"
		}
		a.AggregationBits = bitlist(bits)
		return true
	})
	mut("att_bits_shorter", "att", func(m *mctx) bool {
		// aggregation bits of length 1..committee_size-1; the set bits select members who really signed and the aggregate
		// signature is re-made for exactly those members: only the length rule can reject it
		for i := range m.p.B.Attestations {
			a := &m.p.B.Attestations[i]
			cm := m.committee(&a.Data)
			bits := bitsOf(a.AggregationBits)
			if cm == nil || len(cm) != len(bits) || len(bits) < 2 {
				continue
			}
			first := -1
			for j, b := range bits {
				if b {
					first = j
					break
				}
			}
			if first < 0 || first >= len(bits)-1 {
				continue
			}
			l := first + 1 + m.r.Intn(len(bits)-1-first)
			short := bits[:l]
			var keys []KeyNum
			for j, b := range short {
				if b {
					keys = append(keys, m.c.keyOfVal(cm[j]))
				}
			}
			dom, err := common.GetDomain(m.p.A, common.DOMAIN_BEACON_ATTESTER, a.Data.Target.Epoch)
			if err != nil {
				continue
			}
			a.AggregationBits = bitlist(short)
			a.Signature = m.c.BLS.Sign(keys, common.ComputeSigningRoot(a.Data.HashTreeRoot(hFn()), dom))
			m.note = fmt.Sprintf("len_%d_of_%d", l, len(bits))
			return true
		}
		return false
	})
	attMut("att_bits_empty", "att", func(m *mctx, a *phase0.Attestation) bool {
		bits := bitsOf(a.AggregationBits)
		for i := range bits {
			bits[i] = false
		}
		a.AggregationBits = bitlist(bits)
		if m.variant(2) == 0 {
			a.Signature = InfinitySig
			m.note = "infinity_signature"
		}
		return true
	})
	attMut("att_bits_zero_length", "att", func(m *mctx, a *phase0.Attestation) bool {
		a.AggregationBits = bitlist(nil)
		return true
	})
	attMut("att_extra_bit_without_signature", "att", func(m *mctx, a *phase0.Attestation) bool {
		bits := bitsOf(a.AggregationBits)
		for i := range bits {
			if !bits[i] {
				bits[i] = true
				a.AggregationBits = bitlist(bits)
				return true
			}
		}
		// all set: clear one instead
		if len(bits) < 2 {
			return false
		}
		bits[m.r.Intn(len(bits))] = false
		a.AggregationBits = bitlist(bits)
		m.note = "cleared_bit"
		return true
	})
	attMut("att_signature", "att", func(m *mctx, a *phase0.Attestation) bool {
		cm := m.committee(&a.Data)
		bits := bitsOf(a.AggregationBits)
		if cm == nil || len(cm) != len(bits) {
			return false
		}
		var keys []KeyNum
		for i, b := range bits {
			if b {
				keys = append(keys, m.c.keyOfVal(cm[i]))
			}
		}
		root := a.Data.HashTreeRoot(hFn())
		switch m.variant(6) {
		case 0:
			copy(a.Signature[:], m.r.Bytes(96))
			m.note = "random_bytes"
		case 1:
			good, _ := common.GetDomain(m.p.A, common.DOMAIN_BEACON_ATTESTER, a.Data.Target.Epoch)
			keys[0] = m.strayKey()
			a.Signature = m.c.BLS.Sign(keys, common.ComputeSigningRoot(root, good))
			m.note = "wrong_key"
		case 2:
			a.Signature = InfinitySig
			m.note = "infinity"
		default:
			d, what := m.variantDomain(common.DOMAIN_BEACON_ATTESTER, a.Data.Target.Epoch, m.vidx)
			a.Signature = m.c.BLS.Sign(keys, common.ComputeSigningRoot(root, d))
			m.note = what
		}
		return true
	})
	mut("att_pre_fork_target_new_version", "att", func(m *mctx) bool {
		// an attestation whose target epoch lies before the last fork, re-signed under the state's current version
		fe := m.p.lastForkEpoch()
		if fe == 0 {
			return false
		}
		for i := range m.p.B.Attestations {
			a := &m.p.B.Attestations[i]
			if a.Data.Target.Epoch >= fe {
				continue
			}
			cm := m.committee(&a.Data)
			bits := bitsOf(a.AggregationBits)
			if cm == nil || len(cm) != len(bits) {
				continue
			}
			var keys []KeyNum
			for j, b := range bits {
				if b {
					keys = append(keys, m.c.keyOfVal(cm[j]))
				}
			}
			dom := common.ComputeDomain(common.DOMAIN_BEACON_ATTESTER, m.stateVersion(), m.c.GVR)
			a.Signature = m.c.BLS.Sign(keys, common.ComputeSigningRoot(a.Data.HashTreeRoot(hFn()), dom))
			return true
		}
		return false
	})
	mut("att_duplicate", "accepted", func(m *mctx) bool {
		b := m.p.B
		if len(b.Attestations) == 0 || uint64(len(b.Attestations)) >= uint64(m.c.Spec.MAX_ATTESTATIONS) {
			return false
		}
		b.Attestations = append(b.Attestations, b.Attestations[m.r.Intn(len(b.Attestations))])
		return true
	})
	mut("att_reorder", "accepted", func(m *mctx) bool {
		b := m.p.B
		if len(b.Attestations) < 2 {
			return false
		}
		i := m.r.Intn(len(b.Attestations) - 1)
		b.Attestations[i], b.Attestations[i+1] = b.Attestations[i+1], b.Attestations[i]
		return true
	})
	// ---------- deposits ----------
	mut("deposit_bad_proof", "deposit", func(m *mctx) bool {
		b := m.p.B
		if len(b.Deposits) == 0 {
			return false
		}
		d := &b.Deposits[m.r.Intn(len(b.Deposits))]
		d.Proof[m.r.Intn(depositDepth+1)][m.r.Intn(32)] ^= 1 << uint(m.r.Intn(8))
		return true
	})
	// a deposit for an EXISTING public key (a top-up) is verified against the deposit root like any other
	mut("deposit_topup_bad_proof", "deposit", func(m *mctx) bool {
		b := m.p.B
		if len(b.Deposits) == 0 {
			return false
		}
		known := map[common.BLSPubkey]common.ValidatorIndex{}
		for i := range m.p.Flats {
			if i < len(m.c.Vals) {
				known[PubOf(m.c.Vals[i].Key)] = common.ValidatorIndex(i)
			}
		}
		var tops []int
		for i := range b.Deposits {
			if _, ok := known[b.Deposits[i].Data.Pubkey]; ok {
				tops = append(tops, i)
			}
		}
		want := m.variant(5) // 0..2: an honest top-up of the block is damaged; 3, 4: a forged top-up replaces the last expected deposit
		if m.force < 0 {
			if len(tops) > 0 {
				want %= 3
			} else {
				want = 3 + want%2
			}
		}
		m.vidx = want
		if want < 3 {
			if len(tops) == 0 {
				return false
			}
			d := &b.Deposits[tops[m.r.Intn(len(tops))]]
			switch want {
			case 0:
				d.Proof[m.r.Intn(depositDepth+1)][m.r.Intn(32)] ^= 1 << uint(m.r.Intn(8))
				m.note = "honest_topup_proof_bit"
			case 1:
				d.Data.Amount += m.c.Spec.EFFECTIVE_BALANCE_INCREMENT
				m.note = "honest_topup_amount_raised"
			default:
				d.Data.Amount--
				m.note = "honest_topup_amount_lowered"
			}
			return true
		}
		// the LAST expected deposit is replaced by a forged top-up of a registered key (the proof of the replaced deposit, or zeros)
		v, ok := m.find(func(i common.ValidatorIndex, f *common.FlatValidator) bool { return true })
		if !ok {
			return false
		}
		d := &b.Deposits[len(b.Deposits)-1]
		d.Data = common.DepositData{Pubkey: PubOf(m.c.Vals[v].Key), WithdrawalCredentials: m.credsOf(v), Amount: m.c.Spec.EFFECTIVE_BALANCE_INCREMENT * common.Gwei(1+m.r.Intn(8))}
		if want == 3 {
			for i := range d.Proof {
				d.Proof[i] = common.Root{}
			}
			m.note = "forged_topup_zero_proof"
		} else {
			m.note = "forged_topup_foreign_proof"
		}
		return true
	})
	mut("deposit_data_changed", "deposit", func(m *mctx) bool {
		b := m.p.B
		if len(b.Deposits) == 0 {
			return false
		}
		d := &b.Deposits[m.r.Intn(len(b.Deposits))]
		d.Data.Amount++
		return true
	})
	mut("deposit_wrong_order", "deposit", func(m *mctx) bool {
		b := m.p.B
		if len(b.Deposits) < 2 {
			return false
		}
		b.Deposits[0], b.Deposits[1] = b.Deposits[1], b.Deposits[0]
		return true
	})
	mut("deposit_missing", "deposit", func(m *mctx) bool {
		b := m.p.B
		if len(b.Deposits) == 0 {
			return false
		}
		m.note = fmt.Sprintf("%d_of_%d", len(b.Deposits)-1, len(b.Deposits))
		b.Deposits = b.Deposits[:len(b.Deposits)-1]
		return true
	})
	mut("deposit_none", "deposit", func(m *mctx) bool {
		// the state demands k > 0 deposits, the block carries none
		b := m.p.B
		if len(b.Deposits) == 0 {
			return false
		}
		m.note = fmt.Sprintf("0_of_%d", len(b.Deposits))
		b.Deposits = nil
		return true
	})
	mut("deposit_unexpected", "deposit", func(m *mctx) bool {
		b := m.p.B
		if uint64(len(b.Deposits)) >= uint64(m.c.Spec.MAX_DEPOSITS) {
			return false
		}
		want := m.variant(2)
		if m.force >= 0 && (want == 0) != (len(b.Deposits) > 0) {
			return false
		}
		if len(b.Deposits) > 0 {
			b.Deposits = append(b.Deposits, b.Deposits[len(b.Deposits)-1])
			m.note = "repeated_last"
			m.vidx = 0
			return true
		}
		m.vidx = 1
		// a well-formed deposit the state does not expect
		e1, _ := m.p.A.Eth1Data()
		n := uint64(e1.DepositCount)
		if n == 0 || n > m.c.DepTree.Count() {
			return false
		}
		b.Deposits = append(b.Deposits, m.c.DepTree.Deposit(n-1, n))
		m.note = "none_expected"
		return true
	})
	// ---------- voluntary exits ----------
	addExit := func(m *mctx, ex phase0.SignedVoluntaryExit) bool {
		if uint64(len(m.p.B.VoluntaryExits)) >= uint64(m.c.Spec.MAX_VOLUNTARY_EXITS) {
			return false
		}
		m.p.B.VoluntaryExits = append(m.p.B.VoluntaryExits, ex)
		return true
	}
	mut("exit_too_young", "exit", func(m *mctx) bool {
		v, ok := m.find(func(i common.ValidatorIndex, f *common.FlatValidator) bool {
			return f.IsActive(m.p.Epoch) && f.ExitEpoch == common.Epoch(FarFuture) && m.p.Epoch < f.ActivationEpoch+m.c.Spec.SHARD_COMMITTEE_PERIOD
		})
		if !ok {
			return false
		}
		return addExit(m, m.c.makeExit(m.p, v, m.p.Epoch))
	})
	mut("exit_not_active_or_exited", "exit", func(m *mctx) bool {
		want := m.variant(3)
		kind := func(f *common.FlatValidator) int {
			switch {
			case f.ActivationEpoch > m.p.Epoch:
				return 0
			case f.ExitEpoch <= m.p.Epoch:
				return 1
			}
			return 2
		}
		v, ok := m.find(func(i common.ValidatorIndex, f *common.FlatValidator) bool {
			return (!f.IsActive(m.p.Epoch) || f.ExitEpoch != common.Epoch(FarFuture)) && (m.force < 0 || kind(f) == want)
		})
		if !ok {
			return false
		}
		m.vidx = kind(&m.p.Flats[v])
		m.note = []string{"not_yet_active", "already_exited", "exit_already_initiated"}[m.vidx]
		return addExit(m, m.c.makeExit(m.p, v, m.p.Epoch))
	})
	mut("exit_future_epoch", "exit", func(m *mctx) bool {
		v, ok := m.find(func(i common.ValidatorIndex, f *common.FlatValidator) bool { return m.p.canExit(i) && !f.Slashed })
		if !ok {
			return false
		}
		var ex phase0.SignedVoluntaryExit
		good := true
		hx.Catch(func() { ex = m.c.makeExit(m.p, v, m.p.Epoch+1+common.Epoch(m.r.Intn(3))) })
		if !good || ex.Signature == (common.BLSSignature{}) {
			return false
		}
		return addExit(m, ex)
	})
	mut("exit_duplicate", "exit", func(m *mctx) bool {
		b := m.p.B
		if uint64(len(b.VoluntaryExits))+2 > uint64(m.c.Spec.MAX_VOLUNTARY_EXITS) {
			return false
		}
		if len(b.VoluntaryExits) > 0 {
			b.VoluntaryExits = append(b.VoluntaryExits, b.VoluntaryExits[m.r.Intn(len(b.VoluntaryExits))])
			return true
		}
		v, ok := m.find(func(i common.ValidatorIndex, f *common.FlatValidator) bool { return m.p.canExit(i) && !f.Slashed })
		if !ok {
			return false
		}
		ex := m.c.makeExit(m.p, v, m.p.Epoch)
		b.VoluntaryExits = append(b.VoluntaryExits, ex, ex)
		return true
	})
	mut("exit_pre_fork_epoch_new_version", "exit", func(m *mctx) bool {
		// pre-deneb: the domain follows exit.epoch; an exit for an epoch before the last fork signed under the current version
		fe := m.p.lastForkEpoch()
		if fe == 0 || m.p.Fork >= Deneb {
			return false
		}
		v, ok := m.find(func(i common.ValidatorIndex, f *common.FlatValidator) bool { return m.p.canExit(i) && !f.Slashed })
		if !ok {
			return false
		}
		ex := phase0.SignedVoluntaryExit{Message: phase0.VoluntaryExit{Epoch: fe - 1, ValidatorIndex: v}}
		dom := common.ComputeDomain(common.DOMAIN_VOLUNTARY_EXIT, m.stateVersion(), m.c.GVR)
		ex.Signature = m.c.BLS.Sign1(m.c.keyOfVal(v), common.ComputeSigningRoot(ex.Message.HashTreeRoot(hFn()), dom))
		m.p.B.VoluntaryExits = phase0.VoluntaryExits{ex} // the only exit of the block
		return true
	})
	mut("exit_already_initiated", "exit", func(m *mctx) bool {
		// still active, exit_epoch already set (voluntary exit or ejection earlier; slashed ones only as a fallback)
		pred := func(unslashed bool) func(i common.ValidatorIndex, f *common.FlatValidator) bool {
			return func(i common.ValidatorIndex, f *common.FlatValidator) bool {
				return f.IsActive(m.p.Epoch) && f.ExitEpoch != common.Epoch(FarFuture) && f.ExitEpoch > m.p.Epoch &&
					m.p.Epoch >= f.ActivationEpoch+m.c.Spec.SHARD_COMMITTEE_PERIOD && (!unslashed || !f.Slashed)
			}
		}
		v, ok := m.find(pred(true))
		if !ok {
			v, ok = m.find(pred(false))
			m.note = "slashed"
		}
		if !ok {
			return false
		}
		return addExit(m, m.c.makeExit(m.p, v, m.p.Epoch))
	})
	mut("exit_same_twice", "exit", func(m *mctx) bool {
		b := m.p.B
		if uint64(len(b.VoluntaryExits))+2 > uint64(m.c.Spec.MAX_VOLUNTARY_EXITS) {
			return false
		}
		v, ok := m.find(func(i common.ValidatorIndex, f *common.FlatValidator) bool { return m.p.canExit(i) && !f.Slashed })
		if !ok {
			return false
		}
		ex := m.c.makeExit(m.p, v, m.p.Epoch)
		b.VoluntaryExits = append(b.VoluntaryExits, ex, ex)
		return true
	})
	mut("exit_reorder", "accepted", func(m *mctx) bool {
		b := m.p.B
		if len(b.VoluntaryExits) < 2 {
			return false
		}
		b.VoluntaryExits[0], b.VoluntaryExits[1] = b.VoluntaryExits[1], b.VoluntaryExits[0]
		return true
	})
	mut("exit_index_out_of_range", "exit", func(m *mctx) bool {
		ex := phase0.SignedVoluntaryExit{Message: phase0.VoluntaryExit{Epoch: m.p.Epoch, ValidatorIndex: common.ValidatorIndex(len(m.p.Flats) + m.r.Intn(3))}}
		copy(ex.Signature[:], placeholderSig[:])
		return addExit(m, ex)
	})
	mut("exit_signature", "exit", func(m *mctx) bool {
		v, ok := m.find(func(i common.ValidatorIndex, f *common.FlatValidator) bool { return m.p.canExit(i) && !f.Slashed })
		if !ok {
			return false
		}
		ex := m.c.makeExit(m.p, v, m.p.Epoch)
		root := ex.Message.HashTreeRoot(hFn())
		key := m.c.keyOfVal(v)
		sp := m.c.Spec
		switch m.variant(7) {
		case 0:
			copy(ex.Signature[:], m.r.Bytes(96))
			m.note = "random_bytes"
		case 1:
			// the right domain, another key
			var dom common.BLSDomain
			if m.p.Fork >= Deneb {
				dom = common.ComputeDomain(common.DOMAIN_VOLUNTARY_EXIT, sp.CAPELLA_FORK_VERSION, m.c.GVR)
			} else {
				dom, _ = common.GetDomain(m.p.A, common.DOMAIN_VOLUNTARY_EXIT, m.p.Epoch)
			}
			ex.Signature = m.c.BLS.Sign1(m.strayKey(), common.ComputeSigningRoot(root, dom))
			m.note = "wrong_key"
		case 2:
			ex.Signature = m.c.BLS.Sign1(key, common.ComputeSigningRoot(root, common.ComputeDomain(common.DOMAIN_BEACON_PROPOSER, m.stateVersion(), m.c.GVR)))
			m.note = "domain_type"
		case 3:
			ex.Signature = m.c.BLS.Sign1(key, common.ComputeSigningRoot(root, common.ComputeDomain(common.DOMAIN_VOLUNTARY_EXIT, m.stateVersion(), m.rndRoot())))
			m.note = "genesis_validators_root"
		default:
			// another fork version: in deneb the state's own (deneb) version is the wrong one (EIP-7044)
			ver := m.otherVersion()
			if m.p.Fork >= Deneb {
				ver = sp.DENEB_FORK_VERSION
				if m.r.Bool() {
					ver = sp.BELLATRIX_FORK_VERSION
				}
			}
			ex.Signature = m.c.BLS.Sign1(key, common.ComputeSigningRoot(root, common.ComputeDomain(common.DOMAIN_VOLUNTARY_EXIT, ver, m.c.GVR)))
			m.note = "fork_version"
		}
		return addExit(m, ex)
	})
	// ---------- BLS to execution changes ----------
	addChange := func(m *mctx, ch common.SignedBLSToExecutionChange) bool {
		if m.p.Fork < Capella || uint64(len(m.p.B.BLSChanges)) >= uint64(m.c.Spec.MAX_BLS_TO_EXECUTION_CHANGES) {
			return false
		}
		m.p.B.BLSChanges = append(m.p.B.BLSChanges, ch)
		return true
	}
	blsVal := func(m *mctx, wantBLS bool) (common.ValidatorIndex, bool) {
		if m.p.Fork < Capella {
			return 0, false
		}
		return m.find(func(i common.ValidatorIndex, f *common.FlatValidator) bool {
			wc := m.credsOf(i)
			return (wc[0] == common.BLS_WITHDRAWAL_PREFIX) == wantBLS
		})
	}
	mut("blschange_wrong_from_key", "blschange", func(m *mctx) bool {
		v, ok := blsVal(m, true)
		if !ok {
			return false
		}
		k := m.strayKey()
		return addChange(m, m.c.makeBLSChange(v, k, addrOf(k)))
	})
	mut("blschange_not_bls_credentials", "blschange", func(m *mctx) bool {
		v, ok := blsVal(m, false)
		if ok && m.credsOf(v)[0] != common.ETH1_ADDRESS_WITHDRAWAL_PREFIX {
			ok = false
		}
		if !ok {
			return false
		}
		k := WithdrawalKeyBase + m.c.Vals[v].Key
		return addChange(m, m.c.makeBLSChange(v, k, addrOf(k)))
	})
	// credentials whose first byte is neither 0x00 nor 0x01: not BLS credentials, even when the rest is the hash of the key
	mut("blschange_odd_prefix_credentials", "blschange", func(m *mctx) bool {
		if m.p.Fork < Capella {
			return false
		}
		v, ok := m.find(func(i common.ValidatorIndex, f *common.FlatValidator) bool {
			wc := m.credsOf(i)
			if wc[0] == common.BLS_WITHDRAWAL_PREFIX || wc[0] == common.ETH1_ADDRESS_WITHDRAWAL_PREFIX {
				return false
			}
			wp := PubOf(WithdrawalKeyBase + m.c.Vals[i].Key)
			h := sha256.Sum256(wp[:])
			return bytes.Equal(h[1:], wc[1:])
		})
		if !ok {
			return false
		}
		k := WithdrawalKeyBase + m.c.Vals[v].Key
		wc := m.credsOf(v)
		m.note = fmt.Sprintf("prefix_%02x", wc[0])
		m.p.B.BLSChanges = nil
		return addChange(m, m.c.makeBLSChange(v, k, addrOf(k)))
	})
	mut("blschange_signature", "blschange", func(m *mctx) bool {
		v, ok := blsVal(m, true)
		if !ok {
			return false
		}
		wk := WithdrawalKeyBase + m.c.Vals[v].Key
		ch := m.c.makeBLSChange(v, wk, addrOf(wk))
		root := ch.BLSToExecutionChange.HashTreeRoot(hFn())
		sp := m.c.Spec
		switch m.variant(6) {
		case 0:
			copy(ch.Signature[:], m.r.Bytes(96))
			m.note = "random_bytes"
		case 1:
			ch.Signature = m.c.BLS.Sign1(m.c.Vals[v].Key, common.ComputeSigningRoot(root, common.ComputeDomain(common.DOMAIN_BLS_TO_EXECUTION_CHANGE, sp.GENESIS_FORK_VERSION, m.c.GVR)))
			m.note = "signing_key_instead_of_withdrawal_key"
		case 2:
			ch.Signature = m.c.BLS.Sign1(wk, common.ComputeSigningRoot(root, common.ComputeDomain(common.DOMAIN_VOLUNTARY_EXIT, sp.GENESIS_FORK_VERSION, m.c.GVR)))
			m.note = "domain_type"
		case 3:
			ch.Signature = m.c.BLS.Sign1(wk, common.ComputeSigningRoot(root, common.ComputeDomain(common.DOMAIN_BLS_TO_EXECUTION_CHANGE, sp.GENESIS_FORK_VERSION, m.rndRoot())))
			m.note = "genesis_validators_root"
		default:
			ch.Signature = m.c.BLS.Sign1(wk, common.ComputeSigningRoot(root, common.ComputeDomain(common.DOMAIN_BLS_TO_EXECUTION_CHANGE, m.stateVersion(), m.c.GVR)))
			m.note = "fork_version"
		}
		return addChange(m, ch)
	})
	mut("blschange_duplicate", "blschange", func(m *mctx) bool {
		if m.p.Fork < Capella || uint64(len(m.p.B.BLSChanges))+2 > uint64(m.c.Spec.MAX_BLS_TO_EXECUTION_CHANGES) {
			return false
		}
		if len(m.p.B.BLSChanges) > 0 {
			m.p.B.BLSChanges = append(m.p.B.BLSChanges, m.p.B.BLSChanges[0])
			return true
		}
		v, ok := blsVal(m, true)
		if !ok {
			return false
		}
		wk := WithdrawalKeyBase + m.c.Vals[v].Key
		ch := m.c.makeBLSChange(v, wk, addrOf(wk))
		m.p.B.BLSChanges = append(m.p.B.BLSChanges, ch, ch)
		return true
	})
	mut("blschange_index_out_of_range", "blschange", func(m *mctx) bool {
		k := m.strayKey()
		return addChange(m, m.c.makeBLSChange(common.ValidatorIndex(len(m.p.Flats)+m.r.Intn(3)), k, addrOf(k)))
	})
	// ---------- sync aggregate ----------
	mut("sync_bit_flipped", "sync", func(m *mctx) bool {
		if m.p.Fork < Altair {
			return false
		}
		n := uint64(m.c.Spec.SYNC_COMMITTEE_SIZE)
		i := uint64(m.r.Intn(int(n)))
		m.p.B.Sync.SyncCommitteeBits[i/8] ^= 1 << (i % 8)
		return true
	})
	mut("sync_signature", "sync", func(m *mctx) bool {
		if m.p.Fork < Altair {
			return false
		}
		sa := &m.p.B.Sync
		n := uint64(m.c.Spec.SYNC_COMMITTEE_SIZE)
		ss := m.p.A.(common.SyncCommitteeBeaconState)
		scv, _ := ss.CurrentSyncCommittee()
		pkv, _ := scv.Pubkeys()
		pubs, _ := pkv.Flatten()
		var keys []KeyNum
		for i := uint64(0); i < n; i++ {
			if sa.SyncCommitteeBits.GetBit(i) {
				k, _ := KeyByPub(pubs[i])
				keys = append(keys, k)
			}
		}
		prev := m.p.Slot.Previous()
		root, _ := common.GetBlockRootAtSlot(m.c.Spec, m.p.A, prev)
		pe := m.c.Spec.SlotToEpoch(prev)
		switch m.variant(7) {
		case 0:
			copy(sa.SyncCommitteeSignature[:], m.r.Bytes(96))
			m.note = "random_bytes"
		case 1:
			if len(keys) == 0 {
				k := m.strayKey()
				good, _ := common.GetDomain(m.p.A, common.DOMAIN_SYNC_COMMITTEE, pe)
				sa.SyncCommitteeSignature = m.c.BLS.Sign1(k, common.ComputeSigningRoot(root, good))
				m.note = "signature_without_participants"
			} else {
				sa.SyncCommitteeSignature = InfinitySig
				m.note = "infinity_with_participants"
			}
		case 2:
			if len(keys) == 0 {
				return false
			}
			good, _ := common.GetDomain(m.p.A, common.DOMAIN_SYNC_COMMITTEE, pe)
			sa.SyncCommitteeSignature = m.c.BLS.Sign(keys, common.ComputeSigningRoot(m.rndRoot(), good))
			m.note = "other_block_root"
		case 3:
			if len(keys) == 0 {
				return false
			}
			good, _ := common.GetDomain(m.p.A, common.DOMAIN_SYNC_COMMITTEE, pe)
			keys[0] = m.strayKey()
			sa.SyncCommitteeSignature = m.c.BLS.Sign(keys, common.ComputeSigningRoot(root, good))
			m.note = "wrong_key"
		default:
			if len(keys) == 0 {
				return false
			}
			d, what := m.variantDomain(common.DOMAIN_SYNC_COMMITTEE, pe, m.vidx)
			sa.SyncCommitteeSignature = m.c.BLS.Sign(keys, common.ComputeSigningRoot(root, d))
			m.note = what
		}
		return true
	})
	mut("sync_sig_new_fork_version", "sync", func(m *mctx) bool {
		// first slot of a fork epoch: the aggregate is over the previous slot, so its domain is the PREVIOUS fork version;
		// here it is signed under the new one
		if m.p.Fork < Altair || !m.c.isForkStart(m.p.Slot) {
			return false
		}
		sa := &m.p.B.Sync
		n := uint64(m.c.Spec.SYNC_COMMITTEE_SIZE)
		ss := m.p.A.(common.SyncCommitteeBeaconState)
		scv, _ := ss.CurrentSyncCommittee()
		pkv, _ := scv.Pubkeys()
		pubs, _ := pkv.Flatten()
		var keys []KeyNum
		for i := uint64(0); i < n; i++ {
			if sa.SyncCommitteeBits.GetBit(i) {
				k, _ := KeyByPub(pubs[i])
				keys = append(keys, k)
			}
		}
		if len(keys) == 0 {
			return false
		}
		root, _ := common.GetBlockRootAtSlot(m.c.Spec, m.p.A, m.p.Slot.Previous())
		dom := common.ComputeDomain(common.DOMAIN_SYNC_COMMITTEE, m.stateVersion(), m.c.GVR)
		sa.SyncCommitteeSignature = m.c.BLS.Sign(keys, common.ComputeSigningRoot(root, dom))
		m.both = true
		return true
	})
	mut("sync_sig_old_fork_version", "sync", func(m *mctx) bool {
		// the twin: a later slot of the first epoch of a fork — the aggregate is over a slot of the NEW fork, so its domain is
		// the new version; here it is signed under the previous one
		fe := m.p.lastForkEpoch()
		if m.p.Fork < Altair || m.p.Epoch != fe || m.c.isForkStart(m.p.Slot) || m.p.Slot.Previous() < common.Slot(fe)*m.c.Spec.SLOTS_PER_EPOCH {
			return false
		}
		sa := &m.p.B.Sync
		n := uint64(m.c.Spec.SYNC_COMMITTEE_SIZE)
		ss := m.p.A.(common.SyncCommitteeBeaconState)
		scv, _ := ss.CurrentSyncCommittee()
		pkv, _ := scv.Pubkeys()
		pubs, _ := pkv.Flatten()
		var keys []KeyNum
		for i := uint64(0); i < n; i++ {
			if sa.SyncCommitteeBits.GetBit(i) {
				k, _ := KeyByPub(pubs[i])
				keys = append(keys, k)
			}
		}
		if len(keys) == 0 {
			return false
		}
		fk, _ := m.p.A.Fork()
		if fk.PreviousVersion == fk.CurrentVersion {
			return false
		}
		root, _ := common.GetBlockRootAtSlot(m.c.Spec, m.p.A, m.p.Slot.Previous())
		dom := common.ComputeDomain(common.DOMAIN_SYNC_COMMITTEE, fk.PreviousVersion, m.c.GVR)
		sa.SyncCommitteeSignature = m.c.BLS.Sign(keys, common.ComputeSigningRoot(root, dom))
		m.both = true
		return true
	})
	// ---------- execution payload ----------
	hasPayload := func(m *mctx) bool {
		return m.p.Fork >= Capella || (m.p.Fork == Bellatrix && m.p.B.Payload.BlockHash != (common.Root{}))
	}
	mut("payload_parent_hash", "payload", func(m *mctx) bool {
		if !hasPayload(m) {
			return false
		}
		if _, _, merged := latestExec(m.p.A); m.p.Fork == Bellatrix && !merged {
			return false // the merge block may name any parent
		}
		m.p.B.Payload.ParentHash[m.r.Intn(32)] ^= 1 << uint(m.r.Intn(8))
		return true
	})
	mut("payload_prev_randao", "payload", func(m *mctx) bool {
		if !hasPayload(m) {
			return false
		}
		m.p.B.Payload.PrevRandao[m.r.Intn(32)] ^= 1 << uint(m.r.Intn(8))
		return true
	})
	mut("payload_timestamp", "payload", func(m *mctx) bool {
		if !hasPayload(m) {
			return false
		}
		if m.variant(2) == 0 {
			m.p.B.Payload.Timestamp++
		} else {
			m.p.B.Payload.Timestamp -= common.Timestamp(m.c.Spec.SECONDS_PER_SLOT)
		}
		return true
	})
	mut("payload_empty_after_merge", "payload|withdrawals", func(m *mctx) bool {
		if _, _, merged := latestExec(m.p.A); !merged || m.p.Fork < Bellatrix {
			return false
		}
		m.p.B.Payload = Block{}.Payload
		return true
	})
	mut("payload_withdrawals", "withdrawals", func(m *mctx) bool {
		if m.p.Fork < Capella {
			return false
		}
		ws := append(common.Withdrawals(nil), m.p.B.Payload.Withdrawals...)
		switch k := m.variant(6); {
		case k == 0 || len(ws) == 0:
			if uint64(len(ws)) >= uint64(m.c.Spec.MAX_WITHDRAWALS_PER_PAYLOAD) {
				return false
			}
			ws = append(ws, common.Withdrawal{Index: common.WithdrawalIndex(m.r.Intn(100)), ValidatorIndex: common.ValidatorIndex(m.r.Intn(len(m.p.Flats))), Amount: common.Gwei(1 + m.r.Intn(1000))})
			m.note = "extra"
		case k == 1:
			ws = ws[:len(ws)-1]
			m.note = "missing"
		case k == 2:
			ws[m.r.Intn(len(ws))].Amount++
			m.note = "amount"
		case k == 3:
			ws[m.r.Intn(len(ws))].Address[m.r.Intn(20)] ^= 1
			m.note = "address"
		case k == 4:
			ws[m.r.Intn(len(ws))].Index++
			m.note = "index"
		default:
			w := &ws[m.r.Intn(len(ws))]
			w.ValidatorIndex = common.ValidatorIndex((uint64(w.ValidatorIndex) + 1) % uint64(len(m.p.Flats)))
			m.note = "validator_index"
		}
		m.p.B.Payload.Withdrawals = ws
		return true
	})
	mut("payload_too_many_blobs", "payload", func(m *mctx) bool {
		if m.p.Fork < Deneb || uint64(m.c.Spec.MAX_BLOBS_PER_BLOCK) >= uint64(m.c.Spec.MAX_BLOB_COMMITMENTS_PER_BLOCK) {
			return false
		}
		// one more than allowed, or as many as the SSZ list can hold
		target := uint64(m.c.Spec.MAX_BLOBS_PER_BLOCK) + 1
		m.note = "max_plus_one"
		if m.variant(2) == 1 {
			target = uint64(m.c.Spec.MAX_BLOB_COMMITMENTS_PER_BLOCK)
			m.note = "list_limit"
		}
		for uint64(len(m.p.B.Blobs)) < target {
			var k common.KZGCommitment
			copy(k[:], m.r.Bytes(48))
			m.p.B.Blobs = append(m.p.B.Blobs, k)
		}
		return true
	})
	mut("payload_engine_verdict", "payload", func(m *mctx) bool {
		if !hasPayload(m) {
			return false
		}
		m.engine = []string{"invalid", "error", "none"}[m.variant(3)]
		m.note = "engine_" + m.engine
		if m.engine == "none" {
			m.note = "engine_missing"
		}
		if m.engine != "none" {
			m.engineAt = m.r.Intn(3) - 1
			if m.p.Fork < Deneb && m.engineAt == 2 {
				m.engineAt = 1
			}
		}
		return true
	})
	mut("payload_unexpected_premerge_garbage", "payload", func(m *mctx) bool {
		if m.p.Fork != Bellatrix {
			return false
		}
		if _, _, merged := latestExec(m.p.A); merged {
			return false
		}
		// non-empty payload before the merge with wrong randao/timestamp
		m.p.B.Payload.BlockHash = m.rndRoot()
		m.p.B.Payload.ParentHash = m.rndRoot()
		m.p.B.Payload.PrevRandao = m.rndRoot()
		m.engine = "valid"
		return true
	})
	// ---------- limits (not representable in SSZ: the list limit equals the per-block maximum) ----------
	mut("over_limit", "", func(m *mctx) bool {
		b := m.p.B
		sp := m.c.Spec
		rep := func(n uint64, have int, app func()) bool {
			if have == 0 || n > 64 {
				return false
			}
			for k := uint64(have); k <= n; k++ {
				app()
			}
			return true
		}
		switch m.variant(5) {
		case 0:
			m.note = "attestations"
			return rep(uint64(sp.MAX_ATTESTATIONS), len(b.Attestations), func() { b.Attestations = append(b.Attestations, b.Attestations[0]) })
		case 1:
			m.note = "deposits"
			return rep(uint64(sp.MAX_DEPOSITS), len(b.Deposits), func() { b.Deposits = append(b.Deposits, b.Deposits[0]) })
		case 2:
			m.note = "voluntary_exits"
			return rep(uint64(sp.MAX_VOLUNTARY_EXITS), len(b.VoluntaryExits), func() { b.VoluntaryExits = append(b.VoluntaryExits, b.VoluntaryExits[0]) })
		case 3:
			m.note = "proposer_slashings"
			return rep(uint64(sp.MAX_PROPOSER_SLASHINGS), len(b.ProposerSlashings), func() { b.ProposerSlashings = append(b.ProposerSlashings, b.ProposerSlashings[0]) })
		default:
			m.note = "attester_slashings"
			return rep(uint64(sp.MAX_ATTESTER_SLASHINGS), len(b.AttesterSlashings), func() { b.AttesterSlashings = append(b.AttesterSlashings, b.AttesterSlashings[0]) })
		}
	})
	// ---------- cross-fork ----------
	mut("cross_fork_container", "block_sig|fork_type", func(m *mctx) bool {
		// the same content in the container of a neighbouring fork, signed under the state's version
		f := m.p.Fork
		nf := f + 1 // variant 0: the container of the next fork, 1: of the previous one
		if m.variant(2) == 1 {
			nf = f - 1
		}
		if m.force < 0 && (nf < Phase0 || nf > Deneb) {
			nf = f + f - nf
			m.vidx = 1 - m.vidx
		}
		if nf < Phase0 || nf > Deneb {
			return false
		}
		b := m.p.B
		b.Fork = nf
		if nf >= Altair && len(b.Sync.SyncCommitteeBits) == 0 {
			b.Sync = altair.SyncAggregate{SyncCommitteeBits: make(altair.SyncCommitteeBits, (uint64(m.c.Spec.SYNC_COMMITTEE_SIZE)+7)/8), SyncCommitteeSignature: InfinitySig}
		}
		m.fixRoot = false
		m.validate = m.r.Chance(60)
		m.note = fmt.Sprintf("%s_as_%s", f, nf)
		return true
	})
}

func (c *Chain) stateSlot(p *ProposeCtx) (common.Slot, error) {
	return p.preSlot, nil
}

// ---- the stream ----

type corruptJob struct {
	step int
}

// CorruptStream derives n corrupted blocks from the honest transitions of the chain.
func (c *Chain) CorruptStream(n int) {
	if len(c.Honest) == 0 || n <= 0 {
		return
	}
	r := c.Rng.Fork()
	c.Rec.Comment(fmt.Sprintf("C03 stream: %d corrupted blocks", n))
	// choose steps (with replacement), grouped so that the advanced state is computed once per step
	picks := make([]int, n)
	for i := range picks {
		picks[i] = r.Intn(len(c.Honest))
	}
	sort.Ints(picks)
	c.mustHaveCorruptions(r)
	var base *ProposeCtx
	last := -1
	var preState common.BeaconState
	perm := make([]int, len(allMutators))
	for _, si := range picks {
		hs := c.Honest[si]
		if si != last {
			last = si
			raw, fk := c.Rec.StateRaw(hs.PreID)
			st, err := DecodeState(c.Spec, fk, raw)
			if err != nil {
				c.problem("corrupt stream: cannot decode %s: %v", hs.PreID, err)
				continue
			}
			preState = st
			adv := RunSlots(c.Spec, st, nil, hs.Blk.Slot, -1)
			if adv.Err != nil || adv.Panicked {
				base = nil
				continue
			}
			A := Unwrap(adv.Post)
			vals, _ := A.Validators()
			flats, _ := common.FlattenValidators(vals)
			ps, _ := st.Slot()
			base = &ProposeCtx{C: c, A: A, Epc: adv.Epc, Slot: hs.Blk.Slot, Epoch: c.Spec.SlotToEpoch(hs.Blk.Slot), Fork: StateFork(A), Flats: flats, preSlot: ps}
		}
		if base == nil {
			continue
		}
		// ~8% of the budget (and the first pick): random decodable bytes
		if r.Chance(8) || c.Stats.Get("corrupt.random_bytes") == 0 && c.Vars["random_bytes_tries"] < 6 {
			c.Vars["random_bytes_tries"]++
			c.randomBytesCase(r, hs, preState)
			continue
		}
		// ~5%: the untouched block presented to another pre-state of the chain (replay across slots and forks)
		if (r.Chance(5) || c.Stats.Get("corrupt.wrong_pre_state") == 0 && c.Vars["wrong_pre_tries"] < 6) && len(c.Honest) > 1 {
			c.Vars["wrong_pre_tries"]++
			c.wrongPreStateCase(r, hs)
			continue
		}
		// ~2%: the honest block without result validation; ~1%: slot processing that must fail
		if r.Chance(2) {
			res := RunTransition(c.Spec, preState, nil, hs.Blk.Signed(), hs.Blk.Fork, false, hs.Engine, -1, -1)
			post := res.Verdict()
			if res.Post != nil {
				post = c.Rec.State(res.Post)
			}
			line := c.Rec.Line("trans %s %s 0 %s %s kind=honest ctx=fresh replay=1", hs.PreID, hs.BlkID, hs.Engine, post)
			c.recordEngine(line, res.Engine)
			c.Stats.Inc("honest_replays_validate0")
			continue
		}
		if r.Chance(1) {
			ps, _ := preState.Slot()
			for _, t := range []common.Slot{ps, ps.Previous()} {
				res := RunSlots(c.Spec, preState, nil, t, -1)
				post := res.Verdict()
				if res.Post != nil {
					post = c.Rec.State(res.Post)
				}
				c.Rec.Line("slots %s %d %s", hs.PreID, t, post)
				c.Stats.Inc("slots_records_not_forward")
			}
			continue
		}
		for i := range perm {
			perm[i] = i
		}
		for i := len(perm) - 1; i > 0; i-- {
			j := r.Intn(i + 1)
			perm[i], perm[j] = perm[j], perm[i]
		}
		done := false
		for _, mi := range perm {
			mu := &allMutators[mi]
			m := c.applyMutator(r, mu, base, hs, -1)
			if m == nil {
				continue
			}
			c.emitCorrupt(m, mu, hs, preState)
			done = true
			break
		}
		if !done {
			c.Stats.Inc("corrupt_no_mutator_applicable")
		}
	}
}

// MustHave: corruptions every chain should contain once when some honest step allows them.
// (superseded by the coverage phase of the run, cover.go, which walks the whole table: kept empty)
var MustHave = []string{}

// MustHavePerFork: once per fork (of the forks this chain covers, see CoverForks).
var MustHavePerFork = []string{}

func (c *Chain) corruptBase(hs HonestStep) (*ProposeCtx, common.BeaconState) {
	raw, fk := c.Rec.StateRaw(hs.PreID)
	st, err := DecodeState(c.Spec, fk, raw)
	if err != nil {
		return nil, nil
	}
	adv := RunSlots(c.Spec, st, nil, hs.Blk.Slot, -1)
	if adv.Err != nil || adv.Panicked {
		return nil, nil
	}
	A := Unwrap(adv.Post)
	vals, _ := A.Validators()
	flats, _ := common.FlattenValidators(vals)
	ps, _ := st.Slot()
	return &ProposeCtx{C: c, A: A, Epc: adv.Epc, Slot: hs.Blk.Slot, Epoch: c.Spec.SlotToEpoch(hs.Blk.Slot), Fork: StateFork(A), Flats: flats, preSlot: ps}, st
}

// applyMutator runs one mutator on a private clone of the honest block (force >= 0 imposes the variant). nil when it does not apply.
func (c *Chain) applyMutator(r *hx.Rng, mu *mutator, base *ProposeCtx, hs HonestStep, force int) *mctx {
	p := *base
	p.B = hs.Blk.Clone()
	p.used = map[common.ValidatorIndex]bool{}
	p.Ops = map[string]int{}
	p.Flats = append([]common.FlatValidator(nil), base.Flats...)
	m := &mctx{c: c, r: r, p: &p, resign: true, fixRoot: true, validate: true, engine: hs.Engine, engineAt: -1, force: force, vidx: -1, mu: mu}
	m.opsUsed()
	applied := false
	panicked, pv := hx.Catch(func() { applied = mu.fn(m) })
	if panicked {
		c.problem("mutator %s panicked: %v", mu.name, pv)
		return nil
	}
	if !applied || (force >= 0 && m.vidx != force && mu.nvar > 0) {
		return nil
	}
	return m
}

func (c *Chain) tryMutator(r *hx.Rng, mu *mutator, base *ProposeCtx, hs HonestStep, pre common.BeaconState) bool {
	m := c.applyMutator(r, mu, base, hs, -1)
	if m == nil {
		return false
	}
	c.emitCorrupt(m, mu, hs, pre)
	return true
}

// mustHaveCorruptions walks the honest steps (latest forks first, every fork start included) until each MustHave
// mutator was applied once.
func (c *Chain) mustHaveCorruptions(r *hx.Rng) {
	missing := map[string]*mutator{}
	for i := range allMutators {
		for _, n := range MustHave {
			if allMutators[i].name == n {
				missing[n] = &allMutators[i]
			}
		}
	}
	perFork := map[string]*mutator{} // "name@fork"
	for i := range allMutators {
		for _, n := range MustHavePerFork {
			if allMutators[i].name == n {
				for f := Phase0; f <= Deneb; f++ {
					if c.CoverForks[f] {
						perFork[n+"@"+f.String()] = &allMutators[i]
					}
				}
			}
		}
	}
	order := make([]int, 0, len(c.Honest))
	order = append(order, c.withdrawableEpochSteps()...)
	for i := range c.Honest {
		if c.isForkStart(c.Honest[i].Blk.Slot) {
			order = append(order, i)
		}
	}
	// then a spread of the other steps
	step := len(c.Honest)/24 + 1
	for i := len(c.Honest) - 1; i >= 0; i -= step {
		order = append(order, i)
	}
	preAdvancedDone := false
	for _, si := range order {
		if len(missing) == 0 && len(perFork) == 0 && preAdvancedDone {
			break
		}
		hs := c.Honest[si]
		base, pre := c.corruptBase(hs)
		if base == nil {
			continue
		}
		if !preAdvancedDone && !hs.Rejected {
			c.preAdvancedCase(hs, pre, base)
			preAdvancedDone = true
		}
		for key, mu := range perFork {
			if key[len(mu.name)+1:] == hs.Blk.Fork.String() && c.tryMutator(r, mu, base, hs, pre) {
				delete(perFork, key)
				c.Stats.Inc("corrupt_must_have_done")
				c.Stats.Inc("corrupt_per_fork." + key)
			}
		}
		for _, n := range MustHave {
			mu := missing[n]
			if mu == nil {
				continue
			}
			if c.tryMutator(r, mu, base, hs, pre) {
				delete(missing, n)
				c.Stats.Inc("corrupt_must_have_done")
			}
		}
	}
	for n := range missing {
		c.Stats.Inc("corrupt_must_have_missing." + n)
	}
	for k := range perFork {
		c.Stats.Inc("corrupt_must_have_missing." + k)
	}
}

// withdrawableEpochSteps: honest steps in the epoch W (and W-1) of an unslashed validator with a finite withdrawable epoch W
// (read from the final state), for the *_at_withdrawable_epoch / *_last_slashable_epoch corruptions.
func (c *Chain) withdrawableEpochSteps() (out []int) {
	vals, err := c.St.Validators()
	if err != nil {
		return nil
	}
	flats, err := common.FlattenValidators(vals)
	if err != nil {
		return nil
	}
	stepAt := map[common.Epoch]int{}
	for i := len(c.Honest) - 1; i >= 0; i-- {
		stepAt[c.Spec.SlotToEpoch(c.Honest[i].Blk.Slot)] = i
	}
	seen := map[int]bool{}
	add := func(e common.Epoch) bool {
		si, ok := stepAt[e]
		if !ok || seen[si] {
			return ok
		}
		seen[si] = true
		out = append(out, si)
		return true
	}
	pairs := 0
	for i := range flats {
		f := &flats[i]
		if f.Slashed || f.WithdrawableEpoch == common.Epoch(FarFuture) || f.WithdrawableEpoch == 0 {
			continue
		}
		if _, ok := stepAt[f.WithdrawableEpoch]; !ok {
			continue
		}
		if _, done := stepAt[f.WithdrawableEpoch]; done && seen[stepAt[f.WithdrawableEpoch]] {
			continue
		}
		add(f.WithdrawableEpoch)
		add(f.WithdrawableEpoch - 1)
		pairs++
		if pairs >= 2 {
			break
		}
	}
	return out
}

// preAdvancedCase: the pre-state is first advanced with ProcessSlots to the block's own slot N (no block at N yet); the
// otherwise fully valid block for N is then applied to THAT state. process_slots asserts state.slot < slot, so the
// specification rejects; also ProcessSlots to the state's own slot and to an earlier one must fail.
func (c *Chain) preAdvancedCase(hs HonestStep, pre common.BeaconState, base *ProposeCtx) {
	adv := RunSlots(c.Spec, pre, nil, hs.Blk.Slot, -1)
	if adv.Err != nil || adv.Panicked {
		return
	}
	aid := c.Rec.State(adv.Post)
	c.Rec.Line("slots %s %d %s", hs.PreID, hs.Blk.Slot, aid)
	c.noteState(adv.Post)
	for _, validate := range []bool{true, false} {
		v := 0
		if validate {
			v = 1
		}
		res := RunTransition(c.Spec, Unwrap(adv.Post), nil, hs.Blk.Signed(), hs.Blk.Fork, validate, hs.Engine, -1, -1)
		c.notePartial(&res)
		rule := RuleClass(res.Err)
		if res.Panicked {
			rule = "panic"
			c.problem("PANIC in zrnt on block %s presented to its own slot-advanced pre-state: %v", hs.BlkID, res.PanicVal)
		}
		post := res.Verdict()
		if res.Post != nil {
			post = c.Rec.State(res.Post)
		}
		line := c.Rec.Line("trans %s %s %d %s %s kind=corrupt corrupt=wrong_pre_state variant=pre_advanced_to_block_slot rule=%s", aid, hs.BlkID, v, hs.Engine, post, rule)
		if res.Err != nil {
			c.Rec.Comment("error: " + firstLine(res.Err.Error()))
		}
		c.recordEngine(line, res.Engine)
		c.Stats.Inc("corrupt_blocks")
		c.Stats.Inc("corrupt.wrong_pre_state_pre_advanced")
		c.Stats.Inc("corrupt_rule." + rule)
	}
	ps, _ := pre.Slot()
	for _, t := range []common.Slot{ps, ps.Previous()} {
		if t == ps.Previous() && ps == 0 {
			continue
		}
		res := RunSlots(c.Spec, pre, nil, t, -1)
		post := res.Verdict()
		if res.Post != nil {
			post = c.Rec.State(res.Post)
		}
		c.Rec.Line("slots %s %d %s", hs.PreID, t, post)
		c.Stats.Inc("slots_records_not_forward")
		if t == ps {
			c.Stats.Inc("slots_records_target_equals_current")
		}
	}
	_ = base
}

// emitCorrupt finishes (state root, signature), runs and records one corrupted block.
func (c *Chain) emitCorrupt(m *mctx, mu *mutator, hs HonestStep, pre common.BeaconState) {
	sp := c.Spec
	b := m.p.B
	if m.fixRoot {
		// when the block is still processable the proper state root makes it fully valid
		dry := RunTransition(sp, pre, nil, b.Signed(), b.Fork, false, orValid(m.engine), -1, -1)
		if dry.Err == nil && !dry.Panicked {
			b.StateRoot = StateRoot(dry.Post)
		}
	}
	if m.resign {
		m.signBlock()
	}
	sb := b.Signed()
	raw := EncodeObj(sp, sb)
	tag := "kind=corrupt corrupt=" + mu.name
	if m.note != "" {
		tag += " variant=" + m.note
	}
	if m.engineAt >= 0 {
		tag += fmt.Sprintf(" engine_at=%d", m.engineAt)
	}
	v := 0
	if m.validate {
		v = 1
	}
	blkID := c.Rec.BlockBytes(b.Fork, raw)
	// the blob must decode (the model reads bytes); when it does not, that is a `baddecode` record, not a transition
	dec, derr := DecodeBlock(sp, b.Fork, raw)
	var res RunResult
	if derr != nil {
		c.Rec.Line("baddecode %s %s", blkID, tag)
		c.Rec.Comment("error: " + firstLine(derr.Error()))
		c.Stats.Inc("corrupt_undecodable")
		c.Stats.Inc("corrupt." + mu.name)
		c.Stats.Inc(coverKey(mu, m.vidx))
		c.Stats.Inc(coverKey(mu, m.vidx) + "@" + m.p.Fork.String())
		return
	}
	res = RunTransition(sp, pre, nil, dec, b.Fork, m.validate, m.engine, m.engineAt, -1)
	c.notePartial(&res)
	rule := RuleClass(res.Err)
	if res.Panicked {
		rule = "panic"
		c.problem("PANIC in zrnt on corrupted block %s (%s): %v", blkID, tag, res.PanicVal)
	}
	tag += " rule=" + rule
	post := res.Verdict()
	if post == "OK" {
		post = c.Rec.State(res.Post)
		c.noteState(res.Post)
	}
	line := c.Rec.Line("trans %s %s %d %s %s %s", hs.PreID, blkID, v, m.engine, post, tag)
	if res.Err != nil && derr == nil {
		c.Rec.Comment("error: " + firstLine(res.Err.Error()))
	}
	c.recordEngine(line, res.Engine)
	if m.both && m.validate {
		r0 := RunTransition(sp, pre, nil, dec, b.Fork, false, m.engine, m.engineAt, -1)
		c.notePartial(&r0)
		p0 := r0.Verdict()
		if p0 == "OK" {
			p0 = c.Rec.State(r0.Post)
			c.noteState(r0.Post)
		}
		t0 := "kind=corrupt corrupt=" + mu.name + " rule=" + RuleClass(r0.Err)
		if r0.Panicked {
			c.problem("PANIC in zrnt on corrupted block %s (validate=0): %v", blkID, r0.PanicVal)
		}
		l0 := c.Rec.Line("trans %s %s 0 %s %s %s", hs.PreID, blkID, m.engine, p0, t0)
		if r0.Err != nil {
			c.Rec.Comment("error: " + firstLine(r0.Err.Error()))
		}
		c.recordEngine(l0, r0.Engine)
		c.Stats.Inc("corrupt_blocks")
	}
	c.Stats.Inc("corrupt_blocks")
	c.Stats.Inc("corrupt." + mu.name)
	c.Stats.Inc("corrupt_rule." + rule)
	c.Stats.Inc("corrupt_fork." + b.Fork.String())
	// coverage: (kind, variant) in the fork of the state the block is presented to
	c.Stats.Inc(coverKey(mu, m.vidx))
	c.Stats.Inc(coverKey(mu, m.vidx) + "@" + m.p.Fork.String())
	if len(mu.intent) > 0 {
		c.Stats.Inc("corrupt_intent_known")
		hit := rule == "bls_decode" && m.note == "random_bytes"
		for _, in := range mu.intent {
			if in == rule {
				hit = true
			}
		}
		if hit {
			c.Stats.Inc("corrupt_intent_hit")
		} else {
			c.Stats.Inc("corrupt_intent_miss." + mu.name + "." + rule)
		}
	}
}

func orValid(e string) string {
	if e != "none" && e != "valid" {
		return "valid"
	}
	return e
}

func firstLine(s string) string {
	if i := strings.IndexByte(s, '\n'); i >= 0 {
		s = s[:i]
	}
	if len(s) > 200 {
		s = s[:200]
	}
	return s
}

// wrongPreStateCase presents an honest block to the pre-state of another honest step.
func (c *Chain) wrongPreStateCase(r *hx.Rng, hs HonestStep) {
	other := c.Honest[r.Intn(len(c.Honest))]
	if other.PreID == hs.PreID {
		return
	}
	raw, fk := c.Rec.StateRaw(other.PreID)
	pre, err := DecodeState(c.Spec, fk, raw)
	if err != nil {
		return
	}
	// a long way to the block's slot may cross several sync committee periods: the committees drawn on the way (on a history the
	// chain never had) are gone from the final state, the AGG table needs them
	if ps, _ := pre.Slot(); hs.Blk.Slot > ps+c.Spec.SLOTS_PER_EPOCH {
		st := pre
		for e := c.Spec.SlotToEpoch(ps) + 1; e <= c.Spec.SlotToEpoch(hs.Blk.Slot); e++ {
			adv := RunSlots(c.Spec, st, nil, common.Slot(e)*c.Spec.SLOTS_PER_EPOCH, -1)
			if adv.Err != nil || adv.Panicked || adv.Post == nil {
				break
			}
			st = Unwrap(adv.Post)
			func() {
				defer func() { recover() }()
				c.noteState(st)
			}()
		}
	}
	for _, validate := range []bool{true, false} {
		v := 0
		if validate {
			v = 1
		}
		eng := hs.Engine
		res := RunTransition(c.Spec, pre, nil, hs.Blk.Signed(), hs.Blk.Fork, validate, eng, -1, -1)
		c.notePartial(&res)
		rule := RuleClass(res.Err)
		if res.Panicked {
			rule = "panic"
			c.problem("PANIC in zrnt on block %s presented to state %s: %v", hs.BlkID, other.PreID, res.PanicVal)
		}
		post := res.Verdict()
		if res.Post != nil {
			post = c.Rec.State(res.Post)
			c.noteState(res.Post)
		}
		variant := "same_fork"
		if fk != hs.Blk.Fork {
			variant = fmt.Sprintf("%s_block_on_%s_state", hs.Blk.Fork, fk)
		}
		line := c.Rec.Line("trans %s %s %d %s %s kind=corrupt corrupt=wrong_pre_state variant=%s rule=%s", other.PreID, hs.BlkID, v, eng, post, variant, rule)
		if res.Err != nil {
			c.Rec.Comment("error: " + firstLine(res.Err.Error()))
		}
		c.recordEngine(line, res.Engine)
		c.Stats.Inc("corrupt_blocks")
		c.Stats.Inc("corrupt.wrong_pre_state")
		c.Stats.Inc("corrupt_rule." + rule)
	}
}

// randomBytesCase mutates bytes of the valid block until it still decodes, and runs it with and without validation.
func (c *Chain) randomBytesCase(r *hx.Rng, hs HonestStep, pre common.BeaconState) {
	sp := c.Spec
	orig, fk := c.Rec.BlockRaw(hs.BlkID)
	if orig == nil {
		return
	}
	for attempt := 0; attempt < 40; attempt++ {
		raw := append([]byte(nil), orig...)
		k := 1 + r.Intn(4)
		for i := 0; i < k; i++ {
			pos := r.Intn(len(raw))
			switch r.Intn(3) {
			case 0:
				raw[pos] ^= 1 << uint(r.Intn(8))
			case 1:
				raw[pos] = byte(r.U64())
			default:
				raw[pos] = []byte{0, 1, 0xff, 0x80, 0x7f}[r.Intn(5)]
			}
		}
		if bytes.Equal(raw, orig) {
			continue
		}
		dec, err := DecodeBlock(sp, fk, raw)
		if err != nil {
			c.Stats.Inc("corrupt_random_bytes_undecodable")
			continue
		}
		blkID := c.Rec.BlockBytes(fk, raw)
		// a huge slot would make ProcessSlots walk for ever: keep those out (documented limit)
		gb := BlockFromSigned(dec)
		if ps, _ := pre.Slot(); gb.Slot > ps+4*sp.SLOTS_PER_EPOCH {
			c.Stats.Inc("corrupt_random_bytes_far_slot_skipped")
			continue
		}
		for _, validate := range []bool{true, false} {
			v := 0
			if validate {
				v = 1
			}
			res := RunTransition(sp, pre, nil, dec, fk, validate, hs.Engine, -1, -1)
			c.notePartial(&res)
			rule := RuleClass(res.Err)
			if res.Panicked {
				rule = "panic"
				c.problem("PANIC in zrnt on random-bytes block %s validate=%d: %v", blkID, v, res.PanicVal)
			}
			post := res.Verdict()
			if post == "OK" {
				post = c.Rec.State(res.Post)
				c.noteState(res.Post)
			}
			line := c.Rec.Line("trans %s %s %d %s %s kind=corrupt corrupt=random_bytes rule=%s", hs.PreID, blkID, v, hs.Engine, post, rule)
			if res.Err != nil {
				c.Rec.Comment("error: " + firstLine(res.Err.Error()))
			}
			c.recordEngine(line, res.Engine)
			c.Stats.Inc("corrupt_blocks")
			c.Stats.Inc("corrupt.random_bytes")
			c.Stats.Inc("corrupt_rule." + rule)
		}
		return
	}
}

var _ = view.Uint64View(0)
var _ = beacon.StandardUpgradeableBeaconState{}
