package chaingen

import (
	"context"
	"encoding/hex"
	"errors"
	"fmt"
	"strings"

	"github.com/protolambda/zrnt/eth2/beacon/bellatrix"
	"github.com/protolambda/zrnt/eth2/beacon/capella"
	"github.com/protolambda/zrnt/eth2/beacon/common"
	"github.com/protolambda/zrnt/eth2/beacon/deneb"
	"github.com/protolambda/ztyp/tree"
)

// EngineCall is one call the scripted engine received.
type EngineCall struct {
	Name        string // is_valid_block_hash | is_valid_versioned_hashes | notify_new_payload
	PayloadRoot common.Root
	Hashes      []common.Hash32 // deneb versioned hashes (nil when the call has none)
	HasHashes   bool
	ParentRoot  common.Root
	HasParent   bool
	Answer      string // valid | invalid | error
}

// ScriptedEngine implements the bellatrix, capella and deneb engine interfaces.
// Verdict is the answer of call number At (0-based); calls before it answer valid.
// At < 0 means: every call answers Verdict.
type ScriptedEngine struct {
	Spec    *common.Spec
	Verdict string // valid | invalid | error | errortrue (= (true, err))
	At      int
	Calls   []EngineCall
}

var ErrEngine = errors.New("scripted engine error")

func (e *ScriptedEngine) answer(c EngineCall) (bool, error) {
	v := e.Verdict
	if e.At >= 0 && len(e.Calls) != e.At {
		v = "valid"
	}
	c.Answer = v
	e.Calls = append(e.Calls, c)
	switch v {
	case "valid":
		return true, nil
	case "invalid":
		return false, nil
	case "ctxerror":
		// an engine-side failure that wraps a context error of the ENGINE's making (RPC timeout) while the caller's context lives
		return false, fmt.Errorf("engine: %w", context.DeadlineExceeded)
	case "ctxcanceled":
		return false, fmt.Errorf("engine: %w", context.Canceled)
	case "errortrue":
		// an adaptor that reports a failure in the error slot NEXT TO an approving verdict: still an engine error
		return true, ErrEngine
	default:
		return false, ErrEngine
	}
}

func (e *ScriptedEngine) BellatrixNotifyNewPayload(ctx context.Context, p *bellatrix.ExecutionPayload) (bool, error) {
	return e.answer(EngineCall{Name: "notify_new_payload", PayloadRoot: p.HashTreeRoot(e.Spec, tree.GetHashFn())})
}
func (e *ScriptedEngine) BellatrixIsValidBlockHash(ctx context.Context, p *bellatrix.ExecutionPayload) (bool, error) {
	return e.answer(EngineCall{Name: "is_valid_block_hash", PayloadRoot: p.HashTreeRoot(e.Spec, tree.GetHashFn())})
}
func (e *ScriptedEngine) CapellaNotifyNewPayload(ctx context.Context, p *capella.ExecutionPayload) (bool, error) {
	return e.answer(EngineCall{Name: "notify_new_payload", PayloadRoot: p.HashTreeRoot(e.Spec, tree.GetHashFn())})
}
func (e *ScriptedEngine) CapellaIsValidBlockHash(ctx context.Context, p *capella.ExecutionPayload) (bool, error) {
	return e.answer(EngineCall{Name: "is_valid_block_hash", PayloadRoot: p.HashTreeRoot(e.Spec, tree.GetHashFn())})
}
func (e *ScriptedEngine) DenebNotifyNewPayload(ctx context.Context, p *deneb.ExecutionPayload, parent common.Root) (bool, error) {
	return e.answer(EngineCall{Name: "notify_new_payload", PayloadRoot: p.HashTreeRoot(e.Spec, tree.GetHashFn()), ParentRoot: parent, HasParent: true})
}
func (e *ScriptedEngine) DenebIsValidVersionedHashes(ctx context.Context, p *deneb.ExecutionPayload, hs []common.Hash32) (bool, error) {
	return e.answer(EngineCall{Name: "is_valid_versioned_hashes", PayloadRoot: p.HashTreeRoot(e.Spec, tree.GetHashFn()),
		Hashes: append([]common.Hash32(nil), hs...), HasHashes: true})
}
func (e *ScriptedEngine) DenebIsValidBlockHash(ctx context.Context, p *deneb.ExecutionPayload, parent common.Root) (bool, error) {
	return e.answer(EngineCall{Name: "is_valid_block_hash", PayloadRoot: p.HashTreeRoot(e.Spec, tree.GetHashFn()), ParentRoot: parent, HasParent: true})
}

var _ bellatrix.ExecutionEngine = (*ScriptedEngine)(nil)
var _ capella.ExecutionEngine = (*ScriptedEngine)(nil)
var _ deneb.ExecutionEngine = (*ScriptedEngine)(nil)

// EngineLine formats the `engine` record of one call.
func EngineLine(transLine int, c EngineCall) string {
	hs := "-"
	if c.HasHashes {
		parts := make([]string, len(c.Hashes))
		for i, h := range c.Hashes {
			parts[i] = hex.EncodeToString(h[:])
		}
		hs = strings.Join(parts, ",")
		if len(parts) == 0 {
			hs = "" // empty list: written as the literal `[]` below
		}
		if hs == "" {
			hs = "[]"
		}
	}
	pr := "-"
	if c.HasParent {
		pr = hex.EncodeToString(c.ParentRoot[:])
	}
	return fmt.Sprintf("engine %d %s %s %s call=%s answer=%s", transLine, hex.EncodeToString(c.PayloadRoot[:]), hs, pr, c.Name, c.Answer)
}

// ---- counting / failing context ----

// PollCtx counts Err() polls; from poll number FailFrom (0-based) on it reports context.Canceled. FailFrom < 0 never fails.
type PollCtx struct {
	context.Context
	FailFrom   int
	Polls      int
	ByDeadline bool // report context.DeadlineExceeded (a context that ended by its deadline) instead of context.Canceled
}

func NewPollCtx(failFrom int) *PollCtx {
	return &PollCtx{Context: context.Background(), FailFrom: failFrom}
}

func (c *PollCtx) Err() error {
	n := c.Polls
	c.Polls++
	if c.FailFrom >= 0 && n >= c.FailFrom {
		if c.ByDeadline {
			return context.DeadlineExceeded
		}
		return context.Canceled
	}
	return nil
}

func (c *PollCtx) Done() <-chan struct{} { return nil }
