package chaingen

import (
	"github.com/protolambda/zrnt/eth2/beacon/common"
)

// pendingEffBalChange: would the next epoch transition change some effective balance (hysteresis)?
func (c *Chain) pendingEffBalChange() bool {
	sp := c.Spec
	vals, err := c.St.Validators()
	if err != nil {
		return false
	}
	flats, err := common.FlattenValidators(vals)
	if err != nil {
		return false
	}
	br, err := c.St.Balances()
	if err != nil {
		return false
	}
	bals, err := br.AllBalances()
	if err != nil {
		return false
	}
	hInc := sp.EFFECTIVE_BALANCE_INCREMENT / common.Gwei(sp.HYSTERESIS_QUOTIENT)
	down := hInc * common.Gwei(sp.HYSTERESIS_DOWNWARD_MULTIPLIER)
	up := hInc * common.Gwei(sp.HYSTERESIS_UPWARD_MULTIPLIER)
	for i := range flats {
		if i >= len(bals) {
			break
		}
		eff, bal := flats[i].EffectiveBalance, bals[i]
		if bal+down < eff || (eff+up < bal && eff < sp.MAX_EFFECTIVE_BALANCE) {
			return true
		}
	}
	return false
}

func effBalsOf(st common.BeaconState) []common.Gwei {
	vals, err := st.Validators()
	if err != nil {
		return nil
	}
	flats, err := common.FlattenValidators(vals)
	if err != nil {
		return nil
	}
	out := make([]common.Gwei, len(flats))
	for i := range flats {
		out[i] = flats[i].EffectiveBalance
	}
	return out
}

func effBalsDiffer(a, b []common.Gwei) bool {
	n := len(a)
	if len(b) < n {
		n = len(b)
	}
	for i := 0; i < n; i++ {
		if a[i] != b[i] {
			return true
		}
	}
	return false
}

// Branch: a copy of the head (state copy + epc.Clone()) is advanced by 1-2 epochs of empty slots while the head itself is not
// touched; afterwards both contexts are dumped against their own states. A context that shares mutable data with its clone
// shows up in the ORIGINAL's dump. The main chain continues from the original.
func (c *Chain) Branch() {
	sp := c.Spec
	target := (common.Slot(c.Epoch())+1+common.Slot(c.Rng.Intn(2)))*sp.SLOTS_PER_EPOCH + common.Slot(c.Rng.Intn(int(sp.SLOTS_PER_EPOCH)))
	res := RunSlots(sp, c.St, c.Epc, target, -1) // works on CopyState(c.St) and c.Epc.Clone()
	c.branches++
	c.Stats.Inc("branch_points")
	if res.Err != nil || res.Panicked {
		c.Rec.Line("slots %s %d %s", c.StID, target, res.Verdict())
		c.problem("branch: advancing a copy of %s to slot %d failed: %v %v", c.StID, target, res.Err, res.PanicVal)
		return
	}
	cid := c.Rec.State(res.Post)
	c.Rec.Line("slots %s %d %s", c.StID, target, cid)
	c.Stats.Inc("slots_records")
	c.noteState(res.Post)
	if effBalsDiffer(effBalsOf(c.St), effBalsOf(res.Post)) {
		c.Stats.Inc("branch_effbal_changed_on_other_side")
	}
	c.recordEPCTagged(cid, Unwrap(res.Post), res.Epc, false, "branch=clone")
	if !c.recordEPCTagged(c.StID, c.St, c.Epc, false, "branch=original_after_clone_advanced") {
		c.Stats.Inc("branch_original_context_differs")
	}
	// reverse direction, once per chain: keep an untouched clone of this moment, dump it after the head crossed an epoch boundary
	if c.heldEpc == nil && c.heldID == "" {
		c.heldSt, c.heldEpc, c.heldID, c.heldEpoch = CopyState(c.St), c.Epc.Clone(), c.StID, c.Epoch()
	}
}

// dumpHeld: the clone kept by Branch() was never used; the original went on past an epoch boundary.
func (c *Chain) dumpHeld() {
	if c.heldEpc == nil || c.Epoch() < c.heldEpoch+1 {
		return
	}
	if effBalsDiffer(effBalsOf(c.heldSt), effBalsOf(c.St)) {
		c.Stats.Inc("branch_effbal_changed_on_other_side")
	}
	c.Stats.Inc("branch_points")
	c.Stats.Inc("branch_points_reverse")
	if !c.recordEPCTagged(c.heldID, c.heldSt, c.heldEpc, false, "branch=clone_after_original_advanced") {
		c.Stats.Inc("branch_original_context_differs")
	}
	c.heldEpc, c.heldSt = nil, nil
}
