package chaingen

import (
	"github.com/protolambda/zrnt/eth2/beacon/common"
)

// syncSeatScript (chains with SyncSeat): a member M of the NEXT sync committee exits right after being selected, becomes
// withdrawable and is fully withdrawn (balance 0) while it holds its seat; M never signs sync messages. Then a top-up deposit
// for M is queued: the block that carries it also carries a sync aggregate in which M does not participate. process_operations
// credits M first, process_sync_aggregate then takes the (saturating) penalty — the order matters only at (near) zero balance.
func (c *Chain) syncSeatScript(p *ProposeCtx) {
	sp := c.Spec
	switch c.seatPhase {
	case 0:
		if p.Fork < Altair || p.Epoch < sp.SHARD_COMMITTEE_PERIOD {
			return
		}
		ss, ok := p.A.(common.SyncCommitteeBeaconState)
		if !ok {
			return
		}
		nv, err := ss.NextSyncCommittee()
		if err != nil {
			return
		}
		pv, err := nv.Pubkeys()
		if err != nil {
			return
		}
		pubs, err := pv.Flatten()
		if err != nil {
			return
		}
		byKey := map[KeyNum]common.ValidatorIndex{}
		for i, v := range c.Vals {
			byKey[v.Key] = common.ValidatorIndex(i)
		}
		// prefer a member that already has ETH1 withdrawal credentials
		for pass := 0; pass < 2; pass++ {
			for _, pk := range pubs {
				k, ok := KeyByPub(pk)
				if !ok {
					continue
				}
				m, ok := byKey[k]
				if !ok || c.Vals[m].Odd != 0 || (pass == 0 && c.Vals[m].WKey != 0) {
					continue
				}
				if p.AddExit(m) {
					c.seatM, c.seatPhase = m, 1
					c.Protected[m] = true
					c.Absent[m] = true
					p.Ops["sync_seat_member_exits"]++
					return
				}
			}
		}
	case 1:
		if p.Fork < Capella {
			return
		}
		if c.Vals[c.seatM].WKey != 0 {
			p.AddBLSChange(c.seatM)
			return
		}
		if int(c.seatM) < len(p.Bals) && p.Bals[c.seatM] == 0 && p.Flats[c.seatM].WithdrawableEpoch <= p.Epoch {
			c.TopUp(c.seatM, sp.MIN_DEPOSIT_AMOUNT)
			c.Stats.Add("deposits_queued", 1)
			c.Stats.Inc("sync_seat_member_withdrawn_then_topped_up")
			c.Stats.Max("sync_seat_topup_queued_at_slot", int(p.Slot))
			c.seatPhase = 2
		}
	}
}

// noteSeatTopUp counts the block the scenario is after: a top-up for a zero-balance validator that sits in the current sync
// committee and has no participation bit set in this block's aggregate.
func (c *Chain) noteSeatTopUp(p *ProposeCtx) {
	if p.Fork < Altair || len(p.B.Deposits) == 0 {
		return
	}
	ss, ok := p.A.(common.SyncCommitteeBeaconState)
	if !ok {
		return
	}
	cv, err := ss.CurrentSyncCommittee()
	if err != nil {
		return
	}
	pv, err := cv.Pubkeys()
	if err != nil {
		return
	}
	pubs, err := pv.Flatten()
	if err != nil {
		return
	}
	for _, d := range p.B.Deposits {
		seated, signs := false, false
		for i, pk := range pubs {
			if pk == d.Data.Pubkey {
				seated = true
				if p.B.Sync.SyncCommitteeBits.GetBit(uint64(i)) {
					signs = true
				}
			}
		}
		if !seated || signs {
			continue
		}
		k, ok := KeyByPub(d.Data.Pubkey)
		if !ok {
			continue
		}
		for i, v := range c.Vals {
			if v.Key == k && i < len(p.Bals) && p.Bals[i] < 1000 {
				p.Ops["topup_zero_balance_nonparticipating_sync_member"]++
			}
		}
	}
}
