package chaingen

import (
	"crypto/sha256"
	"encoding/binary"

	"github.com/protolambda/zrnt/eth2/beacon/common"
)

const depositDepth = common.DEPOSIT_CONTRACT_TREE_DEPTH

var zeroHashes = func() [depositDepth + 1]common.Root {
	var z [depositDepth + 1]common.Root
	for i := 1; i <= depositDepth; i++ {
		z[i] = hash2(z[i-1], z[i-1])
	}
	return z
}()

func hash2(a, b common.Root) common.Root {
	var buf [64]byte
	copy(buf[:32], a[:])
	copy(buf[32:], b[:])
	return sha256.Sum256(buf[:])
}

// DepositTree is the generator's own copy of the deposit contract tree (all leaves kept, proofs for any prefix size).
type DepositTree struct {
	Leaves []common.Root
	Data   []common.DepositData
}

func (t *DepositTree) Add(d common.DepositData) {
	t.Data = append(t.Data, d)
	t.Leaves = append(t.Leaves, d.HashTreeRoot(hFn()))
}

func (t *DepositTree) Count() uint64 { return uint64(len(t.Leaves)) }

func lengthMixin(n uint64) (r common.Root) {
	binary.LittleEndian.PutUint64(r[:8], n)
	return
}

// layers of the tree over the first n leaves; layer[d] has ceil(n / 2^d) nodes (others are zero hashes)
func (t *DepositTree) layers(n uint64) [][]common.Root {
	out := make([][]common.Root, depositDepth+1)
	cur := append([]common.Root(nil), t.Leaves[:n]...)
	out[0] = cur
	for d := 0; d < depositDepth; d++ {
		next := make([]common.Root, (len(cur)+1)/2)
		for i := range next {
			l := cur[2*i]
			r := zeroHashes[d]
			if 2*i+1 < len(cur) {
				r = cur[2*i+1]
			}
			next[i] = hash2(l, r)
		}
		cur = next
		out[d+1] = cur
	}
	return out
}

// Root of the tree holding the first n leaves (deposit_root of the contract after n deposits).
func (t *DepositTree) Root(n uint64) common.Root {
	if n == 0 {
		return hash2(zeroHashes[depositDepth], lengthMixin(0))
	}
	l := t.layers(n)
	return hash2(l[depositDepth][0], lengthMixin(n))
}

// Proof of leaf i in the tree of the first n leaves (DEPOSIT_CONTRACT_TREE_DEPTH siblings + length mix-in).
func (t *DepositTree) Proof(i, n uint64) (p common.DepositProof) {
	l := t.layers(n)
	idx := i
	for d := 0; d < depositDepth; d++ {
		sib := idx ^ 1
		if sib < uint64(len(l[d])) {
			p[d] = l[d][sib]
		} else {
			p[d] = zeroHashes[d]
		}
		idx >>= 1
	}
	p[depositDepth] = lengthMixin(n)
	return
}

func (t *DepositTree) Deposit(i, n uint64) common.Deposit {
	return common.Deposit{Proof: t.Proof(i, n), Data: t.Data[i]}
}
