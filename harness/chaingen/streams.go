package chaingen

import (
	"bytes"
	"fmt"

	"github.com/protolambda/zrnt/eth2/beacon/common"
)

// HonestSlots remembers an honest `slots` record.
type HonestSlots struct {
	PreID  string
	Target common.Slot
}

// CancelStream (C18): for n sampled honest steps run the same call under a context that fails from the k-th poll on,
// for every k from 0 to the poll count of the undisturbed run (inclusive).
func (c *Chain) CancelStream(n int) {
	r := c.Rng.Fork()
	c.Rec.Comment(fmt.Sprintf("C18 stream: cancellation sweeps on %d steps", n))
	for i := 0; i < n; i++ {
		useSlots := len(c.SlotSteps) > 0 && (len(c.Honest) == 0 || r.Chance(35))
		if useSlots {
			hs := c.SlotSteps[r.Intn(len(c.SlotSteps))]
			raw, fk := c.Rec.StateRaw(hs.PreID)
			pre, err := DecodeState(c.Spec, fk, raw)
			if err != nil {
				continue
			}
			base := RunSlots(c.Spec, pre, nil, hs.Target, -1)
			post := base.Verdict()
			var baseBytes []byte
			if base.Post != nil {
				baseBytes = EncodeState(base.Post)
				post = c.Rec.State(base.Post)
			}
			c.Rec.Line("slots %s %d %s", hs.PreID, hs.Target, post)
			for k := 0; k <= base.Polls; k++ {
				res := RunSlots(c.Spec, pre, nil, hs.Target, k)
				c.cancelLine(hs.PreID, "-", hs.Target, k, base.Polls, &res, baseBytes, "")
			}
			c.Stats.Inc("cancel_sweeps_slots")
			continue
		}
		if len(c.Honest) == 0 {
			return
		}
		hs := c.Honest[r.Intn(len(c.Honest))]
		if hs.Rejected {
			continue
		}
		c.cancelSweepBlock(hs, true)
	}
	c.cancelCoverage(r)
}

// opKinds of an honest block (what its processing loops poll the context for).
func opKinds(b *Block) []string {
	var ks []string
	add := func(k string, n int) {
		if n > 0 {
			ks = append(ks, k)
		}
	}
	add("att", len(b.Attestations))
	add("pslash", len(b.ProposerSlashings))
	add("aslash", len(b.AttesterSlashings))
	add("dep", len(b.Deposits))
	add("exit", len(b.VoluntaryExits))
	add("blschg", len(b.BLSChanges))
	if len(b.Deposits) > 0 && len(b.VoluntaryExits) == 0 {
		ks = append(ks, "dep_noexit") // the deposit loop holds the last poll of a phase0 block
	}
	if len(b.Attestations) > 0 && len(b.Deposits) == 0 && len(b.VoluntaryExits) == 0 {
		ks = append(ks, "att_last")
	}
	if len(ks) == 0 {
		ks = append(ks, "empty")
	}
	return ks
}

// cancelCoverage: at least one cancellation sweep, with result validation AND without it, for every (fork, operation kind)
// the chain has a block for. Blocks are chosen greedily so that few sweeps cover all pairs.
func (c *Chain) cancelCoverage(r interface{ Intn(int) int }) {
	need := map[string]bool{}
	for _, h := range c.Honest {
		if h.Rejected {
			continue
		}
		for _, k := range opKinds(h.Blk) {
			// this chain's share of the run-wide coverage: its assigned forks, and always phase0 deposits without exits
			if c.CoverForks[h.Blk.Fork] || (h.Blk.Fork == Phase0 && k == "dep_noexit") {
				need[h.Blk.Fork.String()+"."+k] = true
			}
		}
	}
	for len(need) > 0 {
		best, bestN := -1, 0
		for i, h := range c.Honest {
			if h.Rejected {
				continue
			}
			n := 0
			for _, k := range opKinds(h.Blk) {
				if need[h.Blk.Fork.String()+"."+k] {
					n++
				}
			}
			// prefer blocks with few operations (short sweeps) among equally useful ones
			if n > bestN {
				best, bestN = i, n
			}
		}
		if best < 0 {
			break
		}
		hs := c.Honest[best]
		for _, k := range opKinds(hs.Blk) {
			key := hs.Blk.Fork.String() + "." + k
			if need[key] {
				delete(need, key)
				c.Stats.Inc("cancel_cover." + key)
			}
		}
		c.cancelSweepBlock(hs, true)
		c.cancelSweepBlock(hs, false)
		c.Stats.Inc("cancel_sweeps_coverage_blocks")
	}
}

// cancelSweepBlock repeats one honest transition (line re-emitted) and cancels it at every poll.
func (c *Chain) cancelSweepBlock(hs HonestStep, validate bool) {
	raw, fk := c.Rec.StateRaw(hs.PreID)
	pre, err := DecodeState(c.Spec, fk, raw)
	if err != nil {
		return
	}
	v := 0
	if validate {
		v = 1
	}
	key := fmt.Sprintf("%s|%s|%d", hs.PreID, hs.BlkID, v)
	if c.cancelDone == nil {
		c.cancelDone = map[string]bool{}
	}
	if c.cancelDone[key] {
		return
	}
	c.cancelDone[key] = true
	sb := hs.Blk.Signed()
	base := RunTransition(c.Spec, pre, nil, sb, hs.Blk.Fork, validate, hs.Engine, -1, -1)
	post := base.Verdict()
	var baseBytes []byte
	if base.Post != nil {
		baseBytes = EncodeState(base.Post)
		post = c.Rec.State(base.Post)
	}
	line := c.Rec.Line("trans %s %s %d %s %s kind=honest ctx=fresh replay=1", hs.PreID, hs.BlkID, v, hs.Engine, post)
	c.recordEngine(line, base.Engine)
	for k := 0; k <= base.Polls; k++ {
		res := RunTransition(c.Spec, pre, nil, sb, hs.Blk.Fork, validate, hs.Engine, -1, k)
		c.cancelLine(hs.PreID, hs.BlkID, hs.Blk.Slot, k, base.Polls, &res, baseBytes, fmt.Sprintf("engine=%s validate=%d", hs.Engine, v))
	}
	// a context that ended by its DEADLINE (Err() = context.DeadlineExceeded) at the last two polls
	for k := base.Polls - 2; k < base.Polls; k++ {
		if k < 0 {
			continue
		}
		res := RunTransitionCtx(c.Spec, pre, nil, sb, hs.Blk.Fork, validate, hs.Engine, -1, k, true)
		c.cancelLine(hs.PreID, hs.BlkID, hs.Blk.Slot, k, base.Polls, &res, baseBytes, fmt.Sprintf("engine=%s validate=%d ctxerr=deadline", hs.Engine, v))
		c.Stats.Inc("cancel_deadline_records")
		c.Stats.Inc("cancel_deadline." + hs.Blk.Fork.String())
	}
	c.Stats.Inc("cancel_sweeps_trans")
	c.Stats.Inc(fmt.Sprintf("cancel_sweeps_trans_validate%d", v))
}

func (c *Chain) cancelLine(pre, blk string, target common.Slot, k, total int, res *RunResult, baseBytes []byte, tags string) {
	same := "-"
	if res.Post != nil && baseBytes != nil {
		if bytes.Equal(EncodeState(res.Post), baseBytes) {
			same = "1"
		} else {
			same = "0"
		}
	}
	c.Rec.Line("cancel %s %s %d %d %d %s %s %s", pre, blk, target, k, total, res.Verdict(), same, tags)
	c.Stats.Inc("cancel_records")
	switch {
	case res.Panicked:
		c.Stats.Inc("cancel_panics")
		c.problem("PANIC under cancellation k=%d of %s/%s: %v", k, pre, blk, res.PanicVal)
	case k < total && res.Err == nil:
		c.Stats.Inc("cancel_swallowed")
		c.problem("cancellation at poll %d of %d was swallowed (%s %s target %d)", k, total, pre, blk, target)
	case k < total && RuleClass(res.Err) != "cancelled":
		c.Stats.Inc("cancel_other_error")
	case k >= total && same != "1":
		c.Stats.Inc("cancel_undisturbed_differs")
		c.problem("undisturbed run with counting context differs (%s %s)", pre, blk)
	}
	c.Stats.Max("max_polls", total)
}

// EngineStream (C18): scripted engine answering invalid/error at every call position, and no engine at all.
func (c *Chain) EngineStream(n int) {
	r := c.Rng.Fork()
	var withPayload, zeroHash []HonestStep
	for _, h := range c.Honest {
		if !h.Rejected && h.Engine == "valid" && (h.Blk.Fork >= Capella || h.HasPayload) {
			withPayload = append(withPayload, h)
			if h.ZeroHashMerge {
				zeroHash = append(zeroHash, h)
			}
		}
	}
	if len(withPayload) == 0 {
		return
	}
	c.Rec.Comment(fmt.Sprintf("C18 stream: engine verdict sweeps on %d steps", n))
	// always: one payload-bearing block of every fork that has an engine (bellatrix, capella, deneb)
	var perFork []HonestStep
	for f := Bellatrix; f <= Deneb; f++ {
		if !c.CoverForks[f] {
			continue // the chains of a run share this: every engine fork is swept by at least two quick chains
		}
		var cand []HonestStep
		for _, h := range withPayload {
			if h.Blk.Fork == f && !h.ZeroHashMerge {
				cand = append(cand, h)
			}
		}
		if len(cand) > 0 {
			perFork = append(perFork, cand[r.Intn(len(cand))])
		}
	}
	if n > len(perFork) {
		n -= len(perFork)
	} else {
		n = 0
	}
	for i := 0; i < n+len(zeroHash)+len(perFork); i++ {
		var hs HonestStep
		if i < len(zeroHash) {
			// always: the merge-transition block whose payload has block_hash = 0
			hs = zeroHash[i]
			c.Stats.Inc("engine_sweeps_zero_hash_merge_block")
		} else if i < len(zeroHash)+len(perFork) {
			hs = perFork[i-len(zeroHash)]
		} else {
			hs = withPayload[r.Intn(len(withPayload))]
		}
		raw, fk := c.Rec.StateRaw(hs.PreID)
		pre, err := DecodeState(c.Spec, fk, raw)
		if err != nil {
			continue
		}
		sb := hs.Blk.Signed()
		ncalls := 2
		if hs.Blk.Fork >= Deneb {
			ncalls = 3
		}
		type variant struct {
			mode string
			at   int
		}
		vs := []variant{{"none", -1}, {"invalid", -1}, {"error", -1}, {"errortrue", -1}}
		if i >= len(zeroHash) && i < len(zeroHash)+len(perFork) {
			// guaranteed per-fork sweep: the all-calls modes behave like engine_at=0, keep only the positional ones
			vs = vs[:1]
		}
		for j := 0; j < ncalls; j++ {
			vs = append(vs, variant{"invalid", j}, variant{"error", j}, variant{"errortrue", j}, variant{"ctxerror", j}, variant{"ctxcanceled", j})
		}
		for _, v := range vs {
			for _, validate := range []bool{true, false} {
				if !validate && v.mode != "ctxerror" && v.mode != "ctxcanceled" {
					// without result validation only for the answers that carry a context error: a transition that swallows
					// them skips the header update, which the state-root check would otherwise still catch
					continue
				}
				vflag := 0
				if validate {
					vflag = 1
				}
				res := RunTransition(c.Spec, pre, nil, sb, hs.Blk.Fork, validate, v.mode, v.at, -1)
				c.notePartial(&res)
				tag := "kind=engine"
				if hs.ZeroHashMerge {
					tag += " payload=merge_block_zero_hash"
				}
				if v.mode == "none" {
					tag += " variant=engine_missing"
				}
				if v.at >= 0 {
					tag += fmt.Sprintf(" engine_at=%d", v.at)
				}
				post := res.Verdict()
				if res.Post != nil {
					post = c.Rec.State(res.Post)
					c.problem("engine verdict %s (at %d) did not reject the block %s", v.mode, v.at, hs.BlkID)
					c.Stats.Inc("engine_fault_accepted")
				}
				if res.Panicked {
					c.problem("PANIC with engine verdict %s: %v", v.mode, res.PanicVal)
				}
				line := c.Rec.Line("trans %s %s %d %s %s %s rule=%s", hs.PreID, hs.BlkID, vflag, v.mode, post, tag, RuleClass(res.Err))
				c.recordEngine(line, res.Engine)
				c.Stats.Inc("engine_fault_records")
				c.Stats.Inc("engine_fault." + hs.Blk.Fork.String() + "." + v.mode)
			}
		}
		c.Stats.Inc("engine_sweeps")
	}
}
