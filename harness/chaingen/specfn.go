package chaingen

import (
	"crypto/sha256"
	"encoding/binary"

	"github.com/protolambda/zrnt/eth2/beacon/common"
)

// Own transcriptions of the specification's sampling helpers (sha256 only). The generator's counters must not depend on the
// zrnt functions they are meant to probe (ComputeProposers, ComputeSyncCommitteeIndices, GetSeed, PermuteIndex).

// specShuffledIndex = compute_shuffled_index.
func specShuffledIndex(index, n uint64, seed [32]byte, rounds uint8) uint64 {
	var buf [37]byte
	copy(buf[:32], seed[:])
	for r := uint8(0); r < rounds; r++ {
		buf[32] = r
		h := sha256.Sum256(buf[:33])
		pivot := binary.LittleEndian.Uint64(h[:8]) % n
		flip := (pivot + n - index) % n
		pos := index
		if flip > pos {
			pos = flip
		}
		binary.LittleEndian.PutUint32(buf[33:], uint32(pos/256))
		src := sha256.Sum256(buf[:37])
		if (src[(pos%256)/8]>>(pos%8))&1 == 1 {
			index = flip
		}
	}
	return index
}

// specSeed = get_seed(state, epoch, domain_type); the randao mix is read through the state interface.
func specSeed(sp *common.Spec, st common.BeaconState, epoch common.Epoch, dt common.BLSDomainType) (out [32]byte, err error) {
	mixes, err := st.RandaoMixes()
	if err != nil {
		return out, err
	}
	mix, err := mixes.GetRandomMix(epoch + sp.EPOCHS_PER_HISTORICAL_VECTOR - sp.MIN_SEED_LOOKAHEAD - 1)
	if err != nil {
		return out, err
	}
	var buf [44]byte
	copy(buf[:4], dt[:])
	binary.LittleEndian.PutUint64(buf[4:12], uint64(epoch))
	copy(buf[12:], mix[:])
	return sha256.Sum256(buf[:]), nil
}

func specActive(flats []common.FlatValidator, e common.Epoch) []common.ValidatorIndex {
	var out []common.ValidatorIndex
	for i := range flats {
		if flats[i].ActivationEpoch <= e && e < flats[i].ExitEpoch {
			out = append(out, common.ValidatorIndex(i))
		}
	}
	return out
}

// specProposer = compute_proposer_index; also reports how many candidates were rejected before the accepted one.
func specProposer(sp *common.Spec, eff []common.Gwei, active []common.ValidatorIndex, seed [32]byte) (common.ValidatorIndex, int) {
	n := uint64(len(active))
	var buf [40]byte
	copy(buf[:32], seed[:])
	for i := uint64(0); i < 100000; i++ {
		cand := active[specShuffledIndex(i%n, n, seed, uint8(sp.SHUFFLE_ROUND_COUNT))]
		binary.LittleEndian.PutUint64(buf[32:], i/32)
		h := sha256.Sum256(buf[:])
		if eff[cand]*0xff >= sp.MAX_EFFECTIVE_BALANCE*common.Gwei(h[i%32]) {
			return cand, int(i)
		}
	}
	return 0, -1
}

// specProposers = get_beacon_proposer_index for every slot of the epoch, with the given effective balances.
func specProposers(sp *common.Spec, st common.BeaconState, eff []common.Gwei, active []common.ValidatorIndex, epoch common.Epoch) ([]common.ValidatorIndex, int, error) {
	es, err := specSeed(sp, st, epoch, common.DOMAIN_BEACON_PROPOSER)
	if err != nil || len(active) == 0 {
		return nil, 0, err
	}
	out := make([]common.ValidatorIndex, sp.SLOTS_PER_EPOCH)
	maxRow := 0
	for s := uint64(0); s < uint64(sp.SLOTS_PER_EPOCH); s++ {
		var sb [40]byte
		copy(sb[:32], es[:])
		binary.LittleEndian.PutUint64(sb[32:], uint64(epoch)*uint64(sp.SLOTS_PER_EPOCH)+s)
		p, row := specProposer(sp, eff, active, sha256.Sum256(sb[:]))
		out[s] = p
		if row > maxRow {
			maxRow = row
		}
	}
	return out, maxRow, nil
}

// specSyncCommittee = get_next_sync_committee_indices for base epoch `epoch` (the epoch the committee is drawn from).
func specSyncCommittee(sp *common.Spec, st common.BeaconState, eff []common.Gwei, active []common.ValidatorIndex, epoch common.Epoch) (out []common.ValidatorIndex, examined uint64, rejected int, err error) {
	seed, err := specSeed(sp, st, epoch, common.DOMAIN_SYNC_COMMITTEE)
	n := uint64(len(active))
	if err != nil || n == 0 {
		return nil, 0, 0, err
	}
	var buf [40]byte
	copy(buf[:32], seed[:])
	for i := uint64(0); uint64(len(out)) < uint64(sp.SYNC_COMMITTEE_SIZE) && i < 1000000; i++ {
		cand := active[specShuffledIndex(i%n, n, seed, uint8(sp.SHUFFLE_ROUND_COUNT))]
		binary.LittleEndian.PutUint64(buf[32:], i/32)
		h := sha256.Sum256(buf[:])
		if eff[cand]*0xff >= sp.MAX_EFFECTIVE_BALANCE*common.Gwei(h[i%32]) {
			out = append(out, cand)
		} else {
			rejected++
		}
		examined = i + 1
	}
	return
}
