package chaingen

import (
	"bytes"
	"crypto/sha256"
	"encoding/binary"
	"encoding/hex"
	"fmt"

	"verifharness/hx"

	kbls "github.com/kilic/bls12-381"
	blsu "github.com/protolambda/bls12-381-util"
	"github.com/protolambda/zrnt/eth2/beacon/common"
	"github.com/protolambda/zrnt/eth2/beacon/phase0"
	"github.com/protolambda/ztyp/codec"
	"github.com/protolambda/ztyp/tree"
)

func hFn() tree.HashFn { return tree.GetHashFn() }

// GenVal describes one genesis validator (or a later depositor).
type GenVal struct {
	Key     KeyNum
	WKey    KeyNum // 0 => ETH1 credentials
	Addr    common.Eth1Address
	Balance common.Gwei
	Prefix  byte // with WKey: first credentials byte when it is neither 0x00 nor 0x01 (the rest stays the hash of the withdrawal key)
}

func (g *GenVal) Credentials() (out common.Root) {
	if g.WKey == 0 {
		out[0] = common.ETH1_ADDRESS_WITHDRAWAL_PREFIX
		copy(out[12:], g.Addr[:])
		return
	}
	wp := PubOf(g.WKey)
	h := sha256.Sum256(wp[:])
	out = h
	out[0] = common.BLS_WITHDRAWAL_PREFIX
	if g.Prefix > 1 {
		out[0] = g.Prefix
	}
	return
}

// valInfoOf: validators with odd credentials have no usable withdrawal key for the honest producer.
func valInfoOf(g GenVal) ValInfo {
	if g.Prefix > 1 {
		return ValInfo{Key: g.Key, Odd: g.Prefix}
	}
	return ValInfo{Key: g.Key, WKey: g.WKey, Addr: g.Addr}
}

type GenesisPlan struct {
	Vals     []GenVal
	Eth1Hash common.Root
	Eth1Time common.Timestamp
	ViaEth1  bool
}

type GenesisKnobs struct {
	MinVals, MaxVals int
	AllMax           bool // every validator at MAX_EFFECTIVE_BALANCE
	Eth1Share        int  // percent with ETH1 credentials
	AboveShare       int  // percent with balance above max
	AboveBoost       int  // further increments on top for those (balance far above the effective balance cap)
	BelowShare       int  // percent below max (inactive at genesis)
	ForceKickstart   bool // the chain's own genesis comes from KickStartState
	SameMultiset     bool // exactly 16 or 32 validators, all at the maximum (with AllMax)
	ExactActive      int  // exactly this many validators at/above the maximum (active at genesis); a few inactive ones on top
}

func addrOf(k KeyNum) (a common.Eth1Address) {
	h := sha256.Sum256([]byte(fmt.Sprintf("addr-%d", k)))
	copy(a[:], h[:20])
	return
}

func MakeGenesisPlan(r *hx.Rng, sp *common.Spec, k GenesisKnobs) *GenesisPlan {
	if k.MinVals == 0 {
		k.MinVals, k.MaxVals = 8, 96
	}
	n := k.MinVals + r.Intn(k.MaxVals-k.MinVals+1)
	if n < int(sp.SLOTS_PER_EPOCH) {
		n = int(sp.SLOTS_PER_EPOCH)
	}
	if k.ExactActive > 0 {
		n = k.ExactActive + r.Intn(4)
	}
	if k.SameMultiset {
		n = pick(r, 16, 32, 32)
	}
	p := &GenesisPlan{ViaEth1: r.Chance(50)}
	if k.ForceKickstart {
		p.ViaEth1 = false
	}
	copy(p.Eth1Hash[:], r.Bytes(32))
	p.Eth1Time = sp.MIN_GENESIS_TIME + common.Timestamp(r.Intn(1000))
	inc := sp.EFFECTIVE_BALANCE_INCREMENT
	nFull := 0
	for i := 0; i < n; i++ {
		v := GenVal{Key: KeyNum(i + 1), Balance: sp.MAX_EFFECTIVE_BALANCE}
		if r.Chance(k.Eth1Share) {
			v.Addr = addrOf(v.Key)
		} else {
			v.WKey = WithdrawalKeyBase + KeyNum(i+1)
		}
		if !k.AllMax {
			switch {
			case r.Chance(k.AboveShare):
				v.Balance = sp.MAX_EFFECTIVE_BALANCE + common.Gwei(1+r.Intn(4000))*inc/1000 + common.Gwei(k.AboveBoost)*inc
			case r.Chance(k.BelowShare):
				v.Balance = sp.MAX_EFFECTIVE_BALANCE - common.Gwei(1+r.Intn(16000))*inc/1000
			}
		}
		if k.ExactActive > 0 {
			if i < k.ExactActive {
				if v.Balance < sp.MAX_EFFECTIVE_BALANCE {
					v.Balance = sp.MAX_EFFECTIVE_BALANCE
				}
			} else {
				v.Balance = sp.MAX_EFFECTIVE_BALANCE - common.Gwei(1+r.Intn(8))*inc
			}
		}
		if v.Balance >= sp.MAX_EFFECTIVE_BALANCE {
			nFull++
		}
		// two validators whose credentials start with 0x02 / 0xff and continue with the hash of their withdrawal key
		if n >= 8 && (i == n/3 || i == 2*n/3) {
			v.Addr = common.Eth1Address{}
			v.WKey = WithdrawalKeyBase + KeyNum(i+1)
			v.Prefix = 0x02
			if i == 2*n/3 {
				v.Prefix = 0xff
			}
		}
		p.Vals = append(p.Vals, v)
	}
	if k.ExactActive > 0 {
		return p
	}
	// enough active validators: at least max(SLOTS_PER_EPOCH, 3/4 n)
	need := int(sp.SLOTS_PER_EPOCH)
	if n*3/4 > need {
		need = n * 3 / 4
	}
	for i := 0; nFull < need && i < n; i++ {
		if p.Vals[i].Balance < sp.MAX_EFFECTIVE_BALANCE {
			p.Vals[i].Balance = sp.MAX_EFFECTIVE_BALANCE
			nFull++
		}
	}
	return p
}

// DepositDataFor builds a signed DepositData (proof of possession under the fork-agnostic deposit domain).
func DepositDataFor(sp *common.Spec, bls *BLSTable, pub common.BLSPubkey, creds common.Root, amount common.Gwei, signer KeyNum) common.DepositData {
	d := common.DepositData{Pubkey: pub, WithdrawalCredentials: creds, Amount: amount}
	dom := common.ComputeDomain(common.DOMAIN_DEPOSIT, sp.GENESIS_FORK_VERSION, common.Root{})
	msg := common.ComputeSigningRoot(d.MessageRoot(), dom)
	d.Signature = bls.Sign1(signer, msg)
	return d
}

var placeholderSig = common.BLSSignature((*blsu.Signature)(kbls.NewG2().One()).Serialize())

func encodeDeposits(deps []common.Deposit) []byte {
	var buf bytes.Buffer
	w := codec.NewEncodingWriter(&buf)
	for i := range deps {
		if err := deps[i].Serialize(w); err != nil {
			panic(err)
		}
	}
	return buf.Bytes()
}

// genesisRecord runs GenesisFromEth1(…, false) + IsValidGenesisState under recover and writes the `genesis` record.
func genesisRecord(rec *Recorder, sp *common.Spec, hash common.Root, t common.Timestamp, deps []common.Deposit, tag string) (st *phase0.BeaconStateView, epc *common.EpochsContext, id string) {
	var err error
	var valid bool
	panicked, pv := hx.Catch(func() {
		// GenesisFromEth1 keeps pointers into deps; give it a copy
		cp := append([]common.Deposit(nil), deps...)
		st, epc, err = phase0.GenesisFromEth1(specWith(sp, nil), hash, t, cp, false)
		if err == nil {
			valid, err = phase0.IsValidGenesisState(sp, st)
		}
	})
	file := "-"
	if len(deps) > 0 {
		file = rec.Other("d", "deposits", encodeDeposits(deps))
	}
	switch {
	case panicked:
		rec.Line("genesis %s %d %s PANIC - %s", hex.EncodeToString(hash[:]), t, file, tag)
		rec.Comment(fmt.Sprintf("panic value: %v", pv))
		return nil, nil, ""
	case err != nil:
		rec.Line("genesis %s %d %s ERR - %s", hex.EncodeToString(hash[:]), t, file, tag)
		rec.Comment("error: " + err.Error())
		return nil, nil, ""
	}
	id = rec.State(st)
	v := 0
	if valid {
		v = 1
	}
	root := StateRoot(st)
	rec.Line("genesis %s %d %s %s %d %s root=%s", hex.EncodeToString(hash[:]), t, file, id, v, tag, hex.EncodeToString(root[:]))
	return st, epc, id
}

// Genesis creates the chain's first state from the plan.
func (c *Chain) Genesis(p *GenesisPlan) error {
	sp := c.Spec
	c.Vals = nil
	for _, v := range p.Vals {
		c.Vals = append(c.Vals, valInfoOf(v))
		c.BLS.UseKey(v.Key)
		if v.WKey != 0 {
			c.BLS.UseKey(v.WKey)
		}
	}
	c.nextValKey = KeyNum(len(p.Vals) + 1)
	c.nextStray = StrayKeyBase + 1
	var st *phase0.BeaconStateView
	var epc *common.EpochsContext
	var id string
	if p.ViaEth1 {
		deps := make([]common.Deposit, len(p.Vals))
		for i, v := range p.Vals {
			dd := DepositDataFor(sp, c.BLS, PubOf(v.Key), v.Credentials(), v.Balance, v.Key)
			c.DepTree.Add(dd)
			deps[i] = c.DepTree.Deposit(uint64(i), uint64(i+1))
		}
		st, epc, id = genesisRecord(c.Rec, sp, p.Eth1Hash, p.Eth1Time, deps, "kind=chain")
		if st == nil {
			return fmt.Errorf("genesis from eth1 failed")
		}
		c.Stats.Inc("genesis_eth1")
	} else {
		kv := make([]phase0.KickstartValidatorData, len(p.Vals))
		var raw bytes.Buffer
		for i, v := range p.Vals {
			kv[i] = phase0.KickstartValidatorData{Pubkey: PubOf(v.Key), WithdrawalCredentials: v.Credentials(), Balance: v.Balance}
			c.DepTree.Add(common.DepositData{Pubkey: kv[i].Pubkey, WithdrawalCredentials: kv[i].WithdrawalCredentials, Amount: v.Balance, Signature: placeholderSig})
			raw.Write(kv[i].Pubkey[:])
			raw.Write(kv[i].WithdrawalCredentials[:])
			var b8 [8]byte
			binary.LittleEndian.PutUint64(b8[:], uint64(v.Balance))
			raw.Write(b8[:])
		}
		gt := p.Eth1Time + sp.GENESIS_DELAY
		var err error
		st, epc, err = phase0.KickStartState(specWith(sp, nil), p.Eth1Hash, gt, kv)
		file := c.Rec.Other("k", "kickstart", raw.Bytes())
		if err != nil {
			c.Rec.Line("kickstart %s %d %s ERR", hex.EncodeToString(p.Eth1Hash[:]), gt, file)
			return fmt.Errorf("kickstart: %w", err)
		}
		id = c.Rec.State(st)
		kroot := StateRoot(st)
		c.Rec.Line("kickstart %s %d %s %s root=%s", hex.EncodeToString(p.Eth1Hash[:]), gt, file, id, hex.EncodeToString(kroot[:]))
		c.Stats.Inc("genesis_kickstart")
	}
	c.adopt(st, epc, id)
	c.GenesisTime, _ = st.GenesisTime()
	c.GVR, _ = st.GenesisValidatorsRoot()
	// sanity: generator's deposit tree agrees with the state
	e1, _ := st.Eth1Data()
	if e1.DepositRoot != c.DepTree.Root(c.DepTree.Count()) {
		return fmt.Errorf("generator deposit tree root differs from genesis state: %x vs %x", c.DepTree.Root(c.DepTree.Count()), e1.DepositRoot)
	}
	c.recordEPC(id, c.St, c.Epc, true)
	return nil
}

// ---- C13 stream: genesis records over adversarial deposit lists ----

// badPubkeys: encodings that must not be accepted as public keys.
func badPubkey(r *hx.Rng) common.BLSPubkey {
	var p common.BLSPubkey
	switch r.Intn(4) {
	case 0: // infinity
		p[0] = 0xc0
	case 1: // uncompressed flag missing
		copy(p[:], r.Bytes(48))
		p[0] &= 0x1f
	case 2: // x >= field modulus
		for i := range p {
			p[i] = 0xff
		}
		p[0] = 0x9f
	default: // random x with compression flag: on the curve only half the time, almost never in the subgroup
		copy(p[:], r.Bytes(48))
		p[0] = 0x80 | (p[0] & 0x1f)
	}
	return p
}

// GenesisCase builds one adversarial deposit list and records the outcome.
func GenesisCase(rec *Recorder, bls *BLSTable, st *Stats, r *hx.Rng, sp *common.Spec, kind string) {
	if kind == "kickstart_badpubkey" {
		kickstartCase(rec, bls, st, r, sp)
		return
	}
	var tree DepositTree
	var hash common.Root
	copy(hash[:], r.Bytes(32))
	t := sp.MIN_GENESIS_TIME + common.Timestamp(r.Intn(500))
	n := int(sp.SLOTS_PER_EPOCH) + r.Intn(12)
	if kind == "badsig" || kind == "badpubkey" {
		n += 16
	}
	inc := sp.EFFECTIVE_BALANCE_INCREMENT
	type item struct {
		dd common.DepositData
	}
	var dds []common.DepositData
	mk := func(key KeyNum, amount common.Gwei) common.DepositData {
		g := GenVal{Key: key, WKey: WithdrawalKeyBase + key}
		if r.Chance(30) {
			g.WKey = 0
			g.Addr = addrOf(key)
		} else {
			bls.UseKey(g.WKey)
		}
		return DepositDataFor(sp, bls, PubOf(key), g.Credentials(), amount, key)
	}
	for i := 0; i < n; i++ {
		dds = append(dds, mk(KeyNum(i+1), sp.MAX_EFFECTIVE_BALANCE))
	}
	badProof := -1
	switch kind {
	case "valid":
	case "amounts":
		for i := range dds {
			var a common.Gwei
			switch r.Intn(6) {
			case 0:
				a = sp.MAX_EFFECTIVE_BALANCE - 1
			case 1:
				a = sp.MAX_EFFECTIVE_BALANCE + 1
			case 2:
				a = sp.MAX_EFFECTIVE_BALANCE - inc
			case 3:
				a = sp.MIN_DEPOSIT_AMOUNT
			case 4:
				a = sp.MAX_EFFECTIVE_BALANCE + common.Gwei(r.Intn(5))*inc
			default:
				a = sp.MAX_EFFECTIVE_BALANCE
			}
			dds[i] = mk(KeyNum(i+1), a)
		}
	case "topups":
		// split deposits: several partial deposits for the same key reaching (or not) the maximum
		dds = dds[:0]
		for i := 0; i < n; i++ {
			parts := 1 + r.Intn(3)
			total := sp.MAX_EFFECTIVE_BALANCE
			if r.Chance(25) {
				total -= inc
			}
			for j := 0; j < parts; j++ {
				a := total / common.Gwei(parts)
				if j == parts-1 {
					a = total - a*common.Gwei(parts-1)
				}
				dds = append(dds, mk(KeyNum(i+1), a))
			}
		}
		// shuffle a little so top-ups interleave
		for i := len(dds) - 1; i > 0; i-- {
			if r.Chance(30) {
				j := r.Intn(i + 1)
				dds[i], dds[j] = dds[j], dds[i]
			}
		}
	case "badsig":
		for i := range dds {
			switch r.Intn(9) {
			case 0: // signed by another key
				d := dds[i]
				dom := common.ComputeDomain(common.DOMAIN_DEPOSIT, sp.GENESIS_FORK_VERSION, common.Root{})
				d.Signature = bls.Sign1(StrayKeyBase+KeyNum(i+1), common.ComputeSigningRoot(d.MessageRoot(), dom))
				dds[i] = d
			case 1: // unparseable signature
				copy(dds[i].Signature[:], r.Bytes(96))
			case 2: // signature over other amount
				d := mk(KeyNum(i+1), sp.MAX_EFFECTIVE_BALANCE-inc)
				d.Amount = sp.MAX_EFFECTIVE_BALANCE
				dds[i] = d
			case 3: // wrong domain (fork version of altair)
				d := dds[i]
				dom := common.ComputeDomain(common.DOMAIN_DEPOSIT, sp.ALTAIR_FORK_VERSION, common.Root{})
				d.Signature = bls.Sign1(KeyNum(i+1), common.ComputeSigningRoot(d.MessageRoot(), dom))
				dds[i] = d
			}
		}
		// the deposit domain is fork-agnostic (GENESIS_FORK_VERSION, zero root) whatever the fork schedule says about slot 0:
		// new keys signed under ALTAIR_FORK_VERSION and under the version of the schedule at the genesis slot must be skipped
		for j, ver := range []common.Version{sp.ALTAIR_FORK_VERSION, sp.ForkVersion(common.GENESIS_SLOT)} {
			if ver == sp.GENESIS_FORK_VERSION {
				continue
			}
			k := KeyNum(n + 1 + j)
			dl := mk(k, sp.MAX_EFFECTIVE_BALANCE)
			dom := common.ComputeDomain(common.DOMAIN_DEPOSIT, ver, common.Root{})
			dl.Signature = bls.Sign1(k, common.ComputeSigningRoot(dl.MessageRoot(), dom))
			pos := r.Intn(len(dds) + 1)
			dds = append(dds[:pos:pos], append([]common.DepositData{dl}, dds[pos:]...)...)
			st.Inc("genesis_deposit_signed_under_later_fork_version")
			if sp.ALTAIR_FORK_EPOCH == 0 {
				st.Inc("genesis_fork_at_epoch0_deposit_signed_under_later_version")
			}
		}
		// a top-up with an invalid signature for an already accepted key must still count
		d := mk(KeyNum(1), inc)
		copy(d.Signature[:], r.Bytes(96))
		dds = append(dds, d)
	case "badpubkey":
		for i := range dds {
			if r.Chance(30) {
				dds[i].Pubkey = badPubkey(r)
			}
		}
	case "zeroamount":
		// a zero-amount deposit of a NEW key with a valid proof of possession registers the validator (balance 0); ordinary
		// deposits follow; later a top-up of that key whose signature does not verify (never looked at for top-ups)
		zk := KeyNum(n + 1)
		pos := 1 + r.Intn(len(dds)-1)
		z := mk(zk, 0)
		rest := append([]common.DepositData{z}, dds[pos:]...)
		dds = append(dds[:pos:pos], rest...)
		top := z
		top.Amount = sp.MAX_EFFECTIVE_BALANCE
		if r.Bool() {
			top.Amount = sp.MIN_DEPOSIT_AMOUNT
		}
		dom := common.ComputeDomain(common.DOMAIN_DEPOSIT, sp.GENESIS_FORK_VERSION, common.Root{})
		top.Signature = bls.Sign1(StrayKeyBase+zk, common.ComputeSigningRoot(top.MessageRoot(), dom))
		dds = append(dds, top)
	case "toofew":
		k := r.Intn(int(sp.SLOTS_PER_EPOCH))
		dds = dds[:k]
	case "inactive":
		// enough deposits but too few reach the maximum: is_valid_genesis_state false
		for i := range dds {
			if i >= 2 {
				dds[i] = mk(KeyNum(i+1), sp.MAX_EFFECTIVE_BALANCE-inc)
			}
		}
	case "early":
		t = sp.MIN_GENESIS_TIME - sp.GENESIS_DELAY - common.Timestamp(1+r.Intn(100))
	case "badproof":
		badProof = r.Intn(len(dds))
	}
	deps := make([]common.Deposit, len(dds))
	for i, d := range dds {
		tree.Add(d)
		deps[i] = tree.Deposit(uint64(i), uint64(i+1))
	}
	if badProof >= 0 {
		deps[badProof].Proof[r.Intn(depositDepth+1)][r.Intn(32)] ^= 1 << uint(r.Intn(8))
	}
	stv, _, id := genesisRecord(rec, sp, hash, t, deps, "kind="+kind)
	st.Inc("genesis_case_" + kind)
	if sp.ALTAIR_FORK_EPOCH == 0 {
		st.Inc("genesis_cases_with_fork_at_epoch_0")
		if stv != nil {
			st.Inc("genesis_cases_with_fork_at_epoch_0_ok")
		}
	}
	if stv == nil {
		st.Inc("genesis_case_err")
	} else {
		_ = id
		st.Inc("genesis_case_ok")
	}
}

// kickstartCase: a `kickstart` record whose validator list has entries with an undecodable public key at the beginning, in the
// middle and at the end. Such an entry registers nobody but it IS a deposit: a leaf of the deposit tree, counted in
// eth1_data.deposit_count and eth1_deposit_index.
func kickstartCase(rec *Recorder, bls *BLSTable, st *Stats, r *hx.Rng, sp *common.Spec) {
	var hash common.Root
	copy(hash[:], r.Bytes(32))
	gt := sp.MIN_GENESIS_TIME + sp.GENESIS_DELAY + common.Timestamp(r.Intn(500))
	n := int(sp.SLOTS_PER_EPOCH) + 4 + r.Intn(12)
	undecodable := func(which int, key KeyNum) common.BLSPubkey {
		var p common.BLSPubkey
		switch which % 4 {
		case 0: // 48 zero bytes (an uninitialised entry)
		case 1:
			for i := range p {
				p[i] = 0xff
			}
		case 2: // a valid key with the flag bits mangled (compression flag cleared)
			p = PubOf(key)
			p[0] &= 0x1f
		default: // a valid key marked "infinity" although x is not zero
			p = PubOf(key)
			p[0] |= 0x40
		}
		if _, err := p.Pubkey(); err == nil {
			p = common.BLSPubkey{} // (never expected) fall back to the zero bytes
		}
		return p
	}
	type entry struct {
		pub common.BLSPubkey
		g   GenVal
		bal common.Gwei
	}
	var es []entry
	for i := 0; i < n; i++ {
		k := KeyNum(i + 1)
		g := GenVal{Key: k, WKey: WithdrawalKeyBase + k}
		if r.Chance(30) {
			g.WKey, g.Addr = 0, addrOf(k)
		}
		bal := sp.MAX_EFFECTIVE_BALANCE
		if r.Chance(15) {
			bal -= sp.EFFECTIVE_BALANCE_INCREMENT * common.Gwei(1+r.Intn(3))
		}
		es = append(es, entry{bls.UseKey(k), g, bal})
	}
	bad := 0
	ins := func(pos int) {
		k := KeyNum(1000 + bad)
		which := bad // the first four: one of each kind
		if bad >= 4 {
			which = r.Intn(4)
		}
		e := entry{undecodable(which, k), GenVal{Key: k, Addr: addrOf(k)}, sp.MAX_EFFECTIVE_BALANCE}
		bad++
		es = append(es[:pos:pos], append([]entry{e}, es[pos:]...)...)
	}
	ins(0)
	ins(len(es) / 2)
	ins(len(es))
	ins(len(es))
	for k := r.Intn(3); k > 0; k-- {
		ins(r.Intn(len(es) + 1))
	}
	kv := make([]phase0.KickstartValidatorData, len(es))
	var raw bytes.Buffer
	for i, e := range es {
		kv[i] = phase0.KickstartValidatorData{Pubkey: e.pub, WithdrawalCredentials: e.g.Credentials(), Balance: e.bal}
		raw.Write(kv[i].Pubkey[:])
		raw.Write(kv[i].WithdrawalCredentials[:])
		var b8 [8]byte
		binary.LittleEndian.PutUint64(b8[:], uint64(e.bal))
		raw.Write(b8[:])
	}
	file := rec.Other("k", "kickstart", raw.Bytes())
	var stv *phase0.BeaconStateView
	var err error
	panicked, _ := hx.Catch(func() { stv, _, err = phase0.KickStartState(specWith(sp, nil), hash, gt, kv) })
	st.Inc("genesis_case_kickstart_badpubkey")
	st.Add("kickstart_entries_with_undecodable_pubkey", bad)
	switch {
	case panicked:
		rec.Line("kickstart %s %d %s PANIC kind=kickstart_badpubkey", hex.EncodeToString(hash[:]), gt, file)
		st.Inc("genesis_case_err")
	case err != nil:
		rec.Line("kickstart %s %d %s ERR kind=kickstart_badpubkey", hex.EncodeToString(hash[:]), gt, file)
		rec.Comment("error: " + err.Error())
		st.Inc("genesis_case_err")
	default:
		id := rec.State(stv)
		root := StateRoot(stv)
		rec.Line("kickstart %s %d %s %s root=%s kind=kickstart_badpubkey", hex.EncodeToString(hash[:]), gt, file, id, hex.EncodeToString(root[:]))
		st.Inc("genesis_case_ok")
		if e1, e := stv.Eth1Data(); e == nil && uint64(e1.DepositCount) == uint64(len(es)) {
			st.Inc("kickstart_undecodable_pubkeys_counted_as_deposits")
		}
	}
}

var GenesisKinds = []string{"valid", "amounts", "topups", "badsig", "badpubkey", "toofew", "inactive", "early", "badproof", "zeroamount", "kickstart_badpubkey"}
