package chaingen

func (c *Chain) CorruptStream(n int) {}
func (c *Chain) CancelStream(n int)  {}
func (c *Chain) EngineStream(n int)  {}
