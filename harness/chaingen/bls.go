package chaingen

import (
	"bufio"
	"encoding/binary"
	"encoding/hex"
	"fmt"
	"os"
	"sort"
	"strings"
	"sync"

	blsu "github.com/protolambda/bls12-381-util"
	"github.com/protolambda/zrnt/eth2/beacon/common"
)

// ---- process-wide deterministic key store (key number n => secret scalar n, 32 big-endian bytes) ----

// KeyNum identifies a secret key: validator i (creation order) uses i+1; withdrawal keys use WithdrawalKeyBase+i+1.
type KeyNum uint64

const WithdrawalKeyBase KeyNum = 1 << 32
const StrayKeyBase KeyNum = 1 << 40 // keys that never become validators (wrong-key signatures etc.)

type keyEntry struct {
	sk  *blsu.SecretKey
	pk  *blsu.Pubkey
	pkb common.BLSPubkey
}

var keyStore sync.Map // KeyNum -> *keyEntry
var pubToKey sync.Map // common.BLSPubkey -> KeyNum

func keyOf(n KeyNum) *keyEntry {
	if v, ok := keyStore.Load(n); ok {
		return v.(*keyEntry)
	}
	var b [32]byte
	binary.BigEndian.PutUint64(b[24:], uint64(n))
	var sk blsu.SecretKey
	if err := sk.Deserialize(&b); err != nil {
		panic(fmt.Sprintf("secret key %d: %v", n, err))
	}
	pk, err := blsu.SkToPk(&sk)
	if err != nil {
		panic(err)
	}
	e := &keyEntry{sk: &sk, pk: pk, pkb: common.BLSPubkey(pk.Serialize())}
	act, _ := keyStore.LoadOrStore(n, e)
	pubToKey.Store(e.pkb, n)
	return act.(*keyEntry)
}

func PubOf(n KeyNum) common.BLSPubkey { return keyOf(n).pkb }

func KeyByPub(p common.BLSPubkey) (KeyNum, bool) {
	v, ok := pubToKey.Load(p)
	if !ok {
		return 0, false
	}
	return v.(KeyNum), true
}

type sigKey struct {
	n   KeyNum
	msg common.Root
}

var sigCache sync.Map // sigKey -> *blsu.Signature

type cachedSig struct {
	sig *blsu.Signature // affine, never written after publication (Aggregate only reads it)
	ser [96]byte
}

func signOne(n KeyNum, msg common.Root) *cachedSig {
	k := sigKey{n, msg}
	if v, ok := sigCache.Load(k); ok {
		return v.(*cachedSig)
	}
	s := blsu.Sign(keyOf(n).sk, msg[:])
	// Serialize() converts the point to affine form IN PLACE (a write even when already affine): do it exactly once,
	// before the object is shared between goroutines.
	cs := &cachedSig{sig: s, ser: s.Serialize()}
	act, _ := sigCache.LoadOrStore(k, cs)
	return act.(*cachedSig)
}

var pubDecoded sync.Map // common.BLSPubkey -> *blsu.Pubkey (nil entry = invalid)

func decodePub(p common.BLSPubkey) *blsu.Pubkey {
	if v, ok := pubDecoded.Load(p); ok {
		return v.(*blsu.Pubkey)
	}
	var pk blsu.Pubkey
	b := [48]byte(p)
	var out *blsu.Pubkey
	if err := pk.Deserialize(&b); err == nil {
		out = &pk
	}
	pubDecoded.Store(p, out)
	return out
}

// InfinitySig is the serialized point at infinity (valid for the empty participant set of a sync aggregate).
var InfinitySig = func() common.BLSSignature {
	var s common.BLSSignature
	s[0] = 0xc0
	return s
}()

// ---- per-chain oracle tables ----

type BLSTable struct {
	mu   sync.Mutex
	pks  map[common.BLSPubkey]bool
	sigs map[string]bool // full SIG line
	aggs map[string]bool // full AGG line
	// signature cache statistics
	NSign int
}

func NewBLSTable() *BLSTable {
	return &BLSTable{pks: map[common.BLSPubkey]bool{}, sigs: map[string]bool{}, aggs: map[string]bool{}}
}

func (t *BLSTable) usePK(p common.BLSPubkey) { t.pks[p] = true }

// Sign produces the (aggregate) signature of the given keys (a multiset; duplicates count twice) over msg
// and records it in the table.
func (t *BLSTable) Sign(keys []KeyNum, msg common.Root) common.BLSSignature {
	if len(keys) == 0 {
		return InfinitySig
	}
	sigs := make([]*blsu.Signature, len(keys))
	pks := make([]string, len(keys))
	var first *cachedSig
	for i, k := range keys {
		cs := signOne(k, msg)
		if i == 0 {
			first = cs
		}
		sigs[i] = cs.sig
		pks[i] = hex.EncodeToString(keyOf(k).pkb[:])
	}
	var out common.BLSSignature
	if len(sigs) == 1 {
		out = first.ser
	} else {
		agg, err := blsu.Aggregate(sigs)
		if err != nil {
			panic(err)
		}
		out = agg.Serialize()
	}
	sort.Strings(pks)
	line := "SIG " + hex.EncodeToString(out[:]) + " " + hex.EncodeToString(msg[:]) + " " + strings.Join(pks, ",")
	t.mu.Lock()
	t.NSign++
	for _, k := range keys {
		t.pks[keyOf(k).pkb] = true
	}
	t.sigs[line] = true
	t.mu.Unlock()
	return out
}

// Sign1 is Sign for one key.
func (t *BLSTable) Sign1(k KeyNum, msg common.Root) common.BLSSignature {
	return t.Sign([]KeyNum{k}, msg)
}

// UseKey records the public key as a valid one.
func (t *BLSTable) UseKey(k KeyNum) common.BLSPubkey {
	p := keyOf(k).pkb
	t.mu.Lock()
	t.pks[p] = true
	t.mu.Unlock()
	return p
}

// Aggregate records eth_aggregate_pubkeys of the list, computed independently of zrnt.
func (t *BLSTable) Aggregate(pubs []common.BLSPubkey) (common.BLSPubkey, error) {
	dec := make([]*blsu.Pubkey, len(pubs))
	strs := make([]string, len(pubs))
	for i, p := range pubs {
		d := decodePub(p)
		if d == nil {
			return common.BLSPubkey{}, fmt.Errorf("invalid pubkey in aggregate: %x", p[:])
		}
		dec[i] = d
		strs[i] = hex.EncodeToString(p[:])
	}
	agg, err := blsu.AggregatePubkeys(dec)
	if err != nil {
		return common.BLSPubkey{}, err
	}
	out := common.BLSPubkey(agg.Serialize())
	line := "AGG " + hex.EncodeToString(out[:]) + " " + strings.Join(strs, ",")
	t.mu.Lock()
	t.aggs[line] = true
	for _, p := range pubs {
		t.pks[p] = true
	}
	t.mu.Unlock()
	return out, nil
}

func (t *BLSTable) Write(path string) error {
	f, err := os.Create(path)
	if err != nil {
		return err
	}
	w := bufio.NewWriter(f)
	pks := make([]string, 0, len(t.pks))
	for p := range t.pks {
		pks = append(pks, hex.EncodeToString(p[:]))
	}
	sort.Strings(pks)
	for _, p := range pks {
		fmt.Fprintln(w, "PK", p)
	}
	lines := make([]string, 0, len(t.sigs))
	for l := range t.sigs {
		lines = append(lines, l)
	}
	sort.Strings(lines)
	for _, l := range lines {
		fmt.Fprintln(w, l)
	}
	lines = lines[:0]
	for l := range t.aggs {
		lines = append(lines, l)
	}
	sort.Strings(lines)
	for _, l := range lines {
		fmt.Fprintln(w, l)
	}
	if err := w.Flush(); err != nil {
		return err
	}
	return f.Close()
}

func (t *BLSTable) Counts() (pk, sig, agg int) { return len(t.pks), len(t.sigs), len(t.aggs) }
