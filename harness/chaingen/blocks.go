package chaingen

import (
	"bytes"
	"fmt"

	"github.com/protolambda/zrnt/eth2/beacon"
	"github.com/protolambda/zrnt/eth2/beacon/altair"
	"github.com/protolambda/zrnt/eth2/beacon/bellatrix"
	"github.com/protolambda/zrnt/eth2/beacon/capella"
	"github.com/protolambda/zrnt/eth2/beacon/common"
	"github.com/protolambda/zrnt/eth2/beacon/deneb"
	"github.com/protolambda/zrnt/eth2/beacon/phase0"
	"github.com/protolambda/ztyp/codec"
	"github.com/protolambda/ztyp/tree"
)

// Block is the fork-agnostic form the generator manipulates; Signed() lowers it to the fork's zrnt type.
type Block struct {
	Fork          ForkID
	Slot          common.Slot
	ProposerIndex common.ValidatorIndex
	ParentRoot    common.Root
	StateRoot     common.Root

	Randao   common.BLSSignature
	Eth1Data common.Eth1Data
	Graffiti common.Root

	ProposerSlashings phase0.ProposerSlashings
	AttesterSlashings phase0.AttesterSlashings
	Attestations      phase0.Attestations
	Deposits          phase0.Deposits
	VoluntaryExits    phase0.VoluntaryExits

	Sync       altair.SyncAggregate               // altair+
	Payload    deneb.ExecutionPayload             // bellatrix+ (superset form)
	BLSChanges common.SignedBLSToExecutionChanges // capella+
	Blobs      deneb.KZGCommitments               // deneb

	Signature common.BLSSignature
}

// SignedBlock is what every fork's SignedBeaconBlock offers.
type SignedBlock interface {
	common.SpecObj
	common.EnvelopeBuilder
}

func (b *Block) Clone() *Block {
	c := *b
	c.ProposerSlashings = append(phase0.ProposerSlashings(nil), b.ProposerSlashings...)
	c.AttesterSlashings = make(phase0.AttesterSlashings, len(b.AttesterSlashings))
	for i, a := range b.AttesterSlashings {
		c.AttesterSlashings[i] = a
		c.AttesterSlashings[i].Attestation1.AttestingIndices = append(common.CommitteeIndices(nil), a.Attestation1.AttestingIndices...)
		c.AttesterSlashings[i].Attestation2.AttestingIndices = append(common.CommitteeIndices(nil), a.Attestation2.AttestingIndices...)
	}
	c.Attestations = make(phase0.Attestations, len(b.Attestations))
	for i, a := range b.Attestations {
		c.Attestations[i] = a
		c.Attestations[i].AggregationBits = append(phase0.AttestationBits(nil), a.AggregationBits...)
	}
	c.Deposits = append(phase0.Deposits(nil), b.Deposits...)
	c.VoluntaryExits = append(phase0.VoluntaryExits(nil), b.VoluntaryExits...)
	c.Sync.SyncCommitteeBits = append(altair.SyncCommitteeBits(nil), b.Sync.SyncCommitteeBits...)
	c.Payload.ExtraData = append(common.ExtraData(nil), b.Payload.ExtraData...)
	c.Payload.Transactions = make(common.PayloadTransactions, len(b.Payload.Transactions))
	for i, t := range b.Payload.Transactions {
		c.Payload.Transactions[i] = append(common.Transaction(nil), t...)
	}
	c.Payload.Withdrawals = append(common.Withdrawals(nil), b.Payload.Withdrawals...)
	c.BLSChanges = append(common.SignedBLSToExecutionChanges(nil), b.BLSChanges...)
	c.Blobs = append(deneb.KZGCommitments(nil), b.Blobs...)
	return &c
}

func (b *Block) bellatrixPayload() bellatrix.ExecutionPayload {
	p := &b.Payload
	return bellatrix.ExecutionPayload{
		ParentHash: p.ParentHash, FeeRecipient: p.FeeRecipient, StateRoot: p.StateRoot, ReceiptsRoot: p.ReceiptsRoot,
		LogsBloom: p.LogsBloom, PrevRandao: p.PrevRandao, BlockNumber: p.BlockNumber, GasLimit: p.GasLimit,
		GasUsed: p.GasUsed, Timestamp: p.Timestamp, ExtraData: p.ExtraData, BaseFeePerGas: p.BaseFeePerGas,
		BlockHash: p.BlockHash, Transactions: p.Transactions,
	}
}

func (b *Block) capellaPayload() capella.ExecutionPayload {
	p := &b.Payload
	return capella.ExecutionPayload{
		ParentHash: p.ParentHash, FeeRecipient: p.FeeRecipient, StateRoot: p.StateRoot, ReceiptsRoot: p.ReceiptsRoot,
		LogsBloom: p.LogsBloom, PrevRandao: p.PrevRandao, BlockNumber: p.BlockNumber, GasLimit: p.GasLimit,
		GasUsed: p.GasUsed, Timestamp: p.Timestamp, ExtraData: p.ExtraData, BaseFeePerGas: p.BaseFeePerGas,
		BlockHash: p.BlockHash, Transactions: p.Transactions, Withdrawals: p.Withdrawals,
	}
}

// Signed lowers the block to the zrnt type of b.Fork (fields the fork does not have are dropped).
func (b *Block) Signed() SignedBlock {
	switch b.Fork {
	case Phase0:
		return &phase0.SignedBeaconBlock{Message: phase0.BeaconBlock{
			Slot: b.Slot, ProposerIndex: b.ProposerIndex, ParentRoot: b.ParentRoot, StateRoot: b.StateRoot,
			Body: phase0.BeaconBlockBody{RandaoReveal: b.Randao, Eth1Data: b.Eth1Data, Graffiti: b.Graffiti,
				ProposerSlashings: b.ProposerSlashings, AttesterSlashings: b.AttesterSlashings, Attestations: b.Attestations,
				Deposits: b.Deposits, VoluntaryExits: b.VoluntaryExits},
		}, Signature: b.Signature}
	case Altair:
		return &altair.SignedBeaconBlock{Message: altair.BeaconBlock{
			Slot: b.Slot, ProposerIndex: b.ProposerIndex, ParentRoot: b.ParentRoot, StateRoot: b.StateRoot,
			Body: altair.BeaconBlockBody{RandaoReveal: b.Randao, Eth1Data: b.Eth1Data, Graffiti: b.Graffiti,
				ProposerSlashings: b.ProposerSlashings, AttesterSlashings: b.AttesterSlashings, Attestations: b.Attestations,
				Deposits: b.Deposits, VoluntaryExits: b.VoluntaryExits, SyncAggregate: b.Sync},
		}, Signature: b.Signature}
	case Bellatrix:
		return &bellatrix.SignedBeaconBlock{Message: bellatrix.BeaconBlock{
			Slot: b.Slot, ProposerIndex: b.ProposerIndex, ParentRoot: b.ParentRoot, StateRoot: b.StateRoot,
			Body: bellatrix.BeaconBlockBody{RandaoReveal: b.Randao, Eth1Data: b.Eth1Data, Graffiti: b.Graffiti,
				ProposerSlashings: b.ProposerSlashings, AttesterSlashings: b.AttesterSlashings, Attestations: b.Attestations,
				Deposits: b.Deposits, VoluntaryExits: b.VoluntaryExits, SyncAggregate: b.Sync,
				ExecutionPayload: b.bellatrixPayload()},
		}, Signature: b.Signature}
	case Capella:
		return &capella.SignedBeaconBlock{Message: capella.BeaconBlock{
			Slot: b.Slot, ProposerIndex: b.ProposerIndex, ParentRoot: b.ParentRoot, StateRoot: b.StateRoot,
			Body: capella.BeaconBlockBody{RandaoReveal: b.Randao, Eth1Data: b.Eth1Data, Graffiti: b.Graffiti,
				ProposerSlashings: b.ProposerSlashings, AttesterSlashings: b.AttesterSlashings, Attestations: b.Attestations,
				Deposits: b.Deposits, VoluntaryExits: b.VoluntaryExits, SyncAggregate: b.Sync,
				ExecutionPayload: b.capellaPayload(), BLSToExecutionChanges: b.BLSChanges},
		}, Signature: b.Signature}
	case Deneb:
		return &deneb.SignedBeaconBlock{Message: deneb.BeaconBlock{
			Slot: b.Slot, ProposerIndex: b.ProposerIndex, ParentRoot: b.ParentRoot, StateRoot: b.StateRoot,
			Body: deneb.BeaconBlockBody{RandaoReveal: b.Randao, Eth1Data: b.Eth1Data, Graffiti: b.Graffiti,
				ProposerSlashings: b.ProposerSlashings, AttesterSlashings: b.AttesterSlashings, Attestations: b.Attestations,
				Deposits: b.Deposits, VoluntaryExits: b.VoluntaryExits, SyncAggregate: b.Sync,
				ExecutionPayload: b.Payload, BLSToExecutionChanges: b.BLSChanges, BlobKZGCommitments: b.Blobs},
		}, Signature: b.Signature}
	}
	panic("bad fork")
}

// BlockFromSigned lifts a zrnt block into the generic form.
func BlockFromSigned(sb SignedBlock) *Block {
	b := &Block{}
	setBase := func(f ForkID, slot common.Slot, pi common.ValidatorIndex, pr, sr common.Root, sig common.BLSSignature) {
		b.Fork, b.Slot, b.ProposerIndex, b.ParentRoot, b.StateRoot, b.Signature = f, slot, pi, pr, sr, sig
	}
	setOps := func(r common.BLSSignature, e common.Eth1Data, g common.Root, ps phase0.ProposerSlashings, as phase0.AttesterSlashings,
		at phase0.Attestations, d phase0.Deposits, v phase0.VoluntaryExits) {
		b.Randao, b.Eth1Data, b.Graffiti, b.ProposerSlashings, b.AttesterSlashings, b.Attestations, b.Deposits, b.VoluntaryExits = r, e, g, ps, as, at, d, v
	}
	switch x := sb.(type) {
	case *phase0.SignedBeaconBlock:
		m := &x.Message
		setBase(Phase0, m.Slot, m.ProposerIndex, m.ParentRoot, m.StateRoot, x.Signature)
		bd := &m.Body
		setOps(bd.RandaoReveal, bd.Eth1Data, bd.Graffiti, bd.ProposerSlashings, bd.AttesterSlashings, bd.Attestations, bd.Deposits, bd.VoluntaryExits)
	case *altair.SignedBeaconBlock:
		m := &x.Message
		setBase(Altair, m.Slot, m.ProposerIndex, m.ParentRoot, m.StateRoot, x.Signature)
		bd := &m.Body
		setOps(bd.RandaoReveal, bd.Eth1Data, bd.Graffiti, bd.ProposerSlashings, bd.AttesterSlashings, bd.Attestations, bd.Deposits, bd.VoluntaryExits)
		b.Sync = bd.SyncAggregate
	case *bellatrix.SignedBeaconBlock:
		m := &x.Message
		setBase(Bellatrix, m.Slot, m.ProposerIndex, m.ParentRoot, m.StateRoot, x.Signature)
		bd := &m.Body
		setOps(bd.RandaoReveal, bd.Eth1Data, bd.Graffiti, bd.ProposerSlashings, bd.AttesterSlashings, bd.Attestations, bd.Deposits, bd.VoluntaryExits)
		b.Sync = bd.SyncAggregate
		p := &bd.ExecutionPayload
		b.Payload = deneb.ExecutionPayload{ParentHash: p.ParentHash, FeeRecipient: p.FeeRecipient, StateRoot: p.StateRoot, ReceiptsRoot: p.ReceiptsRoot,
			LogsBloom: p.LogsBloom, PrevRandao: p.PrevRandao, BlockNumber: p.BlockNumber, GasLimit: p.GasLimit,
			GasUsed: p.GasUsed, Timestamp: p.Timestamp, ExtraData: p.ExtraData, BaseFeePerGas: p.BaseFeePerGas,
			BlockHash: p.BlockHash, Transactions: p.Transactions}
	case *capella.SignedBeaconBlock:
		m := &x.Message
		setBase(Capella, m.Slot, m.ProposerIndex, m.ParentRoot, m.StateRoot, x.Signature)
		bd := &m.Body
		setOps(bd.RandaoReveal, bd.Eth1Data, bd.Graffiti, bd.ProposerSlashings, bd.AttesterSlashings, bd.Attestations, bd.Deposits, bd.VoluntaryExits)
		b.Sync = bd.SyncAggregate
		p := &bd.ExecutionPayload
		b.Payload = deneb.ExecutionPayload{ParentHash: p.ParentHash, FeeRecipient: p.FeeRecipient, StateRoot: p.StateRoot, ReceiptsRoot: p.ReceiptsRoot,
			LogsBloom: p.LogsBloom, PrevRandao: p.PrevRandao, BlockNumber: p.BlockNumber, GasLimit: p.GasLimit,
			GasUsed: p.GasUsed, Timestamp: p.Timestamp, ExtraData: p.ExtraData, BaseFeePerGas: p.BaseFeePerGas,
			BlockHash: p.BlockHash, Transactions: p.Transactions, Withdrawals: p.Withdrawals}
		b.BLSChanges = bd.BLSToExecutionChanges
	case *deneb.SignedBeaconBlock:
		m := &x.Message
		setBase(Deneb, m.Slot, m.ProposerIndex, m.ParentRoot, m.StateRoot, x.Signature)
		bd := &m.Body
		setOps(bd.RandaoReveal, bd.Eth1Data, bd.Graffiti, bd.ProposerSlashings, bd.AttesterSlashings, bd.Attestations, bd.Deposits, bd.VoluntaryExits)
		b.Sync = bd.SyncAggregate
		b.Payload = bd.ExecutionPayload
		b.BLSChanges = bd.BLSToExecutionChanges
		b.Blobs = bd.BlobKZGCommitments
	default:
		panic(fmt.Sprintf("unknown block type %T", sb))
	}
	return b
}

func NewSignedBlock(f ForkID) SignedBlock {
	switch f {
	case Phase0:
		return new(phase0.SignedBeaconBlock)
	case Altair:
		return new(altair.SignedBeaconBlock)
	case Bellatrix:
		return new(bellatrix.SignedBeaconBlock)
	case Capella:
		return new(capella.SignedBeaconBlock)
	case Deneb:
		return new(deneb.SignedBeaconBlock)
	}
	panic("bad fork")
}

func EncodeObj(spec *common.Spec, o common.SpecObj) []byte {
	var buf bytes.Buffer
	if err := o.Serialize(spec, codec.NewEncodingWriter(&buf)); err != nil {
		panic(err)
	}
	return buf.Bytes()
}

func DecodeBlock(spec *common.Spec, f ForkID, data []byte) (sb SignedBlock, err error) {
	defer func() {
		if r := recover(); r != nil {
			err = fmt.Errorf("decode panic: %v", r)
		}
	}()
	sb = NewSignedBlock(f)
	err = sb.Deserialize(spec, codec.NewDecodingReader(bytes.NewReader(data), uint64(len(data))))
	return
}

// HeaderRoot = hash_tree_root(BeaconBlock) of the lowered block.
func (b *Block) Root(spec *common.Spec) common.Root {
	env := b.Signed().Envelope(spec, common.ForkDigest{})
	return env.BlockRoot
}

func (b *Block) BodyRoot(spec *common.Spec) common.Root {
	env := b.Signed().Envelope(spec, common.ForkDigest{})
	return env.BodyRoot
}

// ---- states ----

func StateFork(st common.BeaconState) ForkID {
	switch x := st.(type) {
	case *phase0.BeaconStateView:
		return Phase0
	case *altair.BeaconStateView:
		return Altair
	case *bellatrix.BeaconStateView:
		return Bellatrix
	case *capella.BeaconStateView:
		return Capella
	case *deneb.BeaconStateView:
		return Deneb
	case *beacon.StandardUpgradeableBeaconState:
		return StateFork(x.BeaconState)
	}
	panic(fmt.Sprintf("unknown state type %T", st))
}

func Unwrap(st common.BeaconState) common.BeaconState {
	if u, ok := st.(*beacon.StandardUpgradeableBeaconState); ok {
		return u.BeaconState
	}
	return st
}

func EncodeState(st common.BeaconState) []byte {
	var buf bytes.Buffer
	if err := Unwrap(st).Serialize(codec.NewEncodingWriter(&buf)); err != nil {
		panic(err)
	}
	return buf.Bytes()
}

func DecodeState(spec *common.Spec, f ForkID, data []byte) (common.BeaconState, error) {
	dr := codec.NewDecodingReader(bytes.NewReader(data), uint64(len(data)))
	switch f {
	case Phase0:
		return phase0.AsBeaconStateView(phase0.BeaconStateType(spec).Deserialize(dr))
	case Altair:
		return altair.AsBeaconStateView(altair.BeaconStateType(spec).Deserialize(dr))
	case Bellatrix:
		return bellatrix.AsBeaconStateView(bellatrix.BeaconStateType(spec).Deserialize(dr))
	case Capella:
		return capella.AsBeaconStateView(capella.BeaconStateType(spec).Deserialize(dr))
	case Deneb:
		return deneb.AsBeaconStateView(deneb.BeaconStateType(spec).Deserialize(dr))
	}
	return nil, fmt.Errorf("bad fork %d", f)
}

func CopyState(st common.BeaconState) common.BeaconState {
	c, err := Unwrap(st).CopyState()
	if err != nil {
		panic(err)
	}
	return c
}

func StateRoot(st common.BeaconState) common.Root {
	return Unwrap(st).HashTreeRoot(tree.GetHashFn())
}

// ForkVersionOf returns the configured version constant of a fork.
func ForkVersionOf(spec *common.Spec, f ForkID) common.Version {
	switch f {
	case Phase0:
		return spec.GENESIS_FORK_VERSION
	case Altair:
		return spec.ALTAIR_FORK_VERSION
	case Bellatrix:
		return spec.BELLATRIX_FORK_VERSION
	case Capella:
		return spec.CAPELLA_FORK_VERSION
	case Deneb:
		return spec.DENEB_FORK_VERSION
	}
	panic("bad fork")
}

// EnvelopeFor builds the envelope the `trans` record talks about: the fork digest is
// compute_fork_digest(version constant of the block's declared fork, genesis_validators_root of the pre-state).
func EnvelopeFor(spec *common.Spec, sb SignedBlock, f ForkID, pre common.BeaconState) *common.BeaconBlockEnvelope {
	gvr, err := pre.GenesisValidatorsRoot()
	if err != nil {
		panic(err)
	}
	return sb.Envelope(spec, common.ComputeForkDigest(ForkVersionOf(spec, f), gvr))
}
