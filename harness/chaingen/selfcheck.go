package chaingen

import (
	"bufio"
	"bytes"
	"encoding/hex"
	"fmt"
	"os"
	"path/filepath"
	"strconv"
	"strings"

	"verifharness/hx"

	"github.com/protolambda/zrnt/eth2/beacon/common"
	"github.com/protolambda/zrnt/eth2/beacon/phase0"
	"github.com/protolambda/ztyp/codec"
)

type blobRef struct {
	fork ForkID
	file string
}

// SelfCheck re-reads a chain directory and replays every record through zrnt with fresh contexts.
func SelfCheck(dir string) (report map[string]int, failures []string, err error) {
	report = map[string]int{}
	sp, err := ReadConfigYAML(filepath.Join(dir, "config.yaml"))
	if err != nil {
		return nil, nil, fmt.Errorf("config.yaml: %w", err)
	}
	f, err := os.Open(filepath.Join(dir, "steps.txt"))
	if err != nil {
		return nil, nil, err
	}
	defer f.Close()
	states := map[string]blobRef{}
	blocks := map[string]blobRef{}
	cache := map[string][]byte{}
	read := func(rel string) ([]byte, error) {
		if b, ok := cache[rel]; ok {
			return b, nil
		}
		b, err := os.ReadFile(filepath.Join(dir, rel))
		if err == nil {
			cache[rel] = b
		}
		return b, err
	}
	fail := func(ln int, format string, a ...interface{}) {
		failures = append(failures, fmt.Sprintf("line %d: ", ln)+fmt.Sprintf(format, a...))
	}
	loadState := func(id string) (common.BeaconState, []byte, error) {
		ref, ok := states[id]
		if !ok {
			return nil, nil, fmt.Errorf("undeclared state %s", id)
		}
		raw, err := read(ref.file)
		if err != nil {
			return nil, nil, err
		}
		st, err := DecodeState(sp, ref.fork, raw)
		return st, raw, err
	}
	expectPost := func(ln int, want string, res *RunResult) {
		got := res.Verdict()
		switch want {
		case "ERR", "PANIC":
			if got != want {
				fail(ln, "recorded %s, replay gave %s (%v)", want, got, res.Err)
			}
		default:
			if got != "OK" {
				fail(ln, "recorded post-state %s, replay gave %s (%v %v)", want, got, res.Err, res.PanicVal)
				return
			}
			ref, ok := states[want]
			if !ok {
				fail(ln, "undeclared post state %s", want)
				return
			}
			raw, err := read(ref.file)
			if err != nil {
				fail(ln, "%v", err)
				return
			}
			if ref.fork != StateFork(res.Post) {
				fail(ln, "post-state fork %s, replay gave %s", ref.fork, StateFork(res.Post))
			}
			if !bytes.Equal(raw, EncodeState(res.Post)) {
				fail(ln, "post-state bytes differ from %s", want)
			}
		}
	}
	type lastRun struct {
		polls int
		post  []byte
		ok    bool
	}
	sc := bufio.NewScanner(f)
	sc.Buffer(make([]byte, 1<<20), 1<<24)
	ln := 0
	transLines := map[int]*ScriptedEngine{}
	engineSeen := map[int]int{}
	for sc.Scan() {
		ln++
		line := sc.Text()
		if line == "" || strings.HasPrefix(line, "#") {
			continue
		}
		fs := strings.Fields(line)
		report[fs[0]]++
		switch fs[0] {
		case "state", "blk":
			fk, ok := ForkByName(fs[2])
			if !ok {
				fail(ln, "bad fork %s", fs[2])
				continue
			}
			if _, err := read(fs[3]); err != nil {
				fail(ln, "%v", err)
			}
			if fs[0] == "state" {
				if _, dup := states[fs[1]]; dup {
					fail(ln, "state %s declared twice", fs[1])
				}
				states[fs[1]] = blobRef{fk, fs[3]}
				raw, _ := read(fs[3])
				st, err := DecodeState(sp, fk, raw)
				if err != nil {
					fail(ln, "state does not decode: %v", err)
				} else if !bytes.Equal(EncodeState(st), raw) {
					fail(ln, "state does not round-trip")
				} else {
					for _, t := range fs[4:] {
						if strings.HasPrefix(t, "root=") {
							r := StateRoot(st)
							if t[5:] != hex.EncodeToString(r[:]) {
								fail(ln, "state root tag differs from the root of the decoded bytes")
							}
							report["state_root_tags"]++
						}
					}
				}
			} else {
				blocks[fs[1]] = blobRef{fk, fs[3]}
			}
		case "slots":
			pre, _, err := loadState(fs[1])
			if err != nil {
				fail(ln, "%v", err)
				continue
			}
			target, _ := strconv.ParseUint(fs[2], 10, 64)
			res := RunSlots(sp, pre, nil, common.Slot(target), -1)
			expectPost(ln, fs[3], &res)
		case "trans":
			pre, _, err := loadState(fs[1])
			if err != nil {
				fail(ln, "%v", err)
				continue
			}
			bref, ok := blocks[fs[2]]
			if !ok {
				fail(ln, "undeclared block %s", fs[2])
				continue
			}
			raw, _ := read(bref.file)
			sb, err := DecodeBlock(sp, bref.fork, raw)
			if err != nil {
				fail(ln, "block does not decode: %v", err)
				continue
			}
			if !bytes.Equal(EncodeObj(sp, sb), raw) {
				report["blk_not_canonical"]++
			}
			at := -1
			for _, t := range fs[6:] {
				if strings.HasPrefix(t, "engine_at=") {
					at, _ = strconv.Atoi(t[len("engine_at="):])
				}
			}
			res := RunTransition(sp, pre, nil, sb, bref.fork, fs[3] == "1", fs[4], at, -1)
			expectPost(ln, fs[5], &res)
			transLines[ln] = res.Engine
		case "engine":
			tl, _ := strconv.Atoi(fs[1])
			eng := transLines[tl]
			k := engineSeen[tl]
			engineSeen[tl]++
			if eng == nil || k >= len(eng.Calls) {
				fail(ln, "engine record without matching call in replay of line %d", tl)
				continue
			}
			if want := EngineLine(tl, eng.Calls[k]); want != line {
				fail(ln, "engine record differs: replay %q", want)
			}
		case "genesis":
			hashB, _ := hex.DecodeString(fs[1])
			var hash common.Root
			copy(hash[:], hashB)
			t, _ := strconv.ParseUint(fs[2], 10, 64)
			var deps []common.Deposit
			if fs[3] != "-" {
				raw, err := read(fs[3])
				if err != nil {
					fail(ln, "%v", err)
					continue
				}
				if len(raw)%1240 != 0 {
					fail(ln, "deposit file length %d", len(raw))
					continue
				}
				for o := 0; o < len(raw); o += 1240 {
					var d common.Deposit
					if err := d.Deserialize(codec.NewDecodingReader(bytes.NewReader(raw[o:o+1240]), 1240)); err != nil {
						fail(ln, "deposit decode: %v", err)
					}
					deps = append(deps, d)
				}
			}
			var st *phase0.BeaconStateView
			var gerr error
			var valid bool
			panicked, _ := hx.Catch(func() {
				st, _, gerr = phase0.GenesisFromEth1(specWith(sp, nil), hash, common.Timestamp(t), deps, false)
				if gerr == nil {
					valid, gerr = phase0.IsValidGenesisState(sp, st)
				}
			})
			got := "OK"
			if panicked {
				got = "PANIC"
			} else if gerr != nil {
				got = "ERR"
			}
			switch fs[4] {
			case "ERR", "PANIC":
				if got != fs[4] {
					fail(ln, "genesis recorded %s replay %s", fs[4], got)
				}
			default:
				if got != "OK" {
					fail(ln, "genesis recorded ok, replay %s %v", got, gerr)
					continue
				}
				ref := states[fs[4]]
				raw, _ := read(ref.file)
				if !bytes.Equal(raw, EncodeState(st)) {
					fail(ln, "genesis state bytes differ")
				}
				if (fs[5] == "1") != valid {
					fail(ln, "is_valid differs")
				}
				for _, t := range fs[6:] {
					if strings.HasPrefix(t, "root=") {
						r := StateRoot(st)
						if t[5:] != hex.EncodeToString(r[:]) {
							fail(ln, "genesis root tag differs")
						}
					}
				}
			}
		case "cancel":
			pre, _, err := loadState(fs[1])
			if err != nil {
				fail(ln, "%v", err)
				continue
			}
			target, _ := strconv.ParseUint(fs[3], 10, 64)
			k, _ := strconv.Atoi(fs[4])
			total, _ := strconv.Atoi(fs[5])
			var res, base RunResult
			if fs[2] == "-" {
				res = RunSlots(sp, pre, nil, common.Slot(target), k)
				base = RunSlots(sp, pre, nil, common.Slot(target), -1)
			} else {
				bref := blocks[fs[2]]
				raw, _ := read(bref.file)
				sb, err := DecodeBlock(sp, bref.fork, raw)
				if err != nil {
					fail(ln, "block decode: %v", err)
					continue
				}
				validate, eng, deadline := true, "none", false
				for _, t := range fs[8:] {
					if t == "ctxerr=deadline" {
						deadline = true
					}
					if strings.HasPrefix(t, "engine=") {
						eng = t[len("engine="):]
					}
					if t == "validate=0" {
						validate = false
					}
				}
				res = RunTransitionCtx(sp, pre, nil, sb, bref.fork, validate, eng, -1, k, deadline)
				base = RunTransition(sp, pre, nil, sb, bref.fork, validate, eng, -1, -1)
			}
			if base.Polls != total {
				fail(ln, "polls_total recorded %d replay %d", total, base.Polls)
			}
			if res.Verdict() != fs[6] {
				fail(ln, "cancel result recorded %s replay %s", fs[6], res.Verdict())
			}
			if fs[7] != "-" {
				same := res.Post != nil && base.Post != nil && bytes.Equal(EncodeState(res.Post), EncodeState(base.Post))
				if same != (fs[7] == "1") {
					fail(ln, "same_as_undisturbed differs")
				}
			}
		case "epc":
			if _, ok := states[fs[1]]; !ok {
				fail(ln, "epc of undeclared state")
				continue
			}
			st, _, err := loadState(fs[1])
			if err != nil {
				fail(ln, "%v", err)
				continue
			}
			want, err := read(fs[3])
			if err != nil {
				fail(ln, "%v", err)
				continue
			}
			n := uint64(0)
			if vals, err := st.Validators(); err == nil {
				n, _ = vals.ValidatorCount()
			}
			var got []byte
			func() {
				defer func() {
					if r := recover(); r != nil {
						got = []byte(fmt.Sprintf("PANIC %v\n", r))
					}
				}()
				fresh, err := common.NewEpochsContext(specWith(sp, nil), st)
				if err != nil {
					got = []byte("ERR " + err.Error() + "\n")
					return
				}
				got = DumpEPC(fresh, n, bytes.Contains(want, []byte("\npubkey ")))
			}()
			if !bytes.Equal(got, want) {
				fail(ln, "fresh epc dump differs")
			}
			live, err := read(fs[2])
			if err != nil {
				fail(ln, "%v", err)
			} else if !bytes.Equal(live, want) {
				report["epc_live_differs"]++
			}
		case "baddecode":
			bref, ok := blocks[fs[1]]
			if !ok {
				fail(ln, "undeclared block %s", fs[1])
				continue
			}
			raw, _ := read(bref.file)
			if _, err := DecodeBlock(sp, bref.fork, raw); err == nil {
				fail(ln, "baddecode block decodes")
			}
		case "reload", "kickstart":
			// markers / informational
		default:
			fail(ln, "unknown record kind %s", fs[0])
		}
	}
	// bls.txt syntax
	if b, err := os.ReadFile(filepath.Join(dir, "bls.txt")); err != nil {
		failures = append(failures, "bls.txt: "+err.Error())
	} else {
		for i, l := range strings.Split(strings.TrimSpace(string(b)), "\n") {
			fs := strings.Fields(l)
			ok := false
			switch {
			case len(fs) == 2 && fs[0] == "PK" && len(fs[1]) == 96:
				ok = true
			case len(fs) == 4 && fs[0] == "SIG" && len(fs[1]) == 192 && len(fs[2]) == 64:
				ok = true
			case len(fs) == 3 && fs[0] == "AGG" && len(fs[1]) == 96:
				ok = true
			}
			if !ok {
				failures = append(failures, fmt.Sprintf("bls.txt line %d malformed", i+1))
			}
			report["bls_"+fs[0]]++
		}
	}
	return report, failures, sc.Err()
}
