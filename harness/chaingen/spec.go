// Package chaingen builds beacon chains with the real zrnt code and records every step in the
// chain directory format of /verif/design/chain-format.md.
package chaingen

import (
	"fmt"
	"os"
	"strings"

	"verifharness/hx"

	"github.com/protolambda/zrnt/eth2/beacon/common"
	"github.com/protolambda/zrnt/eth2/configs"
	"github.com/protolambda/ztyp/view"
	"gopkg.in/yaml.v3"
)

const FarFuture = ^uint64(0)

// Fork index of a state or block type.
type ForkID int

const (
	Phase0 ForkID = iota
	Altair
	Bellatrix
	Capella
	Deneb
)

var ForkNames = []string{"phase0", "altair", "bellatrix", "capella", "deneb"}

func (f ForkID) String() string { return ForkNames[f] }

func ForkByName(s string) (ForkID, bool) {
	for i, n := range ForkNames {
		if n == s {
			return ForkID(i), true
		}
	}
	return 0, false
}

// CloneSpec returns a private copy (the Spec struct holds only value fields plus the engine interface).
func CloneSpec(sp *common.Spec) *common.Spec {
	c := *sp
	return &c
}

func pick[T any](r *hx.Rng, xs ...T) T { return xs[r.Intn(len(xs))] }

// SpecKnobs lets a scenario bias the random preset.
type SpecKnobs struct {
	Epochs               int    // planned chain length in epochs: fork epochs are drawn so that they fall inside
	PlainMinimal         bool   // minimal preset untouched except fork epochs
	AllForksInside       bool   // force all four fork epochs < Epochs-1
	CommitteeDrop        bool   // MAX_COMMITTEES_PER_SLOT 4, MAX_SEED_LOOKAHEAD 1: with an exact genesis active count the committee count drops inside phase0
	Phase0Leak           bool   // MIN_EPOCHS_TO_INACTIVITY_PENALTY 1 (a leak epoch is processed by phase0 when altair comes at epoch 4)
	SyncSeat             bool   // EPOCHS_PER_SYNC_COMMITTEE_PERIOD 4, SHARD_COMMITTEE_PERIOD 1, MAX_SEED_LOOKAHEAD 1, withdrawability delay 1, sweep 8
	TwoAttesterSlashings bool   // MAX_ATTESTER_SLASHINGS 2
	LowBalances          bool   // SYNC_COMMITTEE_SIZE 32, EJECTION_BALANCE 8 ETH, inactivity quotients 6/9/12: one phase0 leak epoch takes a third of the balance of the validators that missed the target
	WideForks            bool   // fork epochs anywhere in 1..epochs-4 instead of 1..6
	ForkBias             string // "late": forks at the last four possible epochs; "early": 1,2,3,4
	OddVectors           bool   // non-power-of-two EPOCHS_PER_HISTORICAL_VECTOR / EPOCHS_PER_SLASHINGS_VECTOR / SLOTS_PER_HISTORICAL_ROOT
	PenaltyWhileActive   bool   // EPOCHS_PER_SLASHINGS_VECTOR 8, delay 1, MAX_SEED_LOOKAHEAD 4, multipliers 3: the correlation penalty hits validators that stay active
	ShortSlashings       bool   // EPOCHS_PER_SLASHINGS_VECTOR 4, MIN_VALIDATOR_WITHDRAWABILITY_DELAY 1: slashed validators become withdrawable within the chain
	FastEth1             bool   // EPOCHS_PER_ETH1_VOTING_PERIOD 1
	HugeRewards          bool   // BASE_REWARD_FACTOR 2^14..2^16: a missed epoch costs a noticeable share of an increment
	StrongPenalty        bool   // large base reward / small inactivity quotients so balances move fast
	EjectionNear         bool   // EJECTION_BALANCE one or two increments below MAX_EFFECTIVE_BALANCE
	SmallChurn           bool
	WideDeposits         bool // MAX_DEPOSITS 16
	SameMultiset         bool // SYNC_COMMITTEE_SIZE 32, period 2, shuffling on: with 16/32 validators at the maximum every committee is the whole registry in another order
	ShortLeak            bool
	SmallSweep           bool
	SyncAtFork           bool // make a sync committee period boundary coincide with a fork epoch
}

// ForkSchedule draws sorted fork epochs. Later forks may be equal to earlier ones or FAR_FUTURE.
func ForkSchedule(r *hx.Rng, k SpecKnobs) [4]uint64 {
	hi := 6
	if k.WideForks && k.Epochs-4 > hi {
		hi = k.Epochs - 4
	}
	if k.Epochs-2 < hi {
		hi = k.Epochs - 2
	}
	if hi < 1 {
		hi = 1
	}
	var f [4]uint64
	switch k.ForkBias {
	case "zero": // a chain that starts on a later fork (the phase0 genesis state is upgraded before the first block)
		if r.Bool() {
			return [4]uint64{0, 1, 2, 3}
		}
		return [4]uint64{0, 0, 1, 2}
	case "zero_all": // genesis records only
		switch r.Intn(3) {
		case 0:
			return [4]uint64{0, 0, 0, 0}
		case 1:
			return [4]uint64{0, 0, 0, 1}
		}
		return [4]uint64{0, 1, 2, 3}
	}
	if k.ForkBias == "early" && hi >= 4 {
		return [4]uint64{1, 2, 3, 4}
	}
	if k.ForkBias == "pair" && hi >= 4 {
		// two (or three) consecutive forks at the same epoch
		switch r.Intn(4) {
		case 0:
			return [4]uint64{1, 1, 2, 4}
		case 1:
			return [4]uint64{1, 2, 2, 4}
		case 2:
			return [4]uint64{1, 1, 1, 3}
		default:
			return [4]uint64{1, 2, 3, 3}
		}
	}
	if k.ForkBias == "triple" && hi >= 3 {
		// bellatrix, capella and deneb together: a deneb state whose fork record has epoch == CAPELLA_FORK_EPOCH
		return [4]uint64{1, 2, 2, 2}
	}
	if k.ForkBias == "phase0long" && k.Epochs >= 9 {
		// four phase0 epochs, altair at a multiple of both possible sync-committee periods (2 and 4)
		return [4]uint64{4, 5, 6, 8} // capella covers the transition into epoch 8 (a boundary of period 2 and 4)
	}
	if k.ForkBias == "late" && hi >= 5 {
		return [4]uint64{uint64(hi - 3), uint64(hi - 2), uint64(hi - 1), uint64(hi)}
	}
	sort4 := func() {
		for i := 0; i < 4; i++ {
			for j := i + 1; j < 4; j++ {
				if f[j] < f[i] {
					f[i], f[j] = f[j], f[i]
				}
			}
		}
	}
	if hi >= 4 && r.Chance(55) {
		// four distinct epochs
		perm := make([]uint64, hi)
		for i := range perm {
			perm[i] = uint64(i + 1)
		}
		for i := 0; i < 4; i++ {
			j := i + r.Intn(hi-i)
			perm[i], perm[j] = perm[j], perm[i]
			f[i] = perm[i]
		}
		sort4()
	} else {
		for i := range f {
			f[i] = uint64(1 + r.Intn(hi))
		}
		sort4()
	}
	if !k.AllForksInside && r.Chance(30) {
		from := 1 + r.Intn(3)
		for i := from; i < 4; i++ {
			f[i] = FarFuture
		}
	}
	return f
}

// TinySpec derives a randomised tiny preset from configs.Minimal.
func TinySpec(r *hx.Rng, k SpecKnobs) *common.Spec {
	sp := CloneSpec(configs.Minimal)
	sp.ExecutionEngine = nil
	forks := ForkSchedule(r, k)
	sp.ALTAIR_FORK_EPOCH = common.Epoch(forks[0])
	sp.BELLATRIX_FORK_EPOCH = common.Epoch(forks[1])
	sp.CAPELLA_FORK_EPOCH = common.Epoch(forks[2])
	sp.DENEB_FORK_EPOCH = common.Epoch(forks[3])
	sp.ELECTRA_FORK_EPOCH = common.Epoch(FarFuture)
	sp.FULU_FORK_EPOCH = common.Epoch(FarFuture)
	sp.MIN_GENESIS_TIME = 1578009600
	sp.GENESIS_DELAY = common.Timestamp(pick(r, 0, 30, 300))
	if k.PlainMinimal {
		sp.CONFIG_NAME = "minimal-forks"
		// keep exits/withdrawability reachable in some of them
		if r.Chance(50) {
			sp.SHARD_COMMITTEE_PERIOD = common.Epoch(pick(r, 1, 2))
			sp.MIN_VALIDATOR_WITHDRAWABILITY_DELAY = common.Epoch(pick(r, 1, 2))
			sp.CONFIG_NAME = "minimal-forks-shortexit"
		}
		sp.MIN_GENESIS_ACTIVE_VALIDATOR_COUNT = view.Uint64View(pick(r, 8, 16))
		return sp
	}
	sp.CONFIG_NAME = "tiny"
	sp.PRESET_BASE = "tiny"
	sp.SLOTS_PER_EPOCH = common.Slot(pick(r, 4, 8))
	sp.SLOTS_PER_HISTORICAL_ROOT = common.Slot(pick(r, 16, 32))
	sp.EPOCHS_PER_HISTORICAL_VECTOR = common.Epoch(pick(r, 8, 16))
	sp.EPOCHS_PER_SLASHINGS_VECTOR = common.Epoch(pick(r, 4, 8))
	sp.EPOCHS_PER_ETH1_VOTING_PERIOD = common.Epoch(pick(r, 1, 2))
	sp.SHARD_COMMITTEE_PERIOD = common.Epoch(pick(r, 1, 2))
	sp.MIN_VALIDATOR_WITHDRAWABILITY_DELAY = common.Epoch(pick(r, 1, 2))
	sp.EPOCHS_PER_SYNC_COMMITTEE_PERIOD = common.Epoch(pick(r, 2, 4))
	sp.SYNC_COMMITTEE_SIZE = view.Uint64View(pick(r, 4, 8, 32))
	sp.TARGET_COMMITTEE_SIZE = view.Uint64View(pick(r, 2, 4))
	sp.MAX_COMMITTEES_PER_SLOT = view.Uint64View(pick(r, 1, 2, 4))
	sp.SHUFFLE_ROUND_COUNT = view.Uint8View(pick(r, 0, 3, 3, 10, 10, 10))
	sp.MIN_SEED_LOOKAHEAD = 1
	sp.MAX_SEED_LOOKAHEAD = common.Epoch(pick(r, 1, 2, 4))
	sp.MIN_PER_EPOCH_CHURN_LIMIT = 2
	sp.CHURN_LIMIT_QUOTIENT = view.Uint64View(4 + r.Intn(29))
	if k.SmallChurn {
		sp.CHURN_LIMIT_QUOTIENT = 32
	}
	sp.MAX_PER_EPOCH_ACTIVATION_CHURN_LIMIT = view.Uint64View(pick(r, 1, 2, 3, 4))
	sp.MIN_EPOCHS_TO_INACTIVITY_PENALTY = common.Epoch(1 + r.Intn(4))
	if k.ShortLeak {
		sp.MIN_EPOCHS_TO_INACTIVITY_PENALTY = common.Epoch(1 + r.Intn(2))
	}
	sp.MAX_WITHDRAWALS_PER_PAYLOAD = view.Uint64View(pick(r, 2, 3, 4))
	sp.MAX_VALIDATORS_PER_WITHDRAWALS_SWEEP = view.Uint64View(pick(r, 2, 3, 4, 8))
	if k.SmallSweep {
		sp.MAX_VALIDATORS_PER_WITHDRAWALS_SWEEP = view.Uint64View(pick(r, 2, 3, 4))
	}
	sp.MIN_GENESIS_ACTIVE_VALIDATOR_COUNT = view.Uint64View(pick(r, 4, 8, 16))
	// per-block limits: small enough that "over the limit" blocks are easy to build
	sp.MAX_PROPOSER_SLASHINGS = view.Uint64View(pick(r, 2, 4, 16))
	sp.MAX_ATTESTER_SLASHINGS = view.Uint64View(pick(r, 1, 2))
	sp.MAX_ATTESTATIONS = view.Uint64View(pick(r, 8, 16, 128))
	sp.MAX_DEPOSITS = view.Uint64View(pick(r, 2, 4, 16))
	sp.MAX_VOLUNTARY_EXITS = view.Uint64View(pick(r, 2, 4, 16))
	sp.MAX_BLS_TO_EXECUTION_CHANGES = view.Uint64View(pick(r, 2, 4, 16))
	sp.MAX_BLOBS_PER_BLOCK = view.Uint64View(pick(r, 2, 6))
	sp.MAX_BLOB_COMMITMENTS_PER_BLOCK = view.Uint64View(pick(r, 8, 32))
	sp.MAX_TRANSACTIONS_PER_PAYLOAD = view.Uint64View(pick(r, 16, 1048576))
	if k.EjectionNear {
		sp.EJECTION_BALANCE = sp.MAX_EFFECTIVE_BALANCE - sp.EFFECTIVE_BALANCE_INCREMENT
	} else if r.Chance(30) {
		sp.EJECTION_BALANCE = sp.MAX_EFFECTIVE_BALANCE - common.Gwei(2+r.Intn(6))*sp.EFFECTIVE_BALANCE_INCREMENT
	}
	if k.StrongPenalty || r.Chance(40) {
		sp.BASE_REWARD_FACTOR = view.Uint64View(pick(r, 1024, 4096, 16384))
		q := view.Uint64View(uint64(1) << uint(4+r.Intn(6)))
		sp.INACTIVITY_PENALTY_QUOTIENT = q
		sp.INACTIVITY_PENALTY_QUOTIENT_ALTAIR = q + q/2
		sp.INACTIVITY_PENALTY_QUOTIENT_BELLATRIX = q * 2
		sp.INACTIVITY_SCORE_BIAS = view.Uint64View(pick(r, 1, 4))
		sp.INACTIVITY_SCORE_RECOVERY_RATE = view.Uint64View(pick(r, 1, 16))
	}
	if k.SyncSeat {
		sp.EPOCHS_PER_SYNC_COMMITTEE_PERIOD = 4
		sp.SHARD_COMMITTEE_PERIOD = 1
		sp.MAX_SEED_LOOKAHEAD = 1
		sp.MIN_VALIDATOR_WITHDRAWABILITY_DELAY = 1
		sp.MAX_VALIDATORS_PER_WITHDRAWALS_SWEEP = 8
		sp.MAX_WITHDRAWALS_PER_PAYLOAD = 4
		if k.WideDeposits {
			// the registry grows by two dozen validators: keep the sweep cycle short enough to reach the seat member in time
			sp.MAX_VALIDATORS_PER_WITHDRAWALS_SWEEP = 32
		}
	}
	if k.TwoAttesterSlashings {
		sp.MAX_ATTESTER_SLASHINGS = 2
	}
	if k.LowBalances {
		sp.SYNC_COMMITTEE_SIZE = 32
		sp.EJECTION_BALANCE = 8 * sp.EFFECTIVE_BALANCE_INCREMENT
		sp.INACTIVITY_PENALTY_QUOTIENT = 6
		sp.INACTIVITY_PENALTY_QUOTIENT_ALTAIR = 9
		sp.INACTIVITY_PENALTY_QUOTIENT_BELLATRIX = 12
		sp.INACTIVITY_SCORE_BIAS = 4
		sp.BASE_REWARD_FACTOR = 64
	}
	if k.FastEth1 {
		sp.EPOCHS_PER_ETH1_VOTING_PERIOD = 1
	}
	if k.WideDeposits {
		sp.MAX_DEPOSITS = 16
	}
	if k.SameMultiset {
		sp.SYNC_COMMITTEE_SIZE = 32
		sp.EPOCHS_PER_SYNC_COMMITTEE_PERIOD = 2
		if sp.SHUFFLE_ROUND_COUNT == 0 {
			sp.SHUFFLE_ROUND_COUNT = 10
		}
		if sp.MIN_GENESIS_ACTIVE_VALIDATOR_COUNT > 16 {
			sp.MIN_GENESIS_ACTIVE_VALIDATOR_COUNT = 16
		}
	}
	if k.CommitteeDrop {
		sp.MAX_COMMITTEES_PER_SLOT = 4
		sp.MAX_SEED_LOOKAHEAD = 1
		if uint64(sp.SLOTS_PER_EPOCH)*uint64(sp.TARGET_COMMITTEE_SIZE) < 16 {
			sp.TARGET_COMMITTEE_SIZE = 4
		}
	}
	if k.Phase0Leak {
		sp.MIN_EPOCHS_TO_INACTIVITY_PENALTY = 1
	}
	if k.ForkBias == "late" && sp.MAX_SEED_LOOKAHEAD > 2 {
		// an exit initiated in phase0 can then take effect exactly at ALTAIR_FORK_EPOCH+1
		sp.MAX_SEED_LOOKAHEAD = common.Epoch(pick(r, 1, 2))
	}
	if k.OddVectors {
		spe := uint64(sp.SLOTS_PER_EPOCH)
		sp.SLOTS_PER_HISTORICAL_ROOT = common.Slot(spe * uint64(pick(r, 3, 5, 6)))
		sp.EPOCHS_PER_HISTORICAL_VECTOR = common.Epoch(pick(r, 9, 12, 24, 40))
		sp.EPOCHS_PER_SLASHINGS_VECTOR = common.Epoch(pick(r, 5, 6, 7))
	}
	if k.PenaltyWhileActive {
		// slashed at s with exit X = s+1+4+q: withdrawable = max(X+1, s+8); penalty epoch = withdrawable-4 < X-1 for q >= 1
		sp.EPOCHS_PER_SLASHINGS_VECTOR = 8
		sp.MIN_VALIDATOR_WITHDRAWABILITY_DELAY = 1
		sp.MAX_SEED_LOOKAHEAD = 4
		sp.PROPORTIONAL_SLASHING_MULTIPLIER = 3
		sp.PROPORTIONAL_SLASHING_MULTIPLIER_ALTAIR = 3
		sp.PROPORTIONAL_SLASHING_MULTIPLIER_BELLATRIX = 3
	} else if k.ShortSlashings {
		sp.EPOCHS_PER_SLASHINGS_VECTOR = 4
		sp.MIN_VALIDATOR_WITHDRAWABILITY_DELAY = 1
		sp.MAX_SEED_LOOKAHEAD = common.Epoch(pick(r, 1, 2))
	}
	if k.HugeRewards {
		sp.BASE_REWARD_FACTOR = view.Uint64View(pick(r, 32768, 65536))
	}
	if r.Chance(40) {
		sp.MIN_SLASHING_PENALTY_QUOTIENT = view.Uint64View(pick(r, 8, 32, 64))
		sp.MIN_SLASHING_PENALTY_QUOTIENT_ALTAIR = view.Uint64View(pick(r, 8, 32, 64))
		sp.MIN_SLASHING_PENALTY_QUOTIENT_BELLATRIX = view.Uint64View(pick(r, 8, 32))
		if !k.PenaltyWhileActive {
			sp.PROPORTIONAL_SLASHING_MULTIPLIER = view.Uint64View(pick(r, 1, 2, 3))
		}
		sp.WHISTLEBLOWER_REWARD_QUOTIENT = view.Uint64View(pick(r, 16, 512))
	}
	if k.SyncAtFork {
		// choose a fork epoch that is a multiple of the period (or move the period)
		p := uint64(sp.EPOCHS_PER_SYNC_COMMITTEE_PERIOD)
		fe := []*common.Epoch{&sp.ALTAIR_FORK_EPOCH, &sp.BELLATRIX_FORK_EPOCH, &sp.CAPELLA_FORK_EPOCH, &sp.DENEB_FORK_EPOCH}
		// make the second reachable fork land on a period boundary
		idx := r.Intn(4)
		if uint64(*fe[idx]) != FarFuture {
			v := (uint64(*fe[idx]) + p - 1) / p * p
			if v == 0 {
				v = p
			}
			*fe[idx] = common.Epoch(v)
			for j := idx + 1; j < 4; j++ {
				if *fe[j] < *fe[idx] {
					*fe[j] = *fe[idx]
				}
			}
			for j := 0; j < idx; j++ {
				if *fe[j] > *fe[idx] {
					*fe[j] = *fe[idx]
				}
			}
		}
	}
	return sp
}

// CheckSpec asserts the relations the code relies on.
func CheckSpec(sp *common.Spec) error {
	if sp.SLOTS_PER_HISTORICAL_ROOT%sp.SLOTS_PER_EPOCH != 0 || sp.SLOTS_PER_HISTORICAL_ROOT < 2*sp.SLOTS_PER_EPOCH {
		return fmt.Errorf("SLOTS_PER_HISTORICAL_ROOT %d vs SLOTS_PER_EPOCH %d", sp.SLOTS_PER_HISTORICAL_ROOT, sp.SLOTS_PER_EPOCH)
	}
	if sp.MAX_SEED_LOOKAHEAD >= sp.EPOCHS_PER_HISTORICAL_VECTOR || sp.MIN_SEED_LOOKAHEAD >= sp.EPOCHS_PER_HISTORICAL_VECTOR {
		return fmt.Errorf("seed lookahead vs historical vector")
	}
	if uint64(sp.SYNC_COMMITTEE_SIZE)%common.SYNC_COMMITTEE_SUBNET_COUNT != 0 {
		return fmt.Errorf("sync committee size")
	}
	if !(sp.ALTAIR_FORK_EPOCH <= sp.BELLATRIX_FORK_EPOCH && sp.BELLATRIX_FORK_EPOCH <= sp.CAPELLA_FORK_EPOCH && sp.CAPELLA_FORK_EPOCH <= sp.DENEB_FORK_EPOCH) {
		return fmt.Errorf("fork epochs not sorted")
	}
	return nil
}

// WriteConfigYAML writes the flat `KEY: value` file.
func WriteConfigYAML(sp *common.Spec, path string) error {
	b, err := yaml.Marshal(sp)
	if err != nil {
		return err
	}
	// ztyp's Uint64View/Uint256View marshal as quoted decimal strings: write them bare
	lines := strings.Split(string(b), "\n")
	for i, l := range lines {
		k := strings.Index(l, ": ")
		if k < 0 {
			continue
		}
		v := l[k+2:]
		if len(v) >= 3 && v[0] == '"' && v[len(v)-1] == '"' {
			inner := v[1 : len(v)-1]
			num := true
			for _, ch := range inner {
				if ch < '0' || ch > '9' {
					num = false
				}
			}
			if num {
				lines[i] = l[:k+2] + inner
			}
		}
	}
	return os.WriteFile(path, []byte(strings.Join(lines, "\n")), 0o644)
}

// ReadConfigYAML reads it back (selfcheck).
func ReadConfigYAML(path string) (*common.Spec, error) {
	b, err := os.ReadFile(path)
	if err != nil {
		return nil, err
	}
	var sp common.Spec
	if err := yaml.Unmarshal(b, &sp); err != nil {
		return nil, err
	}
	return &sp, nil
}
