package chaingen

import (
	"encoding/json"
	"fmt"
	"os"
	"path/filepath"
	"sort"
	"strconv"
	"sync"
	"time"

	"verifharness/hx"
)

func envSeedTier() (uint64, string) {
	seed := uint64(1)
	if s := os.Getenv("VERIF_SEED"); s != "" {
		if v, err := strconv.ParseInt(s, 10, 64); err == nil {
			seed = uint64(v)
		}
	}
	tier := os.Getenv("VERIF_TIER")
	if tier == "" {
		tier = "quick"
	}
	return seed, tier
}

// Plan lists the chains of a run.
func Plan(out string, seed uint64, tier string, scenario string, count int, epochsOverride int) []ChainParams {
	master := &hx.Rng{}
	*master = *hx.NewEnv("chain", os.TempDir(), seed, tier).Rng
	quick := tier != "thorough"
	var names []string
	if scenario != "" {
		if count <= 0 {
			count = 1
		}
		for i := 0; i < count; i++ {
			names = append(names, scenario)
		}
	} else if quick {
		// 4 chains: basic + three others rotating with the seed
		others := []string{}
		for _, n := range ScenarioOrder {
			if n != "basic" && n != "genesis" {
				others = append(others, n)
			}
		}
		// fixed part of every quick run (each covers inputs the seeded-defect trials need), plus one rotating scenario
		names = []string{"basic", "all_ops_one_block", "mass_slashing", "exits_then_ejection", "eth1_votes"}
		others = remove(remove(others, "sync_same_multiset"), "forks_at_genesis") // fixed last chains of every quick run, see below
		var rest []string
		for _, n := range others {
			used := false
			for _, m := range names {
				used = used || m == n
			}
			if !used {
				rest = append(rest, n)
			}
		}
		n := 1
		if count > len(names) {
			n = count - len(names)
		}
		off := int(seed % uint64(len(rest)))
		for i := 0; i < n; i++ {
			names = append(names, rest[(off+i)%len(rest)])
		}
		names = append(names, "sync_same_multiset", "forks_at_genesis")
	} else {
		n := 60
		if count > 0 {
			n = count
		}
		var order []string
		for _, n := range ScenarioOrder {
			if n != "genesis" {
				order = append(order, n)
			}
		}
		for i := 0; i < n; i++ {
			names = append(names, order[i%len(order)])
		}
	}
	perScenario := map[string]int{}
	var plan []ChainParams
	totalCorrupt, totalCancel, totalEngine := 150, 6, 6 // (random part; the coverage phase adds every kind / variant / fork)
	epochs := 8
	if !quick {
		totalCorrupt, totalCancel, totalEngine = 10000, 60, 120
		epochs = 24
	}
	if epochsOverride > 0 {
		epochs = epochsOverride
	}
	for i, n := range names {
		k := perScenario[n]
		perScenario[n]++
		r := master.Fork()
		pr := ChainParams{Scenario: Scenarios[n], Dir: ChainDir(out, n, k), Name: fmt.Sprintf("%s-%d", n, k), Seed: seed, Rng: r, Epochs: epochs}
		pr.Plain = !quick && i%10 == 9 || quick && i == 5 && seed%4 == 3
		// cancellation-sweep coverage is shared between the chains of a run: quick chains take two forks each (every fork
		// twice per run), thorough chains one
		pr.CoverForks[i%5] = true
		if quick {
			pr.CoverForks[(i+2)%5] = true
		}
		div := len(names)
		if quick && scenario == "" {
			div -= 2 // the two small chains at the end have their own small budgets
		}
		pr.Corrupt = (totalCorrupt + div - 1) / div
		pr.Cancel = (totalCancel + div - 1) / div
		pr.Engine = (totalEngine + div - 1) / div
		if quick && scenario == "" && n == "sync_same_multiset" {
			pr.CoverForks = [5]bool{}
			pr.Corrupt, pr.Cancel, pr.Engine = 10, 0, 0
			pr.Epochs = 8
		}
		if quick && scenario == "" && n == "forks_at_genesis" {
			pr.CoverForks = [5]bool{}
			pr.Corrupt, pr.Cancel, pr.Engine = 10, 0, 0
			pr.Epochs = 4
			pr.Genesis = 0
		}
		pr.Genesis = 3
		if !quick {
			pr.Genesis = 9
		}
		if !quick {
			// every other thorough chain spreads its forks over the whole chain (long phase0/altair/bellatrix/capella stretches)
			pr.WideForks = i%2 == 1
		}
		if !quick && scenario == "" {
			pr.CommitteeDrop = n == "basic"
			pr.DepositFork = i%6 == 1
			pr.SyncSeat = n == "withdrawals" || n == "all_ops_one_block"
			pr.ActivationTies = n == "activation_queue" || n == "all_ops_one_block"
			if i%12 == 10 {
				pr.ForkBias = "phase0long"
				pr.Phase0Leak = true
				pr.LowBalances = n != "mass_slashing"
			}
			switch i % 12 {
			case 3:
				pr.ForkBias = "pair"
			case 7:
				pr.ForkBias = "triple"
			}
		}
		if n == "mass_slashing" {
			pr.RetryUntil = "epochs_proposers_sensitive_to_effbal_change"
		}
		// non-power-of-two vector lengths: one fixed quick chain, every fourth thorough chain
		if quick && n == "eth1_votes" || !quick && i%4 == 2 && n != "mass_slashing" {
			pr.OddVectors = true
		}
		if quick && scenario == "" {
			switch i {
			case 0:
				pr.ForkBias = "late"
				pr.ZeroHashMerge = 1
				pr.CommitteeDrop = true
			case 1:
				pr.ForkBias = "early"
				pr.ZeroHashMerge = 1
				pr.DepositFork = true
				pr.SyncSeat = true
				pr.ActivationTies = true
				pr.RetryUntil = "deneb.topup_zero_balance_nonparticipating_sync_member,activation_queue_over_12_non_monotone"
			case 4:
				// four phase0 epochs with a leak, altair on a sync-period boundary
				pr.ForkBias = "phase0long"
				pr.Phase0Leak = true
				pr.LowBalances = true
				pr.RetryUntil = "sync_sampling_wrapped_with_rejections,proposer_sampling_rejections_in_a_row,sync_sampling_sensitive_to_effbal_update_capella"
				if pr.Epochs < 9 {
					pr.Epochs = 9
				}
			case 2:
				pr.ForkBias = "pair"
			case 3:
				pr.ForkBias = "triple"
			}
		}
		plan = append(plan, pr)
	}
	if scenario == "" {
		// C13: genesis-only directories over three presets (minimal + two tiny)
		ng := len(GenesisKinds)
		if !quick {
			ng = 7 * len(GenesisKinds)
		}
		for k := 0; k < 3; k++ {
			r := master.Fork()
			plan = append(plan, ChainParams{Scenario: Scenarios["genesis"], Dir: ChainDir(out, "genesis", k), Name: fmt.Sprintf("genesis-%d", k),
				Seed: seed, Rng: r, Epochs: 8, Plain: k == 0, Genesis: ng, GenesisOnly: true, OddVectors: k == 1, ForkBias: map[int]string{2: "zero_all"}[k]})
		}
	}
	return plan
}

func remove(l []string, x string) (out []string) {
	for _, s := range l {
		if s != x {
			out = append(out, s)
		}
	}
	return
}

// CLI: chain <outdir> [--scenario name] [--count n] [--epochs n] | chain --selfcheck <chaindir>...
func CLI(args []string) int {
	if len(args) >= 1 && args[0] == "--selfcheck" {
		bad := 0
		for _, d := range args[1:] {
			t0 := time.Now()
			rep, fails, err := SelfCheck(d)
			if err != nil {
				fmt.Fprintf(os.Stderr, "selfcheck %s: %v\n", d, err)
				bad++
				continue
			}
			b, _ := json.Marshal(rep)
			fmt.Printf("selfcheck %s: %d failures, %.1fs, records %s\n", d, len(fails), time.Since(t0).Seconds(), b)
			for i, f := range fails {
				if i < 20 {
					fmt.Println("  FAIL", f)
				}
			}
			if len(fails) > 0 {
				bad++
			}
		}
		if bad > 0 {
			return 1
		}
		return 0
	}
	if len(args) < 1 {
		fmt.Fprintln(os.Stderr, "usage: chain <outdir> [--scenario name] [--count n] [--epochs n] | chain --selfcheck <chaindir>...")
		return 2
	}
	out := args[0]
	scenario, count, epochs := "", 0, 0
	for i := 1; i < len(args); i++ {
		switch args[i] {
		case "--scenario":
			i++
			scenario = args[i]
		case "--count":
			i++
			count, _ = strconv.Atoi(args[i])
		case "--epochs":
			i++
			epochs, _ = strconv.Atoi(args[i])
		default:
			fmt.Fprintln(os.Stderr, "unknown argument", args[i])
			return 2
		}
	}
	if scenario != "" && Scenarios[scenario] == nil {
		fmt.Fprintln(os.Stderr, "unknown scenario", scenario, "; known:", ScenarioOrder)
		return 2
	}
	seed, tier := envSeedTier()
	if err := os.MkdirAll(out, 0o755); err != nil {
		fmt.Fprintln(os.Stderr, err)
		return 3
	}
	t0 := time.Now()
	plan := Plan(out, seed, tier, scenario, count, epochs)
	results := make([]ChainResult, len(plan))
	var wg sync.WaitGroup
	sem := make(chan struct{}, 16)
	for i := range plan {
		wg.Add(1)
		go func(i int) {
			defer wg.Done()
			sem <- struct{}{}
			defer func() { <-sem }()
			os.RemoveAll(plan[i].Dir)
			plan[i].DeferFinish = true
			results[i] = Generate(plan[i])
		}(i)
	}
	wg.Wait()
	// C03 coverage: every corruption kind / variant / fork the random streams left out, spread over the chains of the run
	CoverPhase(results, seed, tier)
	for i := range results {
		wg.Add(1)
		go func(i int) {
			defer wg.Done()
			results[i].Finalize()
		}(i)
	}
	wg.Wait()
	sum := Summarize(results, seed, tier, time.Since(t0).Seconds())
	b, _ := json.MarshalIndent(sum, "", " ")
	if err := os.WriteFile(filepath.Join(out, "summary.json"), b, 0o644); err != nil {
		fmt.Fprintln(os.Stderr, err)
		return 3
	}
	code := 0
	for _, r := range results {
		status := "ok"
		if r.Err != nil {
			// not fatal: what happened is in steps.txt / summary.json and is judged by the model side
			status = "ERROR " + r.Err.Error()
		}
		fmt.Printf("%-28s %6.1fs %7.2f MB blocks=%-4d problems=%d unmet=%d %s\n", r.Name, r.Seconds, float64(r.Bytes)/1e6, statGet(r.Stats, "blocks"), len(r.Problems), len(r.Unmet), status)
		for _, p := range r.Problems {
			fmt.Println("   PROBLEM", p)
		}
		for _, p := range r.Unmet {
			fmt.Println("   UNMET", p)
		}
	}
	fmt.Printf("total %.1fs, summary in %s\n", time.Since(t0).Seconds(), filepath.Join(out, "summary.json"))
	if rm, _ := sum["required_missing"].([]string); tier != "thorough" && scenario == "" && len(rm) > 0 {
		// Guard: a quick run must contain every required history. When zrnt itself misbehaved (honest blocks rejected, live
		// context diverged, generator errors) the records already show that and the guard stays quiet.
		clean := true
		for _, r := range results {
			if r.Err != nil || len(r.Problems) > 0 || statGet(r.Stats, "honest_rejected") > 0 || statGet(r.Stats, "live_ctx_diverged") > 0 {
				clean = false
			}
		}
		fmt.Fprintf(os.Stderr, "REQUIRED HISTORY MISSING in this quick run (seed %d): %v\n", seed, rm)
		if clean {
			return 5
		}
	}
	return code
}

// RequiredQuick: counters (summary.json: per_fork.<fork>.<k> for "<fork>.<k>", else counts.<k>) that must be non-zero in
// every quick run.
// HonestFeatureTotals: honest-producer features (per-fork counters <fork>.<k>) whose sum over the forks must be non-zero in every
// quick run — each was introduced for, or is relied on by, a seeded-defect trial.
var HonestFeatureTotals = []string{
	"att_wrong_head", "att_duplicate_of_earlier", "att_double_vote_same_block", "att_double_vote_later_block",
	"sync_full", "sync_most", "sync_half", "sync_few", "sync_none",
	"pslash_pre_fork_headers", "exit_pre_fork_epoch", "aslash_pre_fork_target", "pslash_of_block_proposer",
	"joint_boundary_exit", "joint_boundary_blschange", "joint_boundary_pslash_pre_fork", "joint_boundary_aslash_pre_fork",
	"eth1_vote_reaches_exactly_half", "eth1_vote_garbage", "deposits_capped", "blocks_deposits_no_exits", "blocks_with_all_ops",
	"withdrawal_sweep_wrap", "payload_empty_premerge", "payload_merge_block", "exit_timed_for_sync_boundary",
}

var RequiredQuick = []string{
	// round 15
	"slashing_penalty_in_clamp_band",
	// round 14: honest features that seeded-defect trials rely on
	"deneb.att_beyond_epoch_correct_target", "deneb.att_beyond_epoch_wrong_target",
	"altair.sync_at_first_slot_of_fork", "bellatrix.sync_at_first_slot_of_fork", "capella.sync_at_first_slot_of_fork", "deneb.sync_at_first_slot_of_fork",
	"phase0.att_late", "altair.att_late", "bellatrix.att_late", "capella.att_late", "deneb.att_late",
	"phase0.att_wrong_target", "altair.att_wrong_target", "bellatrix.att_wrong_target", "capella.att_wrong_target", "deneb.att_wrong_target",
	"altair.att_pre_fork_target", "bellatrix.att_pre_fork_target", "capella.att_pre_fork_target", "deneb.att_pre_fork_target",
	"deposit_fork_topup_credited_after_conflict", "deposit_fork_side_topup_credited", "partial_depositors_topped_up",
	// round 13: the corruption coverage itself is derived from the table (RequiredCover, cover.go); the two kinds outside the table:
	"corrupt.random_bytes", "corrupt.wrong_pre_state",
	// round 12
	"deneb.exit_with_capella_deneb_same_epoch", "deposit_fork_side_key_foreign_pop_skipped",
	"kickstart_undecodable_pubkeys_counted_as_deposits", "genesis_cases_with_fork_at_epoch_0_ok",
	"genesis_fork_at_epoch0_deposit_signed_under_later_version", "validators_added_by_deposit_with_fork_at_epoch_0",
	// round 11
	"consecutive_sync_committees_same_multiset_different_order",
	// round 10
	"pslash_evidence_epoch_outside_window_total", "aslash_evidence_epoch_outside_window_total",
	"corrupt.pslash_withdrawable_evidence_inside_window", "corrupt.aslash_withdrawable_evidence_inside_window",
	"activation_queue_over_12_non_monotone",
	"corrupt.pslash_at_withdrawable_epoch", "corrupt.aslash_at_withdrawable_epoch", "corrupt.pslash_last_slashable_epoch", "corrupt.aslash_last_slashable_epoch",
	"corrupt.blschange_odd_prefix_credentials", "corrupt.deposit_topup_bad_proof", "corrupt.deposit_bad_proof",
	"clone_block_checks.phase0", "clone_block_checks.altair", "clone_block_checks.bellatrix", "clone_block_checks.capella", "clone_block_checks.deneb",
	// round 9
	"aslash_overlapping_pairs_total", "altair.att_double_vote_wrong_target_first", "bellatrix.att_double_vote_wrong_target_first",
	"capella.att_double_vote_wrong_target_first", "deneb.topup_zero_balance_nonparticipating_sync_member",
	"sync_sampling_sensitive_to_effbal_update_capella", "sibling_block_same_new_deposit",
	"genesis_case_zeroamount", "validators_added_with_zero_amount", "topup_invalid_sig_credited_after_zero_amount_registration",
	"engine_fault.bellatrix.ctxerror", "engine_fault.capella.ctxerror", "engine_fault.deneb.ctxerror",
	"engine_fault.bellatrix.ctxcanceled",
	// round 8
	"sync_sampling_wrapped_with_rejections", "proposer_sampling_rejections_in_a_row",
	// round 7
	"phase0.att_prev_epoch_index_above_current_count",
	"deposit_fork_conflicting_registration",
	"phase0.att_overlap_fewer_flags_last_phase0_epoch",
	"phase0_leak_epochs_with_wrong_target_votes",
	"corrupt.deposit_none", "corrupt.deposit_missing", "corrupt.deposit_unexpected",
	"corrupt.wrong_pre_state_pre_advanced", "slots_records_target_equals_current",
	"altair_fork_on_sync_period_boundary",
	"cancel_deadline.altair", "cancel_deadline.bellatrix", "cancel_deadline.capella", "cancel_deadline.deneb",
	// earlier rounds
	"cancel_cover.phase0.dep_noexit", "cancel_sweeps_trans_validate0",
	"engine_fault.bellatrix.errortrue", "engine_fault.capella.errortrue", "engine_fault.deneb.errortrue",
	"sync_period_boundaries_with_active_set_change", "branch_points", "branch_effbal_changed_on_other_side",
	"epochs_proposers_sensitive_to_effbal_change", "blocks_exit_queue_advanced_twice", "epochs_ejections_exceed_churn",
	"slashed_reaching_withdrawable_epoch", "validators_added_with_fractional_amount_above_max",
	"bellatrix.payload_merge_block_zero_hash", "engine_sweeps_zero_hash_merge_block",
	"corrupt.sync_sig_new_fork_version", "corrupt.pslash_pre_fork_headers_new_version", "corrupt.aslash_surround_reverse_order",
	"corrupt.exit_same_twice", "corrupt.aslash_duplicate_index_valid_signature",
}

func statGet(s *Stats, k string) int {
	if s == nil {
		return 0
	}
	return s.Get(k)
}

// Summarize merges the per-chain distributions.
func Summarize(results []ChainResult, seed uint64, tier string, secs float64) map[string]interface{} {
	total := NewStats()
	var chains []interface{}
	var problems, unmet []string
	var bytes int64
	for _, r := range results {
		if r.Stats != nil {
			total.Merge(r.Stats)
		}
		bytes += r.Bytes
		ch := map[string]interface{}{"name": r.Name, "dir": r.Dir, "seconds": r.Seconds, "bytes": r.Bytes}
		if r.Err != nil {
			ch["error"] = r.Err.Error()
		}
		if r.Meta != nil {
			ch["fork_epochs"] = r.Meta["fork_epochs"]
			ch["validators"] = r.Meta["validators"]
			ch["config_name"] = r.Meta["config_name"]
			ch["slots_per_epoch"] = r.Meta["slots_per_epoch"]
		}
		chains = append(chains, ch)
		for _, p := range r.Problems {
			problems = append(problems, r.Name+": "+p)
		}
		for _, p := range r.Unmet {
			unmet = append(unmet, r.Name+": "+p)
		}
	}
	// per fork × operation table
	perFork := map[string]map[string]int{}
	other := map[string]int{}
	for _, k := range total.Sorted() {
		v := total.C[k]
		placed := false
		for _, f := range ForkNames {
			if len(k) > len(f)+1 && k[:len(f)+1] == f+"." {
				if perFork[f] == nil {
					perFork[f] = map[string]int{}
				}
				perFork[f][k[len(f)+1:]] = v
				placed = true
			}
		}
		if !placed {
			other[k] = v
		}
	}
	// share of corrupted blocks failing at the intended rule
	intended := map[string]interface{}{}
	if n := other["corrupt_intent_known"]; n > 0 {
		intended["known"] = n
		intended["failed_at_intended_rule"] = other["corrupt_intent_hit"]
		intended["share"] = float64(other["corrupt_intent_hit"]) / float64(n)
	}
	// every operation kind in every fork where it exists
	var missing []string
	need := map[string][]string{
		"phase0":    {"att", "pslash", "aslash", "deposit", "exit"},
		"altair":    {"att", "pslash", "aslash", "deposit", "exit", "sync_bits"},
		"bellatrix": {"att", "pslash", "aslash", "deposit", "exit", "sync_bits", "payload"},
		"capella":   {"att", "pslash", "aslash", "deposit", "exit", "sync_bits", "payload", "blschange", "withdrawal_partial", "withdrawal_full"},
		"deneb":     {"att", "pslash", "aslash", "deposit", "exit", "sync_bits", "payload", "blschange", "withdrawal_partial", "withdrawal_full", "blob"},
	}
	for _, f := range ForkNames {
		if perFork[f]["blocks"] == 0 {
			missing = append(missing, f+".blocks")
			continue
		}
		for _, op := range need[f] {
			if perFork[f][op] == 0 {
				missing = append(missing, f+"."+op)
			}
		}
	}
	// histories / inputs every quick run must contain (the seeded-defect trials depend on them)
	var reqMissing []string
	get := func(k string) int {
		for _, f := range ForkNames {
			if len(k) > len(f)+1 && k[:len(f)+1] == f+"." {
				return perFork[f][k[len(f)+1:]]
			}
		}
		return other[k]
	}
	for _, f := range ForkNames {
		for _, k := range HonestFeatureTotals {
			other[k+"_total"] += perFork[f][k]
		}
		other["aslash_overlapping_pairs_total"] += perFork[f]["aslash_overlapping_pairs"]
		other["pslash_evidence_epoch_outside_window_total"] += perFork[f]["pslash_evidence_epoch_outside_window"]
		other["aslash_evidence_epoch_outside_window_total"] += perFork[f]["aslash_evidence_epoch_outside_window"]
	}
	required := append(append([]string(nil), RequiredQuick...), RequiredCover()...)
	for _, k := range HonestFeatureTotals {
		required = append(required, k+"_total")
	}
	for _, k := range required {
		if get(k) == 0 {
			reqMissing = append(reqMissing, k)
		}
	}
	sort.Strings(problems)
	return map[string]interface{}{
		"required_missing": reqMissing, "required": required,
		"missing_fork_ops": missing,
		"seed":             seed, "tier": tier, "seconds": secs, "bytes": bytes, "chains": chains,
		"per_fork": perFork, "counts": other, "problems": problems, "unmet_expectations": unmet,
		"intended_rule": intended,
	}
}
