package chaingen

import (
	"context"
	"fmt"
	"os"
	"path/filepath"
	"strings"
	"time"

	"verifharness/hx"

	"github.com/protolambda/zrnt/eth2/beacon"
	"github.com/protolambda/zrnt/eth2/beacon/common"
)

// Scenario biases the generator.
type Scenario struct {
	Name  string
	Knobs SpecKnobs
	Gen   GenesisKnobs
	Rates OpRates
	// SkipPct: probability in percent that a slot has no block (default 20)
	SkipPct int
	// MinEpochs: chains of this scenario are at least this long
	MinEpochs int
	Init      func(c *Chain)
	// Mode: participation mode of epoch e
	Mode func(c *Chain, e common.Epoch) string
	// SyncMode: full|most|half|few|none|random
	SyncMode func(c *Chain, s common.Slot) string
	// Merge: whether the bellatrix block at slot s carries the first payload
	Merge       func(c *Chain, s common.Slot) bool
	BeforeBlock func(c *Chain, p *ProposeCtx)
	// Check returns unmet expectations (quality bar) after the chain is complete
	Check func(c *Chain) []string
}

// ChainParams of one generated chain.
type ChainParams struct {
	Scenario       *Scenario
	Dir            string
	Name           string
	Seed           uint64
	Rng            *hx.Rng
	Epochs         int
	Plain          bool // plain minimal preset (forks only)
	Corrupt        int  // number of corrupted blocks to derive
	Cancel         int  // number of steps to run the cancellation sweep on
	Engine         int  // number of steps to run the engine verdict sweep on
	Genesis        int  // number of adversarial genesis records
	ForkBias       string
	WideForks      bool
	OddVectors     bool
	CoverForks     [5]bool
	CommitteeDrop  bool // exact genesis active count on a committee-count threshold; slashings at slot 1 drop it inside phase0
	Phase0Leak     bool // long phase0 with a leak and wrong-target votes (needs ForkBias phase0long)
	LowBalances    bool // small registry (33-36 validators, sync committee of 32) whose balances are cut by a phase0 leak (needs Phase0Leak)
	SyncSeat       bool // a sync-committee member exits, is fully withdrawn while seated and gets a top-up (period 4, short exit delays)
	ActivationTies bool // 16 alternating full/partial deposits at genesis, churn 2-3: a long activation queue with non-monotone eligibility epochs
	DepositFork    bool // side branch sharing the pubkey cache registers another key at the next validator index first
	ZeroHashMerge  int  // 1 = the merge block carries block_hash 0, 0 = random per chain, -1 = never
	// Retry: regenerate with another sub-seed (at most 6 times) until this counter is non-zero
	RetryUntil  string
	GenesisOnly bool // directory with genesis records only (C13 stream)
	DeferFinish bool // leave the chain open for the coverage phase of the run (the caller calls Finalize)
}

type ChainResult struct {
	Name     string
	Dir      string
	Stats    *Stats
	Problems []string
	Unmet    []string
	Err      error
	Seconds  float64
	Bytes    int64
	Meta     map[string]interface{}
	// a run with a coverage phase (CLI) keeps the chain open until that phase is over: c.finish is then called by Finalize
	c  *Chain
	pr ChainParams
}

// Finalize writes meta.json / bls.txt / steps.txt of a chain whose finishing was deferred.
func (res *ChainResult) Finalize() {
	if res.c != nil {
		res.c.finish(res, res.pr)
		res.c = nil
	}
}

// Generate builds one chain directory (retrying with further sub-seeds when pr.RetryUntil names a counter that stayed 0).
func Generate(pr ChainParams) ChainResult {
	if pr.RetryUntil == "" {
		return generateOnce(pr)
	}
	base := pr.Rng
	var res ChainResult
	for attempt := 0; attempt < 6; attempt++ {
		p2 := pr
		p2.Rng = base.Fork()
		os.RemoveAll(pr.Dir)
		res = generateOnce(p2)
		if res.Stats != nil {
			res.Stats.C["generation_attempts"] = attempt + 1
		}
		ok := res.Err == nil && res.Stats != nil
		for _, k := range strings.Split(pr.RetryUntil, ",") {
			ok = ok && res.Stats.Get(k) > 0
		}
		if ok {
			break
		}
	}
	return res
}

func (c *Chain) upgradeAtGenesis() error {
	ust := &beacon.StandardUpgradeableBeaconState{BeaconState: c.St}
	var err error
	panicked, pv := hx.Catch(func() { err = ust.UpgradeMaybe(context.Background(), specWith(c.Spec, nil), c.Epc) })
	if panicked {
		return fmt.Errorf("upgrade at genesis panicked: %v", pv)
	}
	if err != nil {
		return fmt.Errorf("upgrade at genesis: %w", err)
	}
	st := Unwrap(ust.BeaconState)
	id := c.Rec.State(st)
	c.Rec.Comment("state " + id + ": the genesis state " + c.StID + " upgraded at slot 0 (fork epochs 0)")
	c.adopt(st, c.Epc, id)
	c.recordEPC(id, c.St, c.Epc, true)
	c.Stats.Inc("genesis_state_upgraded_at_slot_0")
	return nil
}

func generateOnce(pr ChainParams) (res ChainResult) {
	t0 := time.Now()
	res.Name, res.Dir = pr.Name, pr.Dir
	var c *Chain
	defer func() {
		res.Seconds = time.Since(t0).Seconds()
		if r := recover(); r != nil {
			res.Err = fmt.Errorf("generator panic: %v", r)
			if c != nil {
				// flush what was recorded so far: the steps up to here are evidence
				c.Problems = append(c.Problems, fmt.Sprintf("generator panic: %v", r))
				func() {
					defer func() { recover() }()
					c.finish(&res, pr)
				}()
			}
		}
	}()
	sc := pr.Scenario
	r := pr.Rng
	if sc.MinEpochs > pr.Epochs {
		pr.Epochs = sc.MinEpochs
	}
	knobs := sc.Knobs
	knobs.Epochs = pr.Epochs
	knobs.PlainMinimal = pr.Plain
	if pr.ForkBias != "" {
		knobs.ForkBias = pr.ForkBias
	}
	knobs.WideForks = pr.WideForks
	if pr.OddVectors {
		knobs.OddVectors = true
	}
	knobs.CommitteeDrop = knobs.CommitteeDrop || pr.CommitteeDrop
	knobs.Phase0Leak = knobs.Phase0Leak || pr.Phase0Leak
	knobs.LowBalances = knobs.LowBalances || pr.LowBalances
	knobs.SyncSeat = knobs.SyncSeat || pr.SyncSeat
	if pr.ActivationTies {
		knobs.SmallChurn = true
		knobs.FastEth1 = true
		knobs.WideDeposits = true
	}
	sp := TinySpec(r.Fork(), knobs)
	if err := CheckSpec(sp); err != nil {
		res.Err = err
		return
	}
	rec, err := NewRecorder(pr.Dir, sp)
	if err != nil {
		res.Err = err
		return
	}
	c = &Chain{Name: pr.Name, Scenario: sc, Spec: sp, Rng: r.Fork(), Rec: rec, BLS: NewBLSTable(), Stats: NewStats(),
		Planned: map[common.Epoch]*EpochPlan{}, Vars: map[string]int{}, depositors: map[common.BLSPubkey]GenVal{},
		slashedSet: map[common.ValidatorIndex]bool{}, exitSet: map[common.ValidatorIndex]bool{}, activated: map[common.ValidatorIndex]bool{},
		aggDone: map[common.Root]bool{}, Epochs: pr.Epochs, Absent: map[common.ValidatorIndex]bool{}, justified: map[common.Epoch]bool{}, modeOf: map[common.Epoch]string{}, wrongTargetIncluded: map[common.Epoch]int{}, zeroKeys: map[KeyNum]bool{}, zeroIndex: map[common.ValidatorIndex]bool{}, Protected: map[common.ValidatorIndex]bool{}, partialKeys: map[KeyNum]bool{}}
	c.OpRate = sc.Rates
	c.CoverForks = pr.CoverForks
	c.Phase0LeakMix = pr.Phase0Leak
	c.SyncSeat = pr.SyncSeat && !pr.Plain
	c.LowBalances = pr.LowBalances && !pr.Plain
	c.CommitteeDropChain = pr.CommitteeDrop && !pr.Plain
	c.ZeroHashMerge = pr.ZeroHashMerge > 0 || pr.ZeroHashMerge == 0 && c.Rng.Chance(35)
	res.Stats = c.Stats
	rec.Comment(fmt.Sprintf("chain %s scenario=%s seed=%d epochs=%d", pr.Name, sc.Name, pr.Seed, pr.Epochs))
	gk := sc.Gen
	if gk.MaxVals == 0 {
		gk = GenesisKnobs{MinVals: 8, MaxVals: 96, Eth1Share: 30, AboveShare: 12, BelowShare: 8}
	}
	if pr.Plain && gk.MinVals < 16 {
		gk.MinVals = 16 // minimal has SLOTS_PER_EPOCH 8 and committees of 4
		if gk.MaxVals < 64 {
			gk.MaxVals = 64
		}
	}
	if pr.LowBalances && !pr.Plain {
		gk = GenesisKnobs{MinVals: 33, MaxVals: 36, AllMax: true, Eth1Share: 30}
	}
	if pr.CommitteeDrop && !pr.Plain {
		// active count exactly k * SLOTS_PER_EPOCH * TARGET_COMMITTEE_SIZE (k committees per slot, 2 <= k <= 4), at least 48
		u := int(sp.SLOTS_PER_EPOCH) * int(sp.TARGET_COMMITTEE_SIZE)
		k := 2
		for k*u < 48 {
			k++
		}
		gk.ExactActive = k * u
	}
	plan := MakeGenesisPlan(r.Fork(), sp, gk)
	// adversarial genesis records first (C13)
	gr := r.Fork()
	for i := 0; i < pr.Genesis; i++ {
		GenesisCase(rec, c.BLS, c.Stats, gr, sp, GenesisKinds[i%len(GenesisKinds)])
	}
	if pr.GenesisOnly {
		c.finish(&res, pr)
		return
	}
	if err := c.Genesis(plan); err != nil {
		res.Err = err
		c.finish(&res, pr)
		return
	}
	if sp.ALTAIR_FORK_EPOCH == 0 && !pr.GenesisOnly {
		// the chain starts on a later fork: upgrade the phase0 genesis state at slot 0 (as a client does before the first block);
		// the upgraded state enters the record as a declared state
		if err := c.upgradeAtGenesis(); err != nil {
			res.Err = err
			c.finish(&res, pr)
			return
		}
	}
	c.noteState(c.St)
	c.initSets()
	if c.LowBalances {
		// from the altair fork on 40 % of the registry stays offline: the leak goes on and their effective balances move at
		// every epoch transition, also the one that draws a sync committee
		c.lateAbsent = map[common.ValidatorIndex]bool{}
		c.lateAbsentFrom = sp.ALTAIR_FORK_EPOCH
		for i := range c.Vals {
			if c.Rng.Chance(40) {
				c.lateAbsent[common.ValidatorIndex(i)] = true
			}
		}
	}
	if pr.DepositFork {
		c.DepositForkEpisode()
	}
	if pr.ActivationTies && !pr.Plain {
		c.QueueAlternatingDeposits(16)
		c.VoteAlways = true
	}
	if sc.Init != nil {
		sc.Init(c)
	}
	err = c.Run(pr.Epochs)
	if err == nil {
		err = c.runErr
	}
	if err != nil {
		res.Err = err
	}
	// derived streams
	if pr.Corrupt > 0 {
		c.CorruptStream(pr.Corrupt)
	}
	if pr.Cancel > 0 {
		c.CancelStream(pr.Cancel)
	}
	if pr.Engine > 0 {
		c.EngineStream(pr.Engine)
	}
	if res.Err == nil {
		if pr.Plain || sc.Check == nil {
			// the plain minimal preset has long periods (exits after 64 epochs, ...): only the generic expectations apply
			commonChecks(c, &res.Unmet)
		} else {
			res.Unmet = sc.Check(c)
		}
	}
	if pr.DeferFinish {
		res.c, res.pr = c, pr
		return
	}
	c.finish(&res, pr)
	return
}

func (c *Chain) finish(res *ChainResult, pr ChainParams) {
	// did the epochs planned exactly at the 2/3 boundary behave as planned?
	for e, m := range c.modeOf {
		if int(e)+2 >= c.Epochs || e == 0 {
			continue // justification of the last epochs is not visible yet; epoch 0 is never justified by votes
		}
		switch m {
		case "boundary_hi", "boundary_lo", "full", "none":
			if c.justified[e] {
				c.Stats.Inc("mode_" + m + "_justified")
			} else {
				c.Stats.Inc("mode_" + m + "_not_justified")
			}
		}
	}
	res.Problems = c.Problems
	npk, nsig, nagg := c.BLS.Counts()
	c.Stats.C["bls_pk"] = npk
	c.Stats.C["bls_sig"] = nsig
	c.Stats.C["bls_agg"] = nagg
	meta := map[string]interface{}{
		"scenario": c.Scenario.Name, "seed": pr.Seed, "name": pr.Name, "epochs": pr.Epochs,
		"config_name":     c.Spec.CONFIG_NAME,
		"fork_epochs":     []uint64{uint64(c.Spec.ALTAIR_FORK_EPOCH), uint64(c.Spec.BELLATRIX_FORK_EPOCH), uint64(c.Spec.CAPELLA_FORK_EPOCH), uint64(c.Spec.DENEB_FORK_EPOCH)},
		"slots_per_epoch": uint64(c.Spec.SLOTS_PER_EPOCH),
		"validators":      len(c.Vals),
		"counts":          c.Stats.C, "problems": c.Problems, "unmet_expectations": res.Unmet, "live_context_divergences": c.divergences,
	}
	if res.Err != nil {
		meta["error"] = res.Err.Error()
	}
	res.Meta = meta
	if err := c.Rec.Finish(meta, c.BLS); err != nil && res.Err == nil {
		res.Err = err
	}
	res.Bytes = c.Rec.Bytes
}

// Run produces the chain for the given number of epochs.
func (c *Chain) Run(epochs int) error {
	sp := c.Spec
	last := common.Slot(epochs) * sp.SLOTS_PER_EPOCH
	skip := c.Scenario.SkipPct
	if skip == 0 {
		skip = 20
	}
	var firstRejection error
	defer func() {
		if firstRejection != nil && c.runErr == nil {
			c.runErr = firstRejection
		}
	}()
	for c.Slot() < last {
		s := c.Slot() + 1
		// choose the next proposal slot
		sk := skip
		if c.NoSkipBeforePhase0Deposit && StateFork(c.St) == Phase0 && c.Stats.Get("phase0.deposit") == 0 {
			sk = 0 // every phase0 slot gets a block until the eth1 vote went through and a deposit was included
		}
		for s < last && sk > 0 && c.Rng.Chance(sk) {
			s++
		}
		// the first slot of a fork epoch always gets a block (with a non-empty sync aggregate from altair on):
		// its sync aggregate and attestations are signed under the previous fork version
		for _, fe := range c.forkEpochsInside() {
			fs := common.Slot(fe) * sp.SLOTS_PER_EPOCH
			if fs > c.Slot() && fs < s {
				s = fs
			}
		}
		// sometimes walk the empty slots with explicit `slots` records (possibly in two hops)
		if s > c.Slot()+1 && c.Rng.Chance(60) {
			mid := c.Slot() + 1 + common.Slot(c.Rng.Intn(int(s-c.Slot()-1)))
			if mid > c.Slot() {
				if err := c.AdvanceSlots(mid); err != nil {
					return err
				}
			}
		}
		ok, err := c.Propose(s)
		if rej, isRej := err.(*RejectedError); isRej {
			c.rejections++
			if firstRejection == nil {
				firstRejection = rej
			}
			if c.rejections > 12 {
				return rej
			}
			err = nil
		}
		if err != nil {
			return err
		}
		if !ok {
			// slashed proposer: the slot stays empty
			if err := c.AdvanceSlots(s); err != nil {
				return err
			}
		}
		c.dumpHeld()
		// branch points: a few per chain, preferably in the last slots of an epoch whose transition will change effective balances
		maxBranches := 3
		if epochs >= 16 {
			maxBranches = 5
		}
		if c.branches < maxBranches {
			toEnd := sp.SLOTS_PER_EPOCH - c.Slot()%sp.SLOTS_PER_EPOCH
			if toEnd <= 2 && c.Epoch() >= 1 && (c.pendingEffBalChange() && c.Rng.Chance(70) || c.Rng.Chance(8)) {
				c.Branch()
			}
		}
		if c.Rng.Chance(4) {
			if err := c.Reload(); err != nil {
				return err
			}
		}
	}
	c.dumpHeld()
	return nil
}

// ChainDir is the conventional directory name.
func ChainDir(out, scenario string, k int) string {
	return filepath.Join(out, fmt.Sprintf("%s-%d", scenario, k))
}
