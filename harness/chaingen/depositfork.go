package chaingen

import (
	"github.com/protolambda/zrnt/eth2/beacon/common"
)

// forkChain gives a second producer that continues from the same head with a Clone() of the context (the pubkey cache is
// shared, as zrnt intends) and its own bookkeeping. Only used at genesis, where the bookkeeping is still empty.
func (c *Chain) forkChain(name string) *Chain {
	s := *c
	s.Name = c.Name + "/" + name
	s.Scenario = &Scenario{Name: name, Mode: func(*Chain, common.Epoch) string { return "full" }}
	s.Rng = c.Rng.Fork()
	s.Stats = NewStats()
	s.St = CopyState(c.St)
	s.Epc = c.Epc.Clone()
	s.Vals = append([]ValInfo(nil), c.Vals...)
	s.DepTree = DepositTree{Leaves: append([]common.Root(nil), c.DepTree.Leaves...), Data: append([]common.DepositData(nil), c.DepTree.Data...)}
	s.Planned = map[common.Epoch]*EpochPlan{}
	s.Pending = nil
	s.Honest = nil
	s.Vars = map[string]int{}
	s.Problems = nil
	s.OpRate = OpRates{}
	s.depositors = map[common.BLSPubkey]GenVal{}
	for k, v := range c.depositors {
		s.depositors[k] = v
	}
	s.slashedSet = map[common.ValidatorIndex]bool{}
	s.exitSet = map[common.ValidatorIndex]bool{}
	s.activated = map[common.ValidatorIndex]bool{}
	for k, v := range c.activated {
		s.activated[k] = v
	}
	s.Absent = map[common.ValidatorIndex]bool{}
	s.SlotSteps = nil
	s.prevEff = nil
	s.cancelDone = nil
	s.wrongTargetIncluded = map[common.Epoch]int{}
	s.syncTargetsDone = map[common.Epoch]bool{0: true, 1: true, 2: true, 3: true} // no timed exits on the side branch
	s.zeroKeys, s.zeroIndex = map[KeyNum]bool{}, map[common.ValidatorIndex]bool{}
	s.partialKeys = map[KeyNum]bool{}
	s.justified = map[common.Epoch]bool{}
	s.modeOf = map[common.Epoch]string{}
	s.heldEpc, s.heldSt = nil, nil
	s.branches = 1 << 20 // no nested branch points
	s.Eth1HalfPattern, s.Phase0LeakMix, s.ZeroHashMerge, s.NoSkipBeforePhase0Deposit = false, false, false, false
	s.VoteAlways = true
	s.isSide = true
	s.SyncSeat = false
	s.Protected = map[common.ValidatorIndex]bool{}
	s.NoDoubleVotes = true
	return &s
}

// queueTopUpForKey queues a further deposit for a key the generator deposited before (registered or not yet).
func (c *Chain) queueTopUpForKey(k KeyNum, amount common.Gwei) {
	g := c.depositors[PubOf(k)]
	c.QueueDeposit(DepositDataFor(c.Spec, c.BLS, PubOf(k), g.Credentials(), amount, k))
}

// DepositForkEpisode (run at genesis): a side branch that shares the pubkey cache with the main chain votes its own eth1 data
// in and registers a new validator KB (plus a top-up of KB in the same block) at the next free validator index. The main chain
// then queues a DIFFERENT new key KA followed by a top-up of KA: when KA is registered at the same index the shared cache
// already holds KB there (a "deposit log fork"), AddValidator hands back a forked cache which the context must keep — otherwise
// the top-up of KA is not recognised as one.
func (c *Chain) DepositForkEpisode() {
	sp := c.Spec
	e1, err := c.St.Eth1Data()
	if err != nil || uint64(e1.DepositCount) != c.DepTree.Count() {
		return // only from a head without queued deposits
	}
	c.Stats.Inc("deposit_fork_episodes")
	index := c.ValCount()
	side := c.forkChain("depfork")
	side.epcTag = "branch=deposit_fork_side"
	side.nextValKey = c.nextValKey + 5000
	c.Rec.Comment("deposit fork: side branch from " + c.StID + " (context cloned, pubkey cache shared)")
	kb := side.NewDepositor(sp.MAX_EFFECTIVE_BALANCE, side.Rng.Bool())
	side.queueTopUpForKey(kb, sp.MIN_DEPOSIT_AMOUNT+sp.EFFECTIVE_BALANCE_INCREMENT/2)
	period := common.Slot(sp.EPOCHS_PER_ETH1_VOTING_PERIOD) * sp.SLOTS_PER_EPOCH
	for s := c.Slot() + 1; s <= c.Slot()+period+2 && side.ValCount() == index; s++ {
		ok, err := side.Propose(s)
		if err != nil {
			c.problem("deposit fork side branch: %v", err)
			break
		}
		if !ok {
			if err := side.AdvanceSlots(s); err != nil {
				break
			}
		}
	}
	c.Problems = append(c.Problems, side.Problems...)
	c.Stats.Add("deposit_fork_side_blocks", side.Stats.Get("blocks"))
	if side.ValCount() > index {
		c.Stats.Inc("deposit_fork_side_registered")
		if br, err := side.St.Balances(); err == nil {
			if b, err := br.GetBalance(common.ValidatorIndex(index)); err == nil && b > sp.MAX_EFFECTIVE_BALANCE {
				c.Stats.Inc("deposit_fork_side_topup_credited")
			}
		}
	}
	c.Rec.Comment("deposit fork: back on the main chain at " + c.StID)
	// main chain, first: a deposit for the SIDE branch's key KB (the shared pubkey cache knows it, the main registry does not)
	// whose proof of possession does not fit its data — the valid signature of KB's own deposit copied onto other withdrawal
	// credentials (or another amount). process_deposit must skip it: no validator, whatever a cache contains.
	if side.ValCount() > index {
		gb := side.depositors[PubOf(kb)]
		good := DepositDataFor(sp, c.BLS, PubOf(kb), gb.Credentials(), sp.MAX_EFFECTIVE_BALANCE, kb)
		bad := good
		thief := GenVal{Key: kb, Addr: addrOf(StrayKeyBase + kb)}
		if c.Rng.Bool() {
			bad.WithdrawalCredentials = thief.Credentials()
			c.Stats.Inc("deposit_fork_foreign_pop_other_credentials")
		} else {
			bad.Amount = sp.MAX_EFFECTIVE_BALANCE - sp.EFFECTIVE_BALANCE_INCREMENT
			thief = gb
			c.Stats.Inc("deposit_fork_foreign_pop_other_amount")
		}
		c.QueueDeposit(bad)
		// (only a defective implementation registers it: keep the bookkeeping able to follow that chain too)
		thief.Balance = bad.Amount
		c.depositors[PubOf(kb)] = thief
		c.Stats.Add("deposits_queued", 1)
		c.Vars["depfork_badpop"] = 1
	}
	// then another key for the same validator index, then its top-up (adjacent deposits: same block)
	ka := c.NewDepositor(sp.MAX_EFFECTIVE_BALANCE, c.Rng.Bool())
	c.queueTopUpForKey(ka, sp.MIN_DEPOSIT_AMOUNT+sp.EFFECTIVE_BALANCE_INCREMENT/4)
	c.Stats.Add("deposits_queued", 2)
	c.depForkIndex, c.depForkKey, c.depForkArmed = index, ka, side.ValCount() > index
	c.VoteAlways = true
}

// siblingBlock: block A (just applied on parent S) registered a new validator. A SIBLING block B on the same parent S, one or
// two slots later, must carry the same deposits; it is processed with another Clone() of S's context, i.e. with the pubkey
// cache that already learned the new key from A. B must add the validator too (the key is known to the cache, but not to S).
func (c *Chain) siblingBlock(parent common.BeaconState, parentEpc *common.EpochsContext, parentID string, slotA common.Slot) {
	c.siblingDone = true
	side := c.forkChain("sibling")
	side.St, side.Epc, side.StID = CopyState(parent), parentEpc.Clone(), parentID
	side.epcTag = "branch=sibling_same_deposit"
	side.attGenUpTo = slotA + 3 // no attestations on the sibling: only the deposits matter
	side.Eth1HalfPattern = c.Eth1HalfPattern
	side.halfY, side.halfPeriod = c.halfY, c.halfPeriod
	before := side.ValCount()
	c.Rec.Comment("sibling block: same parent " + parentID + " as the block above, same deposits, context cloned from the parent's")
	for s := slotA + 1; s <= slotA+3 && side.Stats.Get("blocks") == 0; s++ {
		if c.Spec.SlotToEpoch(s) != c.Spec.SlotToEpoch(slotA) {
			break // stay inside the epoch (and the eth1 voting period) of block A
		}
		if _, err := side.Propose(s); err != nil {
			c.problem("sibling block on %s: %v", parentID, err)
			break
		}
	}
	c.Problems = append(c.Problems, side.Problems...)
	c.Stats.Add("live_ctx_diverged", side.Stats.Get("live_ctx_diverged"))
	c.Stats.Add("honest_rejected", side.Stats.Get("honest_rejected"))
	if side.Stats.Get("blocks") > 0 {
		c.Stats.Inc("sibling_blocks")
	}
	if side.ValCount() > before {
		c.Stats.Inc("sibling_block_same_new_deposit")
	} else if c.Vars["sibling_tries"] < 3 {
		c.Vars["sibling_tries"]++
		c.siblingDone = false // try again at the next validator-adding block
	}
}
