package chaingen

import "sort"

// Stats is the measured distribution of one chain (merged into summary.json).
type Stats struct {
	C map[string]int
}

func NewStats() *Stats { return &Stats{C: map[string]int{}} }

func (s *Stats) Inc(k string)        { s.C[k]++ }
func (s *Stats) Add(k string, n int) { s.C[k] += n }
func (s *Stats) Max(k string, n int) {
	if n > s.C[k] {
		s.C[k] = n
	}
}
func (s *Stats) Get(k string) int { return s.C[k] }

func (s *Stats) Merge(o *Stats) {
	for k, v := range o.C {
		if len(k) > 4 && k[:4] == "max_" {
			s.Max(k, v)
		} else {
			s.C[k] += v
		}
	}
}

func (s *Stats) Sorted() []string {
	ks := make([]string, 0, len(s.C))
	for k := range s.C {
		ks = append(ks, k)
	}
	sort.Strings(ks)
	return ks
}
