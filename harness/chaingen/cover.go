package chaingen

import (
	"fmt"
	"sort"
	"sync"
	"sync/atomic"

	"verifharness/hx"

	"github.com/protolambda/zrnt/eth2/beacon/common"
)

// Coverage phase of a run (C03): after every chain of the run has its honest part and its random corruption stream, the whole
// corruption table is walked once — every kind, every variant of it, every fork it applies to — and whatever the random streams
// did not produce is produced now, on the first chain (rotating start, deterministic) that has an honest step on which the
// corruption applies. The plan is made sequentially (one Rng, fixed order), the blocks are then run and recorded per chain in
// parallel. The guard list (RequiredCover) is derived from the same table.

// coverMeta: where a corruption applies / how often it is required. Everything not named here applies to all five forks and is
// required in every one of them (scope "fork").
func init() {
	set := func(names []string, f func(mu *mutator)) {
		for _, n := range names {
			found := false
			for i := range allMutators {
				if allMutators[i].name == n {
					f(&allMutators[i])
					found = true
				}
			}
			if !found {
				panic("coverMeta: unknown corruption " + n)
			}
		}
	}
	from := func(fk ForkID) func(mu *mutator) { return func(mu *mutator) { mu.minFork = fk } }
	set([]string{"sync_bit_flipped", "sync_signature", "sync_sig_new_fork_version", "sync_sig_old_fork_version", "pslash_pre_fork_headers_new_version",
		"exit_pre_fork_epoch_new_version", "att_pre_fork_target_new_version"}, from(Altair))
	set([]string{"payload_parent_hash", "payload_prev_randao", "payload_timestamp", "payload_empty_after_merge", "payload_engine_verdict",
		"payload_unexpected_premerge_garbage"}, from(Bellatrix))
	set([]string{"payload_unexpected_premerge_garbage"}, func(mu *mutator) { mu.maxFork = Bellatrix })
	set([]string{"payload_withdrawals", "blschange_wrong_from_key", "blschange_not_bls_credentials", "blschange_odd_prefix_credentials",
		"blschange_signature", "blschange_duplicate", "blschange_index_out_of_range"}, from(Capella))
	set([]string{"payload_too_many_blobs"}, from(Deneb))
	// deneb: exits are always signed under the capella version; an attestation may be included until the end of the next epoch
	// (the target-epoch rule is all that is left: att_target_epoch covers it)
	set([]string{"exit_pre_fork_epoch_new_version", "att_out_of_inclusion_window"}, func(mu *mutator) { mu.maxFork = Capella })
	// corruptions that need a situation a chain offers only now and then (a validator in a particular phase of its life, a
	// block with deposits, the first slot of a fork, ...): one occurrence per run and variant is required, in whatever fork
	set(runScoped, func(mu *mutator) { mu.scope = "run" })
}

var runScoped = []string{
	"pslash_validator_not_slashable", "pslash_withdrawable_evidence_inside_window", "pslash_at_withdrawable_epoch", "pslash_last_slashable_epoch",
	"aslash_at_withdrawable_epoch", "aslash_last_slashable_epoch", "aslash_withdrawable_evidence_inside_window",
	"exit_too_young", "exit_not_active_or_exited", "exit_already_initiated",
	"blschange_odd_prefix_credentials", "blschange_not_bls_credentials",
	"payload_unexpected_premerge_garbage", "payload_empty_after_merge", "over_limit", "exit_reorder", "deposit_wrong_order",
}

// pairs that cannot exist / variants that are required once per run only although their kind is required per fork
var impossiblePairs = map[string]bool{
	"corrupt_cover.cross_fork_container#0@deneb":  true, // no container after deneb here
	"corrupt_cover.cross_fork_container#1@phase0": true, // none before phase0
}
var runScopedVariants = map[string][]int{
	"deposit_topup_bad_proof": {0, 1, 2}, // an honest top-up inside the block of that fork
	"deposit_unexpected":      {0},       // a block of that fork with deposits but not full
}

func variantRunScoped(mu *mutator, v int) bool {
	for _, x := range runScopedVariants[mu.name] {
		if x == v {
			return true
		}
	}
	return false
}

func coverKey(mu *mutator, v int) string {
	if v >= 0 {
		return fmt.Sprintf("corrupt_cover.%s#%d", mu.name, v)
	}
	return "corrupt_cover." + mu.name
}

// coverPairs lists what a run must contain: (corruption, variant or -1, fork or -1 for "any fork").
type coverPair struct {
	mu   *mutator
	v    int
	fork int
}

func (p coverPair) key() string {
	k := coverKey(p.mu, p.v)
	if p.fork >= 0 {
		k += "@" + ForkID(p.fork).String()
	}
	return k
}

func coverPairsOf(mu *mutator) (out []coverPair) {
	nv := int(atomic.LoadInt32(&mu.nvar))
	vs := []int{-1}
	if nv > 0 {
		vs = vs[:0]
		for v := 0; v < nv; v++ {
			vs = append(vs, v)
		}
	}
	for _, v := range vs {
		if mu.scope == "run" || variantRunScoped(mu, v) {
			out = append(out, coverPair{mu, v, -1})
			continue
		}
		for f := mu.minFork; f <= mu.maxFork; f++ {
			if p := (coverPair{mu, v, int(f)}); !impossiblePairs[p.key()] {
				out = append(out, p)
			}
		}
	}
	return
}

// RequiredCover: the counters (summary.json counts) a quick run must have, derived from the corruption table.
func RequiredCover() (out []string) {
	for i := range allMutators {
		for _, p := range coverPairsOf(&allMutators[i]) {
			out = append(out, p.key())
		}
	}
	return
}

type coverJob struct {
	m  *mctx
	mu *mutator
	hs HonestStep
	si int
}

type coverChain struct {
	c *Chain
	// load balancing: the model side pays for a transition roughly in proportion to the size of the state (it hashes all of it
	// at every slot); acc = estimated cost of what the chain holds already plus what the plan gave it
	unit, acc float64
	order     int
	steps     map[ForkID][]int
	bases     map[int]*ProposeCtx
	pres      map[int]common.BeaconState
	jobs      []coverJob
}

// coverSteps: the honest steps of each fork on which corruptions are tried, most telling first: the first step of the fork, the
// steps in the epochs around an exiter's withdrawable epoch, the first steps that carry each operation kind, a spread.
func (c *Chain) coverSteps() map[ForkID][]int {
	out := map[ForkID][]int{}
	seen := map[int]bool{}
	add := func(si int) {
		if si < 0 || si >= len(c.Honest) || seen[si] {
			return
		}
		f := c.Honest[si].Blk.Fork
		if len(out[f]) >= 12 {
			return
		}
		seen[si] = true
		out[f] = append(out[f], si)
	}
	first := map[ForkID]bool{}
	for i := range c.Honest {
		if f := c.Honest[i].Blk.Fork; !first[f] {
			first[f] = true
			add(i)
		}
	}
	for _, si := range c.withdrawableEpochSteps() {
		add(si)
	}
	type feat func(b *Block) bool
	feats := []feat{
		func(b *Block) bool { return len(b.Deposits) > 0 },
		func(b *Block) bool { return len(b.Deposits) > 1 },
		func(b *Block) bool { return len(b.VoluntaryExits) > 0 },
		func(b *Block) bool { return len(b.ProposerSlashings) > 0 },
		func(b *Block) bool { return len(b.AttesterSlashings) > 0 },
		func(b *Block) bool { return len(b.BLSChanges) > 0 },
		func(b *Block) bool { return len(b.Attestations) > 1 },
		func(b *Block) bool { return len(b.Payload.Withdrawals) > 0 },
		func(b *Block) bool { return len(b.Blobs) > 0 },
		func(b *Block) bool { return len(b.Deposits) == 0 && len(b.Attestations) > 0 },
	}
	for _, ft := range feats {
		got := map[ForkID]bool{}
		for i := range c.Honest {
			b := c.Honest[i].Blk
			if !got[b.Fork] && !c.Honest[i].Rejected && ft(b) {
				got[b.Fork] = true
				add(i)
			}
		}
	}
	// a spread of the rest
	byFork := map[ForkID][]int{}
	for i := range c.Honest {
		byFork[c.Honest[i].Blk.Fork] = append(byFork[c.Honest[i].Blk.Fork], i)
	}
	for _, l := range byFork {
		for k := 1; k <= 4; k++ {
			add(l[(len(l)-1)*k/4])
		}
	}
	return out
}

// CoverPhase completes the corruption coverage of a run. Chains whose results carry no live chain (errors, genesis-only
// directories) do not take part.
func CoverPhase(results []ChainResult, seed uint64, tier string) {
	var chains []*coverChain
	for i := range results {
		// (a chain whose honest production derailed — zrnt rejected the producer's blocks — takes part all the same: the rejected
		// blocks and their pre-states are honest steps like the others, every record is judged on its own)
		if c := results[i].c; c != nil && len(c.Honest) > 0 {
			chains = append(chains, &coverChain{c: c, bases: map[int]*ProposeCtx{}, pres: map[int]common.BeaconState{}})
		}
	}
	if len(chains) == 0 {
		return
	}
	// 1. per chain, in parallel: candidate steps and their slot-advanced states
	var wg sync.WaitGroup
	for _, cc := range chains {
		wg.Add(1)
		go func(cc *coverChain) {
			defer wg.Done()
			cc.steps = cc.c.coverSteps()
			cc.unit = float64(len(EncodeState(cc.c.St)))
			cc.acc = cc.unit * float64(3*cc.c.Stats.Get("blocks")+cc.c.Stats.Get("corrupt_blocks"))
			for _, l := range cc.steps {
				for _, si := range l {
					if base, pre := cc.c.corruptBase(cc.c.Honest[si]); base != nil {
						cc.bases[si], cc.pres[si] = base, pre
					}
				}
			}
		}(cc)
	}
	wg.Wait()
	// 2. the plan: sequential, deterministic
	r := hx.NewEnv("cover", "", seed, tier).Rng
	covered := func(key string) bool {
		for _, cc := range chains {
			if cc.c.Stats.Get(key) > 0 {
				return true
			}
		}
		return false
	}
	planned := map[string]bool{}
	tryOn := func(cc *coverChain, mu *mutator, v int, f ForkID) bool {
		for _, si := range cc.steps[f] {
			base := cc.bases[si]
			if base == nil {
				continue
			}
			force := v
			if force < 0 {
				force = 0
			}
			m := cc.c.applyMutator(r.Fork(), mu, base, cc.c.Honest[si], force)
			if m == nil {
				continue
			}
			if v >= 0 && m.vidx != v {
				continue
			}
			cc.jobs = append(cc.jobs, coverJob{m: m, mu: mu, hs: cc.c.Honest[si], si: si})
			return true
		}
		return false
	}
	for i := range allMutators {
		mu := &allMutators[i]
		done := map[string]bool{}
		// the number of variants may only become known with the first application: enumerate again when it changed
		for pass := 0; pass < 3; pass++ {
			nv0 := atomic.LoadInt32(&mu.nvar)
			for _, p := range coverPairsOf(mu) {
				if done[p.key()] {
					continue
				}
				done[p.key()] = true
				if covered(p.key()) || planned[p.key()] {
					continue
				}
				var forks []ForkID
				if p.fork >= 0 {
					forks = []ForkID{ForkID(p.fork)}
				} else {
					for f := mu.maxFork; f >= mu.minFork; f-- {
						forks = append(forks, f)
					}
				}
				// cheapest chain first (estimated model cost after taking the job; ties by position)
				byCost := append([]*coverChain(nil), chains...)
				sort.SliceStable(byCost, func(a, b int) bool { return byCost[a].acc+byCost[a].unit < byCost[b].acc+byCost[b].unit })
			search:
				for _, f := range forks {
					for _, cc := range byCost {
						if tryOn(cc, mu, p.v, f) {
							cc.acc += cc.unit
							last := cc.jobs[len(cc.jobs)-1]
							planned[coverKey(mu, last.m.vidx)+"@"+f.String()] = true
							planned[coverKey(mu, last.m.vidx)] = true
							break search
						}
					}
				}
			}
			if atomic.LoadInt32(&mu.nvar) == nv0 {
				break
			}
		}
	}
	// 3. run and record, per chain in parallel
	for _, cc := range chains {
		wg.Add(1)
		go func(cc *coverChain) {
			defer wg.Done()
			if len(cc.jobs) == 0 {
				return
			}
			sort.SliceStable(cc.jobs, func(a, b int) bool { return cc.jobs[a].si < cc.jobs[b].si })
			cc.c.Rec.Comment(fmt.Sprintf("C03 coverage: %d corrupted blocks (kinds / variants / forks the random stream of this run left out)", len(cc.jobs)))
			for _, j := range cc.jobs {
				cc.c.emitCorrupt(j.m, j.mu, j.hs, cc.pres[j.si])
				cc.c.Stats.Inc("corrupt_coverage_blocks")
			}
		}(cc)
	}
	wg.Wait()
}
