package sszgen

import (
	"bytes"
	"encoding/hex"
	"encoding/json"
	"fmt"
	"math/big"
	"reflect"
	"strings"

	"verifharness/hx"

	"gopkg.in/yaml.v3"
)

// ---- the specification's canonical JSON form of a value (consensus API conventions):
// unsigned integers as decimal strings, booleans as booleans, byte vectors / byte lists / bitfields as 0x-hex of
// their serialization, vectors and lists as arrays, containers as objects keyed by the field names.
type jkv struct {
	K string
	V interface{}
}
type jobj []jkv

func CanonJSON(v *Val) interface{} {
	t := v.T
	switch t.Kind {
	case KUint:
		be := make([]byte, len(v.B))
		for i := range v.B {
			be[len(v.B)-1-i] = v.B[i]
		}
		return new(big.Int).SetBytes(be).String()
	case KBool:
		return len(v.B) > 0 && v.B[0] == 1
	case KByteVector, KByteList, KBitvector, KBitlist:
		return "0x" + hex.EncodeToString(v.B)
	case KVector, KList:
		out := make([]interface{}, 0, len(v.Elems))
		for _, e := range v.Elems {
			out = append(out, CanonJSON(e))
		}
		return out
	case KContainer:
		var o jobj
		for i, e := range v.Elems {
			o = append(o, jkv{t.Fields[i].Name, CanonJSON(e)})
		}
		return o
	}
	return nil
}

// ordered parse of Go's JSON output
func parseOrdered(dec *json.Decoder) (interface{}, error) {
	tok, err := dec.Token()
	if err != nil {
		return nil, err
	}
	switch d := tok.(type) {
	case json.Delim:
		switch d {
		case '{':
			var o jobj
			for dec.More() {
				kt, err := dec.Token()
				if err != nil {
					return nil, err
				}
				v, err := parseOrdered(dec)
				if err != nil {
					return nil, err
				}
				o = append(o, jkv{kt.(string), v})
			}
			_, err := dec.Token()
			return o, err
		case '[':
			a := []interface{}{}
			for dec.More() {
				v, err := parseOrdered(dec)
				if err != nil {
					return nil, err
				}
				a = append(a, v)
			}
			_, err := dec.Token()
			return a, err
		}
	}
	return tok, nil
}

// cmpCanon compares Go's JSON tree with the canonical one; key-name deviations are collected separately (advisory:
// they do not affect the round trip), value deviations are failures.
func cmpCanon(path string, got, want interface{}, keyNotes *[]string) string {
	switch w := want.(type) {
	case jobj:
		g, ok := got.(jobj)
		if !ok || len(g) != len(w) {
			return fmt.Sprintf("%s: expected an object of %d fields, got %T", path, len(w), got)
		}
		for i := range w {
			if g[i].K != w[i].K {
				*keyNotes = append(*keyNotes, fmt.Sprintf("%s: key %q vs spec %q", path, g[i].K, w[i].K))
			}
			if d := cmpCanon(path+"."+w[i].K, g[i].V, w[i].V, keyNotes); d != "" {
				return d
			}
		}
		return ""
	case []interface{}:
		g, ok := got.([]interface{})
		if !ok {
			// a sequence of uint8 may be written as one 0x-hex string
			if s, isS := got.(string); isS && strings.HasPrefix(s, "0x") {
				var bs []byte
				for _, x := range w {
					xs, _ := x.(string)
					n, _ := new(big.Int).SetString(xs, 10)
					if n == nil || n.BitLen() > 8 {
						return path + ": hex string for a sequence that is not uint8"
					}
					bs = append(bs, byte(n.Uint64()))
				}
				if s == "0x"+hex.EncodeToString(bs) {
					return ""
				}
			}
			return fmt.Sprintf("%s: expected an array, got %T %v", path, got, trunc(got))
		}
		if len(g) != len(w) {
			return fmt.Sprintf("%s: array of %d, expected %d", path, len(g), len(w))
		}
		for i := range w {
			if d := cmpCanon(fmt.Sprintf("%s[%d]", path, i), g[i], w[i], keyNotes); d != "" {
				return d
			}
		}
		return ""
	case bool:
		if g, ok := got.(bool); ok && g == w {
			return ""
		}
		return fmt.Sprintf("%s: expected %v, got %v", path, w, trunc(got))
	case string:
		switch g := got.(type) {
		case string:
			if g == w || (strings.HasPrefix(w, "0x") && strings.EqualFold(g, w)) {
				return ""
			}
		case json.Number:
			if g.String() == w { // integers written as JSON numbers carry the same value
				return ""
			}
		}
		return fmt.Sprintf("%s: expected %q, got %v", path, truncS(w), trunc(got))
	}
	return ""
}

func trunc(v interface{}) string { return truncS(fmt.Sprint(v)) }
func truncS(s string) string {
	if len(s) > 80 {
		return s[:80] + "..."
	}
	return s
}

// TextResult of the text-form checks of one value.
type TextResult struct {
	JSONOk, YAMLOk bool
	Notes          []string
	KeyNotes       []string
	CanonNotes     []string // JSON that round-trips but is not the specification's canonical text (advisory)
}

// TextChecks: JSON and YAML of a decoded object, marshalled through a pointer AND by value (plain, as a field of an
// outer struct passed by value, as a map value): same text every way, round trip to the same bytes, and (JSON) the
// specification's canonical form.
func TextChecks(ent *Entry, p *Preset, obj interface{}, input []byte, val *Val) (r TextResult) {
	r.JSONOk, r.YAMLOk = true, true
	fail := func(js bool, format string, a ...interface{}) {
		if js {
			r.JSONOk = false
		} else {
			r.YAMLOk = false
		}
		r.Notes = append(r.Notes, fmt.Sprintf(format, a...))
	}
	pan, pv := hx.Catch(func() {
		rv := reflect.ValueOf(obj)
		if rv.Kind() != reflect.Ptr {
			return
		}
		T := rv.Elem().Type()
		byVal := rv.Elem().Interface()
		wrapV := reflect.New(reflect.StructOf([]reflect.StructField{{Name: "V", Type: T, Tag: `json:"v" yaml:"v"`}})).Elem()
		wrapV.Field(0).Set(rv.Elem())
		wrapPT := reflect.StructOf([]reflect.StructField{{Name: "V", Type: reflect.PtrTo(T), Tag: `json:"v" yaml:"v"`}})
		wrapP := reflect.New(wrapPT).Elem()
		wrapP.Field(0).Set(rv)
		type codecT struct {
			name      string
			js        bool
			marshal   func(interface{}) ([]byte, error)
			unmarshal func([]byte, interface{}) error
		}
		for _, c := range []codecT{{"json", true, json.Marshal, json.Unmarshal}, {"yaml", false, yaml.Marshal, yaml.Unmarshal}} {
			tp, err := c.marshal(obj)
			if err != nil {
				fail(c.js, "%s marshal through a pointer: %v", c.name, err)
				continue
			}
			// round trip through a pointer
			fresh := ent.New()
			if err := c.unmarshal(tp, fresh); err != nil {
				fail(c.js, "%s unmarshal: %v", c.name, err)
			} else if o2, err := sszOf(p.Spec, fresh); err != nil {
				fail(c.js, "%v", err)
			} else if b, err := encode(o2); err != nil || !bytes.Equal(b, input) {
				fail(c.js, "%s: value changed by the text round trip (%v)", c.name, err)
			}
			// by value
			tv, err := c.marshal(byVal)
			if err != nil {
				fail(c.js, "%s marshal by value: %v", c.name, err)
			} else if !bytes.Equal(tv, tp) {
				fail(c.js, "%s text differs when the value is marshalled by value: %s vs through a pointer: %s", c.name, truncS(string(tv)), truncS(string(tp)))
			}
			// as a field of an outer struct passed by value, vs the same struct holding a pointer
			wp, err1 := c.marshal(wrapP.Interface())
			wv, err2 := c.marshal(wrapV.Interface())
			if err1 != nil || err2 != nil {
				fail(c.js, "%s marshal of an outer struct: %v %v", c.name, err1, err2)
			} else if !bytes.Equal(wp, wv) {
				fail(c.js, "%s text differs for a by-value field of an outer struct: %s vs pointer field: %s", c.name, truncS(string(wv)), truncS(string(wp)))
			} else {
				back := reflect.New(wrapPT)
				if err := c.unmarshal(wv, back.Interface()); err != nil {
					fail(c.js, "%s unmarshal of the outer struct: %v", c.name, err)
				} else if o2, err := sszOf(p.Spec, orFresh(ent, back.Elem().Field(0))); err != nil {
					fail(c.js, "%v", err)
				} else if b, err := encode(o2); err != nil || !bytes.Equal(b, input) {
					fail(c.js, "%s: value changed by the round trip as a by-value field of an outer struct (%v)", c.name, err)
				}
			}
			// as a map value
			mp, err1 := c.marshal(map[string]interface{}{"v": obj})
			mv, err2 := c.marshal(map[string]interface{}{"v": byVal})
			if err1 != nil || err2 != nil {
				fail(c.js, "%s marshal of a map: %v %v", c.name, err1, err2)
			} else if !bytes.Equal(mp, mv) {
				fail(c.js, "%s text differs for a by-value map entry: %s vs pointer entry: %s", c.name, truncS(string(mv)), truncS(string(mp)))
			}
			// canonical form
			if c.js && val != nil {
				dec := json.NewDecoder(bytes.NewReader(tp))
				dec.UseNumber()
				got, err := parseOrdered(dec)
				if err != nil {
					fail(true, "json output does not parse: %v", err)
				} else if d := cmpCanon("$", got, CanonJSON(val), &r.KeyNotes); d != "" {
					// advisory: the property asks for a round trip, not for the specification's spelling
					r.CanonNotes = append(r.CanonNotes, d)
				}
			}
		}
	})
	if pan {
		fail(true, "panic in the text-form checks: %v", pv)
	}
	return
}

// a nil pointer after unmarshalling `null` stands for the zero value
func orFresh(ent *Entry, f reflect.Value) interface{} {
	if f.IsNil() {
		return ent.New()
	}
	return f.Interface()
}
