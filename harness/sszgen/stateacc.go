package sszgen

import (
	"bytes"
	"encoding/binary"
	"encoding/hex"
	"fmt"
	"reflect"
	"strings"

	"verifharness/hx"

	"github.com/protolambda/zrnt/eth2/beacon/altair"
	"github.com/protolambda/zrnt/eth2/beacon/bellatrix"
	"github.com/protolambda/zrnt/eth2/beacon/capella"
	"github.com/protolambda/zrnt/eth2/beacon/common"
	"github.com/protolambda/zrnt/eth2/beacon/deneb"
	"github.com/protolambda/zrnt/eth2/beacon/electra"
	"github.com/protolambda/zrnt/eth2/beacon/phase0"
	"github.com/protolambda/ztyp/tree"
	"github.com/protolambda/ztyp/view"
)

// ForkStates: the six tree-backed state types with their typed wrappers.
var ForkStates = []struct {
	Type string
	As   func(v view.View) (common.BeaconState, error)
}{
	{"phase0.BeaconState", func(v view.View) (common.BeaconState, error) { return phase0.AsBeaconStateView(v, nil) }},
	{"altair.BeaconState", func(v view.View) (common.BeaconState, error) { return altair.AsBeaconStateView(v, nil) }},
	{"bellatrix.BeaconState", func(v view.View) (common.BeaconState, error) { return bellatrix.AsBeaconStateView(v, nil) }},
	{"capella.BeaconState", func(v view.View) (common.BeaconState, error) { return capella.AsBeaconStateView(v, nil) }},
	{"deneb.BeaconState", func(v view.View) (common.BeaconState, error) { return deneb.AsBeaconStateView(v, nil) }},
	{"electra.BeaconState", func(v view.View) (common.BeaconState, error) { return electra.AsBeaconStateView(v, nil) }},
}

// SubViewWrappers: the typed sub-views of container types (schema name -> As<T> wrapper).
var SubViewWrappers = map[string]func(v view.View) (interface{}, error){
	"common.Checkpoint":                func(v view.View) (interface{}, error) { return common.AsCheckPoint(v, nil) },
	"common.Fork":                      func(v view.View) (interface{}, error) { return common.AsFork(v, nil) },
	"common.Eth1Data":                  func(v view.View) (interface{}, error) { return common.AsEth1Data(v, nil) },
	"common.BeaconBlockHeader":         func(v view.View) (interface{}, error) { return common.AsBeaconBlockHeader(v, nil) },
	"common.SyncCommittee":             func(v view.View) (interface{}, error) { return common.AsSyncCommittee(v, nil) },
	"common.Withdrawal":                func(v view.View) (interface{}, error) { return common.AsWithdrawal(v, nil) },
	"common.BLSToExecutionChange":      func(v view.View) (interface{}, error) { return common.AsBLSToExecutionChange(v, nil) },
	"phase0.Validator":                 func(v view.View) (interface{}, error) { return phase0.AsValidator(v, nil) },
	"phase0.AttestationData":           func(v view.View) (interface{}, error) { return phase0.AsAttestationData(v, nil) },
	"phase0.HistoricalBatch":           func(v view.View) (interface{}, error) { return phase0.AsHistoricalBatch(v, nil) },
	"bellatrix.ExecutionPayloadHeader": func(v view.View) (interface{}, error) { return bellatrix.AsExecutionPayloadHeader(v, nil) },
	"capella.ExecutionPayloadHeader":   func(v view.View) (interface{}, error) { return capella.AsExecutionPayloadHeader(v, nil) },
	"deneb.ExecutionPayloadHeader":     func(v view.View) (interface{}, error) { return deneb.AsExecutionPayloadHeader(v, nil) },
	"altair.SyncCommitteeMessage":      func(v view.View) (interface{}, error) { return altair.AsSyncCommitteeMessage(v, nil) },
}

// CheckWrapperGetters: every getter of a typed sub-view that is named after a field of the struct form must return
// the stored value of that field.  Returns the discrepancies and the number of getters compared.
func CheckWrapperGetters(spec *common.Spec, typeName string, v view.View, sh *Val) (notes []string, compared int) {
	wf, ok := SubViewWrappers[typeName]
	if !ok {
		return nil, 0
	}
	var ent *Entry
	for i := range Registry {
		if Registry[i].Name == typeName {
			ent = &Registry[i]
		}
	}
	if ent == nil {
		return nil, 0
	}
	w, err := wf(v)
	if err != nil {
		return []string{typeName + ": wrapper refused the view: " + err.Error()}, 0
	}
	st := reflect.TypeOf(ent.New()).Elem()
	if st.Kind() != reflect.Struct || st.NumField() != len(sh.Elems) {
		return nil, 0
	}
	helper := &StateProg{En: &Engine{P: &Preset{Spec: spec}}}
	wv := reflect.ValueOf(w)
	for j := 0; j < st.NumField(); j++ {
		name := st.Field(j).Name
		m := wv.MethodByName(name)
		if !m.IsValid() || m.Type().NumIn() != 0 || m.Type().NumOut() != 2 {
			continue
		}
		var out []reflect.Value
		pan, pv := hx.Catch(func() { out = m.Call(nil) })
		if pan {
			notes = append(notes, fmt.Sprintf("%sView.%s panicked: %v", typeName, name, pv))
			continue
		}
		compared++
		if !out[1].IsNil() {
			notes = append(notes, fmt.Sprintf("%sView.%s returned an error: %v", typeName, name, out[1].Interface()))
			continue
		}
		b, err := helper.bytesOf(out[0])
		if err != nil {
			notes = append(notes, fmt.Sprintf("%sView.%s: result not serializable: %v", typeName, name, err))
			continue
		}
		if !bytes.Equal(b, sh.Elems[j].Bytes()) {
			notes = append(notes, fmt.Sprintf("%sView.%s returned %x, stored %x", typeName, name, b, sh.Elems[j].Bytes()))
		}
	}
	// bulk readers: Raw() returns the whole struct form, Flatten(dst) fills a flat copy whose fields are named after
	// the fields of the struct form
	if m := wv.MethodByName("Raw"); m.IsValid() && m.Type().NumIn() == 0 && m.Type().NumOut() == 2 {
		var out []reflect.Value
		pan, pv := hx.Catch(func() { out = m.Call(nil) })
		compared++
		if pan {
			notes = append(notes, fmt.Sprintf("%sView.Raw panicked: %v", typeName, pv))
		} else if !out[1].IsNil() {
			notes = append(notes, fmt.Sprintf("%sView.Raw returned an error: %v", typeName, out[1].Interface()))
		} else if b, err := helper.bytesOf(out[0]); err != nil {
			notes = append(notes, fmt.Sprintf("%sView.Raw: result not serializable: %v", typeName, err))
		} else if !bytes.Equal(b, sh.Bytes()) {
			notes = append(notes, fmt.Sprintf("%sView.Raw returned %x, stored %x", typeName, b, sh.Bytes()))
		}
	}
	if m := wv.MethodByName("Flatten"); m.IsValid() && m.Type().NumIn() == 1 && m.Type().NumOut() == 1 &&
		m.Type().In(0).Kind() == reflect.Ptr && m.Type().In(0).Elem().Kind() == reflect.Struct {
		dst := reflect.New(m.Type().In(0).Elem())
		var out []reflect.Value
		pan, pv := hx.Catch(func() { out = m.Call([]reflect.Value{dst}) })
		if pan {
			notes = append(notes, fmt.Sprintf("%sView.Flatten panicked: %v", typeName, pv))
		} else if !out[0].IsNil() {
			notes = append(notes, fmt.Sprintf("%sView.Flatten returned an error: %v", typeName, out[0].Interface()))
		} else {
			ft := dst.Elem().Type()
			for j := 0; j < ft.NumField(); j++ {
				sf, ok := st.FieldByName(ft.Field(j).Name)
				if !ok || len(sf.Index) != 1 {
					continue
				}
				compared++
				b, err := helper.bytesOf(dst.Elem().Field(j))
				if err != nil {
					notes = append(notes, fmt.Sprintf("%sView.Flatten: field %s not serializable: %v", typeName, ft.Field(j).Name, err))
				} else if !bytes.Equal(b, sh.Elems[sf.Index[0]].Bytes()) {
					notes = append(notes, fmt.Sprintf("%sView.Flatten: field %s is %x, stored %x", typeName, ft.Field(j).Name, b, sh.Elems[sf.Index[0]].Bytes()))
				}
			}
		}
	}
	return
}

// StateProg: an accessor program over a typed state view and its copies.
type StateProg struct {
	En      *Engine
	As      func(v view.View) (common.BeaconState, error)
	Typed   []common.BeaconState
	Conts   []*view.ContainerView
	Shadows []*Val
	GoNames []string // Go field name per schema field
	Init    []byte
	Steps   []ProgStep
	SetterSweep        bool // start with every typed setter once (view 0), each with the aliasing probe
	EmptyBalancesFirst bool // the second step is SetBalances of the empty list (boundary value of a whole-list setter)
	ForceAdd           int  // the next ForceAdd steps are AddValidator calls on view 0
	Getters map[string]int // getter -> times compared
	Setters map[string]int
}

type ProgStep struct {
	Desc  string
	Coq   string // top constructor
	Obs   []ViewObs
	GoOK  bool
	Notes []string
}
type ViewObs struct {
	Root   [32]byte
	Fields [][32]byte
}

func NewStateProg(s *Setup, pi int, fork int, r *hx.Rng, budget int) (*StateProg, error) {
	fs := ForkStates[fork]
	var ent *Entry
	for i := range Registry {
		if Registry[i].Name == fs.Type {
			ent = &Registry[i]
		}
	}
	if ent == nil {
		return nil, fmt.Errorf("no registry entry %s", fs.Type)
	}
	var en *Engine
	var err error
	// a state with at least one validator and one balance, so that the registry sub-views have something to write
	for try := 0; try < 12; try++ {
		en, err = NewEngine(s, pi, ent, r.Fork(), budget+60*try)
		if err != nil {
			return nil, err
		}
		nv, nb := 0, 0
		for i, f := range en.T.Fields {
			if f.Name == "validators" {
				nv = len(en.Lives[0].Shadow.Elems[i].Elems)
			}
			if f.Name == "balances" {
				nb = len(en.Lives[0].Shadow.Elems[i].Elems)
			}
		}
		if nv > 0 && nb > 0 {
			break
		}
	}
	en.R = r
	cont, ok := en.Lives[0].Root.(*view.ContainerView)
	if !ok {
		return nil, fmt.Errorf("state view is %T", en.Lives[0].Root)
	}
	typed, err := fs.As(cont)
	if err != nil {
		return nil, err
	}
	p := &StateProg{En: en, As: fs.As, Typed: []common.BeaconState{typed}, Conts: []*view.ContainerView{cont},
		Shadows: []*Val{en.Lives[0].Shadow}, Init: en.Lives[0].Shadow.Bytes(), Getters: map[string]int{}, Setters: map[string]int{}}
	// schema field -> Go field name through the json tags of the struct form
	st := reflect.TypeOf(ent.New()).Elem()
	byTag := map[string]string{}
	for i := 0; i < st.NumField(); i++ {
		tag := strings.Split(st.Field(i).Tag.Get("json"), ",")[0]
		if tag == "" {
			tag = st.Field(i).Name
		}
		byTag[tag] = st.Field(i).Name
	}
	for _, f := range en.T.Fields {
		p.GoNames = append(p.GoNames, byTag[f.Name])
	}
	return p, nil
}

func (p *StateProg) fieldIndex(name string) int {
	for i, f := range p.En.T.Fields {
		if f.Name == name {
			return i
		}
	}
	return -1
}

// value returned by a typed getter -> canonical bytes
func (p *StateProg) bytesOf(v reflect.Value) ([]byte, error) {
	if !v.IsValid() {
		return nil, fmt.Errorf("invalid value")
	}
	if v.Kind() == reflect.Interface || v.Kind() == reflect.Ptr {
		if v.IsNil() {
			return nil, fmt.Errorf("nil result")
		}
	}
	if vw, ok := v.Interface().(view.View); ok {
		return viewBytes(vw)
	}
	// plain Go scalars (e.g. ValidatorView.Slashed() bool)
	if v.Type().PkgPath() == "" {
		switch v.Kind() {
		case reflect.Bool:
			if v.Bool() {
				return []byte{1}, nil
			}
			return []byte{0}, nil
		case reflect.Uint64:
			return le64(v.Uint()), nil
		case reflect.Uint8:
			return []byte{byte(v.Uint())}, nil
		}
	}
	var target interface{}
	if v.Kind() == reflect.Ptr {
		target = v.Interface()
	} else {
		pv := reflect.New(v.Type())
		pv.Elem().Set(v)
		target = pv.Interface()
	}
	o, err := sszOf(p.En.P.Spec, target)
	if err != nil {
		return nil, err
	}
	return encode(o)
}

// argument of a typed setter, decoded from canonical bytes
func (p *StateProg) argOf(t reflect.Type, k int, b []byte) (reflect.Value, error) {
	viewT := reflect.TypeOf((*view.View)(nil)).Elem()
	if t.Implements(viewT) && t.Kind() == reflect.Ptr && t.Elem().Kind() == reflect.Struct {
		// typed view wrapper: struct{ *XView }
		td := p.En.TD.(*view.ContainerTypeDef).Fields[k].Type
		vv, err := viewFromBytes(td, b)
		if err != nil {
			return reflect.Value{}, err
		}
		w := reflect.New(t.Elem())
		if w.Elem().NumField() == 1 && reflect.TypeOf(vv).AssignableTo(w.Elem().Field(0).Type()) {
			w.Elem().Field(0).Set(reflect.ValueOf(vv))
			return w, nil
		}
		if reflect.TypeOf(vv).AssignableTo(t) {
			return reflect.ValueOf(vv), nil
		}
		return reflect.Value{}, fmt.Errorf("cannot wrap %T as %s", vv, t)
	}
	if t.Kind() == reflect.Slice && t.Elem().Kind() == reflect.Uint64 {
		out := reflect.MakeSlice(t, len(b)/8, len(b)/8)
		for i := 0; i+8 <= len(b); i += 8 {
			out.Index(i / 8).SetUint(binary.LittleEndian.Uint64(b[i:]))
		}
		return out, nil
	}
	var pv reflect.Value
	if t.Kind() == reflect.Ptr {
		pv = reflect.New(t.Elem())
	} else {
		pv = reflect.New(t)
	}
	o, err := sszOf(p.En.P.Spec, pv.Interface())
	if err != nil {
		return reflect.Value{}, err
	}
	if err := decode(o, b); err != nil {
		return reflect.Value{}, err
	}
	if t.Kind() == reflect.Ptr {
		return pv, nil
	}
	return pv.Elem(), nil
}

func le64(v uint64) []byte {
	b := make([]byte, 8)
	binary.LittleEndian.PutUint64(b, v)
	return b
}

// typedSet: the typed setter Set<Field> of field k on view vi with a random in-limit value, followed by the aliasing
// probe (cache every root, then overwrite the caller's own argument).  ok=false: the field has no such setter.
func (p *StateProg) typedSet(vi, k int) (desc string, coq string, err error, ok bool) {
	r := p.En.R
	st, sh := p.Typed[vi], p.Shadows[vi]
	name := p.GoNames[k]
	m := reflect.ValueOf(st).MethodByName("Set" + name)
	if !m.IsValid() || m.Type().NumIn() != 1 {
		return "", "", nil, false
	}
	nv := p.En.newVal(sh.Elems[k].T)
	if r.Chance(30) {
		// boundary: the all-empty / all-zero value of the field (e.g. SetBalances of an empty list)
		g := NewGen(r.Fork(), 0)
		g.Mode = 1
		nv = g.Tree(sh.Elems[k].T)
	}
	arg, aerr := p.argOf(m.Type().In(0), k, nv.Bytes())
	if aerr != nil {
		return "", "", fmt.Errorf("Set%s: cannot build argument: %v", name, aerr), true
	}
	out := m.Call([]reflect.Value{arg})
	if len(out) == 1 && !out[0].IsNil() {
		return "", "", fmt.Errorf("Set%s: %v", name, out[0].Interface()), true
	}
	sh.Elems[k] = nv
	p.Setters["Set"+name]++
	coq = fmt.Sprintf("TSet %d %d \"%s\"", vi, k, hex.EncodeToString(nv.Bytes()))
	_ = st.HashTreeRoot(tree.GetHashFn())
	if cells := Scramble(arg, 0); cells > 0 {
		p.Setters["alias:Set"+name]++
		return fmt.Sprintf("v%d.Set%s; then the caller overwrites its argument (%d cells)", vi, name, cells), coq, nil, true
	}
	return fmt.Sprintf("v%d.Set%s", vi, name), coq, nil, true
}

// setWholeFieldEmpty: the typed setter of a list field with the empty list (boundary value), on view 0.
func (p *StateProg) setWholeFieldEmpty(field string) (desc string, coq string, err error) {
	k := p.fieldIndex(field)
	if k < 0 {
		return "", "", fmt.Errorf("no field %s", field)
	}
	name := p.GoNames[k]
	m := reflect.ValueOf(p.Typed[0]).MethodByName("Set" + name)
	if !m.IsValid() || m.Type().NumIn() != 1 {
		return "", "", fmt.Errorf("no setter Set%s", name)
	}
	g := NewGen(p.En.R.Fork(), 0)
	g.Mode = 1
	nv := g.Tree(p.Shadows[0].Elems[k].T)
	arg, aerr := p.argOf(m.Type().In(0), k, nv.Bytes())
	if aerr != nil {
		return "", "", aerr
	}
	out := m.Call([]reflect.Value{arg})
	if len(out) == 1 && !out[0].IsNil() {
		return "", "", fmt.Errorf("Set%s(empty): %v", name, out[0].Interface())
	}
	p.Shadows[0].Elems[k] = nv
	p.Setters["Set"+name+"(empty)"]++
	return fmt.Sprintf("v0.Set%s(empty)", name), fmt.Sprintf("TSet 0 %d \"%s\"", k, hex.EncodeToString(nv.Bytes())), nil
}

// Step: one accessor operation on a random live view. Returns the changed (view, field) or a copy.
func (p *StateProg) Step() (desc string, coq string, err error) {
	r := p.En.R
	vi := r.Intn(len(p.Typed))
	st, sh := p.Typed[vi], p.Shadows[vi]
	spec := p.En.P.Spec
	set := func(k int, d string) (string, string, error) {
		return d, fmt.Sprintf("TSet %d %d \"%s\"", vi, k, hex.EncodeToString(sh.Elems[k].Bytes())), nil
	}
	fi := p.fieldIndex
	for try := 0; try < 30; try++ {
		choice := r.Intn(17)
		forced := false
		if p.ForceAdd > 0 {
			// a burst of AddValidator calls on one view, each followed by a write of a large inactivity score for the new
			// validator: every residue of the list lengths modulo the elements-per-chunk of each appended list is met, next to
			// non-zero neighbours
			p.ForceAdd--
			choice, vi, forced = 15+p.ForceAdd%2, 0, true
			st, sh = p.Typed[0], p.Shadows[0]
		}
		switch choice {
		case 16: // inactivity scores sub-view (altair+)
			k := fi("inactivity_scores")
			if k < 0 || len(sh.Elems[k].Elems) == 0 {
				continue
			}
			m := reflect.ValueOf(st).MethodByName("InactivityScores")
			if !m.IsValid() {
				continue
			}
			out := m.Call(nil)
			if !out[1].IsNil() {
				return "", "", fmt.Errorf("InactivityScores: %v", out[1].Interface())
			}
			n := len(sh.Elems[k].Elems)
			i := r.Intn(n)
			v := r.U64()
			if forced {
				i, v = n-1, r.U64()|0x0101010101010101
			}
			res := out[0].MethodByName("SetScore").Call([]reflect.Value{reflect.ValueOf(common.ValidatorIndex(i)), reflect.ValueOf(v)})
			if !res[0].IsNil() {
				return "", "", fmt.Errorf("InactivityScores().SetScore: %v", res[0].Interface())
			}
			sh.Elems[k].Elems[i].B = le64(v)
			p.Setters["InactivityScores.SetScore"]++
			return set(k, fmt.Sprintf("v%d.InactivityScores().SetScore(%d)", vi, i))
		case 0, 1, 2, 3, 4: // typed setter of a whole field
			d, c, e, ok := p.typedSet(vi, r.Intn(len(sh.Elems)))
			if !ok {
				continue
			}
			return d, c, e
		case 5: // balances sub-view
			k := fi("balances")
			bals, e := st.Balances()
			if e != nil {
				return "", "", e
			}
			n := len(sh.Elems[k].Elems)
			if n > 0 && r.Bool() {
				i := r.Intn(n)
				v := r.U64()
				if e := bals.SetBalance(common.ValidatorIndex(i), common.Gwei(v)); e != nil {
					return "", "", e
				}
				sh.Elems[k].Elems[i].B = le64(v)
				p.Setters["Balances.SetBalance"]++
				return set(k, fmt.Sprintf("v%d.Balances().SetBalance(%d)", vi, i))
			}
			if uint64(n) < sh.Elems[k].T.N {
				v := r.U64()
				if e := bals.AppendBalance(common.Gwei(v)); e != nil {
					return "", "", e
				}
				sh.Elems[k].Elems = append(sh.Elems[k].Elems, &Val{T: sh.Elems[k].T.Elem, B: le64(v)})
				p.Setters["Balances.AppendBalance"]++
				return set(k, fmt.Sprintf("v%d.Balances().AppendBalance", vi))
			}
		case 6: // block / state roots
			name := []string{"block_roots", "state_roots"}[r.Intn(2)]
			k := fi(name)
			var br common.BatchRoots
			var e error
			if name == "block_roots" {
				br, e = st.BlockRoots()
			} else {
				br, e = st.StateRoots()
			}
			if e != nil {
				return "", "", e
			}
			slot := r.U64() >> uint(r.Intn(60))
			var root common.Root
			copy(root[:], r.Bytes(32))
			if e := br.SetRoot(common.Slot(slot), root); e != nil {
				return "", "", e
			}
			n := uint64(len(sh.Elems[k].Elems))
			sh.Elems[k].Elems[slot%n].B = append([]byte(nil), root[:]...)
			p.Setters["BatchRoots.SetRoot"]++
			return set(k, fmt.Sprintf("v%d.%s.SetRoot(slot %d)", vi, name, slot))
		case 7: // randao mixes
			k := fi("randao_mixes")
			mx, e := st.RandaoMixes()
			if e != nil {
				return "", "", e
			}
			ep := r.U64() >> uint(r.Intn(60))
			var root common.Root
			copy(root[:], r.Bytes(32))
			if e := mx.SetRandomMix(common.Epoch(ep), root); e != nil {
				return "", "", e
			}
			n := uint64(len(sh.Elems[k].Elems))
			sh.Elems[k].Elems[ep%n].B = append([]byte(nil), root[:]...)
			p.Setters["RandaoMixes.SetRandomMix"]++
			return set(k, fmt.Sprintf("v%d.RandaoMixes().SetRandomMix(epoch %d)", vi, ep))
		case 8: // slashings
			k := fi("slashings")
			sl, e := st.Slashings()
			if e != nil {
				return "", "", e
			}
			ep := r.U64() >> uint(r.Intn(60))
			n := uint64(len(sh.Elems[k].Elems))
			cell := sh.Elems[k].Elems[ep%n]
			if r.Bool() {
				if e := sl.ResetSlashings(common.Epoch(ep)); e != nil {
					return "", "", e
				}
				cell.B = le64(0)
				p.Setters["Slashings.ResetSlashings"]++
				return set(k, fmt.Sprintf("v%d.Slashings().ResetSlashings(epoch %d)", vi, ep))
			}
			add := r.U64() >> 8
			if e := sl.AddSlashing(common.Epoch(ep), common.Gwei(add)); e != nil {
				return "", "", e
			}
			cell.B = le64(binary.LittleEndian.Uint64(cell.B) + add)
			p.Setters["Slashings.AddSlashing"]++
			return set(k, fmt.Sprintf("v%d.Slashings().AddSlashing(epoch %d)", vi, ep))
		case 9: // eth1 data votes
			k := fi("eth1_data_votes")
			votes, e := st.Eth1DataVotes()
			if e != nil {
				return "", "", e
			}
			if len(sh.Elems[k].Elems) > 0 && r.Intn(3) == 0 {
				if e := votes.Reset(); e != nil {
					return "", "", e
				}
				sh.Elems[k].Elems = nil
				p.Setters["Eth1DataVotes.Reset"]++
				return set(k, fmt.Sprintf("v%d.Eth1DataVotes().Reset", vi))
			}
			if uint64(len(sh.Elems[k].Elems)) < sh.Elems[k].T.N {
				nv := p.En.newVal(sh.Elems[k].T.Elem)
				var dat common.Eth1Data
				if e := decode(&dat, nv.Bytes()); e != nil {
					return "", "", e
				}
				if e := votes.Append(dat); e != nil {
					return "", "", e
				}
				sh.Elems[k].Elems = append(sh.Elems[k].Elems, nv)
				p.Setters["Eth1DataVotes.Append"]++
				return set(k, fmt.Sprintf("v%d.Eth1DataVotes().Append", vi))
			}
		case 10: // historical roots
			k := fi("historical_roots")
			if uint64(len(sh.Elems[k].Elems)) >= sh.Elems[k].T.N {
				continue
			}
			hr, e := st.HistoricalRoots()
			if e != nil {
				return "", "", e
			}
			var root common.Root
			copy(root[:], r.Bytes(32))
			if e := hr.Append(root); e != nil {
				return "", "", e
			}
			sh.Elems[k].Elems = append(sh.Elems[k].Elems, &Val{T: sh.Elems[k].T.Elem, B: append([]byte(nil), root[:]...)})
			p.Setters["HistoricalRoots.Append"]++
			return set(k, fmt.Sprintf("v%d.HistoricalRoots().Append", vi))
		case 11: // one validator's fields through the registry sub-view
			k := fi("validators")
			n := len(sh.Elems[k].Elems)
			if n == 0 {
				continue
			}
			reg, e := st.Validators()
			if e != nil {
				return "", "", e
			}
			i := r.Intn(n)
			val, e := reg.Validator(common.ValidatorIndex(i))
			if e != nil {
				return "", "", e
			}
			shv := sh.Elems[k].Elems[i]
			x := r.U64() >> uint(r.Intn(64))
			var what string
			switch r.Intn(7) {
			case 0:
				e, what = val.SetEffectiveBalance(common.Gwei(x)), "SetEffectiveBalance"
				shv.Elems[2].B = le64(x)
			case 1:
				e, what = val.MakeSlashed(), "MakeSlashed"
				shv.Elems[3].B = []byte{1}
			case 2:
				e, what = val.SetActivationEligibilityEpoch(common.Epoch(x)), "SetActivationEligibilityEpoch"
				shv.Elems[4].B = le64(x)
			case 3:
				e, what = val.SetActivationEpoch(common.Epoch(x)), "SetActivationEpoch"
				shv.Elems[5].B = le64(x)
			case 4:
				e, what = val.SetExitEpoch(common.Epoch(x)), "SetExitEpoch"
				shv.Elems[6].B = le64(x)
			case 5:
				e, what = val.SetWithdrawableEpoch(common.Epoch(x)), "SetWithdrawableEpoch"
				shv.Elems[7].B = le64(x)
			case 6:
				var root common.Root
				copy(root[:], r.Bytes(32))
				e, what = val.SetWithdrawalCredentials(root), "SetWithdrawalCredentials"
				shv.Elems[1].B = append([]byte(nil), root[:]...)
			}
			if e != nil {
				return "", "", fmt.Errorf("Validator(%d).%s: %v", i, what, e)
			}
			p.Setters["Validator."+what]++
			return set(k, fmt.Sprintf("v%d.Validators().Validator(%d).%s", vi, i, what))
		case 12: // deposit index
			k := fi("eth1_deposit_index")
			if e := st.IncrementDepositIndex(); e != nil {
				return "", "", e
			}
			sh.Elems[k].B = le64(binary.LittleEndian.Uint64(sh.Elems[k].B) + 1)
			p.Setters["IncrementDepositIndex"]++
			return set(k, fmt.Sprintf("v%d.IncrementDepositIndex", vi))
		case 13: // seed randao: every mix becomes the seed
			k := fi("randao_mixes")
			var root common.Root
			copy(root[:], r.Bytes(32))
			if e := st.SeedRandao(spec, root); e != nil {
				return "", "", e
			}
			for _, c := range sh.Elems[k].Elems {
				c.B = append([]byte(nil), root[:]...)
			}
			p.Setters["SeedRandao"]++
			return set(k, fmt.Sprintf("v%d.SeedRandao", vi))
		case 15: // AddValidator: one call appends to the registry, the balances and (altair+) both participation lists and the scores
			kv, kb := fi("validators"), fi("balances")
			if kv < 0 || kb < 0 || uint64(len(sh.Elems[kv].Elems)) >= sh.Elems[kv].T.N || uint64(len(sh.Elems[kb].Elems)) >= sh.Elems[kb].T.N {
				continue
			}
			extra := []int{}
			full := false
			for _, nm := range []string{"previous_epoch_participation", "current_epoch_participation", "inactivity_scores"} {
				if k := fi(nm); k >= 0 {
					extra = append(extra, k)
					full = full || uint64(len(sh.Elems[k].Elems)) >= sh.Elems[k].T.N
				}
			}
			if full {
				continue
			}
			var pub common.BLSPubkey
			var wc common.Root
			copy(pub[:], r.Bytes(48))
			copy(wc[:], r.Bytes(32))
			bal := r.U64()
			if r.Bool() {
				bal = uint64(spec.EFFECTIVE_BALANCE_INCREMENT)*uint64(r.Intn(40)) + uint64(r.Intn(1000))
			}
			if e := st.AddValidator(spec, pub, wc, common.Gwei(bal)); e != nil {
				return "", "", fmt.Errorf("AddValidator: %v", e)
			}
			eff := bal - bal%uint64(spec.EFFECTIVE_BALANCE_INCREMENT)
			if eff > uint64(spec.MAX_EFFECTIVE_BALANCE) {
				eff = uint64(spec.MAX_EFFECTIVE_BALANCE)
			}
			vt := sh.Elems[kv].T.Elem
			far := le64(^uint64(0))
			leaves := [][]byte{pub[:], wc[:], le64(eff), {0}, far, far, far, far}
			if len(vt.Fields) != len(leaves) {
				return "", "", fmt.Errorf("validator schema has %d fields", len(vt.Fields))
			}
			nv := &Val{T: vt}
			for i, f := range vt.Fields {
				nv.Elems = append(nv.Elems, &Val{T: f.T, B: append([]byte(nil), leaves[i]...)})
			}
			sh.Elems[kv].Elems = append(sh.Elems[kv].Elems, nv)
			sh.Elems[kb].Elems = append(sh.Elems[kb].Elems, &Val{T: sh.Elems[kb].T.Elem, B: le64(bal)})
			for _, k := range extra {
				et := sh.Elems[k].T.Elem
				sh.Elems[k].Elems = append(sh.Elems[k].Elems, &Val{T: et, B: make([]byte, et.N)})
			}
			p.Setters["AddValidator"]++
			var sb strings.Builder
			fmt.Fprintf(&sb, "TSetMany %d [", vi)
			for i, k := range append([]int{kv, kb}, extra...) {
				if i > 0 {
					sb.WriteString("; ")
				}
				fmt.Fprintf(&sb, "(%d%%nat, \"%s\")", k, hex.EncodeToString(sh.Elems[k].Bytes()))
			}
			sb.WriteString("]")
			return fmt.Sprintf("v%d.AddValidator", vi), sb.String(), nil
		case 14: // copy
			if len(p.Typed) >= 3 {
				continue
			}
			cp, e := st.CopyState()
			if e != nil {
				return "", "", e
			}
			cv, ok := cp.(view.View)
			if !ok {
				return "", "", fmt.Errorf("copy is not a view")
			}
			cont, e := view.AsContainer(unwrapContainer(cv), nil)
			if e != nil {
				return "", "", e
			}
			p.Typed = append(p.Typed, cp)
			p.Conts = append(p.Conts, cont)
			p.Shadows = append(p.Shadows, sh.Clone())
			return fmt.Sprintf("v%d.CopyState -> v%d", vi, len(p.Typed)-1), fmt.Sprintf("TCopy %d", vi), nil
		}
	}
	return "", "", fmt.Errorf("no applicable operation")
}

// the *ContainerView inside a typed state view
func unwrapContainer(v view.View) view.View {
	rv := reflect.ValueOf(v)
	for rv.Kind() == reflect.Ptr && rv.Elem().Kind() == reflect.Struct {
		if cv, ok := rv.Interface().(*view.ContainerView); ok {
			return cv
		}
		f := rv.Elem().Field(0)
		if f.Kind() != reflect.Ptr {
			break
		}
		rv = f
	}
	return v
}

// Observe every live view: roots, and (Go side) bytes and typed getters against the shadow.
func (p *StateProg) Observe() (obs []ViewObs, ok bool, notes []string) {
	ok = true
	h := tree.GetHashFn()
	for vi, cont := range p.Conts {
		var o ViewObs
		o.Root = p.Typed[vi].HashTreeRoot(h)
		for k := range p.En.T.Fields {
			fv, err := cont.Get(uint64(k))
			if err != nil {
				ok = false
				notes = append(notes, fmt.Sprintf("v%d field %d: %v", vi, k, err))
				o.Fields = append(o.Fields, [32]byte{})
				continue
			}
			o.Fields = append(o.Fields, fv.HashTreeRoot(h))
			if tn := p.En.T.Fields[k].T.Name; tn != "" {
				ns, n := CheckWrapperGetters(p.En.P.Spec, tn, fv, p.Shadows[vi].Elems[k])
				p.Getters["subview:"+tn] += n
				if len(ns) > 0 {
					ok = false
					notes = append(notes, ns...)
				}
			}
		}
		obs = append(obs, o)
		// content
		got, err := viewBytes(cont)
		if err != nil || !bytes.Equal(got, p.Shadows[vi].Bytes()) {
			ok = false
			notes = append(notes, fmt.Sprintf("v%d: Serialize() differs from the stored content (%v)", vi, err))
		}
		// every typed getter returns the stored value
		tv := reflect.ValueOf(p.Typed[vi])
		for k, name := range p.GoNames {
			m := tv.MethodByName(name)
			if !m.IsValid() || m.Type().NumIn() != 0 || m.Type().NumOut() != 2 {
				continue
			}
			var out []reflect.Value
			pan, pv := hx.Catch(func() { out = m.Call(nil) })
			if pan {
				ok = false
				notes = append(notes, fmt.Sprintf("v%d.%s panicked: %v", vi, name, pv))
				continue
			}
			if !out[1].IsNil() {
				ok = false
				notes = append(notes, fmt.Sprintf("v%d.%s: %v", vi, name, out[1].Interface()))
				continue
			}
			b, err := p.bytesOf(out[0])
			if err != nil {
				ok = false
				notes = append(notes, fmt.Sprintf("v%d.%s: result not serializable: %v", vi, name, err))
				continue
			}
			p.Getters[name]++
			if !bytes.Equal(b, p.Shadows[vi].Elems[k].Bytes()) {
				ok = false
				notes = append(notes, fmt.Sprintf("v%d.%s returned %x, stored %x", vi, name, b, p.Shadows[vi].Elems[k].Bytes()))
			}
			// aliasing probe: what a getter hands out (structs, pointers, slices; not views) belongs to the caller
			if Scramble(out[0], 0) > 0 {
				p.Getters["alias:"+name]++
			}
		}
		// the same for Raw(spec): the flattened struct form
		if m := tv.MethodByName("Raw"); m.IsValid() && m.Type().NumIn() == 1 && m.Type().In(0) == reflect.TypeOf(p.En.P.Spec) {
			var out []reflect.Value
			pan, _ := hx.Catch(func() { out = m.Call([]reflect.Value{reflect.ValueOf(p.En.P.Spec)}) })
			if !pan && len(out) == 2 && out[1].IsNil() {
				if Scramble(out[0], 0) > 0 {
					p.Getters["alias:Raw"]++
				}
			}
		}
		// after the caller overwrote everything it was given: content and root are what they were
		got2, err2 := viewBytes(cont)
		if err2 != nil || !bytes.Equal(got2, p.Shadows[vi].Bytes()) {
			ok = false
			notes = append(notes, fmt.Sprintf("v%d: overwriting values RETURNED by getters changed the state (%v)", vi, err2))
		}
		if p.Typed[vi].HashTreeRoot(h) != o.Root {
			ok = false
			notes = append(notes, fmt.Sprintf("v%d: root changed after overwriting values returned by getters", vi))
		}
		if fresh, errf := viewFromBytes(p.En.TD, got2); errf == nil && fresh.HashTreeRoot(h) != o.Root {
			ok = false
			notes = append(notes, fmt.Sprintf("v%d: cached root differs from the root of a view rebuilt from Serialize()", vi))
		}
	}
	return
}

// Run a program of n steps; returns the Coq case.
func (p *StateProg) Run(n int) {
	// setter sweep: every typed setter once, on the first view, each followed by the aliasing probe
	var sweep []int
	if p.SetterSweep {
		for k, name := range p.GoNames {
			if m := reflect.ValueOf(p.Typed[0]).MethodByName("Set" + name); m.IsValid() && m.Type().NumIn() == 1 {
				sweep = append(sweep, k)
			}
		}
	}
	n += len(sweep)
	for i := 0; i < n; i++ {
		var desc, coq string
		var err error
		pan, pv := hx.Catch(func() {
			if i < len(sweep) {
				desc, coq, err, _ = p.typedSet(0, sweep[i])
			} else if i == len(sweep)+1 && p.EmptyBalancesFirst {
				desc, coq, err = p.setWholeFieldEmpty("balances")
			} else {
				desc, coq, err = p.Step()
			}
		})
		if pan {
			err = fmt.Errorf("panic: %v", pv)
		}
		if err != nil {
			// a refused / crashing accessor: recorded as a failing step (no model effect)
			obs, _, notes := p.Observe()
			p.Steps = append(p.Steps, ProgStep{Desc: "FAILED: " + err.Error(), Coq: "TCopy 0", Obs: obs, GoOK: false, Notes: append(notes, err.Error())})
			return
		}
		var obs []ViewObs
		var ok bool
		var notes []string
		pan, pv = hx.Catch(func() { obs, ok, notes = p.Observe() })
		if pan {
			// a crash while reading the state back (e.g. inside ztyp's MerkleRoot): the step is recorded as failing
			p.Steps = append(p.Steps, ProgStep{Desc: desc, Coq: coq, Obs: nil, GoOK: false, Notes: []string{fmt.Sprint("panic while observing the views after this step: ", pv)}})
			return
		}
		p.Steps = append(p.Steps, ProgStep{Desc: desc, Coq: coq, Obs: obs, GoOK: ok, Notes: notes})
	}
}

func (p *StateProg) CoqCase(pi int) string {
	var sb strings.Builder
	fmt.Fprintf(&sb, "CP (CProg p%d \"%s\" \"%s\" [", pi, p.En.Ent.Name, hex.EncodeToString(p.Init))
	for i, s := range p.Steps {
		if i > 0 {
			sb.WriteString("; ")
		}
		sb.WriteString("(" + s.Coq + ", [")
		for j, o := range s.Obs {
			if j > 0 {
				sb.WriteString("; ")
			}
			sb.WriteString("(\"" + hex.EncodeToString(o.Root[:]) + "\", [")
			for k, f := range o.Fields {
				if k > 0 {
					sb.WriteString("; ")
				}
				sb.WriteString("\"" + hex.EncodeToString(f[:]) + "\"")
			}
			sb.WriteString("])")
		}
		sb.WriteString("], " + hx.CoqBool(s.GoOK) + ")")
	}
	sb.WriteString("])")
	return sb.String()
}

func (p *StateProg) JSON() map[string]interface{} {
	var steps []map[string]interface{}
	for _, s := range p.Steps {
		m := map[string]interface{}{"op": s.Desc, "go_ok": s.GoOK}
		if len(s.Notes) > 0 {
			m["notes"] = s.Notes
		}
		steps = append(steps, m)
	}
	return map[string]interface{}{"type": p.En.Ent.Name, "preset": p.En.P.Name, "cfg": p.En.P.Cfg,
		"initial_state": hex.EncodeToString(p.Init), "steps": steps, "views": len(p.Typed)}
}
