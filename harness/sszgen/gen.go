package sszgen

import (
	"encoding/binary"

	"verifharness/hx"
)

// Marks: positions inside an encoding that the malformed-input mutators aim at.
type Marks struct {
	Offsets     []int // positions of 4-byte offset words
	Bounds      []int // positions where a variable-size part starts (and the end of the last one)
	BitlistLast []int // position of the last byte (holding the delimiter bit) of every bitlist
	Bools       []int // positions of boolean bytes
	BitvecPad   []BitvecPad
}
type BitvecPad struct {
	Pos  int  // position of the last byte of a bitvector whose length is not a multiple of 8
	Used uint // number of used bits in that byte
}

type Enc struct {
	B []byte
	M Marks
}

func (m *Marks) shift(o *Marks, by int) {
	for _, x := range o.Offsets {
		m.Offsets = append(m.Offsets, x+by)
	}
	for _, x := range o.Bounds {
		m.Bounds = append(m.Bounds, x+by)
	}
	for _, x := range o.BitlistLast {
		m.BitlistLast = append(m.BitlistLast, x+by)
	}
	for _, x := range o.Bools {
		m.Bools = append(m.Bools, x+by)
	}
	for _, x := range o.BitvecPad {
		m.BitvecPad = append(m.BitvecPad, BitvecPad{x.Pos + by, x.Used})
	}
}

type part struct {
	fixed bool
	e     *Enc
}

// SSZ layout of a sequence of parts: fixed parts inline, variable parts behind 4-byte offsets.
func layout(parts []part) *Enc {
	out := &Enc{}
	fixedLen := 0
	for _, p := range parts {
		if p.fixed {
			fixedLen += len(p.e.B)
		} else {
			fixedLen += 4
		}
	}
	off := fixedLen
	for _, p := range parts {
		if p.fixed {
			out.M.shift(&p.e.M, len(out.B))
			out.B = append(out.B, p.e.B...)
		} else {
			var w [4]byte
			binary.LittleEndian.PutUint32(w[:], uint32(off))
			out.M.Offsets = append(out.M.Offsets, len(out.B))
			out.B = append(out.B, w[:]...)
			off += len(p.e.B)
		}
	}
	any := false
	for _, p := range parts {
		if !p.fixed {
			out.M.Bounds = append(out.M.Bounds, len(out.B))
			out.M.shift(&p.e.M, len(out.B))
			out.B = append(out.B, p.e.B...)
			any = true
		}
	}
	if any {
		out.M.Bounds = append(out.M.Bounds, len(out.B))
	}
	return out
}

// Gen produces random in-limit values (as canonical encodings) biased to the boundaries:
// empty / 1 / limit-1 / limit element counts, all-ones and all-zero bitfields, 0 / 1 / max integers.
type Gen struct {
	R      *hx.Rng
	Left   int // byte budget left for variable-size content
	Over   int // the Over-th limited node (list, bitlist, byte list) is given limit+1 elements; -1: none
	node   int
	DidOver bool
	OverCap int // largest over-limit encoding the generator may produce (bytes)
	Force      int    // the Force-th limited node gets exactly ForceCount elements / bits / bytes (clipped to its limit); -1: none
	ForceCount uint64
	DidForce   bool   // the forced node exists and took ForceCount unclipped
	Mode   int // 0 random, 1 minimal (all empty / zero), 2 maximal within budget
}

func NewGen(r *hx.Rng, budget int) *Gen { return &Gen{R: r, Left: budget, Over: -1, Force: -1} }

func (g *Gen) bytes(n int) []byte {
	b := make([]byte, n)
	switch {
	case g.Mode == 1:
	case g.Mode == 2:
		for i := range b {
			b[i] = 0xff
		}
	default:
		switch g.R.Intn(6) {
		case 0:
		case 1:
			for i := range b {
				b[i] = 0xff
			}
		default:
			copy(b, g.R.Bytes(n))
		}
	}
	return b
}

func (g *Gen) count(limit uint64, minElem uint64) uint64 {
	me := g.node
	g.node++
	if g.Over == me {
		// limit+1 elements, when that is affordable
		if limit+1 <= 4096 && (limit+1)*maxU(minElem, 1) <= uint64(maxInt(g.OverCap, 6000)) {
			g.DidOver = true
			return limit + 1
		}
	}
	if g.Force == me {
		g.DidForce = g.ForceCount <= limit
		return minU(g.ForceCount, limit)
	}
	afford := uint64(1 << 20)
	if minElem > 0 {
		if g.Left <= 0 {
			afford = 0
		} else {
			afford = uint64(g.Left) / minElem
		}
	}
	max := limit
	if afford < max {
		max = afford
	}
	var c uint64
	switch g.Mode {
	case 1:
		c = 0
	case 2:
		c = max
	default:
		switch g.R.Intn(8) {
		case 0:
			c = 0
		case 1:
			c = 1
		case 2:
			c = limit // exactly full, when affordable
		case 3:
			if limit > 0 {
				c = limit - 1
			}
		case 4:
			c = 2
		default:
			if max > 0 {
				c = uint64(g.R.Intn(int(minU(max, 6)) + 1))
			}
		}
	}
	if c > max {
		c = max
	}
	return c
}

func minU(a, b uint64) uint64 {
	if a < b {
		return a
	}
	return b
}
func maxU(a, b uint64) uint64 {
	if a > b {
		return a
	}
	return b
}

func packBits(bits []bool) []byte {
	out := make([]byte, (len(bits)+7)/8)
	for i, b := range bits {
		if b {
			out[i/8] |= 1 << uint(i%8)
		}
	}
	return out
}

func (g *Gen) bits(n uint64) []bool {
	b := make([]bool, n)
	mode := g.R.Intn(5)
	if g.Mode == 1 {
		mode = 0
	} else if g.Mode == 2 {
		mode = 1
	}
	for i := range b {
		switch mode {
		case 0:
		case 1:
			b[i] = true
		default:
			b[i] = g.R.Bool()
		}
	}
	return b
}

// Val: a value as a tree along its type (leaves hold their encoding).
type Val struct {
	T     *Ty
	B     []byte // leaf kinds: canonical encoding
	Elems []*Val // vector/list elements, container fields
}

func (v *Val) Clone() *Val {
	c := &Val{T: v.T, B: append([]byte(nil), v.B...)}
	for _, e := range v.Elems {
		c.Elems = append(c.Elems, e.Clone())
	}
	return c
}

func isLeaf(t *Ty) bool {
	switch t.Kind {
	case KVector, KList, KContainer:
		return false
	}
	return true
}

// Enc: canonical encoding with the mutator marks.
func (v *Val) Enc() *Enc {
	t := v.T
	switch t.Kind {
	case KBool:
		return &Enc{B: v.B, M: Marks{Bools: []int{0}}}
	case KBitvector:
		e := &Enc{B: v.B}
		if t.N%8 != 0 {
			e.M.BitvecPad = []BitvecPad{{len(e.B) - 1, uint(t.N % 8)}}
		}
		return e
	case KBitlist:
		return &Enc{B: v.B, M: Marks{BitlistLast: []int{len(v.B) - 1}}}
	case KVector, KList:
		_, fixed := t.Elem.FixedSize()
		parts := make([]part, 0, len(v.Elems))
		for _, e := range v.Elems {
			parts = append(parts, part{fixed, e.Enc()})
		}
		return layout(parts)
	case KContainer:
		parts := make([]part, 0, len(v.Elems))
		for i, e := range v.Elems {
			_, fixed := t.Fields[i].T.FixedSize()
			parts = append(parts, part{fixed, e.Enc()})
		}
		return layout(parts)
	}
	return &Enc{B: v.B}
}

func (v *Val) Bytes() []byte { return v.Enc().B }

// Value: a random value of type t, encoded canonically.
func (g *Gen) Value(t *Ty) *Enc { return g.Tree(t).Enc() }

// Tree: a random value of type t.
func (g *Gen) Tree(t *Ty) *Val {
	switch t.Kind {
	case KUint:
		b := make([]byte, t.N)
		switch {
		case g.Mode == 1:
		case g.Mode == 2 || g.R.Intn(6) == 0:
			for i := range b {
				b[i] = 0xff
			}
		case g.R.Intn(5) == 0:
			b[0] = 1
		case g.R.Intn(4) == 0:
		default:
			copy(b, g.R.Bytes(int(t.N)))
			if g.R.Bool() {
				// small number
				for i := 2; i < len(b); i++ {
					b[i] = 0
				}
			}
		}
		return &Val{T: t, B: b}
	case KBool:
		v := byte(0)
		if g.Mode == 2 || (g.Mode == 0 && g.R.Bool()) {
			v = 1
		}
		return &Val{T: t, B: []byte{v}}
	case KByteVector:
		return &Val{T: t, B: g.bytes(int(t.N))}
	case KByteList:
		n := g.count(t.N, 1)
		g.Left -= int(n)
		return &Val{T: t, B: g.bytes(int(n))}
	case KBitvector:
		return &Val{T: t, B: packBits(g.bits(t.N))}
	case KBitlist:
		// a bitlist of n bits costs n/8+1 bytes
		me := g.node
		g.node++
		var n uint64
		if g.Over == me && t.N+1 <= 40000 {
			n = t.N + 1
			g.DidOver = true
		} else if g.Force == me {
			g.DidForce = g.ForceCount <= t.N
			n = minU(g.ForceCount, t.N)
		} else {
			max := t.N
			if g.Left < 600 {
				max = minU(max, uint64(maxInt(g.Left, 0))*8)
			}
			switch {
			case g.Mode == 1:
				n = 0
			case g.Mode == 2:
				n = max
			default:
				c := []uint64{0, 1, 7, 8, 9, t.N, t.N, satSub(t.N, 1), uint64(g.R.Intn(20)), uint64(g.R.Intn(300))}[g.R.Intn(10)]
				n = minU(c, max)
			}
		}
		b := packBits(append(g.bits(n), true))
		g.Left -= len(b)
		return &Val{T: t, B: b}
	case KVector, KList:
		var n uint64
		fs, fixed := t.Elem.FixedSize()
		if t.Kind == KVector {
			n = t.N
		} else {
			m := t.Elem.MinSize()
			if !fixed {
				m += 4
			}
			n = g.count(t.N, m)
		}
		if fixed {
			g.Left -= int(n * fs)
		} else {
			g.Left -= int(4 * n)
		}
		v := &Val{T: t}
		for i := uint64(0); i < n; i++ {
			v.Elems = append(v.Elems, g.Tree(t.Elem))
		}
		return v
	case KContainer:
		v := &Val{T: t}
		for _, f := range t.Fields {
			v.Elems = append(v.Elems, g.Tree(f.T))
		}
		return v
	}
	return &Val{T: t}
}

func satSub(a, b uint64) uint64 {
	if a < b {
		return 0
	}
	return a - b
}
func maxInt(a, b int) int {
	if a > b {
		return a
	}
	return b
}

// Limited: number of limited nodes (lists, byte lists, bitlists) a generation run of t visits at most
// (used to choose the node that receives limit+1 elements).
func (g *Gen) Nodes() int { return g.node }

// Mutation: a candidate malformed input derived from a canonical encoding.
type Mutation struct {
	Kind string
	B    []byte
}

func clone(b []byte) []byte { return append([]byte(nil), b...) }

// Mutations derives malformed candidates; whether each really is malformed is decided by the model.
func Mutations(e *Enc, r *hx.Rng, max int) []Mutation {
	var out []Mutation
	b := e.B
	add := func(kind string, nb []byte) { out = append(out, Mutation{kind, nb}) }
	// truncation: at the variable-part boundaries, one before, and at the end
	cuts := map[int]bool{}
	for _, x := range e.M.Bounds {
		cuts[x] = true
		cuts[x-1] = true
		cuts[x+1] = true
	}
	for _, x := range e.M.Offsets {
		cuts[x] = true
		cuts[x+2] = true
	}
	cuts[len(b)-1] = true
	cuts[len(b)/2] = true
	cuts[0] = true
	var cl []int
	for c := range cuts {
		if c >= 0 && c < len(b) {
			cl = append(cl, c)
		}
	}
	sortInts(cl)
	for _, c := range pick(cl, r, 4) {
		add("truncated", clone(b[:c]))
	}
	// trailing bytes
	if r.Bool() {
		add("trailing_zero_byte", append(clone(b), 0))
	} else {
		add("trailing_bytes", append(clone(b), r.Bytes(1+r.Intn(4))...))
	}
	// offsets
	for _, p := range pick(e.M.Offsets, r, 4) {
		v := binary.LittleEndian.Uint32(b[p:])
		set := func(kind string, nv uint32) {
			nb := clone(b)
			binary.LittleEndian.PutUint32(nb[p:], nv)
			add(kind, nb)
		}
		set("offset_plus_1", v+1)
		if v > 0 {
			set("offset_minus_1", v-1)
		}
		set("offset_plus_4", v+4)
		set("offset_beyond_end", uint32(len(b))+1+uint32(r.Intn(100)))
		set("offset_huge", 0xffffffff-uint32(r.Intn(3)))
		set("offset_zero", 0)
	}
	// swap two consecutive offsets (decreasing offsets / overlap)
	for i := 0; i+1 < len(e.M.Offsets); i++ {
		p, q := e.M.Offsets[i], e.M.Offsets[i+1]
		if q == p+4 || r.Intn(3) == 0 {
			a, c := binary.LittleEndian.Uint32(b[p:]), binary.LittleEndian.Uint32(b[q:])
			if a != c {
				nb := clone(b)
				binary.LittleEndian.PutUint32(nb[p:], c)
				binary.LittleEndian.PutUint32(nb[q:], a)
				add("offsets_swapped", nb)
				break
			}
		}
	}
	// bitlists: missing delimiter, extra bits
	for _, p := range pick(e.M.BitlistLast, r, 2) {
		nb := clone(b)
		nb[p] = 0
		add("bitlist_no_delimiter", nb)
	}
	// booleans and bitvector padding
	for _, p := range pick(e.M.Bools, r, 1) {
		nb := clone(b)
		nb[p] = 2 + byte(r.Intn(250))
		add("bool_not_0_or_1", nb)
	}
	for _, pd := range e.M.BitvecPad {
		nb := clone(b)
		nb[pd.Pos] |= 1 << (pd.Used + uint(r.Intn(int(8-pd.Used))))
		add("bitvector_padding_bit", nb)
		break
	}
	if len(out) > max {
		// keep a spread: shuffle deterministically and cut
		for i := len(out) - 1; i > 0; i-- {
			j := r.Intn(i + 1)
			out[i], out[j] = out[j], out[i]
		}
		out = out[:max]
	}
	return out
}

func sortInts(a []int) {
	for i := 1; i < len(a); i++ {
		for j := i; j > 0 && a[j] < a[j-1]; j-- {
			a[j], a[j-1] = a[j-1], a[j]
		}
	}
}

func pick(a []int, r *hx.Rng, n int) []int {
	if len(a) <= n {
		return a
	}
	idx := map[int]bool{}
	var out []int
	for len(out) < n {
		i := r.Intn(len(a))
		if !idx[i] {
			idx[i] = true
			out = append(out, a[i])
		}
	}
	sortInts(out)
	return out
}

// EmptyVarElem: does b, read permissively along the schema, contain a list of variable-size elements one of
// whose elements is given zero bytes although every value of the element type needs at least one byte, while
// everything else is structurally sound?  (Evidence for the known ztyp leniency of codec.DecodingReader.List.)
func EmptyVarElem(t *Ty, b []byte) bool {
	found := false
	ok := emptyWalk(t, b, &found)
	return ok && found
}

func emptyWalk(t *Ty, b []byte, found *bool) bool {
	switch t.Kind {
	case KContainer:
		pos := 0
		type vf struct {
			t   *Ty
			off int
		}
		var vars []vf
		for _, f := range t.Fields {
			if s, fixed := f.T.FixedSize(); fixed {
				if pos+int(s) > len(b) {
					return false
				}
				if !emptyWalk(f.T, b[pos:pos+int(s)], found) {
					return false
				}
				pos += int(s)
			} else {
				if pos+4 > len(b) {
					return false
				}
				vars = append(vars, vf{f.T, int(binary.LittleEndian.Uint32(b[pos:]))})
				pos += 4
			}
		}
		for i, v := range vars {
			end := len(b)
			if i+1 < len(vars) {
				end = vars[i+1].off
			}
			if (i == 0 && v.off != pos) || v.off > end || end > len(b) {
				return false
			}
			if !emptyWalk(v.t, b[v.off:end], found) {
				return false
			}
		}
		return true
	case KList, KVector:
		if s, fixed := t.Elem.FixedSize(); fixed {
			if s == 0 || len(b)%int(s) != 0 {
				return false
			}
			if t.Elem.Kind == KContainer || t.Elem.Kind == KVector {
				for i := 0; i+int(s) <= len(b); i += int(s) {
					if !emptyWalk(t.Elem, b[i:i+int(s)], found) {
						return false
					}
				}
			}
			return true
		}
		if len(b) == 0 {
			return t.Kind == KList
		}
		if len(b) < 4 {
			return false
		}
		o0 := int(binary.LittleEndian.Uint32(b))
		if o0%4 != 0 || o0 == 0 || o0 > len(b) {
			return false
		}
		n := o0 / 4
		offs := make([]int, n)
		for i := 0; i < n; i++ {
			offs[i] = int(binary.LittleEndian.Uint32(b[4*i:]))
		}
		for i := 0; i < n; i++ {
			end := len(b)
			if i+1 < n {
				end = offs[i+1]
			}
			if offs[i] > end || end > len(b) {
				return false
			}
			if end == offs[i] && t.Elem.MinSize() > 0 {
				*found = true
				continue
			}
			if !emptyWalk(t.Elem, b[offs[i]:end], found) {
				return false
			}
		}
		return true
	}
	return true
}
