package sszgen

import (
	"fmt"

	"verifharness/hx"

	"github.com/protolambda/ztyp/tree"
)

// RecycledCases: decoding into an object that already holds a value (of the same type, possibly decoded under ANOTHER
// preset, with longer or shorter lists / vectors / bitfields), optionally after a failed decode of malformed bytes,
// must give exactly what decoding into a fresh object gives.  The recycled object's Serialize / ByteLength /
// FixedLength / HashTreeRoot are handed to the model as an ordinary case on the second value's bytes.
func (s *Setup) RecycledCases(e *hx.Env, maxBytes int, firstBudget int, stride int) error {
	type plan struct {
		first, second int // preset indices
		m1, m2        int // generator modes of the two values (0 random, 1 minimal, 2 maximal)
		bad           bool
		name          string
	}
	last := len(s.Presets) - 1 // custom_tiny
	plans := []plan{
		{0, last, 2, 0, false, "mainnet_then_tiny"},
		{last - 1, last, 2, 0, true, "small_then_malformed_then_tiny"},
		{last, last, 2, 1, false, "long_then_short"},
		{last, last - 1, 1, 2, false, "short_tiny_then_long_small"},
	}
	n, skipped := 0, 0
	h := tree.GetHashFn()
	for i := range Registry {
		ent := &Registry[i]
		if stride > 1 && i%stride != 0 && !s.Focus[ent.Name] {
			continue
		}
		for pk, pl := range plans {
			if e.Quick() && !s.Focus[ent.Name] && (i+pk)%2 == 1 && pk >= 2 {
				continue // quick tier: the two same-family plans alternate over the types
			}
			p1, p2 := s.Presets[pl.first], s.Presets[pl.second]
			t1, err := s.Sch.Instantiate(ent.Name, p1.Cfg)
			if err != nil {
				return err
			}
			t2, err := s.Sch.Instantiate(ent.Name, p2.Cfg)
			if err != nil {
				return err
			}
			if t2.MinSize() > 3500 || t1.MinSize() > 6_000_000 {
				skipped++
				continue
			}
			g1 := NewGen(e.Rng.Fork(), firstBudget)
			g1.Mode = pl.m1
			v1 := g1.Tree(t1).Bytes()
			b2 := maxBytes - int(t2.MinSize())
			if b2 < 150 {
				b2 = 150
			}
			g2 := NewGen(e.Rng.Fork(), b2)
			g2.Mode = pl.m2
			v2 := g2.Tree(t2).Bytes()
			obj := ent.New()
			var obs Obs
			var note string
			pan, pv := hx.Catch(func() {
				o1, err := sszOf(p1.Spec, obj)
				if err != nil {
					note = err.Error()
					return
				}
				if err := decode(o1, v1); err != nil {
					// the first value is the model's business elsewhere; here it only has to fill the object
					note = "first decode refused: " + err.Error()
				}
				o2, _ := sszOf(p2.Spec, obj)
				if pl.bad && len(v2) > 0 {
					_ = decode(o2, v2[:len(v2)-1-e.Rng.Intn(minInt(len(v2), 4))]) // a failing (truncated) decode in between
				}
				if err := decode(o2, v2); err != nil {
					obs.Refused, obs.Err = true, "decode into the recycled object refused: "+err.Error()
					return
				}
				b, err := encode(o2)
				obs.Reser = b
				if err != nil {
					obs.ReserErr = err.Error()
				}
				obs.ByteLen, obs.FixedLen, obs.Root = o2.ByteLength(), o2.FixedLength(), o2.HashTreeRoot(h)
				obs.JSONOk, obs.YAMLOk = true, true
			})
			if pan {
				obs.Panicked, obs.Err = true, fmt.Sprint(pv)
			}
			key := fmt.Sprintf("recycled|%s|%d|%x", ent.Name, pk, v2)
			if s.Seen[key] {
				continue
			}
			s.Seen[key] = true
			fixedSize, _ := t2.FixedSize()
			js := obs.JSON()
			coq := fmt.Sprintf("CSsz p%d \"%s\" \"%x\" %s", pl.second, ent.Name, v2, obs.Coq(v2))
			e.Add(hx.Case{Coq: coq, Kind: "recycled/" + pl.name, NonTrivial: len(v2) > 0, Key: key,
				JSON: map[string]interface{}{"type": ent.Name, "preset": p2.Name, "preset_index": pl.second, "cfg": p2.Cfg,
					"input": fmt.Sprintf("%x", v2), "input_len": len(v2), "kind": "recycled/" + pl.name, "go": js, "fixed_size": fixedSize,
					"first_value_preset": p1.Name, "first_value_len": len(v1), "first_value": truncHex(v1, 600), "note": note,
					"what": "the object first decoded first_value (under first_value_preset), then input; it must equal a fresh decode of input"}})
			n++
		}
	}
	e.Extra["x_recycled_object_cases"] = n
	e.Extra["x_recycled_object_skipped_too_big"] = skipped
	return nil
}

func truncHex(b []byte, n int) string {
	if len(b) > n {
		return fmt.Sprintf("%x...(%d bytes)", b[:n], len(b))
	}
	return fmt.Sprintf("%x", b)
}
