package sszgen

import (
	"bytes"
	"encoding/hex"
	"fmt"
	"reflect"
	"strings"

	"verifharness/hx"

	"github.com/protolambda/zrnt/eth2/beacon/common"
	"github.com/protolambda/zrnt/eth2/configs"
	"github.com/protolambda/ztyp/codec"
	"github.com/protolambda/ztyp/tree"
)

// Preset: a configuration under which every type is exercised.
type Preset struct {
	Name string
	Spec *common.Spec
	Cfg  map[string]uint64 // the constants the schemas mention
}

func specField(spec *common.Spec, name string) (reflect.Value, error) {
	f := reflect.ValueOf(spec).Elem().FieldByName(name)
	if !f.IsValid() || !f.CanSet() {
		return f, fmt.Errorf("Spec has no settable field %s", name)
	}
	switch f.Kind() {
	case reflect.Uint64, reflect.Uint8, reflect.Uint32, reflect.Uint16, reflect.Uint:
		return f, nil
	}
	return f, fmt.Errorf("Spec field %s is not an unsigned integer", name)
}

// PresetFrom copies base and reads the constants back (mainnet / minimal).
func PresetFrom(name string, base *common.Spec, consts []string) (*Preset, error) {
	spec := *base
	p := &Preset{Name: name, Spec: &spec, Cfg: map[string]uint64{}}
	for _, c := range consts {
		f, err := specField(p.Spec, c)
		if err != nil {
			return nil, err
		}
		p.Cfg[c] = f.Uint()
	}
	return p, nil
}

// CustomPreset: small random limits (so that limit and limit+1 are reachable and whole states stay small).
func CustomPreset(name string, consts []string, r *hx.Rng, tiny bool) (*Preset, error) {
	spec := *configs.Minimal
	p := &Preset{Name: name, Spec: &spec, Cfg: map[string]uint64{}}
	for _, c := range consts {
		f, err := specField(p.Spec, c)
		if err != nil {
			return nil, err
		}
		var v uint64
		switch {
		case c == "SYNC_COMMITTEE_SIZE":
			v = []uint64{4, 8, 12, 32}[r.Intn(4)]
			if tiny {
				v = 4
			}
		case c == "MAX_BYTES_PER_TRANSACTION":
			v = uint64(1 + r.Intn(40))
		case c == "MAX_VALIDATORS_PER_COMMITTEE":
			v = uint64(1 + r.Intn(20)) // bitlist limits around the byte boundaries 8 and 16
			if r.Chance(30) {
				v = []uint64{7, 8, 9, 16}[r.Intn(4)]
			}
		case tiny:
			v = uint64(1 + r.Intn(2))
		default:
			v = uint64(1 + r.Intn(5))
		}
		f.SetUint(v)
		p.Cfg[c] = v
	}
	return p, nil
}

func (p *Preset) Coq() string {
	var items []string
	keys := make([]string, 0, len(p.Cfg))
	for k := range p.Cfg {
		keys = append(keys, k)
	}
	sortStrings(keys)
	for _, k := range keys {
		items = append(items, fmt.Sprintf("(\"%s\", %d)", k, p.Cfg[k]))
	}
	return "[" + strings.Join(items, "; ") + "]"
}

// Obs: what zrnt did with one byte string for one type under one preset.
type Obs struct {
	Refused   bool
	Panicked  bool
	Err       string
	Reser     []byte // bytes written by Serialize after a successful Deserialize
	ReserErr  string
	ByteLen   uint64
	FixedLen  uint64
	Root      [32]byte
	HasView   bool
	ViewRef   bool // view refused
	ViewPanic bool
	ViewErr   string
	ViewSame  bool
	ViewRoot  [32]byte
	JSONOk    bool
	YAMLOk    bool
	JSONNote  string
	TextNotes []string
	KeyNotes  []string
	CanonNotes []string
	YAMLNote  string
}

func sszOf(spec *common.Spec, obj interface{}) (common.SSZObj, error) {
	if so, ok := obj.(common.SpecObj); ok {
		return spec.Wrap(so), nil
	}
	if o, ok := obj.(common.SSZObj); ok {
		return o, nil
	}
	// methods that disagree on taking a *Spec (the translator reports that as a broken obligation):
	// still exercise the type, calling each method with the arguments it declares
	r := &reflObj{spec: spec, v: reflect.ValueOf(obj)}
	for _, m := range []string{"Deserialize", "Serialize", "ByteLength", "FixedLength", "HashTreeRoot"} {
		if !r.v.MethodByName(m).IsValid() {
			return nil, fmt.Errorf("%T has no method %s", obj, m)
		}
	}
	return r, nil
}

type reflObj struct {
	spec *common.Spec
	v    reflect.Value
}

func (r *reflObj) call(name string, args ...interface{}) []reflect.Value {
	m := r.v.MethodByName(name)
	var in []reflect.Value
	if m.Type().NumIn() == len(args)+1 {
		in = append(in, reflect.ValueOf(r.spec))
	}
	for _, a := range args {
		in = append(in, reflect.ValueOf(a))
	}
	return m.Call(in)
}
func (r *reflObj) Deserialize(dr *codec.DecodingReader) error {
	out := r.call("Deserialize", dr)
	if e, ok := out[0].Interface().(error); ok {
		return e
	}
	return nil
}
func (r *reflObj) Serialize(w *codec.EncodingWriter) error {
	out := r.call("Serialize", w)
	if e, ok := out[0].Interface().(error); ok {
		return e
	}
	return nil
}
func (r *reflObj) ByteLength() uint64  { return r.call("ByteLength")[0].Uint() }
func (r *reflObj) FixedLength() uint64 { return r.call("FixedLength")[0].Uint() }
func (r *reflObj) HashTreeRoot(h tree.HashFn) tree.Root {
	return r.call("HashTreeRoot", h)[0].Interface().(tree.Root)
}

func decode(o common.SSZObj, b []byte) error {
	return o.Deserialize(codec.NewDecodingReader(bytes.NewReader(b), uint64(len(b))))
}

func encode(o common.SSZObj) ([]byte, error) {
	var buf bytes.Buffer
	err := o.Serialize(codec.NewEncodingWriter(&buf))
	return buf.Bytes(), err
}

// Observe runs the struct form and (when there is one) the view form on input.
func Observe(e *Entry, p *Preset, input []byte, textForms bool) (obs Obs) {
	return ObserveVal(e, p, input, textForms, nil)
}

// ObserveVal: as Observe; val (optional) is the value the input encodes, for the canonical text form.
func ObserveVal(e *Entry, p *Preset, input []byte, textForms bool, val *Val) (obs Obs) {
	obj := e.New()
	o, err := sszOf(p.Spec, obj)
	if err != nil {
		obs.Refused, obs.Err = true, err.Error()
		return
	}
	func() {
		var derr error
		pan, pv := hx.Catch(func() { derr = decode(o, input) })
		if pan {
			obs.Panicked, obs.Err = true, fmt.Sprint(pv)
			return
		}
		if derr != nil {
			obs.Refused, obs.Err = true, derr.Error()
			return
		}
		pan, pv = hx.Catch(func() {
			b, err := encode(o)
			obs.Reser = b
			if err != nil {
				obs.ReserErr = err.Error()
			}
			obs.ByteLen = o.ByteLength()
			obs.FixedLen = o.FixedLength()
			obs.Root = o.HashTreeRoot(tree.GetHashFn())
		})
		if pan {
			obs.Panicked, obs.Err = true, fmt.Sprint(pv)
			return
		}
		if textForms {
			tr := TextChecks(e, p, obj, input, val)
			obs.JSONOk, obs.YAMLOk = tr.JSONOk, tr.YAMLOk
			obs.TextNotes, obs.KeyNotes, obs.CanonNotes = tr.Notes, tr.KeyNotes, tr.CanonNotes
		} else {
			obs.JSONOk, obs.YAMLOk = true, true
		}
	}()
	if e.View != nil {
		obs.HasView = true
		pan, pv := hx.Catch(func() {
			td := e.View(p.Spec)
			v, err := td.Deserialize(codec.NewDecodingReader(bytes.NewReader(input), uint64(len(input))))
			if err != nil {
				obs.ViewRef, obs.ViewErr = true, err.Error()
				return
			}
			var buf bytes.Buffer
			if err := v.Serialize(codec.NewEncodingWriter(&buf)); err != nil {
				obs.ViewErr = err.Error()
			}
			obs.ViewSame = bytes.Equal(buf.Bytes(), input)
			obs.ViewRoot = v.HashTreeRoot(tree.GetHashFn())
		})
		if pan {
			obs.ViewPanic, obs.ViewErr = true, fmt.Sprint(pv)
		}
	}
	return
}

// Coq terms of the observation (structres and viewres of Ssz/SszRun.v).
func (o *Obs) Coq(input []byte) string {
	view := "VNone"
	if o.HasView {
		switch {
		case o.ViewPanic:
			view = "VPanic"
		case o.ViewRef:
			view = "VRefused"
		default:
			view = fmt.Sprintf("(VAccepted %s \"%s\")", hx.CoqBool(o.ViewSame && o.ViewErr == ""), hex.EncodeToString(o.ViewRoot[:]))
		}
	}
	if o.Panicked {
		return "SPanic " + view
	}
	if o.Refused {
		return "SRefused " + view
	}
	reser := "None"
	if !bytes.Equal(o.Reser, input) || o.ReserErr != "" {
		reser = "(Some \"" + hex.EncodeToString(o.Reser) + "\")"
	}
	return fmt.Sprintf("(SAccepted %s %d %d \"%s\" %s %s) %s", reser, o.ByteLen, o.FixedLen,
		hex.EncodeToString(o.Root[:]), hx.CoqBool(o.JSONOk), hx.CoqBool(o.YAMLOk), view)
}

func (o *Obs) JSON() map[string]interface{} {
	m := map[string]interface{}{"refused": o.Refused, "panicked": o.Panicked}
	if o.Err != "" {
		m["err"] = o.Err
	}
	if !o.Refused && !o.Panicked {
		m["byte_length"] = o.ByteLen
		m["fixed_length"] = o.FixedLen
		m["root"] = hex.EncodeToString(o.Root[:])
		m["reserialized"] = hex.EncodeToString(o.Reser)
		m["json_ok"], m["yaml_ok"] = o.JSONOk, o.YAMLOk
		if len(o.TextNotes) > 0 {
			m["text_notes"] = o.TextNotes
		}
		if o.JSONNote != "" {
			m["json_note"] = o.JSONNote
		}
		if o.YAMLNote != "" {
			m["yaml_note"] = o.YAMLNote
		}
	}
	if o.HasView {
		m["view_refused"], m["view_same_bytes"] = o.ViewRef, o.ViewSame
		m["view_root"] = hex.EncodeToString(o.ViewRoot[:])
		if o.ViewErr != "" {
			m["view_err"] = o.ViewErr
		}
	}
	return m
}
