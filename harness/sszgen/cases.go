package sszgen

import (
	"encoding/hex"
	"encoding/json"
	"fmt"
	"os"
	"strings"

	"verifharness/hx"

	"github.com/protolambda/zrnt/eth2/configs"
)

// Setup: schemas, presets and the Coq header shared by the SSZ harnesses.
type Setup struct {
	Sch     *Schemas
	Consts  []string
	Presets []*Preset
	Seen    map[string]bool
	Focus   map[string]bool
	KeyNotes map[string]bool
	CanonNotes map[string]bool
}

func NewSetup(e *hx.Env, mismatchFn string) (*Setup, error) {
	sch, err := LoadSchemas()
	if err != nil {
		return nil, err
	}
	s := &Setup{Sch: sch, Consts: sch.Constants(), Seen: map[string]bool{}, Focus: map[string]bool{}, KeyNotes: map[string]bool{}, CanonNotes: map[string]bool{}}
	for _, f := range strings.Split(os.Getenv("VERIF_FOCUS"), ",") {
		if f != "" {
			s.Focus[f] = true
		}
	}
	mn, err := PresetFrom("mainnet", configs.Mainnet, s.Consts)
	if err != nil {
		return nil, err
	}
	mi, err := PresetFrom("minimal", configs.Minimal, s.Consts)
	if err != nil {
		return nil, err
	}
	c1, err := CustomPreset("custom_small", s.Consts, e.Rng.Fork(), false)
	if err != nil {
		return nil, err
	}
	c2, err := CustomPreset("custom_tiny", s.Consts, e.Rng.Fork(), true)
	if err != nil {
		return nil, err
	}
	s.Presets = []*Preset{mn, mi, c1, c2}
	var hb strings.Builder
	hb.WriteString("From Coq Require Import String NArith List.\nFrom V Require Import Ssz.SszCore Ssz.SpecSchemas Ssz.SszRun.\nImport ListNotations.\nLocal Open Scope string_scope.\nLocal Open Scope N_scope.\n")
	for i, p := range s.Presets {
		fmt.Fprintf(&hb, "Definition p%d : Config := %s.\n", i, p.Coq())
	}
	fmt.Fprintf(&hb, "Definition mismatches := %s.\n", mismatchFn)
	e.Header = hb.String()
	e.CaseType = "scase"
	pj := map[string]interface{}{}
	for _, p := range s.Presets {
		pj[p.Name] = p.Cfg
	}
	e.Extra["x_presets"] = pj
	return s, nil
}

// AddCase observes zrnt on input and records the case.
func (s *Setup) AddCase(e *hx.Env, ent *Entry, pi int, input []byte, kind string, textForms bool) *Obs {
	return s.AddCaseVal(e, ent, pi, input, kind, textForms, nil)
}

// AddCaseVal: val (optional) is the value the input encodes.
func (s *Setup) AddCaseVal(e *hx.Env, ent *Entry, pi int, input []byte, kind string, textForms bool, val *Val) *Obs {
	p := s.Presets[pi]
	var fixedSize uint64
	emptyVar := false
	if t, err := s.Sch.Instantiate(ent.Name, p.Cfg); err == nil {
		fixedSize, _ = t.FixedSize()
		emptyVar = EmptyVarElem(t, input)
	}
	key := fmt.Sprintf("%s|%d|%x", ent.Name, pi, input)
	if s.Seen[key] {
		return nil
	}
	s.Seen[key] = true
	obs := ObserveVal(ent, p, input, textForms, val)
	for _, k := range obs.KeyNotes {
		s.KeyNotes[ent.Name+" "+stripIdx(k)] = true
	}
	for _, k := range obs.CanonNotes {
		// one note per type and kind of deviation
		kk := stripIdx(k)
		if i := strings.Index(kk, ": expected"); i >= 0 {
			what := "value spelled differently"
			switch {
			case strings.Contains(kk, "got ["):
				what = "byte string written as an array of integers instead of 0x-hex"
			case strings.Contains(kk, "got <nil>"):
				what = "empty list written as null"
			}
			kk = kk[:i] + ": " + what
		}
		s.CanonNotes[ent.Name+" "+kk] = true
	}
	coq := fmt.Sprintf("CSsz p%d \"%s\" \"%s\" %s", pi, ent.Name, hex.EncodeToString(input), obs.Coq(input))
	e.Add(hx.Case{Coq: coq, Kind: kind, NonTrivial: len(input) > 0, Key: key,
		JSON: map[string]interface{}{"type": ent.Name, "preset": p.Name, "preset_index": pi, "cfg": p.Cfg,
			"input": hex.EncodeToString(input), "input_len": len(input), "kind": kind, "go": obs.JSON(),
			"fixed_size": fixedSize, "empty_var_elem": emptyVar}})
	return &obs
}

func kindName(t *Ty) string {
	return [...]string{"uint", "bool", "bytevector", "bytelist", "bitvector", "bitlist", "vector", "list", "container"}[t.Kind]
}

// CodecCases: for every registered type x preset, valid values (boundary-biased) and malformed derivations.
func (s *Setup) CodecCases(e *hx.Env, maxBytes int, valuesPer, mutPer int, malformed bool) error {
	skipped := map[string][]string{}
	for i := range Registry {
		ent := &Registry[i]
		for pi, p := range s.Presets {
			t, err := s.Sch.Instantiate(ent.Name, p.Cfg)
			if err != nil {
				return fmt.Errorf("registry type without schema: %v", err)
			}
			maxBytes, mutPer := maxBytes, mutPer
			big := false
			if t.MinSize() > uint64(maxBytes) {
				// large composite types (states, blocks) are still exercised under the custom presets, with fewer cases
				if pi >= 2 && t.MinSize() <= 3500 {
					maxBytes = int(t.MinSize()) + 150
					big = true
					if mutPer > 2 {
						mutPer = 2
					}
				} else {
					skipped[p.Name] = append(skipped[p.Name], ent.Name)
					continue
				}
			}
			budget := maxBytes - int(t.MinSize())
			nvals := valuesPer
			if big && nvals > 2 {
				nvals = 2
			}
			if s.Focus[ent.Name] {
				nvals = valuesPer * 8 // targeted generation for a type whose obligation broke (DESIGN 2.6 (c))
			}
			// quick tier: malformed derivations for two of the four presets per type (alternating), the all-empty
			// value only under the first and last preset (its bytes hardly depend on the limits)
			mutHere := malformed && (!e.Quick() || s.Focus[ent.Name] || (i+pi)%2 == 0)
			for k := 0; k < nvals; k++ {
				if k == 0 && e.Quick() && pi != 0 && pi != len(s.Presets)-1 && !s.Focus[ent.Name] {
					continue
				}
				g := NewGen(e.Rng.Fork(), budget)
				switch k {
				case 0:
					g.Mode = 1
				case 1:
					g.Mode = 2
					g.Left = minInt(budget, 400)
				default:
					g.Left = []int{60, 300, budget}[e.Rng.Intn(3)]
				}
				tree := g.Tree(t)
				enc := tree.Enc()
				if len(enc.B) > maxBytes+600 {
					continue
				}
				s.AddCaseVal(e, ent, pi, enc.B, "valid/"+kindName(t), true, tree)
				if k >= 1 && mutHere {
					nm := mutPer
					if k == 1 {
						nm = mutPer / 2
					}
					for _, m := range Mutations(enc, e.Rng.Fork(), nm) {
						s.AddCase(e, ent, pi, m.B, "mutated/"+m.Kind, false)
					}
				}
			}
			if !mutHere {
				continue
			}
			// one over-limit value: some limited node gets limit+1 elements
			// (for a type whose obligation broke: every limited node in turn, and larger encodings are allowed)
			probe := NewGen(e.Rng.Fork(), 200)
			probe.Value(t)
			if n := probe.Nodes(); n > 0 {
				nodes := []int{e.Rng.Intn(n)}
				capBytes := maxBytes + 2000
				if s.Focus[ent.Name] {
					nodes = nil
					for j := 0; j < n && j < 4; j++ {
						nodes = append(nodes, j)
					}
					capBytes = 30000
				}
				for _, node := range nodes {
					g := NewGen(e.Rng.Fork(), 200)
					g.Over = node
					g.OverCap = capBytes
					if s.Focus[ent.Name] {
						g.Mode = 1 // everything else empty: the encoding stays as small as the over-limit node allows
					}
					enc := g.Value(t)
					if g.DidOver && len(enc.B) <= capBytes {
						s.AddCase(e, ent, pi, enc.B, "mutated/over_limit", false)
					}
				}
			}
		}
	}
	sk := map[string]interface{}{}
	for k, v := range skipped {
		sk[k] = v
	}
	e.Extra["x_too_big_for_in_coq_evaluation"] = sk
	var kn []string
	for k := range s.KeyNotes {
		kn = append(kn, k)
	}
	sortStrings(kn)
	e.Extra["x_json_key_deviations_from_spec_names"] = kn
	var cn []string
	for k := range s.CanonNotes {
		cn = append(cn, k)
	}
	sortStrings(cn)
	e.Extra["x_json_not_canonical_spelling_advisory"] = cn
	return nil
}

func minInt(a, b int) int {
	if a < b {
		return a
	}
	return b
}

// ReplayCase re-runs the failing input of a replay file.
func (s *Setup) ReplayCase(e *hx.Env) (bool, error) {
	if e.Replay == "" {
		return false, nil
	}
	data, err := os.ReadFile(e.Replay)
	if err != nil {
		return false, err
	}
	var rp struct {
		FailingCase struct {
			Case struct {
				Type  string            `json:"type"`
				Cfg   map[string]uint64 `json:"cfg"`
				Input string            `json:"input"`
				Kind  string            `json:"kind"`
			} `json:"case"`
		} `json:"failing_case"`
	}
	if err := json.Unmarshal(data, &rp); err != nil {
		return false, err
	}
	c := rp.FailingCase.Case
	if c.Type == "" {
		return false, nil // an obligation replay: nothing to re-run, the normal run follows
	}
	// replace preset 0 by the recorded configuration
	p, err := PresetFrom("replay", configs.Minimal, nil)
	if err != nil {
		return false, err
	}
	for k, v := range c.Cfg {
		f, err := specField(p.Spec, k)
		if err != nil {
			return false, err
		}
		f.SetUint(v)
		p.Cfg[k] = v
	}
	s.Presets[0] = p
	// header must be rebuilt with the replaced preset
	var hb strings.Builder
	for _, line := range strings.Split(e.Header, "\n") {
		if strings.HasPrefix(line, "Definition p0 ") {
			line = fmt.Sprintf("Definition p0 : Config := %s.", p.Coq())
		}
		hb.WriteString(line + "\n")
	}
	e.Header = hb.String()
	in, err := hex.DecodeString(c.Input)
	if err != nil {
		return false, err
	}
	for i := range Registry {
		if Registry[i].Name == c.Type {
			s.AddCase(e, &Registry[i], 0, in, "replay/"+c.Kind, true)
			return true, nil
		}
	}
	return false, fmt.Errorf("replay: unknown type %s", c.Type)
}

// AddLiveCase records the state of a live (mutated) view against its shadow content: the struct form is
// observed on the shadow's canonical bytes, the "view" verdict is that of the LIVE view (bytes and cached root).
func (s *Setup) AddLiveCase(e *hx.Env, en *Engine, c LiveCheck, kind string, steps []string) {
	p := s.Presets[en.PI]
	obs := Observe(en.Ent, p, c.Expect, false)
	obs.HasView, obs.ViewRef, obs.ViewPanic = true, false, false
	obs.ViewSame = c.SameBytes && c.Root == c.FreshRoot && c.Note == ""
	obs.ViewRoot = c.Root
	obs.ViewErr = ""
	key := fmt.Sprintf("live|%s|%d|%x|%x", en.Ent.Name, en.PI, c.Expect, c.Root)
	if s.Seen[key] {
		return
	}
	s.Seen[key] = true
	coq := fmt.Sprintf("CSsz p%d \"%s\" \"%s\" %s", en.PI, en.Ent.Name, hex.EncodeToString(c.Expect), obs.Coq(c.Expect))
	e.Add(hx.Case{Coq: coq, Kind: kind, NonTrivial: true, Key: key,
		JSON: map[string]interface{}{"type": en.Ent.Name, "preset": p.Name, "preset_index": en.PI, "cfg": p.Cfg,
			"input": hex.EncodeToString(c.Expect), "input_len": len(c.Expect), "kind": kind, "go": obs.JSON(),
			"live": c.Name, "program": steps, "live_same_bytes": c.SameBytes, "live_root": hex.EncodeToString(c.Root[:]),
			"fresh_view_root": hex.EncodeToString(c.FreshRoot[:]), "struct_root": hex.EncodeToString(c.StructRoot[:]), "note": c.Note}})
}

// MutationPrograms: random programs over tree-backed values of the given types; after every step every live copy
// is compared with its shadow (bytes, live root, root of a view rebuilt from the bytes, struct-form root).
// Every inconsistent state, and up to coqCases consistent ones, are handed to the Coq model as cases.
func (s *Setup) MutationPrograms(e *hx.Env, typeNames []string, presets []int, programs, steps, budget, coqCases int) error {
	emitted := 0
	total, inconsistent := 0, 0
	ops := map[string]int{}
	for _, tn := range typeNames {
		var ent *Entry
		for i := range Registry {
			if Registry[i].Name == tn {
				ent = &Registry[i]
			}
		}
		if ent == nil || ent.View == nil {
			return fmt.Errorf("mutation programs: no registry entry with a view type for %s", tn)
		}
		for _, pi := range presets {
			for k := 0; k < programs; k++ {
				en, err := NewEngine(s, pi, ent, e.Rng.Fork(), budget)
				if err != nil {
					return err
				}
				var log []string
				for st := 0; st < steps; st++ {
					var desc string
					var serr error
					pan, pv := hx.Catch(func() { desc, serr = en.Step() })
					if pan {
						desc, serr = "panic", fmt.Errorf("panic during a view operation: %v", pv)
					}
					if serr != nil {
						// an operation the API refused or crashed on: reported as a failing live case
						log = append(log, "FAILED: "+serr.Error())
						c := en.Check(en.Lives[0])
						c.Note += " operation failed: " + serr.Error()
						c.SameBytes = false
						s.AddLiveCase(e, en, c, "mutation/op_failed", append([]string(nil), log...))
						inconsistent++
						break
					}
					log = append(log, desc)
					ops[strings.Fields(desc)[0]]++
					for li, l := range en.Lives {
						c := en.Check(l)
						total++
						if !c.Consistent {
							inconsistent++
							s.AddLiveCase(e, en, c, "mutation/inconsistent", append([]string(nil), log...))
						} else if emitted < coqCases && (li == 0 || e.Rng.Intn(3) == 0) && len(c.Expect) <= 3*budget+4000 {
							emitted++
							s.AddLiveCase(e, en, c, "mutation/"+strings.Fields(desc)[0], append([]string(nil), log...))
						}
					}
				}
			}
		}
	}
	// dedicated probe of ComplexListView.Pop (known ztyp finding; zrnt never pops)
	probes := 0
	for _, tn := range typeNames {
		for i := range Registry {
			if Registry[i].Name != tn || probes >= 3 {
				continue
			}
			for try := 0; try < 6; try++ {
				en, err := NewEngine(s, presets[0], &Registry[i], e.Rng.Fork(), budget)
				if err != nil {
					return err
				}
				if desc, ok := en.PopProbe(); ok {
					c := en.Check(en.Lives[0])
					if !c.Consistent {
						s.AddLiveCase(e, en, c, "mutation/complex_list_pop", []string{desc})
					}
					probes++
					break
				}
			}
		}
	}
	e.Extra["x_mutation_states_checked_in_go"] = total
	e.Extra["x_mutation_states_inconsistent"] = inconsistent
	e.Extra["x_mutation_ops"] = ops
	return nil
}

// "$[3].a[10]" -> "$[].a[]"
func stripIdx(s string) string {
	var b strings.Builder
	in := false
	for _, c := range s {
		if c == '[' {
			in = true
			b.WriteRune(c)
			continue
		}
		if c == ']' {
			in = false
		}
		if in && c >= '0' && c <= '9' {
			continue
		}
		b.WriteRune(c)
	}
	return b.String()
}
