package sszgen

import (
	"bytes"
	"encoding/hex"
	"fmt"
	"reflect"

	"verifharness/hx"

	"github.com/protolambda/ztyp/tree"
)

// ZeroObs: what zrnt does with the Go zero value of a type (ent.New(), untouched by any decoder).
type ZeroObs struct {
	Panicked   string
	SerErr     string
	Ser        []byte
	ByteLen    uint64
	FixedLen   uint64
	Root       [32]byte
	Redecode   bool // Deserialize(Serialize(zero)) succeeds and re-serializes to the same bytes with the same root
	RedecNote  string
	HasView    bool
	ViewRoot   [32]byte // root of the view type's default node
	ViewBytes  []byte
	ViewNote   string
	NilShapes  []string // places where the zero value is not a representation of an SSZ value (nil slice for a vector / bitvector / bitlist)
}

// nilShapes walks the Go zero value along the schema: a slice-backed vector / bitvector of the wrong length, or a
// nil bitlist (no delimiter byte), is not the representation of any value of the type.
func nilShapes(t *Ty, v reflect.Value, path string, out *[]string) {
	for v.Kind() == reflect.Ptr || v.Kind() == reflect.Interface {
		if v.IsNil() {
			return
		}
		v = v.Elem()
	}
	switch t.Kind {
	case KVector:
		if v.Kind() == reflect.Slice && uint64(v.Len()) != t.N {
			*out = append(*out, path+":nil-vector")
			return
		}
		if v.Kind() == reflect.Array || v.Kind() == reflect.Slice {
			for i := 0; i < v.Len() && i < 2; i++ {
				nilShapes(t.Elem, v.Index(i), path, out)
			}
		}
	case KByteVector:
		if v.Kind() == reflect.Slice && uint64(v.Len()) != t.N {
			*out = append(*out, path+":nil-bytevector")
		}
	case KBitvector:
		if v.Kind() == reflect.Slice && uint64(v.Len()) != (t.N+7)/8 {
			*out = append(*out, path+":nil-bitvector")
		}
	case KBitlist:
		if v.Kind() == reflect.Slice && v.Len() == 0 {
			*out = append(*out, path+":nil-bitlist")
		}
	case KContainer:
		if v.Kind() != reflect.Struct {
			return
		}
		k := 0
		for i := 0; i < v.NumField() && k < len(t.Fields); i++ {
			if v.Type().Field(i).PkgPath != "" {
				continue
			}
			nilShapes(t.Fields[k].T, v.Field(i), path+"."+t.Fields[k].Name, out)
			k++
		}
	}
}

func ObserveZero(ent *Entry, p *Preset, t *Ty) (z ZeroObs) {
	obj := ent.New()
	nilShapes(t, reflect.ValueOf(obj), "", &z.NilShapes)
	o, err := sszOf(p.Spec, obj)
	if err != nil {
		z.Panicked = err.Error()
		return
	}
	h := tree.GetHashFn()
	pan, pv := hx.Catch(func() {
		z.ByteLen = o.ByteLength()
		z.FixedLen = o.FixedLength()
		z.Root = o.HashTreeRoot(h)
		b, err := encode(o)
		if err != nil {
			z.SerErr = err.Error()
		} else {
			z.Ser = b
		}
	})
	if pan {
		z.Panicked = fmt.Sprint(pv)
		return
	}
	if z.SerErr == "" {
		pan, pv = hx.Catch(func() {
			fresh := ent.New()
			o2, _ := sszOf(p.Spec, fresh)
			if err := decode(o2, z.Ser); err != nil {
				z.RedecNote = "own bytes refused: " + err.Error()
				return
			}
			b2, err := encode(o2)
			if err != nil || !bytes.Equal(b2, z.Ser) {
				z.RedecNote = "re-serialization differs"
				return
			}
			if o2.HashTreeRoot(h) != z.Root {
				z.RedecNote = "root of the decoded value differs from the root of the zero value"
				return
			}
			z.Redecode = true
		})
		if pan {
			z.RedecNote = fmt.Sprint("panic: ", pv)
		}
	}
	if ent.View != nil {
		pan, pv = hx.Catch(func() {
			td := ent.View(p.Spec)
			dv := td.Default(nil)
			z.HasView = true
			z.ViewRoot = dv.HashTreeRoot(h)
			z.ViewBytes, _ = viewBytes(dv)
		})
		if pan {
			z.ViewNote = fmt.Sprint("view default panicked: ", pv)
		}
	}
	return
}

func (z *ZeroObs) JSON() map[string]interface{} {
	m := map[string]interface{}{"byte_length": z.ByteLen, "fixed_length": z.FixedLen, "root": hex.EncodeToString(z.Root[:]),
		"redecode_ok": z.Redecode, "nil_shapes": z.NilShapes}
	if z.Panicked != "" {
		m["panicked"] = z.Panicked
	}
	if z.SerErr != "" {
		m["serialize_error"] = z.SerErr
	} else {
		m["serialized_len"] = len(z.Ser)
		if len(z.Ser) <= 400 {
			m["serialized"] = hex.EncodeToString(z.Ser)
		}
	}
	if z.RedecNote != "" {
		m["redecode_note"] = z.RedecNote
	}
	if z.HasView {
		m["view_default_root"] = hex.EncodeToString(z.ViewRoot[:])
		m["view_default_same_bytes"] = bytes.Equal(z.ViewBytes, z.Ser)
	}
	if z.ViewNote != "" {
		m["view_note"] = z.ViewNote
	}
	return m
}

// ZeroCases: the Go zero value of EVERY registry type under EVERY preset, as a case of its own.
func (s *Setup) ZeroCases(e *hx.Env, coqMaxBytes int) error {
	counts := map[string]int{}
	for i := range Registry {
		ent := &Registry[i]
		for pi, p := range s.Presets {
			t, err := s.Sch.Instantiate(ent.Name, p.Cfg)
			if err != nil {
				return err
			}
			z := ObserveZero(ent, p, t)
			shape := "ZClean"
			for _, sh := range z.NilShapes {
				if hasSuffix(sh, ":nil-vector") || hasSuffix(sh, ":nil-bytevector") {
					shape = "ZNotAValue"
				} else if shape == "ZClean" {
					shape = "ZNilBits"
				}
			}
			counts[shape]++
			fixed, _ := t.FixedSize()
			js := z.JSON()
			js["type"], js["preset"], js["cfg"], js["shape"] = ent.Name, p.Name, p.Cfg, shape
			js["default_encoding_size"] = t.MinSize()
			key := fmt.Sprintf("zero|%s|%d", ent.Name, pi)
			if t.MinSize() > uint64(coqMaxBytes) {
				// too large for in-Coq hashing: struct zero value vs view default vs own round trip, on the Go side
				ok := true
				switch shape {
				case "ZClean":
					ok = z.Panicked == "" && z.SerErr == "" && z.ByteLen == uint64(len(z.Ser)) && z.FixedLen == fixed && z.Redecode &&
						z.ViewNote == "" && (!z.HasView || (z.ViewRoot == z.Root && bytes.Equal(z.ViewBytes, z.Ser)))
				case "ZNilBits":
					ok = z.Panicked == "" && z.FixedLen == fixed && z.ViewNote == "" && (!z.HasView || z.ViewRoot == z.Root)
				}
				counts["go_only"]++
				e.Add(hx.Case{Coq: fmt.Sprintf("CZeroGo \"%s/%s\" %s", ent.Name, p.Name, hx.CoqBool(ok)), Kind: "zero_value_go_only/" + shape,
					NonTrivial: true, Key: key, JSON: js})
				continue
			}
			ser := "None"
			if z.SerErr == "" && z.Panicked == "" {
				ser = "(Some \"" + hex.EncodeToString(z.Ser) + "\")"
			}
			vr := "None"
			if z.HasView && z.ViewNote == "" {
				vr = "(Some \"" + hex.EncodeToString(z.ViewRoot[:]) + "\")"
			} else if z.ViewNote != "" {
				vr = "(Some \"\")" // a failing view default never matches
			}
			coq := fmt.Sprintf("CZero p%d \"%s\" %s %s %d %d \"%s\" %s %s %s", pi, ent.Name, shape, ser, z.ByteLen, z.FixedLen,
				hex.EncodeToString(z.Root[:]), vr, hx.CoqBool(z.Redecode), hx.CoqBool(z.Panicked != ""))
			e.Add(hx.Case{Coq: coq, Kind: "zero_value/" + shape, NonTrivial: true, Key: key, JSON: js})
		}
	}
	e.Extra["x_zero_value_cases"] = counts
	return nil
}

func hasSuffix(s, suf string) bool { return len(s) >= len(suf) && s[len(s)-len(suf):] == suf }
