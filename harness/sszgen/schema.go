// Package sszgen: specification-driven SSZ value / byte-string generators and the Go-side observation of
// zrnt's codec, shared by the C04, C05 and C15 harnesses.
//
// The schemas are NOT taken from the Go types: they are read from the dump of coq/Ssz/SpecSchemas.v
// (written by the check's pre-step to $VERIF_GEN/schemas.txt) and instantiated at a preset.
package sszgen

import (
	"fmt"
	"os"
	"strconv"
	"strings"

	"github.com/protolambda/zrnt/eth2/beacon/common"
	"github.com/protolambda/ztyp/view"
)

type Entry struct {
	Name string
	New  func() interface{}
	View func(spec *common.Spec) view.TypeDef
}

type Kind int

const (
	KUint Kind = iota
	KBool
	KByteVector
	KByteList
	KBitvector
	KBitlist
	KVector
	KList
	KContainer
)

// symbolic expression over preset constants
type Exp struct {
	Op   string // L C MUL DIV ADD
	Lit  uint64
	Name string
	A, B *Exp
}

func (e *Exp) Eval(cfg map[string]uint64) (uint64, error) {
	switch e.Op {
	case "L":
		return e.Lit, nil
	case "C":
		v, ok := cfg[e.Name]
		if !ok {
			return 0, fmt.Errorf("constant %s not in preset", e.Name)
		}
		return v, nil
	}
	a, err := e.A.Eval(cfg)
	if err != nil {
		return 0, err
	}
	b, err := e.B.Eval(cfg)
	if err != nil {
		return 0, err
	}
	switch e.Op {
	case "MUL":
		return a * b, nil
	case "ADD":
		return a + b, nil
	case "DIV":
		if b == 0 {
			return 0, fmt.Errorf("division by zero")
		}
		return a / b, nil
	}
	return 0, fmt.Errorf("bad op %s", e.Op)
}

func (e *Exp) Consts(into map[string]bool) {
	if e == nil {
		return
	}
	if e.Op == "C" {
		into[e.Name] = true
	}
	e.A.Consts(into)
	e.B.Consts(into)
}

// symbolic type
type STy struct {
	Kind   string // U BOOL BV BL BITV BITL VEC LIST CONT REF
	N      uint64 // U: byte width
	E      *Exp
	Elem   *STy
	Fields []SField
	Ref    string
}
type SField struct {
	Name string
	T    *STy
}

// instantiated type
type Ty struct {
	Kind   Kind
	N      uint64 // uint width | vector length | list limit | bit length/limit | byte length/limit
	Elem   *Ty
	Fields []Field
	Name   string // schema name when reached through a reference
}
type Field struct {
	Name string
	T    *Ty
}

type Schemas struct {
	Names []string
	Tbl   map[string]*STy
}

type tokens struct {
	t []string
	i int
}

func (k *tokens) next() (string, error) {
	if k.i >= len(k.t) {
		return "", fmt.Errorf("unexpected end of schema line")
	}
	k.i++
	return k.t[k.i-1], nil
}

func parseExp(k *tokens) (*Exp, error) {
	t, err := k.next()
	if err != nil {
		return nil, err
	}
	switch {
	case t == "MUL" || t == "DIV" || t == "ADD":
		a, err := parseExp(k)
		if err != nil {
			return nil, err
		}
		b, err := parseExp(k)
		if err != nil {
			return nil, err
		}
		return &Exp{Op: t, A: a, B: b}, nil
	case strings.HasPrefix(t, "L"):
		v, err := strconv.ParseUint(t[1:], 10, 64)
		if err != nil {
			return nil, err
		}
		return &Exp{Op: "L", Lit: v}, nil
	case strings.HasPrefix(t, "C"):
		return &Exp{Op: "C", Name: t[1:]}, nil
	}
	return nil, fmt.Errorf("bad expression token %q", t)
}

func parseSTy(k *tokens) (*STy, error) {
	t, err := k.next()
	if err != nil {
		return nil, err
	}
	switch t {
	case "BOOL":
		return &STy{Kind: "BOOL"}, nil
	case "BV", "BL", "BITV", "BITL":
		e, err := parseExp(k)
		if err != nil {
			return nil, err
		}
		return &STy{Kind: t, E: e}, nil
	case "VEC", "LIST":
		el, err := parseSTy(k)
		if err != nil {
			return nil, err
		}
		e, err := parseExp(k)
		if err != nil {
			return nil, err
		}
		return &STy{Kind: t, Elem: el, E: e}, nil
	case "CONT":
		ns, err := k.next()
		if err != nil {
			return nil, err
		}
		n, err := strconv.Atoi(ns)
		if err != nil {
			return nil, err
		}
		s := &STy{Kind: "CONT"}
		for i := 0; i < n; i++ {
			fn, err := k.next()
			if err != nil {
				return nil, err
			}
			ft, err := parseSTy(k)
			if err != nil {
				return nil, err
			}
			s.Fields = append(s.Fields, SField{fn, ft})
		}
		return s, nil
	case "REF":
		r, err := k.next()
		if err != nil {
			return nil, err
		}
		return &STy{Kind: "REF", Ref: r}, nil
	}
	if strings.HasPrefix(t, "U") {
		v, err := strconv.ParseUint(t[1:], 10, 64)
		if err != nil {
			return nil, err
		}
		return &STy{Kind: "U", N: v}, nil
	}
	return nil, fmt.Errorf("bad type token %q", t)
}

// LoadSchemas reads $VERIF_GEN/schemas.txt (lines "T <name> <type>").
func LoadSchemas() (*Schemas, error) {
	dir := os.Getenv("VERIF_GEN")
	if dir == "" {
		dir = "/verif/gen"
	}
	data, err := os.ReadFile(dir + "/schemas.txt")
	if err != nil {
		return nil, fmt.Errorf("schema dump missing (the check's pre-step writes it): %v", err)
	}
	s := &Schemas{Tbl: map[string]*STy{}}
	for _, line := range strings.Split(string(data), "\n") {
		f := strings.Fields(line)
		if len(f) < 3 || f[0] != "T" {
			continue
		}
		k := &tokens{t: f[2:]}
		t, err := parseSTy(k)
		if err != nil {
			return nil, fmt.Errorf("schema %s: %v", f[1], err)
		}
		if k.i != len(k.t) {
			return nil, fmt.Errorf("schema %s: trailing tokens", f[1])
		}
		s.Names = append(s.Names, f[1])
		s.Tbl[f[1]] = t
	}
	if len(s.Names) == 0 {
		return nil, fmt.Errorf("empty schema dump")
	}
	return s, nil
}

// Constants: every preset constant any schema mentions.
func (s *Schemas) Constants() []string {
	m := map[string]bool{}
	var walk func(t *STy)
	walk = func(t *STy) {
		if t == nil {
			return
		}
		t.E.Consts(m)
		walk(t.Elem)
		for _, f := range t.Fields {
			walk(f.T)
		}
	}
	for _, n := range s.Names {
		walk(s.Tbl[n])
	}
	var out []string
	for _, n := range s.Names {
		_ = n
	}
	for k := range m {
		out = append(out, k)
	}
	sortStrings(out)
	return out
}

func sortStrings(a []string) {
	for i := 1; i < len(a); i++ {
		for j := i; j > 0 && a[j] < a[j-1]; j-- {
			a[j], a[j-1] = a[j-1], a[j]
		}
	}
}

// Instantiate a named schema at a preset.
func (s *Schemas) Instantiate(name string, cfg map[string]uint64) (*Ty, error) {
	st, ok := s.Tbl[name]
	if !ok {
		return nil, fmt.Errorf("no schema %s", name)
	}
	t, err := s.inst(st, cfg, 0)
	if err != nil {
		return nil, fmt.Errorf("%s: %v", name, err)
	}
	t.Name = name
	return t, nil
}

func (s *Schemas) inst(st *STy, cfg map[string]uint64, depth int) (*Ty, error) {
	if depth > 40 {
		return nil, fmt.Errorf("schema recursion too deep")
	}
	ev := func() (uint64, error) { return st.E.Eval(cfg) }
	switch st.Kind {
	case "U":
		return &Ty{Kind: KUint, N: st.N}, nil
	case "BOOL":
		return &Ty{Kind: KBool}, nil
	case "BV", "BL", "BITV", "BITL":
		n, err := ev()
		if err != nil {
			return nil, err
		}
		k := map[string]Kind{"BV": KByteVector, "BL": KByteList, "BITV": KBitvector, "BITL": KBitlist}[st.Kind]
		return &Ty{Kind: k, N: n}, nil
	case "VEC", "LIST":
		n, err := ev()
		if err != nil {
			return nil, err
		}
		el, err := s.inst(st.Elem, cfg, depth+1)
		if err != nil {
			return nil, err
		}
		k := KVector
		if st.Kind == "LIST" {
			k = KList
		}
		return &Ty{Kind: k, N: n, Elem: el}, nil
	case "CONT":
		t := &Ty{Kind: KContainer}
		for _, f := range st.Fields {
			ft, err := s.inst(f.T, cfg, depth+1)
			if err != nil {
				return nil, err
			}
			t.Fields = append(t.Fields, Field{f.Name, ft})
		}
		return t, nil
	case "REF":
		r, ok := s.Tbl[st.Ref]
		if !ok {
			return nil, fmt.Errorf("dangling reference %s", st.Ref)
		}
		t, err := s.inst(r, cfg, depth+1)
		if err != nil {
			return nil, err
		}
		t.Name = st.Ref
		return t, nil
	}
	return nil, fmt.Errorf("bad kind %s", st.Kind)
}

// FixedSize: (size, true) for fixed-size types.
func (t *Ty) FixedSize() (uint64, bool) {
	switch t.Kind {
	case KUint:
		return t.N, true
	case KBool:
		return 1, true
	case KByteVector:
		return t.N, true
	case KBitvector:
		return (t.N + 7) / 8, true
	case KVector:
		s, ok := t.Elem.FixedSize()
		return s * t.N, ok
	case KContainer:
		var sum uint64
		for _, f := range t.Fields {
			s, ok := f.T.FixedSize()
			if !ok {
				return 0, false
			}
			sum += s
		}
		return sum, true
	}
	return 0, false
}

// MinSize: smallest encoding of any value of the type.
func (t *Ty) MinSize() uint64 {
	if s, ok := t.FixedSize(); ok {
		return s
	}
	switch t.Kind {
	case KBitlist:
		return 1
	case KVector:
		return t.N * (4 + t.Elem.MinSize())
	case KContainer:
		var sum uint64
		for _, f := range t.Fields {
			if s, ok := f.T.FixedSize(); ok {
				sum += s
			} else {
				sum += 4 + f.T.MinSize()
			}
		}
		return sum
	}
	return 0
}
