package sszgen

import (
	"fmt"
	"reflect"

	"verifharness/hx"

	"github.com/protolambda/ztyp/tree"
	"github.com/protolambda/ztyp/view"
)

var viewIface = reflect.TypeOf((*view.View)(nil)).Elem()
var nodeIface = reflect.TypeOf((*tree.Node)(nil)).Elem()

// Scramble overwrites, in place, every byte / integer / bool reachable from v through pointers, slices, arrays and
// struct fields (the caller's own Go value after it was handed to a setter or View(), or a value a getter returned).
// Tree-backed views are left alone.  Returns the number of memory cells changed.
func Scramble(v reflect.Value, depth int) int {
	if !v.IsValid() || depth > 8 {
		return 0
	}
	if v.Kind() != reflect.Ptr && v.Kind() != reflect.Interface && v.CanInterface() {
		// do not descend into views by value either
	}
	switch v.Kind() {
	case reflect.Interface:
		if v.IsNil() {
			return 0
		}
		return Scramble(v.Elem(), depth+1)
	case reflect.Ptr:
		if v.IsNil() {
			return 0
		}
		if v.Type().Implements(viewIface) && v.Elem().Kind() == reflect.Struct {
			return 0 // a tree-backed view (or typed wrapper): writing through it is its purpose
		}
		return Scramble(v.Elem(), depth+1)
	case reflect.Struct:
		n := 0
		for i := 0; i < v.NumField(); i++ {
			if v.Type().Field(i).PkgPath != "" {
				continue // unexported
			}
			n += Scramble(v.Field(i), depth+1)
		}
		return n
	case reflect.Slice:
		n := 0
		for i := 0; i < v.Len(); i++ {
			n += Scramble(v.Index(i), depth+1)
		}
		return n
	case reflect.Array:
		n := 0
		for i := 0; i < v.Len(); i++ {
			n += Scramble(v.Index(i), depth+1)
		}
		return n
	case reflect.Uint8, reflect.Uint16, reflect.Uint32, reflect.Uint64, reflect.Uint:
		if v.CanSet() {
			v.SetUint(v.Uint() ^ 0xa5)
			return 1
		}
	case reflect.Bool:
		if v.CanSet() {
			v.SetBool(!v.Bool())
			return 1
		}
	}
	return 0
}

// AliasProbe of a struct's View(): the tree-backed view made from a Go struct must not share memory with it.
// Returns the live check of the view against the ORIGINAL content after the struct has been scrambled.
func (s *Setup) ViewAliasProbe(e *hx.Env, pi int, ent *Entry, r *hx.Rng) (done bool, err error) {
	if ent.View == nil {
		return false, nil
	}
	p := s.Presets[pi]
	t, err := s.Sch.Instantiate(ent.Name, p.Cfg)
	if err != nil {
		return false, err
	}
	obj := ent.New()
	m := reflect.ValueOf(obj).MethodByName("View")
	if !m.IsValid() {
		return false, nil
	}
	var args []reflect.Value
	switch m.Type().NumIn() {
	case 0:
	case 1:
		if m.Type().In(0) != reflect.TypeOf(p.Spec) {
			return false, nil // e.g. Balances.View(limit)
		}
		args = []reflect.Value{reflect.ValueOf(p.Spec)}
	default:
		return false, nil
	}
	g := NewGen(r.Fork(), 200)
	g.Mode = 2 // non-zero content, so that scrambling is visible
	val := g.Tree(t)
	o, err := sszOf(p.Spec, obj)
	if err != nil {
		return false, err
	}
	if err := decode(o, val.Bytes()); err != nil {
		return false, nil // value not decodable by the struct form (C04's business)
	}
	var vw view.View
	var note string
	pan, pv := hx.Catch(func() {
		out := m.Call(args)
		if len(out) == 2 && !out[1].IsNil() {
			note = fmt.Sprint("View() error: ", out[1].Interface())
			return
		}
		if out[0].Kind() == reflect.Ptr && out[0].IsNil() {
			note = "View() returned nil"
			return
		}
		x, ok := out[0].Interface().(view.View)
		if !ok {
			note = fmt.Sprintf("View() returned %T", out[0].Interface())
			return
		}
		vw = x
		_ = vw.HashTreeRoot(tree.GetHashFn()) // let every inner node cache its root before the caller's value changes
	})
	if pan {
		note = fmt.Sprint("View() panicked: ", pv)
	}
	if vw == nil {
		if note == "View() returned nil" || note == "" {
			return false, nil
		}
		// a View() that fails on an in-limit value is reported as an inconsistent live case
		en := &Engine{S: s, PI: pi, P: p, Ent: ent, T: t, TD: ent.View(p.Spec), R: r}
		c := LiveCheck{Name: "View()", Expect: val.Bytes(), Note: note}
		s.AddLiveCase(e, en, c, "alias/view_failed", []string{ent.Name + ".View()"})
		return true, nil
	}
	cells := Scramble(reflect.ValueOf(obj), 0)
	en := &Engine{S: s, PI: pi, P: p, Ent: ent, T: t, TD: ent.View(p.Spec), R: r}
	l := &Live{Name: "View()", Root: vw, Shadow: val}
	c := en.Check(l)
	kind := "alias/struct_view_independent"
	if !c.Consistent {
		kind = "alias/struct_view_shares_memory"
		c.Note += fmt.Sprintf(" the view returned by %s.View() changed when the caller's struct was overwritten afterwards (%d cells)", ent.Name, cells)
	}
	s.AddLiveCase(e, en, c, kind, []string{ent.Name + ".View()", fmt.Sprintf("overwrite the struct (%d cells)", cells)})
	return true, nil
}

// ViewAliasProbes: every registry type that has a View() method, under the given presets.
func (s *Setup) ViewAliasProbes(e *hx.Env, presets []int, perType int) error {
	n := 0
	for i := range Registry {
		for _, pi := range presets {
			for k := 0; k < perType; k++ {
				done, err := s.ViewAliasProbe(e, pi, &Registry[i], e.Rng.Fork())
				if err != nil {
					return err
				}
				if done {
					n++
				}
			}
		}
	}
	e.Extra["x_struct_view_alias_probes"] = n
	return nil
}
