package sszgen

import (
	"bytes"
	"fmt"

	"verifharness/hx"

	"github.com/protolambda/ztyp/codec"
	"github.com/protolambda/ztyp/tree"
	"github.com/protolambda/ztyp/view"
)

// Live: a tree-backed value under mutation together with its shadow (the content it must hold).
type Live struct {
	Name   string
	Root   view.View
	Shadow *Val
}

// Engine: random mutation programs over tree-backed views, driven by the specification's schema.
// Every operation is applied to the ztyp view through its public API and to the shadow value; after every
// step the view must serialize to the shadow's canonical bytes and hash to the root of that content.
type Engine struct {
	S     *Setup
	PI    int
	P     *Preset
	Ent   *Entry
	T     *Ty
	TD    view.TypeDef
	R     *hx.Rng
	Lives []*Live
	Steps []string
	AllowComplexPop bool
}

func viewFromBytes(td view.TypeDef, b []byte) (view.View, error) {
	return td.Deserialize(codec.NewDecodingReader(bytes.NewReader(b), uint64(len(b))))
}

func viewBytes(v view.View) ([]byte, error) {
	var buf bytes.Buffer
	err := v.Serialize(codec.NewEncodingWriter(&buf))
	return buf.Bytes(), err
}

func NewEngine(s *Setup, pi int, ent *Entry, r *hx.Rng, budget int) (*Engine, error) {
	p := s.Presets[pi]
	t, err := s.Sch.Instantiate(ent.Name, p.Cfg)
	if err != nil {
		return nil, err
	}
	if ent.View == nil {
		return nil, fmt.Errorf("%s has no view type", ent.Name)
	}
	e := &Engine{S: s, PI: pi, P: p, Ent: ent, T: t, TD: ent.View(p.Spec), R: r}
	g := NewGen(r.Fork(), budget)
	val := g.Tree(t)
	root, err := viewFromBytes(e.TD, val.Bytes())
	if err != nil {
		return nil, fmt.Errorf("initial value refused by the view type: %v", err)
	}
	e.Lives = []*Live{{Name: "A", Root: root, Shadow: val}}
	return e, nil
}

// child view / type definition / shadow of a composite node
func childView(v view.View, i uint64) (view.View, error) {
	switch vv := v.(type) {
	case *view.ContainerView:
		return vv.Get(i)
	case *view.ComplexListView:
		return vv.Get(i)
	case *view.ComplexVectorView:
		return vv.Get(i)
	case *view.BasicListView:
		return vv.Get(i)
	case *view.BasicVectorView:
		return vv.Get(i)
	}
	return nil, fmt.Errorf("no children in %T", v)
}

func elemTypeDef(td view.TypeDef, i int) (view.TypeDef, error) {
	switch d := td.(type) {
	case *view.ContainerTypeDef:
		return d.Fields[i].Type, nil
	case *view.ComplexListTypeDef:
		return d.ElemType, nil
	case *view.ComplexVectorTypeDef:
		return d.ElemType, nil
	case *view.BasicListTypeDef:
		return d.ElemType, nil
	case *view.BasicVectorTypeDef:
		return d.ElemType, nil
	}
	return nil, fmt.Errorf("no element type in %T", td)
}

func isCompositeView(v view.View) bool {
	switch v.(type) {
	case *view.ContainerView, *view.ComplexListView, *view.ComplexVectorView, *view.BasicListView, *view.BasicVectorView:
		return true
	}
	return false
}

// node: a position inside a live value
type node struct {
	v    view.View
	sh   *Val
	path string
}

// walk down random composite children, at most depth levels
func (e *Engine) pickNode(l *Live, depth int, want func(n node) bool) (node, bool) {
	cur := node{l.Root, l.Shadow, l.Name}
	var cands []node
	if want(cur) {
		cands = append(cands, cur)
	}
	for d := 0; d < depth; d++ {
		if isLeaf(cur.sh.T) || len(cur.sh.Elems) == 0 || !isCompositeView(cur.v) {
			break
		}
		// prefer composite children
		var idx []int
		for i, c := range cur.sh.Elems {
			if !isLeaf(c.T) {
				idx = append(idx, i)
			}
		}
		if len(idx) == 0 {
			break
		}
		i := idx[e.R.Intn(len(idx))]
		cv, err := childView(cur.v, uint64(i))
		if err != nil || !isCompositeView(cv) {
			break
		}
		cur = node{cv, cur.sh.Elems[i], fmt.Sprintf("%s/%d", cur.path, i)}
		if want(cur) {
			cands = append(cands, cur)
		}
	}
	if len(cands) == 0 {
		return node{}, false
	}
	return cands[e.R.Intn(len(cands))], true
}

func (e *Engine) newVal(t *Ty) *Val {
	g := NewGen(e.R.Fork(), 120)
	return g.Tree(t)
}

func setChild(v view.View, i uint64, nv view.View) error {
	switch vv := v.(type) {
	case *view.ContainerView:
		return vv.Set(i, nv)
	case *view.ComplexListView:
		return vv.Set(i, nv)
	case *view.ComplexVectorView:
		return vv.Set(i, nv)
	case *view.BasicListView:
		bv, ok := nv.(view.BasicView)
		if !ok {
			return fmt.Errorf("not a basic view: %T", nv)
		}
		return vv.Set(i, bv)
	case *view.BasicVectorView:
		bv, ok := nv.(view.BasicView)
		if !ok {
			return fmt.Errorf("not a basic view: %T", nv)
		}
		return vv.Set(i, bv)
	}
	return fmt.Errorf("cannot set a child of %T", v)
}

// Step applies one random operation; returns its description.
func (e *Engine) Step() (string, error) {
	l := e.Lives[e.R.Intn(len(e.Lives))]
	for try := 0; try < 20; try++ {
		switch e.R.Intn(10) {
		case 0, 1, 2: // set a field / element through the parent's setter
			n, ok := e.pickNode(l, 2, func(n node) bool { return !isLeaf(n.sh.T) && len(n.sh.Elems) > 0 })
			if !ok {
				continue
			}
			i := e.R.Intn(len(n.sh.Elems))
			etd, err := elemTypeDef(n.v.Type(), i)
			if err != nil {
				return "", err
			}
			nv := e.newVal(n.sh.Elems[i].T)
			vv, err := viewFromBytes(etd, nv.Bytes())
			if err != nil {
				return "", fmt.Errorf("set %s[%d]: new element refused: %v", n.path, i, err)
			}
			if err := setChild(n.v, uint64(i), vv); err != nil {
				return "", fmt.Errorf("set %s[%d]: %v", n.path, i, err)
			}
			n.sh.Elems[i] = nv
			return fmt.Sprintf("set %s[%d]", n.path, i), nil
		case 3, 4: // append to a list
			n, ok := e.pickNode(l, 2, func(n node) bool { return n.sh.T.Kind == KList && uint64(len(n.sh.Elems)) < n.sh.T.N })
			if !ok {
				continue
			}
			etd, _ := elemTypeDef(n.v.Type(), 0)
			nv := e.newVal(n.sh.T.Elem)
			vv, err := viewFromBytes(etd, nv.Bytes())
			if err != nil {
				return "", fmt.Errorf("append %s: new element refused: %v", n.path, err)
			}
			switch lv := n.v.(type) {
			case *view.ComplexListView:
				err = lv.Append(vv)
			case *view.BasicListView:
				err = lv.Append(vv.(view.BasicView))
			default:
				continue
			}
			if err != nil {
				return "", fmt.Errorf("append %s: %v", n.path, err)
			}
			n.sh.Elems = append(n.sh.Elems, nv)
			return "append " + n.path, nil
		case 5: // pop from a list
			n, ok := e.pickNode(l, 2, func(n node) bool { return n.sh.T.Kind == KList && len(n.sh.Elems) > 0 })
			if !ok {
				continue
			}
			var err error
			switch lv := n.v.(type) {
			case *view.ComplexListView:
				// ztyp's ComplexListView.Pop zeroes the node at index len instead of len-1 (known finding, never
				// called by zrnt); it is exercised by PopProbe only, so that programs keep running on sound trees
				if !e.AllowComplexPop {
					continue
				}
				err = lv.Pop()
			case *view.BasicListView:
				err = lv.Pop()
			default:
				continue
			}
			if err != nil {
				return "", fmt.Errorf("pop %s: %v", n.path, err)
			}
			n.sh.Elems = n.sh.Elems[:len(n.sh.Elems)-1]
			return "pop " + n.path, nil
		case 6: // whole-subtree replacement: SetBacking with the backing of a freshly built value
			n, ok := e.pickNode(l, 2, func(n node) bool { return !isLeaf(n.sh.T) })
			if !ok {
				continue
			}
			nv := e.newVal(n.sh.T)
			vv, err := viewFromBytes(n.v.Type(), nv.Bytes())
			if err != nil {
				return "", fmt.Errorf("replace %s: new value refused: %v", n.path, err)
			}
			if err := n.v.SetBacking(vv.Backing()); err != nil {
				return "", fmt.Errorf("replace %s: %v", n.path, err)
			}
			n.sh.B, n.sh.Elems = nv.B, nv.Elems
			return "set_backing " + n.path, nil
		case 7: // reset a list / container to its default
			n, ok := e.pickNode(l, 2, func(n node) bool { return n.sh.T.Kind == KList && len(n.sh.Elems) > 0 })
			if !ok {
				continue
			}
			if err := n.v.SetBacking(n.v.Type().DefaultNode()); err != nil {
				return "", fmt.Errorf("reset %s: %v", n.path, err)
			}
			n.sh.Elems = nil
			return "reset " + n.path, nil
		case 8: // copy (shares structure with the original)
			if len(e.Lives) >= 3 {
				continue
			}
			cp, err := l.Root.Copy()
			if err != nil {
				return "", fmt.Errorf("copy %s: %v", l.Name, err)
			}
			nl := &Live{Name: fmt.Sprintf("%s'%d", l.Name, len(e.Lives)), Root: cp, Shadow: l.Shadow.Clone()}
			e.Lives = append(e.Lives, nl)
			return "copy " + l.Name + " -> " + nl.Name, nil
		case 9: // graft: a subtree of one copy becomes the backing of the same position in another
			if len(e.Lives) < 2 {
				continue
			}
			o := e.Lives[e.R.Intn(len(e.Lives))]
			if o == l || len(l.Shadow.Elems) == 0 {
				continue
			}
			i := e.R.Intn(len(l.Shadow.Elems))
			if isLeaf(l.Shadow.Elems[i].T) {
				continue
			}
			dst, err1 := childView(l.Root, uint64(i))
			src, err2 := childView(o.Root, uint64(i))
			if err1 != nil || err2 != nil || !isCompositeView(dst) {
				continue
			}
			if err := dst.SetBacking(src.Backing()); err != nil {
				return "", fmt.Errorf("graft: %v", err)
			}
			l.Shadow.Elems[i] = o.Shadow.Elems[i].Clone()
			return fmt.Sprintf("graft %s[%d] <- %s[%d]", l.Name, i, o.Name, i), nil
		}
	}
	return "noop", nil
}

// CheckResult of one live value against its shadow.
type LiveCheck struct {
	Name        string
	Expect      []byte
	SameBytes   bool
	Root        [32]byte
	FreshRoot   [32]byte
	StructRoot  [32]byte
	StructOK    bool
	Consistent  bool
	Note        string
}

func (e *Engine) Check(l *Live) LiveCheck {
	c := LiveCheck{Name: l.Name, Expect: l.Shadow.Bytes()}
	pan, pv := hx.Catch(func() {
		got, err := viewBytes(l.Root)
		if err != nil {
			c.Note = "serialize: " + err.Error()
		}
		c.SameBytes = bytes.Equal(got, c.Expect)
		c.Root = l.Root.HashTreeRoot(tree.GetHashFn())
		fresh, err := viewFromBytes(e.TD, c.Expect)
		if err != nil {
			c.Note += " fresh view refused the shadow bytes: " + err.Error()
			return
		}
		c.FreshRoot = fresh.HashTreeRoot(tree.GetHashFn())
		obj := e.Ent.New()
		o, err := sszOf(e.P.Spec, obj)
		if err == nil {
			if err = decode(o, c.Expect); err == nil {
				c.StructRoot = o.HashTreeRoot(tree.GetHashFn())
				c.StructOK = true
			}
		}
		if err != nil {
			c.Note += " struct form refused the shadow bytes: " + err.Error()
		}
	})
	if pan {
		c.Note += fmt.Sprint(" panic: ", pv)
	}
	c.Consistent = c.SameBytes && c.StructOK && c.Root == c.FreshRoot && c.Root == c.StructRoot && c.Note == ""
	return c
}

// PopProbe: one Pop on the first non-empty list of non-basic elements found at depth <= 2.
func (e *Engine) PopProbe() (string, bool) {
	l := e.Lives[0]
	n, ok := e.pickNode(l, 2, func(n node) bool {
		_, isC := n.v.(*view.ComplexListView)
		return isC && n.sh.T.Kind == KList && len(n.sh.Elems) > 0
	})
	if !ok {
		return "", false
	}
	if err := n.v.(*view.ComplexListView).Pop(); err != nil {
		return "pop failed: " + err.Error(), true
	}
	n.sh.Elems = n.sh.Elems[:len(n.sh.Elems)-1]
	return "pop " + n.path, true
}
