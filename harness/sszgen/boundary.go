package sszgen

import (
	"bytes"
	"fmt"

	"verifharness/hx"

	"github.com/protolambda/ztyp/tree"
)

// boundary element counts: around the chunk sizes 32 and 256, multiples of 4/8/64/256/512/4096 (byte lengths that are
// multiples of 32, 64, 256, 4096 for uint8 and uint64 elements)
var boundaryCounts = []uint64{0, 1, 4, 8, 31, 32, 33, 64, 255, 256, 257, 511, 512, 513, 1024, 4096}

// BoundaryLengthCases: for every list / bitlist / byte-list type of the registry, values with exactly the boundary
// element counts (mainnet limits, so that the big registries are not clipped), everything else minimal; and for every
// container, each of its first limited nodes forced to the nested counts.  Encodings up to coqMaxBytes go to the
// model; larger ones are compared on the Go side only (struct form vs view form vs own re-decode).
func (s *Setup) BoundaryLengthCases(e *hx.Env, coqMaxBytes, goMaxBytes int, nested []uint64) error {
	pi := 0 // mainnet
	p := s.Presets[pi]
	h := tree.GetHashFn()
	nCoq, nGo, nNested := 0, 0, 0
	for i := range Registry {
		ent := &Registry[i]
		t, err := s.Sch.Instantiate(ent.Name, p.Cfg)
		if err != nil {
			return err
		}
		top := t.Kind == KList || t.Kind == KByteList || t.Kind == KBitlist
		counts := boundaryCounts
		nodes := []int{0}
		if !top {
			if t.Kind != KContainer {
				continue
			}
			probe := NewGen(e.Rng.Fork(), 0)
			probe.Mode = 1
			probe.Value(t)
			nodes = nil
			for j := 0; j < probe.Nodes() && j < 8; j++ {
				nodes = append(nodes, j)
			}
			counts = nested
		}
		for _, node := range nodes {
			for _, c := range counts {
				g := NewGen(e.Rng.Fork(), 0)
				g.Mode = 1 // everything else empty / zero ...
				g.Force, g.ForceCount = node, c
				// ... a size guard before building: a forced count of large elements can be huge
				val := func() *Val {
					defer func() { recover() }()
					if top && t.Kind == KList {
						if sz := t.Elem.MinSize(); sz*c > uint64(goMaxBytes) {
							return nil
						}
					}
					return g.Tree(t)
				}()
				if val == nil || !g.DidForce {
					continue
				}
				fillNonZero(val, e.Rng) // ... but the forced elements carry data
				b := val.Bytes()
				if len(b) > goMaxBytes || (!top && len(b) > coqMaxBytes) {
					continue
				}
				kind := fmt.Sprintf("boundary_length/%s", kindName(t))
				if !top {
					kind = "boundary_length/nested"
					nNested++
				}
				if len(b) <= coqMaxBytes {
					if s.AddCaseVal(e, ent, pi, b, kind, false, nil) != nil {
						nCoq++
					}
					continue
				}
				// Go-side only
				key := fmt.Sprintf("%s|%d|%x", ent.Name, pi, b)
				if s.Seen[key] {
					continue
				}
				s.Seen[key] = true
				obs := Observe(ent, p, b, false)
				ok := !obs.Refused && !obs.Panicked && bytes.Equal(obs.Reser, b) && obs.ByteLen == uint64(len(b)) &&
					(!obs.HasView || (!obs.ViewRef && !obs.ViewPanic && obs.ViewSame && obs.ViewRoot == obs.Root))
				if ok {
					// and the root does not depend on the object that decoded it
					fresh := ent.New()
					if o2, err := sszOf(p.Spec, fresh); err == nil && decode(o2, b) == nil {
						ok = o2.HashTreeRoot(h) == obs.Root
					}
				}
				nGo++
				js := obs.JSON()
				delete(js, "reserialized")
				e.Add(hx.Case{Coq: fmt.Sprintf("CZeroGo \"%s boundary length %d\" %s", ent.Name, c, hx.CoqBool(ok)), Kind: kind + "_go_only",
					NonTrivial: true, Key: key,
					JSON: map[string]interface{}{"type": ent.Name, "preset": p.Name, "cfg": p.Cfg, "elements": c, "input_len": len(b),
						"input": truncHex(b, 300), "kind": kind, "go": js,
						"what": "too large for in-Coq evaluation: struct form must accept, reproduce the bytes and the length, and agree with the view form"}})
			}
		}
	}
	e.Extra["x_boundary_length_cases"] = map[string]int{"judged_by_model": nCoq, "go_side_only": nGo, "of_which_nested": nNested}
	return nil
}

// fillNonZero: give the leaves of list elements recognisable non-zero content (position-dependent), so that a decoder
// that drops, repeats or shifts elements is visible.
func fillNonZero(v *Val, r *hx.Rng) {
	var walk func(v *Val, inList bool, idx int)
	walk = func(v *Val, inList bool, idx int) {
		switch v.T.Kind {
		case KList:
			for i, el := range v.Elems {
				walk(el, true, i)
			}
		case KVector, KContainer:
			for _, el := range v.Elems {
				walk(el, inList, idx)
			}
		case KUint:
			if inList {
				for j := range v.B {
					v.B[j] = 0
				}
				x := uint64(idx)*7 + 1
				for j := 0; j < len(v.B) && j < 8; j++ {
					v.B[j] = byte(x >> (8 * uint(j)))
				}
				if len(v.B) == 1 {
					v.B[0] = byte(idx%7 + 1) // participation flags stay small but non-zero
				}
			}
		case KByteVector:
			if inList {
				for j := range v.B {
					v.B[j] = byte(idx + j + 1)
				}
			}
		case KByteList:
			for j := range v.B {
				v.B[j] = byte(j*13 + 1)
			}
		case KBitlist:
			// keep the delimiter (highest set bit of the last byte), set data bits
			n := len(v.B)
			for j := 0; j < n-1; j++ {
				v.B[j] = 0xa5
			}
		}
	}
	walk(v, false, 0)
}
