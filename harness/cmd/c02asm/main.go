// C02ASM correspondence harness: runs the exported zrnt functions mirrored by the new Impl models of the C02 assembly
// (coq/Beacon/Impl/SyncRotation.v, Upgrades.v) on small states and prints each observation as a case of
// coq/Beacon/Refine/AsmRun.v (impl_ok: Go = Impl model; spec_ok: Go = Spec function inside the documented domain).
//
//	sync  : common.ComputeSyncCommitteeIndices(spec, state, baseEpoch, active)  (uncapped sampling loop: run under a deadline)
//	flags : altair.GetApplicableAttestationParticipationFlags(spec, state, data, inclusionDelay)
package main

import (
	"bytes"
	"fmt"
	"strings"
	"time"
	. "verifharness/hx"

	"github.com/protolambda/zrnt/eth2/beacon/altair"
	"github.com/protolambda/zrnt/eth2/beacon/common"
	"github.com/protolambda/zrnt/eth2/beacon/phase0"
	"github.com/protolambda/zrnt/eth2/configs"
	"github.com/protolambda/ztyp/codec"
	"github.com/protolambda/ztyp/view"
)

func main() { Main("C02ASM", run) }

const FAR = ^uint64(0)
const ETH = uint64(1000000000)

// mirrors run_num of AsmRun.v (the rest is Fixtures.tiny_num = minimal preset shape)
func mkSpec(size, rounds, la uint64) *common.Spec {
	c := *configs.Minimal
	s := &c
	s.SYNC_COMMITTEE_SIZE = view.Uint64View(size)
	s.SHUFFLE_ROUND_COUNT = view.Uint8View(rounds)
	s.MIN_SEED_LOOKAHEAD = common.Epoch(la)
	s.SLOTS_PER_EPOCH = 4
	s.SLOTS_PER_HISTORICAL_ROOT = 16
	s.EPOCHS_PER_HISTORICAL_VECTOR = 16
	s.EPOCHS_PER_SLASHINGS_VECTOR = 8
	s.MAX_EFFECTIVE_BALANCE = common.Gwei(32 * ETH)
	s.EFFECTIVE_BALANCE_INCREMENT = common.Gwei(ETH)
	s.MIN_ATTESTATION_INCLUSION_DELAY = 1
	s.HISTORICAL_ROOTS_LIMIT = 16777216
	s.VALIDATOR_REGISTRY_LIMIT = 1099511627776
	return s
}

func patt(b uint64) (r common.Root) {
	for i := range r {
		r[i] = byte(b)
	}
	return
}

type CP struct{ Epoch, B uint64 }

// run_state of AsmRun.v
func buildState(spec *common.Spec, slot uint64, effs []uint64, mseed, rseed uint64, pj, cj CP) (*phase0.BeaconStateView, error) {
	vals := make(phase0.ValidatorRegistry, len(effs))
	bals := make(phase0.Balances, len(effs))
	for i, e := range effs {
		vals[i] = &phase0.Validator{EffectiveBalance: common.Gwei(e), ActivationEpoch: 0, ExitEpoch: common.Epoch(FAR),
			ActivationEligibilityEpoch: 0, WithdrawableEpoch: common.Epoch(FAR)}
		bals[i] = common.Gwei(e)
	}
	br := make(phase0.HistoricalBatchRoots, 16)
	sr := make(phase0.HistoricalBatchRoots, 16)
	mixes := make(phase0.RandaoMixes, 16)
	for i := uint64(0); i < 16; i++ {
		br[i] = patt(rseed + i)
		sr[i] = patt(rseed + 100 + i)
		mixes[i] = patt(mseed + 7*i)
	}
	s := &phase0.BeaconState{Slot: common.Slot(slot), Fork: common.Fork{PreviousVersion: common.Version{0, 0, 0, 1}, CurrentVersion: common.Version{0, 0, 0, 1}},
		BlockRoots: br, StateRoots: sr, Validators: vals, Balances: bals, RandaoMixes: mixes, Slashings: make(phase0.SlashingsHistory, 8),
		PreviousJustifiedCheckpoint: common.Checkpoint{Epoch: common.Epoch(pj.Epoch), Root: patt(pj.B)},
		CurrentJustifiedCheckpoint:  common.Checkpoint{Epoch: common.Epoch(cj.Epoch), Root: patt(cj.B)}}
	var buf bytes.Buffer
	if err := s.Serialize(spec, codec.NewEncodingWriter(&buf)); err != nil {
		return nil, err
	}
	data := buf.Bytes()
	return phase0.AsBeaconStateView(phase0.BeaconStateType(spec).Deserialize(codec.NewDecodingReader(bytes.NewReader(data), uint64(len(data)))))
}

func u64s(xs []uint64) string {
	ss := make([]string, len(xs))
	for i, x := range xs {
		ss[i] = fmt.Sprintf("%d", x)
	}
	return "[" + strings.Join(ss, "; ") + "]"
}

// ---------- sync-committee indices ----------
type syncRes struct {
	idx      []common.ValidatorIndex
	err      error
	panicked bool
}

func syncCase(e *Env, kind string, size, rounds, la, slot uint64, effs []uint64, mseed, base uint64, active []uint64) error {
	spec := mkSpec(size, rounds, la)
	st, err := buildState(spec, slot, effs, mseed, 0, CP{}, CP{})
	if err != nil {
		return err
	}
	act := make([]common.ValidatorIndex, len(active))
	for i, a := range active {
		act[i] = common.ValidatorIndex(a)
	}
	ch := make(chan syncRes, 1)
	go func() {
		var r syncRes
		r.panicked, _ = Catch(func() { r.idx, r.err = common.ComputeSyncCommitteeIndices(spec, st, common.Epoch(base), act) })
		ch <- r
	}()
	res := "GoNoReturn"
	fuel := uint64(300) // the model is asked whether it is still sampling after this many candidates
	select {
	case r := <-ch:
		fuel = 40000 // a bound only: the model stops when the committee is full
		if r.panicked {
			res = "GoPanic"
		} else if r.err != nil {
			res = "GoErr"
		} else {
			xs := make([]uint64, len(r.idx))
			for i, x := range r.idx {
				xs[i] = uint64(x)
			}
			res = "(GoOk " + u64s(xs) + ")"
		}
	case <-time.After(2 * time.Second): // the loop has no cap
	}
	coq := fmt.Sprintf("SyncCase %d %d %d %d %s %d %d %s %d %s", size, rounds, la, slot, u64s(effs), mseed, base, u64s(active), fuel, res)
	e.Add(Case{Coq: coq, Kind: kind, NonTrivial: strings.HasPrefix(res, "(GoOk") && len(effs) > 1,
		JSON: map[string]interface{}{"size": size, "rounds": rounds, "lookahead": la, "slot": slot, "effs": effs, "mseed": mseed, "base": base, "active": active, "go": res}})
	return nil
}

func genSync(e *Env) error {
	r := e.Rng
	n := e.N(60, 600)
	for k := 0; k < n; k++ {
		size := []uint64{1, 2, 4, 8, 8, 16, 32}[r.Intn(7)]
		rounds := []uint64{0, 1, 2, 2, 3, 10}[r.Intn(6)]
		la := uint64(1 + r.Intn(2))
		slot := uint64(r.Intn(80))
		nv := 1 + r.Intn(12)
		effs := make([]uint64, nv)
		for i := range effs {
			switch r.Intn(6) {
			case 0:
				effs[i] = 0
			case 1:
				effs[i] = 32 * ETH
			case 2:
				effs[i] = ETH
			default:
				effs[i] = uint64(r.Intn(33)) * ETH
			}
		}
		epoch := slot / 4
		base := epoch + 1
		active := make([]uint64, nv)
		for i := range active {
			active[i] = uint64(i)
		}
		kind := "sync"
		switch r.Intn(14) {
		case 0: // no active validators
			active = nil
			kind = "sync-empty"
		case 1: // base epoch beyond the look-ahead
			base = epoch + 2 + uint64(r.Intn(3))
			kind = "sync-far"
		case 2: // an earlier epoch is allowed by zrnt
			if epoch > 0 {
				base = epoch
			}
			kind = "sync-past"
		case 3: // an index outside the registry: a tree-view error when (if) it is drawn
			active = append(active, uint64(nv+r.Intn(3)))
			kind = "sync-oob"
		case 4: // a sub-list / permuted list as active set
			for i := range active {
				j := r.Intn(len(active))
				active[i], active[j] = active[j], active[i]
			}
			active = active[:1+r.Intn(len(active))]
			kind = "sync-sublist"
		case 5: // every effective balance zero: a candidate is accepted only when the random byte is 0 (about 256 candidates per seat)
			if k%3 == 0 {
				for i := range effs {
					effs[i] = 0
				}
				kind = "sync-zero"
			}
		}
		// many candidates per block of 32: long runs cross the i%32 == 0 hash refresh
		if kind == "sync" && r.Chance(25) {
			for i := range effs {
				effs[i] = ETH
			}
			size = 32
			kind = "sync-long"
		}
		if err := syncCase(e, kind, size, rounds, la, slot, effs, uint64(r.Intn(200)), base, active); err != nil {
			return err
		}
	}
	return nil
}

// ---------- applicable participation flags ----------
func flagCase(e *Env, kind string, slot, rseed uint64, pj, cj CP, dSlot, dIndex, dBbr uint64, src, tgt CP, delay uint64) error {
	spec := mkSpec(8, 2, 1)
	st, err := buildState(spec, slot, nil, 0, rseed, pj, cj)
	if err != nil {
		return err
	}
	data := &phase0.AttestationData{Slot: common.Slot(dSlot), Index: common.CommitteeIndex(dIndex), BeaconBlockRoot: patt(dBbr),
		Source: common.Checkpoint{Epoch: common.Epoch(src.Epoch), Root: patt(src.B)},
		Target: common.Checkpoint{Epoch: common.Epoch(tgt.Epoch), Root: patt(tgt.B)}}
	var out altair.ParticipationFlags
	var ferr error
	panicked, _ := Catch(func() { out, ferr = altair.GetApplicableAttestationParticipationFlags(spec, st, data, common.Slot(delay)) })
	res := CoqGoResN(uint64(out), ferr, panicked)
	coq := fmt.Sprintf("FlagCase %d %d (%d, %d) (%d, %d) %d %d %d (%d, %d) (%d, %d) %d %s", slot, rseed, pj.Epoch, pj.B, cj.Epoch, cj.B,
		dSlot, dIndex, dBbr, src.Epoch, src.B, tgt.Epoch, tgt.B, delay, res)
	e.Add(Case{Coq: coq, Kind: kind, NonTrivial: ferr == nil && !panicked,
		JSON: map[string]interface{}{"slot": slot, "rseed": rseed, "pj": pj, "cj": cj, "data_slot": dSlot, "bbr": dBbr, "source": src, "target": tgt, "delay": delay, "go": res}})
	return nil
}

func genFlags(e *Env) error {
	r := e.Rng
	n := e.N(150, 1500)
	for k := 0; k < n; k++ {
		slot := uint64(5 + r.Intn(60))
		epoch := slot / 4
		rseed := uint64(r.Intn(150))
		pj := CP{uint64(r.Intn(int(epoch) + 1)), uint64(r.Intn(4))}
		cj := CP{uint64(r.Intn(int(epoch) + 1)), uint64(r.Intn(4))}
		// an attestation of the current or the previous epoch
		tEpoch := epoch
		if r.Bool() && epoch > 0 {
			tEpoch = epoch - 1
		}
		lo := tEpoch * 4
		dSlot := lo + uint64(r.Intn(4))
		if dSlot >= slot {
			dSlot = slot - 1
		}
		delay := slot - dSlot
		just := pj
		if tEpoch == epoch {
			just = cj
		}
		src := just
		root := func(s uint64) uint64 { return rseed + s%16 } // what the block-roots vector holds for slot s
		tgt := CP{tEpoch, root(tEpoch * 4)}
		bbr := root(dSlot)
		kind := "flags"
		switch r.Intn(9) {
		case 0:
			src.B++
			kind = "flags-wrong-source"
		case 1:
			src.Epoch++
			kind = "flags-wrong-source"
		case 2:
			tgt.B++
			kind = "flags-wrong-target"
		case 3:
			bbr++
			kind = "flags-wrong-head"
		case 4:
			delay = uint64(r.Intn(12)) // the caller's delay, around sqrt(SLOTS_PER_EPOCH) = 2 and SLOTS_PER_EPOCH = 4
			kind = "flags-delay"
		case 5: // older than the root vector: the Spec's range assertion fails, zrnt reads the vector modulo its length
			if slot > 20 {
				dSlot = slot - 17 - uint64(r.Intn(3))
				kind = "flags-out-of-range"
			}
		}
		if err := flagCase(e, kind, slot, rseed, pj, cj, dSlot, uint64(r.Intn(3)), bbr, src, tgt, delay); err != nil {
			return err
		}
	}
	return nil
}

func run(e *Env) error {
	e.Header = "From Coq Require Import NArith List.\nFrom V Require Import Base.Outcome Beacon.Refine.AsmRun.\nImport ListNotations.\nLocal Open Scope N_scope.\n"
	e.CaseType = "acase"
	e.ShardSize = 12
	e.Rule = "small phase0 tree states (1-12 validators, effective balances 0..32 ETH, patterned randao mixes / block roots, SLOTS_PER_EPOCH 4): ComputeSyncCommitteeIndices with committee sizes 1-32, 0-10 shuffle rounds, empty / permuted / out-of-registry active lists, base epochs before/at/after the look-ahead, all-zero effective balances (accepted only on a zero random byte; the uncapped loop runs under a 2 s deadline); GetApplicableAttestationParticipationFlags with matching and mismatching source/target/head, delays around the flag thresholds, slots outside the root vector. non-trivial = Go returned a value"
	if err := genSync(e); err != nil {
		return err
	}
	return genFlags(e)
}
