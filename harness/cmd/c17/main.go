// C17 runtime harness — SUPPORTING EVIDENCE ONLY (the claim of C17 is the Coq theorem about the extracted lock discipline).
//
// Built with -race.  The parent process (`harness_C17 <outdir> [replay.json]`) runs every scenario in a child process
// (`harness_C17 -child <spec.json> <result.json>`), so that race reports (GORACE log_path), fatal runtime errors
// ("concurrent map read and map write") and never-returning calls are attributed to one scenario.
//
//	mode "stress": G goroutines call random methods of ONE shared instance for D milliseconds.  A watchdog reports a call that
//	               has not returned after `deadline` ("blocked") and ends the child.
//	mode "lin":    many short bursts: a fresh instance, a deterministic sequential prefix, then 2..3 goroutines released by
//	               a barrier perform 1..3 calls each; the history (call, args, result, start/end stamps) is checked for
//	               linearizability against the SAME component executed sequentially (Wing-Gong search over all orders that
//	               respect real time).  The sequential behaviour itself is the business of C09-C11/C16/C20.
//
// When the Coq obligation `lock_ok` fails for some methods, the driver passes them in VERIF_C17_TARGET and the parent adds
// a targeted stress schedule of exactly these methods (plus the writers of the same component): the counterexample search.
package main

import (
	"encoding/json"
	"fmt"
	"os"
	"os/exec"
	"path/filepath"
	"regexp"
	"runtime"
	"sort"
	"strings"
	"sync"
	"sync/atomic"
	"time"
	. "verifharness/hx"
)

// ---- what a child is asked to do ----
type ScenarioSpec struct {
	Name      string   `json:"name"`
	Component string   `json:"component"`
	Mode      string   `json:"mode"` // stress | lin
	Methods   []string `json:"methods"`
	Threads   int      `json:"threads"`
	Millis    int      `json:"millis"`
	Bursts    int      `json:"bursts"`
	Seed      uint64   `json:"seed"`
	Deadline  int      `json:"deadline_ms"`
}

type CallRec struct {
	T      int    `json:"t"`
	Method string `json:"method"`
	Args   string `json:"args"`
	Res    string `json:"res"`
	Start  int64  `json:"start"`
	End    int64  `json:"end"`
}

type Finding struct {
	Kind      string        `json:"kind"` // race | blocked | nonlinearizable | fatal
	Scenario  string        `json:"scenario"`
	Component string        `json:"component"`
	Methods   []string      `json:"methods"`
	Detail    string        `json:"detail"`
	History   []CallRec     `json:"history,omitempty"`
	Prefix    []CallRec     `json:"prefix,omitempty"`
	Spec      *ScenarioSpec `json:"spec,omitempty"`
}

type ChildResult struct {
	Calls      int            `json:"calls"`
	PerMethod  map[string]int `json:"per_method"`
	Panics     map[string]int `json:"panics"`
	PanicMsgs  []string       `json:"panic_msgs,omitempty"`
	Histories  int            `json:"histories"`
	Overlapped int            `json:"overlapped"` // histories in which at least two calls really overlapped in time
	Findings   []Finding      `json:"findings"`
	Samples    []interface{}  `json:"samples,omitempty"`
}

func main() {
	if len(os.Args) >= 4 && os.Args[1] == "-child" {
		runChild(os.Args[2], os.Args[3])
		return
	}
	Main("C17", runParent)
}

// ------------------------------------------------------------------------------------------------------------------
// parent

var raceFn = regexp.MustCompile(`(?m)^\s+github\.com/protolambda/zrnt/[\w/.\-]+\.\(\*?(\w+)\)\.(\w+)\(\)`)

func runParent(e *Env) error {
	exe, err := os.Executable()
	if err != nil {
		return err
	}
	var specs []ScenarioSpec
	if e.Replay != "" {
		b, err := os.ReadFile(e.Replay)
		if err != nil {
			return err
		}
		var rp struct {
			FailingCase struct {
				Case Finding `json:"case"`
			} `json:"failing_case"`
		}
		if err := json.Unmarshal(b, &rp); err != nil {
			return err
		}
		if rp.FailingCase.Case.Spec == nil {
			return fmt.Errorf("replay file holds no scenario")
		}
		sp := *rp.FailingCase.Case.Spec
		if sp.Millis > 0 && sp.Millis < 4000 {
			sp.Millis = 4000
		}
		specs = []ScenarioSpec{sp}
	} else {
		specs = scenarioList(e)
	}
	type out struct {
		spec ScenarioSpec
		res  ChildResult
	}
	results := make([]out, len(specs))
	var wg sync.WaitGroup
	sem := make(chan struct{}, 4) // scenarios in parallel; each uses several goroutines
	for i := range specs {
		wg.Add(1)
		go func(i int) {
			defer wg.Done()
			sem <- struct{}{}
			defer func() { <-sem }()
			results[i] = out{specs[i], runScenario(exe, e.Out, specs[i])}
		}(i)
	}
	wg.Wait()
	total := ChildResult{PerMethod: map[string]int{}, Panics: map[string]int{}}
	hist := map[string]int{}
	var findings []Finding
	var samples []interface{}
	for _, r := range results {
		total.Calls += r.res.Calls
		total.Histories += r.res.Histories
		total.Overlapped += r.res.Overlapped
		for k, v := range r.res.PerMethod {
			total.PerMethod[k] += v
		}
		for k, v := range r.res.Panics {
			total.Panics[k] += v
		}
		hist[r.spec.Mode+":"+r.spec.Component] += r.res.Calls
		findings = append(findings, r.res.Findings...)
		if len(r.res.Samples) > 0 && len(samples) < 12 {
			samples = append(samples, r.res.Samples[0])
		}
		for _, m := range r.res.PanicMsgs {
			if len(total.PanicMsgs) < 12 {
				total.PanicMsgs = append(total.PanicMsgs, r.spec.Name+": "+m)
			}
		}
	}
	// one finding per (kind, component, methods)
	seen := map[string]bool{}
	var uniq []Finding
	for _, f := range findings {
		k := f.Kind + "|" + f.Component + "|" + strings.Join(f.Methods, ",")
		if !seen[k] {
			seen[k] = true
			uniq = append(uniq, f)
		}
	}
	b, _ := json.MarshalIndent(uniq, "", " ")
	if err := os.WriteFile(filepath.Join(e.Out, "findings.json"), b, 0o644); err != nil {
		return err
	}
	e.Rule = "runtime evidence only: stress = random mixed calls of all exported methods on one shared instance per component under the race detector with a per-call watchdog; " +
		"lin = barrier-released bursts of 2-3 goroutines x 1-3 calls, history checked for linearizability against the same code run sequentially; " +
		"non-trivial = a history in which two calls overlapped in real time; evaluations = calls executed"
	e.Extra["evaluations"] = total.Calls
	e.Extra["distinct_nontrivial"] = total.Overlapped
	e.Extra["histogram"] = hist
	e.Extra["samples"] = samples
	e.Extra["x_calls_per_method"] = total.PerMethod
	e.Extra["x_histories_checked"] = total.Histories
	e.Extra["x_histories_with_overlap"] = total.Overlapped
	e.Extra["x_panics_recovered_per_method"] = total.Panics
	e.Extra["x_panic_messages"] = total.PanicMsgs
	e.Extra["x_runtime_findings"] = len(uniq)
	e.Extra["x_scenarios"] = len(specs)
	return nil
}

func runScenario(exe, outdir string, sp ScenarioSpec) ChildResult {
	base := filepath.Join(outdir, "sc_"+sp.Name)
	specFile, resFile, raceLog := base+".spec.json", base+".result.json", base+".race"
	b, _ := json.Marshal(sp)
	os.WriteFile(specFile, b, 0o644)
	cmd := exec.Command(exe, "-child", specFile, resFile)
	cmd.Env = append(os.Environ(), "GORACE=log_path="+raceLog+" halt_on_error=0 exitcode=0")
	stderr, _ := os.Create(base + ".stderr")
	cmd.Stderr = stderr
	cmd.Stdout = stderr
	done := make(chan error, 1)
	if err := cmd.Start(); err != nil {
		return ChildResult{Findings: []Finding{{Kind: "fatal", Scenario: sp.Name, Component: sp.Component, Detail: "cannot start child: " + err.Error(), Spec: &sp}}}
	}
	go func() { done <- cmd.Wait() }()
	limit := time.Duration(sp.Millis+sp.Deadline)*time.Millisecond + 60*time.Second
	var werr error
	select {
	case werr = <-done:
	case <-time.After(limit):
		cmd.Process.Kill()
		werr = fmt.Errorf("child killed after %v", limit)
	}
	stderr.Close()
	var res ChildResult
	if rb, err := os.ReadFile(resFile); err == nil {
		json.Unmarshal(rb, &res)
	}
	if res.PerMethod == nil {
		res.PerMethod = map[string]int{}
	}
	for i := range res.Findings {
		res.Findings[i].Spec = &sp
	}
	// fatal runtime errors (concurrent map access is detected by the runtime itself and cannot be recovered)
	if werr != nil {
		eb, _ := os.ReadFile(base + ".stderr")
		msg := string(eb)
		kind := "fatal"
		detail := werr.Error()
		var meths []string
		if i := strings.Index(msg, "fatal error:"); i >= 0 {
			end := i + 2500
			if end > len(msg) {
				end = len(msg)
			}
			detail = msg[i:end]
			if strings.Contains(detail, "concurrent map") {
				kind = "race"
			}
			meths = methodsIn(msg[i:], sp.Component)
		} else if len(msg) > 0 {
			if len(msg) > 2500 {
				msg = msg[len(msg)-2500:]
			}
			detail += "\n" + msg
		}
		res.Findings = append(res.Findings, Finding{Kind: kind, Scenario: sp.Name, Component: sp.Component, Methods: meths, Detail: detail, Spec: &sp})
	}
	// race detector reports
	logs, _ := filepath.Glob(raceLog + ".*")
	for _, lf := range logs {
		lb, _ := os.ReadFile(lf)
		for _, rep := range strings.Split(string(lb), "==================") {
			if !strings.Contains(rep, "DATA RACE") {
				continue
			}
			meths := methodsIn(rep, "")
			if len(rep) > 3500 {
				rep = rep[:3500]
			}
			res.Findings = append(res.Findings, Finding{Kind: "race", Scenario: sp.Name, Component: sp.Component, Methods: meths, Detail: strings.TrimSpace(rep), Spec: &sp})
		}
	}
	return res
}

// Type.Method names of zrnt that occur in a race report / fatal trace (sorted, unique)
func methodsIn(rep string, _ string) []string {
	set := map[string]bool{}
	for _, m := range raceFn.FindAllStringSubmatch(rep, -1) {
		set[m[1]+"."+m[2]] = true
	}
	var out []string
	for k := range set {
		out = append(out, k)
	}
	sort.Strings(out)
	return out
}

func scenarioList(e *Env) []ScenarioSpec {
	ms := e.N(2500, 20000)
	bursts := e.N(400, 6000)
	var specs []ScenarioSpec
	for _, c := range componentNames() {
		specs = append(specs, ScenarioSpec{Name: "stress_" + c, Component: c, Mode: "stress", Threads: 6, Millis: ms, Seed: e.Rng.U64(), Deadline: 5000})
		specs = append(specs, ScenarioSpec{Name: "lin_" + c, Component: c, Mode: "lin", Threads: 3, Bursts: bursts, Seed: e.Rng.U64(), Deadline: 5000})
	}
	// targeted counterexample search for methods whose lock obligation failed: "Class.method,Class.method"
	if t := os.Getenv("VERIF_C17_TARGET"); t != "" {
		byComp := map[string][]string{}
		for _, cm := range strings.Split(t, ",") {
			parts := strings.SplitN(cm, ".", 2)
			if len(parts) != 2 {
				continue
			}
			if comp := componentOfClass(parts[0]); comp != "" {
				byComp[comp] = append(byComp[comp], parts[1])
			}
		}
		comps := make([]string, 0, len(byComp))
		for c := range byComp {
			comps = append(comps, c)
		}
		sort.Strings(comps)
		for _, c := range comps {
			specs = append(specs, ScenarioSpec{Name: "target_" + c, Component: c, Mode: "stress", Methods: targetMethods(c, byComp[c]),
				Threads: 6, Millis: e.N(4000, 20000), Seed: e.Rng.U64(), Deadline: 5000})
		}
	}
	return specs
}

// ------------------------------------------------------------------------------------------------------------------
// child

var stamp int64

func tick() int64 { return atomic.AddInt64(&stamp, 1) }

type slot struct {
	mu     sync.Mutex
	busy   bool
	since  time.Time
	method string
	args   string
}

func runChild(specFile, resFile string) {
	b, err := os.ReadFile(specFile)
	if err != nil {
		fmt.Fprintln(os.Stderr, err)
		os.Exit(3)
	}
	var sp ScenarioSpec
	if err := json.Unmarshal(b, &sp); err != nil {
		fmt.Fprintln(os.Stderr, err)
		os.Exit(3)
	}
	comp := componentByName(sp.Component)
	if comp == nil {
		fmt.Fprintln(os.Stderr, "unknown component", sp.Component)
		os.Exit(3)
	}
	res := &ChildResult{PerMethod: map[string]int{}, Panics: map[string]int{}}
	write := func() {
		rb, _ := json.Marshal(res)
		os.WriteFile(resFile, rb, 0o644)
	}
	switch sp.Mode {
	case "stress":
		stress(comp, sp, res)
	case "lin":
		linMode(comp, sp, res)
	}
	write()
}

// call runs one operation with panic recovery
func call(o Op, inst *Instance) (res string) {
	defer func() {
		if r := recover(); r != nil {
			res = fmt.Sprintf("panic: %v", r)
		}
	}()
	return o.Run(inst)
}

func stress(comp *Component, sp ScenarioSpec, res *ChildResult) {
	inst := comp.Fresh()
	for _, o := range comp.Prefix(inst) {
		call(o, inst)
	}
	g := sp.Threads
	slots := make([]*slot, g)
	for i := range slots {
		slots[i] = &slot{}
	}
	var stop int32
	var mu sync.Mutex
	var wg sync.WaitGroup
	deadline := time.Duration(sp.Deadline) * time.Millisecond
	for t := 0; t < g; t++ {
		wg.Add(1)
		go func(t int) {
			defer wg.Done()
			r := NewRng(sp.Seed + uint64(t)*7919)
			per := map[string]int{}
			pan := map[string]int{}
			var msgs []string
			n := 0
			for atomic.LoadInt32(&stop) == 0 {
				o := comp.Gen(r, t, inst, sp.Methods)
				s := slots[t]
				s.mu.Lock()
				s.busy, s.since, s.method, s.args = true, time.Now(), o.Method, o.Args
				s.mu.Unlock()
				out := call(o, inst)
				s.mu.Lock()
				s.busy = false
				s.mu.Unlock()
				per[o.Method]++
				n++
				if strings.HasPrefix(out, "panic:") {
					pan[o.Method]++
					if len(msgs) < 3 {
						msgs = append(msgs, o.Method+o.Args+" "+out)
					}
				}
				if n%64 == 0 {
					runtime.Gosched()
				}
			}
			mu.Lock()
			res.Calls += n
			for k, v := range per {
				res.PerMethod[k] += v
			}
			for k, v := range pan {
				res.Panics[k] += v
			}
			res.PanicMsgs = append(res.PanicMsgs, msgs...)
			mu.Unlock()
		}(t)
	}
	end := time.Now().Add(time.Duration(sp.Millis) * time.Millisecond)
	blocked := false
	finished := make(chan struct{})
	go func() { wg.Wait(); close(finished) }()
	allDone := false
	for !blocked && !allDone {
		select {
		case <-finished:
			allDone = true
			continue
		case <-time.After(50 * time.Millisecond):
		}
		if !time.Now().Before(end) {
			atomic.StoreInt32(&stop, 1) // the measuring period is over; keep watching until every call has returned
		}
		for t, s := range slots {
			s.mu.Lock()
			if s.busy && time.Since(s.since) > deadline {
				blocked = true
				// everybody who is stuck is part of the report
				var stuck []string
				for t2, s2 := range slots {
					if t2 != t {
						s2.mu.Lock()
					}
					if s2.busy && time.Since(s2.since) > deadline/2 {
						stuck = append(stuck, fmt.Sprintf("goroutine %d: %s%s running for %v", t2, s2.method, s2.args, time.Since(s2.since).Round(time.Millisecond)))
					}
					if t2 != t {
						s2.mu.Unlock()
					}
				}
				res.Findings = append(res.Findings, Finding{Kind: "blocked", Scenario: sp.Name, Component: sp.Component,
					Methods: []string{comp.Class + "." + s.method},
					Detail:  fmt.Sprintf("call did not return within %v: %s%s\n%s", deadline, s.method, s.args, strings.Join(stuck, "\n"))})
			}
			s.mu.Unlock()
			if blocked {
				break
			}
		}
	}
	atomic.StoreInt32(&stop, 1)
	if blocked {
		// the stuck goroutines never come back: report what the others did and leave
		time.Sleep(100 * time.Millisecond)
		mu.Lock()
		defer mu.Unlock()
		if res.Calls == 0 {
			res.Calls = 1
		}
		return
	}
	if len(res.PanicMsgs) > 6 {
		res.PanicMsgs = res.PanicMsgs[:6]
	}
}

// ---- linearizability ----
func linMode(comp *Component, sp ScenarioSpec, res *ChildResult) {
	r := NewRng(sp.Seed)
	deadline := time.Duration(sp.Deadline) * time.Millisecond
	for bi := 0; bi < sp.Bursts; bi++ {
		inst := comp.Fresh()
		prefix := comp.Prefix(inst)
		var prefRecs []CallRec
		for _, o := range prefix {
			prefRecs = append(prefRecs, CallRec{T: -1, Method: o.Method, Args: o.Args, Res: call(o, inst)})
		}
		g := 2 + r.Intn(2)
		if sp.Threads > 0 && g > sp.Threads {
			g = sp.Threads
		}
		plans := make([][]Op, g)
		for t := 0; t < g; t++ {
			k := 1 + r.Intn(3)
			for j := 0; j < k; j++ {
				plans[t] = append(plans[t], comp.GenLin(r, t, inst, sp.Methods))
			}
		}
		recs := make([][]CallRec, g)
		var start, wg sync.WaitGroup
		start.Add(1)
		for t := 0; t < g; t++ {
			wg.Add(1)
			go func(t int) {
				defer wg.Done()
				start.Wait()
				for _, o := range plans[t] {
					s := tick()
					out := call(o, inst)
					recs[t] = append(recs[t], CallRec{T: t, Method: o.Method, Args: o.Args, Res: out, Start: s, End: tick()})
				}
			}(t)
		}
		done := make(chan struct{})
		go func() { wg.Wait(); close(done) }()
		start.Done()
		select {
		case <-done:
		case <-time.After(deadline):
			var planned []CallRec
			var meths []string
			for t, p := range plans {
				for j, o := range p {
					st := "not returned"
					if j < len(recs[t]) {
						st = "returned"
					}
					planned = append(planned, CallRec{T: t, Method: o.Method, Args: o.Args, Res: st})
					if st != "returned" && j == len(recs[t]) {
						meths = append(meths, comp.Class+"."+o.Method)
					}
				}
			}
			sort.Strings(meths)
			res.Findings = append(res.Findings, Finding{Kind: "blocked", Scenario: sp.Name, Component: sp.Component, Methods: meths,
				Detail: fmt.Sprintf("burst %d did not finish within %v", bi, deadline), History: planned, Prefix: prefRecs})
			return // goroutines are stuck; this child is done
		}
		var h []CallRec
		var ops []Op
		for t := 0; t < g; t++ {
			for j, c := range recs[t] {
				h = append(h, c)
				ops = append(ops, plans[t][j])
				res.PerMethod[c.Method]++
				if strings.HasPrefix(c.Res, "panic:") {
					res.Panics[c.Method]++
				}
			}
		}
		res.Calls += len(h)
		res.Histories++
		overlap := false
		for i := range h {
			for j := range h {
				if i != j && h[i].T != h[j].T && h[i].Start < h[j].End && h[j].Start < h[i].End {
					overlap = true
				}
			}
		}
		if overlap {
			res.Overlapped++
		}
		if len(res.Samples) < 2 && overlap {
			res.Samples = append(res.Samples, map[string]interface{}{"kind": "lin:" + comp.Name, "case": h})
		}
		if !linearizable(comp, prefix, h, ops) {
			set := map[string]bool{}
			for _, c := range h {
				set[comp.Class+"."+c.Method] = true
			}
			var meths []string
			for k := range set {
				meths = append(meths, k)
			}
			sort.Strings(meths)
			res.Findings = append(res.Findings, Finding{Kind: "nonlinearizable", Scenario: sp.Name, Component: sp.Component, Methods: meths,
				Detail: "no sequential order of these calls (respecting real time) on a fresh instance gives these results", History: h, Prefix: prefRecs})
			if len(res.Findings) >= 5 {
				return
			}
		}
	}
}

// Wing-Gong: search an order of the calls that respects real time (a call that ended before another started comes first)
// such that the component executed sequentially in that order returns the recorded results.
func linearizable(comp *Component, prefix []Op, h []CallRec, ops []Op) bool {
	n := len(h)
	used := make([]bool, n)
	order := make([]int, 0, n)
	var try func() bool
	replayOK := func() bool {
		inst := comp.Fresh()
		for _, o := range comp.Prefix(inst) {
			call(o, inst)
		}
		for _, i := range order {
			if call(ops[i], inst) != h[i].Res {
				return false
			}
		}
		return true
	}
	try = func() bool {
		if len(order) == n {
			return true
		}
		for i := 0; i < n; i++ {
			if used[i] {
				continue
			}
			// i may come next only if no unused call ended before i started
			ok := true
			for j := 0; j < n; j++ {
				if !used[j] && j != i && h[j].End < h[i].Start {
					ok = false
					break
				}
			}
			if !ok {
				continue
			}
			used[i] = true
			order = append(order, i)
			if replayOK() && try() {
				return true
			}
			order = order[:len(order)-1]
			used[i] = false
		}
		return false
	}
	_ = prefix
	return try()
}
