package main

import (
	"context"
	"encoding/binary"
	"fmt"
	"sort"
	"strings"
	"sync"
	. "verifharness/hx"

	blsu "github.com/protolambda/bls12-381-util"
	"github.com/protolambda/zrnt/eth2/beacon/altair"
	"github.com/protolambda/zrnt/eth2/beacon/common"
	"github.com/protolambda/zrnt/eth2/beacon/phase0"
	"github.com/protolambda/zrnt/eth2/configs"
	"github.com/protolambda/zrnt/eth2/forkchoice"
	"github.com/protolambda/zrnt/eth2/forkchoice/proto"
	"github.com/protolambda/zrnt/eth2/pool"
	"github.com/protolambda/ztyp/view"
)

var spec = configs.Minimal

// Op: one call on the shared instance.  Run refers to objects by small ids only, so that the same Op can be replayed on
// a fresh instance (linearizability search).
type Op struct {
	Method string
	Args   string
	Run    func(inst *Instance) string
}

type Instance struct {
	fc    forkchoice.Forkchoice
	pc    *common.PubkeyCache
	att   *pool.AttestationPool
	asl   *pool.AttesterSlashingPool
	psl   *pool.ProposerSlashingPool
	exits *pool.VoluntaryExitPool
	sync  *pool.SyncCommitteePool
	// per goroutine scratch (never shared between goroutines)
	local [16]localState
}

type localState struct {
	roots []uint64 // fork choice: block ids created by this goroutine, known to the graph
	next  uint64
}

type Component struct {
	Name   string
	Class  string // Go type name
	Fresh  func() *Instance
	Prefix func(inst *Instance) []Op
	// method name -> generator; weights by repetition in `mix`
	gens   map[string]func(r *Rng, t int, inst *Instance, lin bool) Op
	mix    []string // methods drawn in stress mode
	linMix []string // methods drawn in linearizability bursts
}

func (c *Component) pick(r *Rng, t int, inst *Instance, only []string, mix []string, lin bool) Op {
	cand := mix
	if len(only) > 0 {
		cand = nil
		for _, m := range only {
			if _, ok := c.gens[m]; ok {
				cand = append(cand, m)
			}
		}
		if len(cand) == 0 {
			cand = mix
		}
	}
	m := cand[r.Intn(len(cand))]
	return c.gens[m](r, t, inst, lin)
}
func (c *Component) Gen(r *Rng, t int, inst *Instance, only []string) Op {
	return c.pick(r, t, inst, only, c.mix, false)
}
func (c *Component) GenLin(r *Rng, t int, inst *Instance, only []string) Op {
	return c.pick(r, t, inst, only, c.linMix, true)
}

var components []*Component

func componentNames() []string {
	var out []string
	for _, c := range allComponents() {
		out = append(out, c.Name)
	}
	return out
}
func componentByName(n string) *Component {
	for _, c := range allComponents() {
		if c.Name == n {
			return c
		}
	}
	return nil
}
func componentOfClass(class string) string {
	if class == "CachedPubkey" {
		return "pubkeys"
	}
	for _, c := range allComponents() {
		if c.Class == class {
			return c.Name
		}
	}
	return ""
}

// the offending methods plus the methods that write the state they touch
func targetMethods(comp string, offending []string) []string {
	c := componentByName(comp)
	set := map[string]bool{}
	for _, m := range offending {
		// internal helpers are reached through the exported methods that call them
		switch comp + "." + m {
		case "forkchoice.updateJustified":
			m = "UpdateJustified"
		case "pubkeys.unsafePubkey", "pubkeys.Pubkey":
			m = "Pubkey"
		case "pubkeys.unsafeValidatorIndex":
			m = "ValidatorIndex"
		}
		if _, ok := c.gens[m]; ok {
			set[m] = true
		}
	}
	for _, w := range map[string][]string{
		"forkchoice":     {"ProcessBlock", "ProcessAttestation", "Head"},
		"pubkeys":        {"AddValidator", "Pubkey"},
		"attestations":   {"AddAttestation"},
		"sync":           {"AddSyncCommitteeMessage", "AddSyncCommitteeContribution"},
		"exits":          {"AddVoluntaryExit"},
		"proposer_slash": {"AddProposerSlashing"},
		"attester_slash": {"AddAttesterSlashing"},
	}[comp] {
		set[w] = true
	}
	var out []string
	for m := range set {
		out = append(out, m)
	}
	sort.Strings(out)
	return out
}

func allComponents() []*Component {
	if components == nil {
		components = []*Component{forkchoiceComponent(), pubkeyComponent(), attestationComponent(), syncComponent(),
			exitComponent(), proposerSlashingComponent(), attesterSlashingComponent()}
	}
	return components
}

func rootOf(id uint64) (r common.Root) {
	binary.LittleEndian.PutUint64(r[:8], id)
	for i := 8; i < len(r); i++ {
		r[i] = byte(id*17 + uint64(i)*3 + 5)
	}
	return
}
func rootID(r common.Root) uint64 { return binary.LittleEndian.Uint64(r[:8]) }
func sigOf(id uint64) (s common.BLSSignature) {
	binary.LittleEndian.PutUint64(s[:8], id)
	s[95] = 1
	return
}
func errStr(err error) string {
	if err != nil {
		return "err"
	}
	return "ok"
}

// ------------------------------------------------------------------------------------------------------------------
// fork choice wrapper
const fcChain = 40 // the prefix builds blocks 1..fcChain, block i at slot i, a straight line on top of the anchor (id 1, slot 0 is the anchor)

func fcSlotOf(id uint64) common.Slot {
	if id >= 1000 {
		return common.Slot((id / 1000) % 100) // goroutine-made blocks carry their slot in the id
	}
	return common.Slot(id - 1)
}

func forkchoiceComponent() *Component {
	c := &Component{Name: "forkchoice", Class: "ProtoForkChoice"}
	c.Fresh = func() *Instance {
		anchor := rootOf(1)
		cp := common.Checkpoint{Epoch: 0, Root: anchor}
		bal := make([]common.Gwei, 16)
		for i := range bal {
			bal[i] = 32_000_000_000
		}
		fc, err := proto.NewProtoForkChoice(spec, cp, cp, anchor, 0, common.Root{}, bal,
			proto.NodeSinkFn(func(ctx context.Context, ref common.NodeRef, canonical bool) error { return nil }))
		if err != nil {
			panic(err)
		}
		return &Instance{fc: fc}
	}
	c.Prefix = func(inst *Instance) []Op {
		var ops []Op
		for i := uint64(2); i <= fcChain; i++ {
			i := i
			ops = append(ops, Op{"ProcessBlock", fmt.Sprintf("(%d<-%d)", i, i-1), func(in *Instance) string {
				return fmt.Sprint(in.fc.ProcessBlock(rootOf(i-1), rootOf(i), fcSlotOf(i), 0, 0))
			}})
		}
		return ops
	}
	known := func(r *Rng, t int, inst *Instance, lin bool) uint64 {
		ls := &inst.local[t]
		if !lin && len(ls.roots) > 0 && r.Chance(40) {
			return ls.roots[r.Intn(len(ls.roots))]
		}
		return 1 + uint64(r.Intn(fcChain))
	}
	ref := func(n common.NodeRef, err error) string {
		if err != nil {
			return "err"
		}
		return fmt.Sprintf("%d@%d", rootID(n.Root), n.Slot)
	}
	c.gens = map[string]func(r *Rng, t int, inst *Instance, lin bool) Op{
		"ProcessBlock": func(r *Rng, t int, inst *Instance, lin bool) Op {
			parent := known(r, t, inst, lin)
			slot := uint64(fcSlotOf(parent)) + 1 + uint64(r.Intn(2))
			ls := &inst.local[t]
			ls.next++
			id := (uint64(t)+1)*100000000 + ls.next*100000 + (slot%100)*1000 + uint64(r.Intn(7))
			if lin {
				id = 900000000 + (slot%100)*1000 + uint64(r.Intn(3)) // few ids: concurrent duplicates happen
			} else {
				ls.roots = append(ls.roots, id)
				if len(ls.roots) > 64 {
					ls.roots = ls.roots[1:]
				}
			}
			return Op{"ProcessBlock", fmt.Sprintf("(%d<-%d)", id, parent), func(in *Instance) string {
				return fmt.Sprint(in.fc.ProcessBlock(rootOf(parent), rootOf(id), common.Slot(slot), 0, 0))
			}}
		},
		"ProcessSlot": func(r *Rng, t int, inst *Instance, lin bool) Op {
			parent := known(r, t, inst, lin)
			slot := fcSlotOf(parent) + 1 + common.Slot(r.Intn(3))
			return Op{"ProcessSlot", fmt.Sprintf("(%d,%d)", parent, slot), func(in *Instance) string {
				in.fc.ProcessSlot(rootOf(parent), slot, 0, 0)
				return "done"
			}}
		},
		"ProcessAttestation": func(r *Rng, t int, inst *Instance, lin bool) Op {
			b := known(r, t, inst, lin)
			v := common.ValidatorIndex(r.Intn(16))
			slot := fcSlotOf(b) + common.Slot(r.Intn(2))
			return Op{"ProcessAttestation", fmt.Sprintf("(%d,%d,%d)", v, b, slot), func(in *Instance) string {
				return fmt.Sprint(in.fc.ProcessAttestation(v, rootOf(b), slot))
			}}
		},
		"Head": func(r *Rng, t int, inst *Instance, lin bool) Op {
			return Op{"Head", "()", func(in *Instance) string { return ref(in.fc.Head()) }}
		},
		"FindHead": func(r *Rng, t int, inst *Instance, lin bool) Op {
			return Op{"FindHead", "(1,0)", func(in *Instance) string { return ref(in.fc.FindHead(rootOf(1), 0)) }}
		},
		"GetSlot": func(r *Rng, t int, inst *Instance, lin bool) Op {
			b := known(r, t, inst, lin)
			if lin && r.Chance(50) {
				b = 900000000 + uint64(1+r.Intn(fcChain+2)%100)*1000 + uint64(r.Intn(3))
			}
			return Op{"GetSlot", fmt.Sprintf("(%d)", b), func(in *Instance) string {
				s, ok := in.fc.GetSlot(rootOf(b))
				return fmt.Sprintf("%d,%v", s, ok)
			}}
		},
		"InSubtree": func(r *Rng, t int, inst *Instance, lin bool) Op {
			a, b := known(r, t, inst, lin), known(r, t, inst, lin)
			return Op{"InSubtree", fmt.Sprintf("(%d,%d)", a, b), func(in *Instance) string {
				u, s := in.fc.InSubtree(rootOf(a), rootOf(b))
				return fmt.Sprintf("%v,%v", u, s)
			}}
		},
		"Search": func(r *Rng, t int, inst *Instance, lin bool) Op {
			slot := common.Slot(r.Intn(fcChain))
			return Op{"Search", fmt.Sprintf("(1@0,slot=%d)", slot), func(in *Instance) string {
				nc, cn, err := in.fc.Search(common.NodeRef{Root: rootOf(1), Slot: 0}, nil, &slot)
				if err != nil {
					return "err"
				}
				return fmt.Sprintf("%d,%d", len(nc), len(cn))
			}}
		},
		"CanonicalChain": func(r *Rng, t int, inst *Instance, lin bool) Op {
			return Op{"CanonicalChain", "(1,0)", func(in *Instance) string {
				ch, err := in.fc.CanonicalChain(rootOf(1), 0)
				if err != nil {
					return "err"
				}
				return fmt.Sprintf("len=%d", len(ch))
			}}
		},
		"ClosestToSlot": func(r *Rng, t int, inst *Instance, lin bool) Op {
			b := known(r, t, inst, lin)
			slot := common.Slot(r.Intn(fcChain + 2))
			return Op{"ClosestToSlot", fmt.Sprintf("(%d,%d)", b, slot), func(in *Instance) string { return ref(in.fc.ClosestToSlot(rootOf(b), slot)) }}
		},
		"CanonAtSlot": func(r *Rng, t int, inst *Instance, lin bool) Op {
			slot := common.Slot(r.Intn(fcChain + 2))
			wb := r.Bool()
			return Op{"CanonAtSlot", fmt.Sprintf("(1,%d,%v)", slot, wb), func(in *Instance) string { return ref(in.fc.CanonAtSlot(rootOf(1), slot, wb)) }}
		},
		"Justified": func(r *Rng, t int, inst *Instance, lin bool) Op {
			return Op{"Justified", "()", func(in *Instance) string {
				j := in.fc.Justified()
				return fmt.Sprintf("%d:%d", j.Epoch, rootID(j.Root))
			}}
		},
		"Finalized": func(r *Rng, t int, inst *Instance, lin bool) Op {
			return Op{"Finalized", "()", func(in *Instance) string {
				j := in.fc.Finalized()
				return fmt.Sprintf("%d:%d", j.Epoch, rootID(j.Root))
			}}
		},
		"Pin": func(r *Rng, t int, inst *Instance, lin bool) Op {
			return Op{"Pin", "()", func(in *Instance) string {
				p := in.fc.Pin()
				if p == nil {
					return "nil"
				}
				return fmt.Sprintf("%d@%d", rootID(p.Root), p.Slot)
			}}
		},
		"SetPin": func(r *Rng, t int, inst *Instance, lin bool) Op {
			b := uint64(1 + r.Intn(4))
			if r.Chance(25) {
				b = 777 // unknown root: the error path
			}
			return Op{"SetPin", fmt.Sprintf("(%d)", b), func(in *Instance) string { return errStr(in.fc.SetPin(rootOf(b), fcSlotOf(b))) }}
		},
		"UpdateJustified": func(r *Rng, t int, inst *Instance, lin bool) Op {
			// justify the block at the first slot of epoch e (finalized checkpoint unchanged: no pruning)
			e := common.Epoch(1 + r.Intn(4))
			b := uint64(e)*uint64(spec.SLOTS_PER_EPOCH) + 1
			return Op{"UpdateJustified", fmt.Sprintf("(trigger=%d,justified=%d:%d,finalized=0:1)", b, e, b), func(in *Instance) string {
				bal := make([]common.Gwei, 16)
				for i := range bal {
					bal[i] = 31_000_000_000
				}
				err := in.fc.UpdateJustified(context.Background(), rootOf(b), common.Checkpoint{Epoch: e, Root: rootOf(b)},
					common.Checkpoint{Epoch: 0, Root: rootOf(1)}, func() ([]common.Gwei, error) { return bal, nil })
				return errStr(err)
			}}
		},
	}
	c.mix = []string{"ProcessBlock", "ProcessBlock", "ProcessSlot", "ProcessAttestation", "ProcessAttestation", "Head", "FindHead", "GetSlot", "GetSlot",
		"InSubtree", "Search", "CanonicalChain", "ClosestToSlot", "CanonAtSlot", "Justified", "Finalized", "Pin", "SetPin", "UpdateJustified"}
	c.linMix = []string{"ProcessBlock", "ProcessBlock", "GetSlot", "GetSlot", "Justified", "Finalized", "Pin", "SetPin", "ProcessAttestation", "InSubtree", "UpdateJustified", "Head"}
	return c
}

// ------------------------------------------------------------------------------------------------------------------
// pubkey cache (and the CachedPubkey entries it hands out)
const nKeys = 160

var keyTable []common.BLSPubkey
var sigTable []*blsu.Signature // signatures of verifyMsg by the first nSigs keys
var keyOnce sync.Once
var verifyMsg = []byte("C17 harness message, 32 bytes...")

const nSigs = 8

func keys() []common.BLSPubkey {
	keyOnce.Do(func() {
		keyTable = make([]common.BLSPubkey, nKeys)
		for i := range keyTable {
			var b [32]byte
			binary.BigEndian.PutUint32(b[28:], uint32(i+1))
			var sk blsu.SecretKey
			if err := sk.Deserialize(&b); err != nil {
				panic(err)
			}
			pk, err := blsu.SkToPk(&sk)
			if err != nil {
				panic(err)
			}
			keyTable[i] = pk.Serialize()
			if i < nSigs {
				sigTable = append(sigTable, blsu.Sign(&sk, verifyMsg))
			}
		}
	})
	return keyTable
}

const pcBase = 6 // the prefix registers keys 0..pcBase-1

func pubkeyComponent() *Component {
	c := &Component{Name: "pubkeys", Class: "PubkeyCache"}
	keyNo := func(p common.BLSPubkey) int {
		for i, k := range keys() {
			if k == p {
				return i
			}
		}
		return -1
	}
	c.Fresh = func() *Instance { return &Instance{pc: common.EmptyPubkeyCache()} }
	add := func(i uint64, k int) Op {
		return Op{"AddValidator", fmt.Sprintf("(%d,key%d)", i, k), func(in *Instance) string {
			out, err := in.pc.AddValidator(common.ValidatorIndex(i), keys()[k])
			if err != nil {
				return "err"
			}
			if out == in.pc {
				return "same"
			}
			return "fork"
		}}
	}
	c.Prefix = func(inst *Instance) []Op {
		var ops []Op
		for i := 0; i < pcBase; i++ {
			ops = append(ops, add(uint64(i), i))
		}
		return ops
	}
	c.gens = map[string]func(r *Rng, t int, inst *Instance, lin bool) Op{
		"AddValidator": func(r *Rng, t int, inst *Instance, lin bool) Op {
			if lin {
				// next free index with one of two keys, or an existing pair: concurrent duplicates and conflicts happen
				i := uint64(pcBase)
				if x := r.Intn(10); x == 0 {
					i = pcBase - 1
				} else if x <= 2 {
					i = pcBase + 1
				}
				k := int(i)
				if r.Chance(25) {
					k = int(i) + 50
				}
				return add(i, k)
			}
			// goroutine 0 appends in order (the slice grows and is reallocated); the others re-add existing pairs
			ls := &inst.local[t]
			if t == 0 {
				i := uint64(pcBase) + ls.next
				if int(i) < nKeys {
					ls.next++
					return add(i, int(i))
				}
			}
			i := uint64(r.Intn(pcBase))
			return add(i, int(i))
		},
		"Pubkey": func(r *Rng, t int, inst *Instance, lin bool) Op {
			i := uint64(r.Intn(pcBase + 3))
			if !lin {
				i = uint64(r.Intn(nKeys))
			}
			return Op{"Pubkey", fmt.Sprintf("(%d)", i), func(in *Instance) string {
				cp, ok := in.pc.Pubkey(common.ValidatorIndex(i))
				if !ok {
					return "none"
				}
				// use the lazily decompressed key, as signature verification does
				pk, err := cp.Pubkey()
				if err != nil || pk == nil {
					return "decompress-failed"
				}
				if pk.Serialize() != [48]byte(cp.Compressed) {
					return "decompressed-key-differs"
				}
				k := keyNo(cp.Compressed)
				if k >= 0 && k < nSigs && i%4 == 0 {
					sig := *sigTable[k] // the pairing library normalises its arguments in place: never share a signature object
					if !blsu.Verify(pk, verifyMsg, &sig) {
						return "signature-check-failed"
					}
				}
				return fmt.Sprintf("key%d", k)
			}}
		},
		"ValidatorIndex": func(r *Rng, t int, inst *Instance, lin bool) Op {
			k := r.Intn(pcBase + 3)
			if !lin {
				k = r.Intn(nKeys)
			}
			return Op{"ValidatorIndex", fmt.Sprintf("(key%d)", k), func(in *Instance) string {
				i, ok := in.pc.ValidatorIndex(keys()[k])
				if !ok {
					return "none"
				}
				return fmt.Sprint(i)
			}}
		},
	}
	c.mix = []string{"AddValidator", "Pubkey", "Pubkey", "Pubkey", "ValidatorIndex"}
	c.linMix = []string{"AddValidator", "AddValidator", "Pubkey", "ValidatorIndex"}
	return c
}

// ------------------------------------------------------------------------------------------------------------------
// operation pools
func attData(id uint64) phase0.AttestationData {
	epoch := common.Epoch(id % 6)
	return phase0.AttestationData{Slot: common.Slot(uint64(epoch)*uint64(spec.SLOTS_PER_EPOCH) + id%3), Index: common.CommitteeIndex(id % 2),
		BeaconBlockRoot: rootOf(id), Source: common.Checkpoint{Epoch: 0, Root: rootOf(1)}, Target: common.Checkpoint{Epoch: epoch, Root: rootOf(id + 7)}}
}

func bitlist(n int, set []int) phase0.AttestationBits {
	b := make(phase0.AttestationBits, n/8+1)
	for _, i := range set {
		b[i/8] |= 1 << (uint(i) % 8)
	}
	b[n/8] |= 1 << (uint(n) % 8) // delimiter
	return b
}

func attestationComponent() *Component {
	c := &Component{Name: "attestations", Class: "AttestationPool"}
	c.Fresh = func() *Instance { return &Instance{att: pool.NewAttestationPool(spec)} }
	c.Prefix = func(inst *Instance) []Op { return nil }
	committee := func(d uint64) common.CommitteeIndices {
		out := make(common.CommitteeIndices, 8)
		for i := range out {
			out[i] = common.ValidatorIndex((d%4)*8 + uint64(i))
		}
		return out
	}
	c.gens = map[string]func(r *Rng, t int, inst *Instance, lin bool) Op{
		"AddAttestation": func(r *Rng, t int, inst *Instance, lin bool) Op {
			d := uint64(1 + r.Intn(24))
			if lin {
				d = uint64(1 + r.Intn(3))
			}
			var set []int
			if r.Chance(60) {
				set = []int{r.Intn(8)}
			} else {
				for i := 0; i < 8; i++ {
					if r.Chance(45) {
						set = append(set, i)
					}
				}
			}
			return Op{"AddAttestation", fmt.Sprintf("(data%d,bits%v)", d, set), func(in *Instance) string {
				att := &phase0.Attestation{AggregationBits: bitlist(8, set), Data: attData(d), Signature: sigOf(d*1000 + uint64(len(set)))}
				return errStr(in.att.AddAttestation(context.Background(), att, committee(d)))
			}}
		},
		"Search": func(r *Rng, t int, inst *Instance, lin bool) Op {
			slot := attData(uint64(1 + r.Intn(24))).Slot
			all := r.Chance(50)
			return Op{"Search", fmt.Sprintf("(all=%v,slot=%d)", all, slot), func(in *Instance) string {
				var out []*phase0.Attestation
				if all {
					out = in.att.Search()
				} else {
					out = in.att.Search(pool.WithSlot(slot))
				}
				var ids []string
				for _, a := range out {
					ids = append(ids, fmt.Sprintf("%d/%x", rootID(a.Data.BeaconBlockRoot), []byte(a.AggregationBits)))
				}
				sort.Strings(ids)
				return strings.Join(ids, " ")
			}}
		},
		"Prune": func(r *Rng, t int, inst *Instance, lin bool) Op {
			e := common.Epoch(r.Intn(7))
			return Op{"Prune", fmt.Sprintf("(%d)", e), func(in *Instance) string { in.att.Prune(e); return "done" }}
		},
	}
	c.mix = []string{"AddAttestation", "AddAttestation", "AddAttestation", "Search", "Search", "Prune"}
	c.linMix = c.mix
	return c
}

func syncComponent() *Component {
	c := &Component{Name: "sync", Class: "SyncCommitteePool"}
	c.Fresh = func() *Instance { return &Instance{sync: pool.NewSyncCommitteePool(spec)} }
	reset := func(slot common.Slot) Op {
		return Op{"Reset", fmt.Sprintf("(%d)", slot), func(in *Instance) string { in.sync.Reset(slot); return "done" }}
	}
	c.Prefix = func(inst *Instance) []Op { return []Op{reset(100)} } // far from the initial slot: every buffer is (re)made
	c.gens = map[string]func(r *Rng, t int, inst *Instance, lin bool) Op{
		"Reset": func(r *Rng, t int, inst *Instance, lin bool) Op { return reset(common.Slot(99 + r.Intn(3))) },
		"AddSyncCommitteeMessage": func(r *Rng, t int, inst *Instance, lin bool) Op {
			slot := common.Slot(98 + r.Intn(5))
			v := common.ValidatorIndex(r.Intn(32))
			return Op{"AddSyncCommitteeMessage", fmt.Sprintf("(slot=%d,val=%d)", slot, v), func(in *Instance) string {
				return errStr(in.sync.AddSyncCommitteeMessage(context.Background(),
					&altair.SyncCommitteeMessage{Slot: slot, BeaconBlockRoot: rootOf(uint64(slot)), ValidatorIndex: v, Signature: sigOf(uint64(v))}))
			}}
		},
		"AddSyncCommitteeContribution": func(r *Rng, t int, inst *Instance, lin bool) Op {
			slot := common.Slot(98 + r.Intn(5))
			sub := uint64(r.Intn(4))
			return Op{"AddSyncCommitteeContribution", fmt.Sprintf("(slot=%d,sub=%d)", slot, sub), func(in *Instance) string {
				return errStr(in.sync.AddSyncCommitteeContribution(context.Background(), &altair.SyncCommitteeContribution{Slot: slot,
					BeaconBlockRoot: rootOf(uint64(slot)), SubcommitteeIndex: view.Uint64View(sub), AggregationBits: altair.SyncCommitteeSubnetBits{1}, Signature: sigOf(sub)}))
			}}
		},
		"PackAggregate": func(r *Rng, t int, inst *Instance, lin bool) Op {
			return Op{"PackAggregate", "()", func(in *Instance) string {
				_, err := in.sync.PackAggregate(context.Background(), 100, rootOf(100), nil)
				return errStr(err)
			}}
		},
		"PackContribution": func(r *Rng, t int, inst *Instance, lin bool) Op {
			return Op{"PackContribution", "()", func(in *Instance) string {
				_, err := in.sync.PackContribution(context.Background(), 100, rootOf(100), 0, nil)
				return errStr(err)
			}}
		},
	}
	c.mix = []string{"Reset", "AddSyncCommitteeMessage", "AddSyncCommitteeMessage", "AddSyncCommitteeContribution", "AddSyncCommitteeContribution", "PackAggregate", "PackContribution"}
	c.linMix = []string{"Reset", "AddSyncCommitteeMessage", "AddSyncCommitteeMessage", "AddSyncCommitteeContribution"}
	return c
}

func exitComponent() *Component {
	c := &Component{Name: "exits", Class: "VoluntaryExitPool"}
	c.Fresh = func() *Instance { return &Instance{exits: pool.NewVoluntaryExitPool(spec)} }
	c.Prefix = func(inst *Instance) []Op { return nil }
	c.gens = map[string]func(r *Rng, t int, inst *Instance, lin bool) Op{
		"AddVoluntaryExit": func(r *Rng, t int, inst *Instance, lin bool) Op {
			v := common.ValidatorIndex(r.Intn(400))
			if lin {
				v = common.ValidatorIndex(r.Intn(3))
			}
			return Op{"AddVoluntaryExit", fmt.Sprintf("(%d)", v), func(in *Instance) string {
				return errStr(in.exits.AddVoluntaryExit(context.Background(), &phase0.SignedVoluntaryExit{Message: phase0.VoluntaryExit{Epoch: 1, ValidatorIndex: v}}))
			}}
		},
		"All": func(r *Rng, t int, inst *Instance, lin bool) Op {
			return Op{"All", "()", func(in *Instance) string {
				var ids []int
				for _, x := range in.exits.All() {
					ids = append(ids, int(x.Message.ValidatorIndex))
				}
				sort.Ints(ids)
				if len(ids) > 8 {
					return fmt.Sprintf("n=%d", len(ids))
				}
				return fmt.Sprint(ids)
			}}
		},
	}
	c.mix = []string{"AddVoluntaryExit", "AddVoluntaryExit", "All"}
	c.linMix = c.mix
	return c
}

func proposerSlashingComponent() *Component {
	c := &Component{Name: "proposer_slash", Class: "ProposerSlashingPool"}
	c.Fresh = func() *Instance { return &Instance{psl: pool.NewProposerSlashingPool(spec)} }
	c.Prefix = func(inst *Instance) []Op { return nil }
	c.gens = map[string]func(r *Rng, t int, inst *Instance, lin bool) Op{
		"AddProposerSlashing": func(r *Rng, t int, inst *Instance, lin bool) Op {
			v := common.ValidatorIndex(r.Intn(400))
			if lin {
				v = common.ValidatorIndex(r.Intn(3))
			}
			return Op{"AddProposerSlashing", fmt.Sprintf("(%d)", v), func(in *Instance) string {
				sl := &phase0.ProposerSlashing{}
				sl.SignedHeader1.Message.ProposerIndex = v
				sl.SignedHeader2.Message.ProposerIndex = v
				sl.SignedHeader2.Message.Slot = 1
				return errStr(in.psl.AddProposerSlashing(context.Background(), sl))
			}}
		},
		"All": func(r *Rng, t int, inst *Instance, lin bool) Op {
			return Op{"All", "()", func(in *Instance) string {
				var ids []int
				for _, x := range in.psl.All() {
					ids = append(ids, int(x.SignedHeader1.Message.ProposerIndex))
				}
				sort.Ints(ids)
				if len(ids) > 8 {
					return fmt.Sprintf("n=%d", len(ids))
				}
				return fmt.Sprint(ids)
			}}
		},
	}
	c.mix = []string{"AddProposerSlashing", "AddProposerSlashing", "All"}
	c.linMix = c.mix
	return c
}

func attesterSlashingComponent() *Component {
	c := &Component{Name: "attester_slash", Class: "AttesterSlashingPool"}
	c.Fresh = func() *Instance { return &Instance{asl: pool.NewAttesterSlashingPool(spec)} }
	c.Prefix = func(inst *Instance) []Op { return nil }
	c.gens = map[string]func(r *Rng, t int, inst *Instance, lin bool) Op{
		"AddAttesterSlashing": func(r *Rng, t int, inst *Instance, lin bool) Op {
			d := uint64(r.Intn(400))
			if lin {
				d = uint64(r.Intn(3))
			}
			return Op{"AddAttesterSlashing", fmt.Sprintf("(%d)", d), func(in *Instance) string {
				sl := &phase0.AttesterSlashing{}
				sl.Attestation1.Data = attData(d)
				sl.Attestation1.AttestingIndices = common.CommitteeIndices{common.ValidatorIndex(d)}
				sl.Attestation2.Data = attData(d + 1000)
				sl.Attestation2.AttestingIndices = common.CommitteeIndices{common.ValidatorIndex(d)}
				return errStr(in.asl.AddAttesterSlashing(context.Background(), sl))
			}}
		},
		"All": func(r *Rng, t int, inst *Instance, lin bool) Op {
			return Op{"All", "()", func(in *Instance) string {
				var ids []int
				for _, x := range in.asl.All() {
					ids = append(ids, int(x.Attestation1.AttestingIndices[0]))
				}
				sort.Ints(ids)
				if len(ids) > 8 {
					return fmt.Sprintf("n=%d", len(ids))
				}
				return fmt.Sprint(ids)
			}}
		},
	}
	c.mix = []string{"AddAttesterSlashing", "AddAttesterSlashing", "All"}
	c.linMix = c.mix
	return c
}
