// C15 harness: typed state accessors and copy independence.
// Programs of typed accessor calls (every Set<Field> setter, the typed sub-views: balances, block/state roots,
// randao mixes, slashings, eth1 votes, historical roots, single validators, deposit index, SeedRandao) and
// CopyState over tree-backed BeaconState views of all six forks.  After every step, for EVERY live view: each typed
// getter must return the stored value, Serialize() the stored content (Go side), and the state root and all field
// roots must be those of the tree model of Ssz/TreeView.v run on the same program (Coq side): the written field has
// the written value, no other field and no other copy changed.  Plus: a real ProcessSlots on a sibling copy.
package main

import (
	"bytes"
	"context"
	"encoding/binary"
	"fmt"

	. "verifharness/hx"
	"verifharness/sszgen"

	blsu "github.com/protolambda/bls12-381-util"
	"github.com/protolambda/zrnt/eth2/beacon"
	"github.com/protolambda/zrnt/eth2/beacon/common"
	"github.com/protolambda/zrnt/eth2/beacon/phase0"
	"github.com/protolambda/zrnt/eth2/configs"
	"github.com/protolambda/ztyp/codec"
	"github.com/protolambda/ztyp/tree"
)

func main() { Main("C15", run) }

func run(e *Env) error {
	s, err := sszgen.NewSetup(e, "mismatches_c15")
	if err != nil {
		return err
	}
	e.Header = replaceImports(e.Header)
	e.CaseType = "c15case"
	e.ShardSize = 4
	e.ShardBytes = 60000
	e.Rule = "accessor programs: for each of the six BeaconState view types x {custom_tiny, custom_small}: a random in-limit state (spec-driven), then random typed accessor calls on it and on up to two CopyState copies: every Set<Field> setter with a random in-limit value, Balances().SetBalance/AppendBalance, Block/StateRoots().SetRoot, RandaoMixes().SetRandomMix, Slashings().Reset/AddSlashing, Eth1DataVotes().Append/Reset, HistoricalRoots().Append, Validators().Validator(i).Set*, IncrementDepositIndex, SeedRandao, CopyState; after every step every live view is observed (all getters, bytes, state root, all field roots). sibling transition: a 64-validator genesis state (deterministic keys), CopyState + EpochsContext.Clone, ProcessSlots across an epoch boundary on the copy: the original's bytes and root must be untouched, then the original is mutated and the advanced copy must be untouched. non-trivial = at least one write; distinct by program"
	for fork := range sszgen.ForkStates {
		for _, pi := range []int{3, 2, 1} {
			for k := 0; k < e.N(2, 8); k++ {
				if pi == 1 && k != 1 {
					continue // minimal preset (registry limit 2^40): only the AddValidator burst program
				}
				p, err := sszgen.NewStateProg(s, pi, fork, e.Rng.Fork(), e.N(150, 400))
				if err != nil {
					return err
				}
				p.EmptyBalancesFirst = k == 0
				p.SetterSweep = k == 0 && pi == 3
				if k == 1 {
					p.ForceAdd = 16
				}
				if p.ForceAdd > 0 {
					p.Run(18)
				} else {
					p.Run(e.N(10, 30))
				}
				okAll := true
				for _, st := range p.Steps {
					okAll = okAll && st.GoOK
				}
				kind := "program/" + sszgen.ForkStates[fork].Type
				if !okAll {
					kind = "program_go_discrepancy/" + sszgen.ForkStates[fork].Type
				}
				e.Add(Case{Coq: p.CoqCase(pi), Kind: kind, NonTrivial: len(p.Steps) > 0, Key: fmt.Sprintf("%s|%d|%d|%x", kind, pi, k, p.Init[:8]), JSON: p.JSON()})
				mergeCounts(e, "x_getters_compared", p.Getters)
				mergeCounts(e, "x_setters_called", p.Setters)
			}
		}
	}
	// typed sub-views on their own: every getter named after a field returns that field
	for tn := range sszgen.SubViewWrappers {
		names = append(names, tn)
	}
	sortStrings(names)
	for _, tn := range names {
		for i := range sszgen.Registry {
			ent := &sszgen.Registry[i]
			if ent.Name != tn || ent.View == nil {
				continue
			}
			for k := 0; k < e.N(3, 10); k++ {
				en, err := sszgen.NewEngine(s, 3, ent, e.Rng.Fork(), 200)
				if err != nil {
					return err
				}
				l := en.Lives[0]
				notes, n := sszgen.CheckWrapperGetters(en.P.Spec, tn, l.Root, l.Shadow)
				e.Add(Case{Coq: fmt.Sprintf("CGo \"%s sub-view getters\" %s", tn, CoqBool(len(notes) == 0)), Kind: "subview_getters", NonTrivial: n > 0,
					Key: fmt.Sprintf("sub|%s|%d", tn, k),
					JSON: map[string]interface{}{"type": tn, "value": fmt.Sprintf("%x", l.Shadow.Bytes()), "getters_compared": n, "discrepancies": notes}})
			}
		}
	}
	return siblingTransition(e, s)
}

var names []string

func sortStrings(a []string) {
	for i := 1; i < len(a); i++ {
		for j := i; j > 0 && a[j] < a[j-1]; j-- {
			a[j], a[j-1] = a[j-1], a[j]
		}
	}
}

func replaceImports(h string) string {
	return bytesReplace(h, "From V Require Import Ssz.SszCore Ssz.SpecSchemas Ssz.SszRun.", "From V Require Import Ssz.SszCore Ssz.SpecSchemas Ssz.SszRun Ssz.TreeView Ssz.TreeRun.")
}
func bytesReplace(s, a, b string) string { return string(bytes.Replace([]byte(s), []byte(a), []byte(b), 1)) }

func mergeCounts(e *Env, key string, m map[string]int) {
	cur, _ := e.Extra[key].(map[string]int)
	if cur == nil {
		cur = map[string]int{}
	}
	for k, v := range m {
		cur[k] += v
	}
	e.Extra[key] = cur
}

func stateBytes(st common.BeaconState) []byte {
	var buf bytes.Buffer
	st.Serialize(codec.NewEncodingWriter(&buf))
	return buf.Bytes()
}

// a valid small state advanced by the real transition on a sibling copy
func siblingTransition(e *Env, s *sszgen.Setup) error {
	spec := *configs.Minimal
	const n = 64
	vals := make([]phase0.KickstartValidatorData, n)
	for i := range vals {
		var sk [32]byte
		binary.BigEndian.PutUint64(sk[24:], uint64(i+1))
		var key blsu.SecretKey
		if err := key.Deserialize(&sk); err != nil {
			return err
		}
		pub, err := blsu.SkToPk(&key)
		if err != nil {
			return err
		}
		vals[i] = phase0.KickstartValidatorData{Pubkey: common.BLSPubkey(pub.Serialize()), Balance: spec.MAX_EFFECTIVE_BALANCE}
		vals[i].WithdrawalCredentials[0] = 0
		vals[i].WithdrawalCredentials[31] = byte(i)
	}
	state, epc, err := phase0.KickStartState(&spec, common.Root{1}, 1600000000, vals)
	if err != nil {
		return fmt.Errorf("kickstart: %v", err)
	}
	h := tree.GetHashFn()
	before := stateBytes(state)
	rootBefore := state.HashTreeRoot(h)
	cp, err := state.CopyState()
	if err != nil {
		return err
	}
	epc2 := epc.Clone()
	target := common.Slot(spec.SLOTS_PER_EPOCH)*2 + 3
	if err := common.ProcessSlots(context.Background(), &spec, epc2, &beacon.StandardUpgradeableBeaconState{BeaconState: cp}, target); err != nil {
		return fmt.Errorf("ProcessSlots on the copy: %v", err)
	}
	okOrig := bytes.Equal(stateBytes(state), before) && state.HashTreeRoot(h) == rootBefore
	slotOrig, _ := state.Slot()
	slotCopy, _ := cp.Slot()
	// and the other direction: mutate the original, the advanced copy must not move
	copyBytes := stateBytes(cp)
	copyRoot := cp.HashTreeRoot(h)
	bals, err := state.Balances()
	if err != nil {
		return err
	}
	for i := 0; i < n; i += 7 {
		if err := bals.SetBalance(common.ValidatorIndex(i), common.Gwei(e.Rng.U64())); err != nil {
			return err
		}
	}
	if err := state.SetSlot(12345); err != nil {
		return err
	}
	okCopy := bytes.Equal(stateBytes(cp), copyBytes) && cp.HashTreeRoot(h) == copyRoot
	// the epochs-context clone: the original context still describes the original epoch
	okEpc := epc.CurrentEpoch.Epoch == 0 && epc2.CurrentEpoch.Epoch == spec.SlotToEpoch(target)
	ok := okOrig && okCopy && okEpc && slotOrig == 0 && slotCopy == target
	coq := fmt.Sprintf("CGo \"sibling transition: original untouched by ProcessSlots on its copy and vice versa\" %s", CoqBool(ok))
	e.Add(Case{Coq: coq, Kind: "sibling_transition", NonTrivial: true, Key: "sibling",
		JSON: map[string]interface{}{"what": "64-validator minimal genesis; CopyState + epc.Clone; ProcessSlots(copy, 2 epochs + 3 slots); then writes on the original",
			"original_untouched_by_transition_on_copy": okOrig, "copy_untouched_by_writes_on_original": okCopy, "epochs_context_clone_independent": okEpc,
			"slot_original": uint64(slotOrig), "slot_copy": uint64(slotCopy), "state_bytes": len(before)}})
	return nil
}

