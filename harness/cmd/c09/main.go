package main

import (
	"verifharness/fc"
	. "verifharness/hx"
)

func main() { Main("C09", func(e *Env) error { return fc.Run(e, "C09") }) }
